/-
  Model/Channels — FairMQ channel wiring at CONFIGURE (C13).

  Mirrors  core/task/channel/{channel,inbound,outbound,endpoint}.go
             (Inbound/Outbound, MergeInbound/MergeOutbound, ToFMQMap, Endpoint, EndpointEquals),
           core/workflow/rolebase.go (CollectInboundChannels / CollectOutboundChannels),
           core/task/taskclass/class.go (UnmarshalYAML drops template-level outbound targets),
           core/task/match.go (wants.InboundChannels = MergeInbound(role, class)),
           core/task/scheduler.go makeTaskForMesosResources (the loop that fills Task.localBindMap),
           core/task/manager.go configureTasks (environment bind map, global-alias de-duplication),
           core/task/task.go BuildPropertyMap (channel part AND the whole property map: common
             properties, the template's `properties:` block, then the generated channel keys),
           tasks.go BuildPropertyMaps.

  Everything is a total function over lists and strings; Go maps are association
  lists with first-match lookup and overwrite-in-place (`Assoc.get` / `Assoc.set`).
  Core Lean only.
-/
import ControlModel.Basic

namespace Channels

/-! ## channel declarations -/

inductive Transport where
  | default | zeromq | nanomsg | shmem
  deriving DecidableEq, Repr, Inhabited

inductive Addressing where
  | tcp | ipc
  deriving DecidableEq, Repr, Inhabited

def Transport.name : Transport → String
  | .default => "default" | .zeromq => "zeromq" | .nanomsg => "nanomsg" | .shmem => "shmem"

/-- `TransportType.UnmarshalText`: absent/empty means `default`. -/
def Transport.parse? : String → Option Transport
  | "" => some .default | "default" => some .default | "zeromq" => some .zeromq
  | "nanomsg" => some .nanomsg | "shmem" => some .shmem | _ => none

/-- `AddressFormat.UnmarshalText`: absent/empty means `tcp`. -/
def Addressing.parse? : String → Option Addressing
  | "" => some .tcp | "tcp" => some .tcp | "ipc" => some .ipc | _ => none

/-- The fields of `channel.Channel` that play no part in addressing but are copied into the
    channel's FairMQ keys: `type`, `sndBufSize`, `rcvBufSize`, `rateLogging` (defaults of
    `Channel.UnmarshalYAML`: 1000 / 1000 / "0"). -/
structure Misc where
  type : String := "push"
  snd : Nat := 1000
  rcv : Nat := 1000
  rate : String := "0"
  deriving DecidableEq, Repr, Inhabited

/-- `channel.Inbound`. -/
structure Inbound where
  name : String
  transport : Transport
  addressing : Addressing
  target : String
  global : String
  misc : Misc := {}
  deriving DecidableEq, Repr, Inhabited

/-- `channel.Outbound`. -/
structure Outbound where
  name : String
  transport : Transport
  target : String
  misc : Misc := {}
  deriving DecidableEq, Repr, Inhabited

/-! ## keys of the CONFIGURE property map

  The property map an executor receives is a `map[string]string`. Its keys are kept structured
  here — `chans.<name>.0.<field>`, `chans.<name>.numSockets`, anything else — so that "the key of
  another channel / another field" is a constructor fact and not a fact about string
  concatenation; `Key.render` gives the text (the Driver parses the text back, `Key.parse`). -/

/-- The per-socket keys `Inbound/Outbound.buildFMQMap` write. -/
inductive Field where
  | address | method | autoBind | rateLogging | rcvBufSize | rcvKernelSize
  | sndBufSize | sndKernelSize | transport | type
  deriving DecidableEq, Repr, Inhabited

def Field.name : Field → String
  | .address => "address" | .method => "method" | .autoBind => "autoBind" | .rateLogging => "rateLogging"
  | .rcvBufSize => "rcvBufSize" | .rcvKernelSize => "rcvKernelSize" | .sndBufSize => "sndBufSize"
  | .sndKernelSize => "sndKernelSize" | .transport => "transport" | .type => "type"

def Field.all : List Field :=
  [.address, .method, .autoBind, .rateLogging, .rcvBufSize, .rcvKernelSize, .sndBufSize, .sndKernelSize,
   .transport, .type]

inductive Key where
  | chan (name : String) (f : Field)   -- `chans.<name>.0.<field>`
  | sockets (name : String)            -- `chans.<name>.numSockets`
  | other (k : String)                 -- every other key, verbatim
  deriving DecidableEq, Repr, Inhabited

def Key.render : Key → String
  | .chan n f => "chans." ++ n ++ ".0." ++ f.name
  | .sockets n => "chans." ++ n ++ ".numSockets"
  | .other k => k

/-- `controlcommands.PropertyMap`. -/
abbrev PMap := List (Key × String)

/-- `MergeInbound` / `MergeOutbound` as written: start from the high-priority
    list, append every low-priority entry whose name is not yet present in the
    result (the `mergo.Merge` call works on a loop copy and has no effect, so a
    high-priority entry wins whole). -/
def mergeBy {α} (name : α → String) (hp lp : List α) : List α :=
  lp.foldl (fun acc v => if acc.any (fun c => name c == name v) then acc else acc ++ [v]) hp

def mergeIn : List Inbound → List Inbound → List Inbound := mergeBy Inbound.name
def mergeOut : List Outbound → List Outbound → List Outbound := mergeBy Outbound.name

/-! ## role tree and task templates -/

/-- Sibling list of roles in first-child / next-sibling form. -/
inductive Forest where
  | nil : Forest
  | agg (name : String) (bind : List Inbound) (connect : List Outbound) (kids next : Forest) : Forest
  | task (name cls : String) (host : Nat) (bind : List Inbound) (connect : List Outbound) (next : Forest) : Forest
  deriving Repr, Inhabited

/-- A task class (template) as far as channels are concerned. -/
structure Class where
  bind : List Inbound
  connect : List Outbound
  /-- the template's `properties:` block (`Class.Properties`), keys distinct (a YAML mapping) -/
  props : PMap := []
  deriving Repr, Inhabited

/-- `Class.UnmarshalYAML`: "task template outbound channel definition has a
    target (will be ignored)". -/
def Class.connectLoaded (c : Class) : List Outbound :=
  c.connect.map fun o => { o with target := "" }

/-- `roleBase.GetPath`. -/
def joinPath (parent name : String) : String :=
  if parent.isEmpty then name else parent ++ "." ++ name

/-- What a task role hands to the task manager: its path, class, placement and
    `CollectInboundChannels()` / `CollectOutboundChannels()`. -/
structure TaskDecl where
  path : String
  cls : String
  hostIdx : Nat
  roleBind : List Inbound
  roleConnect : List Outbound
  deriving Repr, Inhabited

/-- Walk the tree top-down. `inhB`/`inhC` are the parent's collected channels;
    `Collect*Channels` of a role is `Merge(own, parent's)`: the nearer
    declaration wins. The environment's ParentAdapter above the root
    contributes nothing. -/
def flatten (pfx : String) (inhB : List Inbound) (inhC : List Outbound) : Forest → List TaskDecl
  | .nil => []
  | .agg n b c kids next =>
      flatten (joinPath pfx n) (mergeIn b inhB) (mergeOut c inhC) kids ++ flatten pfx inhB inhC next
  | .task n cls h b c next =>
      { path := joinPath pfx n, cls := cls, hostIdx := h,
        roleBind := mergeIn b inhB, roleConnect := mergeOut c inhC } :: flatten pfx inhB inhC next

/-! ## endpoints -/

inductive Endpoint where
  | tcp (host : String) (port : Nat) (tr : Transport)
  | ipc (path : String) (tr : Transport)
  deriving DecidableEq, Repr, Inhabited

namespace Endpoint

def transport : Endpoint → Transport
  | .tcp _ _ tr => tr
  | .ipc _ tr => tr

/-- `GetAddress`. -/
def address : Endpoint → String
  | .tcp h p _ => if h.isEmpty || h == "*" then "tcp://*:" ++ toString p else "tcp://" ++ h ++ ":" ++ toString p
  | .ipc path _ => "ipc://" ++ path

/-- `ToTargetEndpoint(taskHostname)`. -/
def toTarget (host : String) : Endpoint → Endpoint
  | .tcp _ p tr => .tcp host p tr
  | .ipc path tr => .ipc path tr

/-- `ToBoundEndpoint()`. -/
def toBound : Endpoint → Endpoint
  | .tcp _ p tr => .tcp "*" p tr
  | .ipc path tr => .ipc path tr

end Endpoint

abbrev BindMap := List (String × Endpoint)

/-! ## launch: the local bind map (scheduler.go, makeTaskForMesosResources) -/

/-- Key of a global alias in a bind map. -/
def aliasKey (g : String) : String := "::" ++ g

/-- `strings.HasPrefix(s, p)` (on character lists, so that it evaluates in the kernel). -/
def hasPrefix (s p : String) : Bool := p.toList.isPrefixOf s.toList

/-- `strings.HasPrefix(inbChName, "::")`. -/
def isAlias (k : String) : Bool := hasPrefix k "::"

/-- The loop over `wants.InboundChannels`, given the endpoint freshly allocated
    for each channel (one per channel, in order): `bindMap[ch.Name] = endpoint`,
    then `bindMap["::"+ch.Global] = bindMap[ch.Name]` for a non-empty alias. -/
def allocLocal : BindMap → List Inbound → List Endpoint → BindMap
  | bm, c :: cs, e :: es =>
      let bm1 := Assoc.set bm c.name e
      let bm2 := if c.global.isEmpty then bm1 else Assoc.set bm1 (aliasKey c.global) e
      allocLocal bm2 cs es
  | bm, _, _ => bm

/-- What makeTaskForMesosResources allocates for a channel: an IPC endpoint with
    a fresh path for `addressing: ipc`, otherwise a bound TCP endpoint (host `*`);
    the channel's own transport either way. The channel's `target` is not looked at. -/
def freshFor (c : Inbound) (e : Endpoint) : Bool :=
  match c.addressing, e with
  | .ipc, .ipc _ tr => tr == c.transport
  | .tcp, .tcp h _ tr => h == "*" && tr == c.transport
  | _, _ => false

/-! ## a launched task -/

structure Task where
  path : String
  host : String
  /-- `MergeInbound(parent.CollectInboundChannels(), class.Bind)` -/
  inbound : List Inbound
  /-- `MergeOutbound(parent.CollectOutboundChannels(), class.Connect)` -/
  outbound : List Outbound
  /-- `Task.localBindMap` -/
  loc : BindMap
  /-- `Task.GetProperties()`: the task template's `properties:` block (`newTaskForMesosOffer` wraps
      an empty map around `Class.Properties`; roles cannot declare properties) -/
  props : PMap := []
  deriving Repr, Inhabited

/-! ## CONFIGURE: the environment bind map (manager.go, configureTasks) -/

inductive Err where
  | aliasConflict | unmatched
  deriving DecidableEq, Repr, Inhabited

deriving instance DecidableEq for Except

def Err.name : Err → String
  | .aliasConflict => "alias_conflict" | .unmatched => "unmatched"

/-- `taskPath + TARGET_SEPARATOR + inbChName`. -/
def chanKey (path name : String) : String := path ++ ":" ++ name

/-- One entry of one task's local bind map as configureTasks sees it. -/
structure Claim where
  key : String      -- key in the environment bind map
  alias : Bool
  raw : Endpoint    -- the local (bound) endpoint
  host : String     -- the claiming task's hostname
  deriving Repr, Inhabited

def Claim.target (c : Claim) : Endpoint := c.raw.toTarget c.host

def claimOf (path host : String) (kv : String × Endpoint) : Claim :=
  if isAlias kv.1 then { key := kv.1, alias := true, raw := kv.2, host := host }
  else { key := chanKey path kv.1, alias := false, raw := kv.2, host := host }

def taskClaims (t : Task) : List Claim := t.loc.map (claimOf t.path t.host)

def claims : List Task → List Claim
  | [] => []
  | t :: ts => taskClaims t ++ claims ts

/-- One iteration of the inner loop of configureTasks. For a global alias that
    is already present the code compares the STORED endpoint (already in target
    form, host substituted) with the new task's LOCAL endpoint
    (`EndpointEquals(existingEndpoint, endpoint)`): equal → keep the first,
    different → "illegal redefinition of global channel alias". -/
def step (bm : BindMap) (c : Claim) : Except Err BindMap :=
  if c.alias then
    match Assoc.get bm c.key with
    | some ex => if ex = c.raw then .ok bm else .error .aliasConflict
    | none => .ok (Assoc.set bm c.key c.target)
  else .ok (Assoc.set bm c.key c.target)

def build : BindMap → List Claim → Except Err BindMap
  | bm, [] => .ok bm
  | bm, c :: cs =>
      match step bm c with
      | .error e => .error e
      | .ok bm' => build bm' cs

/-! ## CONFIGURE: channel entries of each task's property map -/

inductive Method where
  | bind | connect
  deriving DecidableEq, Repr, Inhabited

def Method.name : Method → String
  | .bind => "bind" | .connect => "connect"

/-- `chans.<name>.0.{method,address,transport}`. -/
structure Entry where
  method : Method
  address : String
  transport : Transport
  deriving DecidableEq, Repr, Inhabited

abbrev Props := List (String × Entry)

/-- An explicit `tcp://` or `ipc://` target. -/
def explicit (target : String) : Bool := hasPrefix target "tcp://" || hasPrefix target "ipc://"

/-- `Inbound.ToFMQMap(localBindMap)`; `none` = the error that BuildPropertyMap
    swallows with `continue` (bad target, or no local endpoint). -/
def inboundFMQ (loc : BindMap) (c : Inbound) : Option Entry :=
  if explicit c.target then some ⟨.bind, c.target, c.transport⟩
  else if !c.target.isEmpty then none
  else match Assoc.get loc c.name with
    | none => none
    | some e => some ⟨.bind, e.toBound.address, e.transport⟩

/-- `Outbound.ToFMQMap(bindMap)`. -/
def outboundFMQ (bm : BindMap) (o : Outbound) : Except Err Entry :=
  if explicit o.target then .ok ⟨.connect, o.target, o.transport⟩
  else match Assoc.get bm o.target with
    | some e => .ok ⟨.connect, e.address, e.transport⟩
    | none => .error .unmatched

/-- The inbound loop of BuildPropertyMap: failures are skipped. -/
def addIn (loc : BindMap) : Props → List Inbound → Props
  | pm, [] => pm
  | pm, c :: cs =>
      match inboundFMQ loc c with
      | some e => addIn loc (Assoc.set pm c.name e) cs
      | none => addIn loc pm cs

/-- The outbound loop of BuildPropertyMap: the first failure aborts. -/
def addOut (bm : BindMap) : Props → List Outbound → Except Err Props
  | pm, [] => .ok pm
  | pm, o :: os =>
      match outboundFMQ bm o with
      | .error e => .error e
      | .ok en => addOut bm (Assoc.set pm o.name en) os

/-- Channel part of `Task.BuildPropertyMap(bindMap)`. -/
def taskProps (bm : BindMap) (t : Task) : Except Err Props :=
  addOut bm (addIn t.loc [] t.inbound) t.outbound

/-- `Tasks.BuildPropertyMaps`: in order, first error aborts. -/
def mapE {α β ε} (f : α → Except ε β) : List α → Except ε (List β)
  | [] => .ok []
  | x :: xs =>
      match f x with
      | .error e => .error e
      | .ok y =>
          match mapE f xs with
          | .error e => .error e
          | .ok ys => .ok (y :: ys)

/-- The environment bind map from the tasks' local bind maps, then `BuildPropertyMaps`
    (configureTasks as it was before the per-task check of the declarations). -/
def wire (tasks : List Task) : Except Err (List Props) :=
  match build [] (claims tasks) with
  | .error e => .error e
  | .ok bm => mapE (taskProps bm) tasks

/-- The per-task check at the head of configureTasks' task loop: go through the task's inbound
    channel DECLARATIONS (`MergeInbound(parent.CollectInboundChannels(), class.Bind)`, the list
    BuildPropertyMap configures) with `aliasOwners : alias → channel name`; a channel whose alias is
    already owned by a channel of another name is an "illegal redefinition of global channel alias"
    (`true` = rejected). The launch loop keeps only the LAST claim on an alias in the task's local
    bind map, so the local bind maps cannot show this. -/
def aliasScan : List (String × String) → List Inbound → Bool
  | _, [] => false
  | owners, c :: cs =>
      if c.global.isEmpty then aliasScan owners cs
      else match Assoc.get owners c.global with
        | some o => if o != c.name then true else aliasScan (Assoc.set owners c.global c.name) cs
        | none => aliasScan (Assoc.set owners c.global c.name) cs

def redefines (t : Task) : Bool := aliasScan [] t.inbound

/-- Which checks configureTasks performs, and in which order BuildPropertyMap fills the map. -/
structure Cfg where
  /-- two inbound channels of ONE task naming one global alias are rejected (`aliasScan`) -/
  aliasPerTask : Bool
  /-- BuildPropertyMap copies the task's declared properties into the map BEFORE it appends the
      generated FairMQ channel configuration, so a generated key always wins over a declared one
      (`false`: declared properties copied last — they would replace generated keys) -/
  generatedLast : Bool := true
  deriving DecidableEq, Repr, Inhabited

/-- The code as it is. -/
def codeCfg : Cfg := { aliasPerTask := true, generatedLast := true }

/-- The code as it was before `fix: configureTasks rejects a global channel alias claimed by two
    inbound channels of one task`: aliases are de-duplicated across local bind maps only. -/
def legacyCfg : Cfg := { aliasPerTask := false, generatedLast := true }

/-- NOT the code: the declared properties are copied after the channel configuration. Kept to
    state what the order of the two steps is worth (`C13_declared_last_breaks_wiring`). -/
def declaredLastCfg : Cfg := { aliasPerTask := true, generatedLast := false }

/-- configureTasks up to the point where the CONFIGURE command is queued. The per-task check
    and the alias de-duplication of the bind-map loop alternate task by task in the code; both
    fail with the same error and nothing else can fail before `BuildPropertyMaps`, so "some task
    is rejected by the scan" can be asked first. -/
def configureWith (cfg : Cfg) (tasks : List Task) : Except Err (List Props) :=
  if cfg.aliasPerTask && tasks.any redefines then .error .aliasConflict else wire tasks

/-- The code as it is. -/
def configure (tasks : List Task) : Except Err (List Props) := configureWith codeCfg tasks

/-! ## CONFIGURE: the whole property map of each task (task.go, BuildPropertyMap)

  `propMap` starts with the common properties (`environment_id`), then — in the code as it is —
  `for k, v := range t.GetProperties() { propMap[k] = v }`, then for every inbound channel whose
  `ToFMQMap` succeeds and for every outbound channel `for k, v := range chanProps { propMap[k] = v }`.
  (`orbit-reset-time` is pushed only if the variable `pdp_override_run_start_time` is set; the
  template pass `fields.Execute` leaves values without `{{ }}` alone: both are parameters that the
  correspondence run keeps switched off.) -/

/-- The value `buildFMQMap` writes for each field of a channel. -/
def fieldVal (m : Misc) (e : Entry) : Field → String
  | .address => e.address
  | .method => e.method.name
  | .autoBind => "0"
  | .rateLogging => m.rate
  | .rcvBufSize => toString m.rcv
  | .rcvKernelSize => "0"
  | .sndBufSize => toString m.snd
  | .sndKernelSize => "0"
  | .transport => e.transport.name
  | .type => m.type

/-- Which fields: `autoBind` is written by `Inbound.buildFMQMap` only. -/
def fieldsOf : Method → List Field
  | .bind => [.address, .method, .autoBind, .rateLogging, .rcvBufSize, .rcvKernelSize, .sndBufSize,
              .sndKernelSize, .transport, .type]
  | .connect => [.address, .method, .rateLogging, .rcvBufSize, .rcvKernelSize, .sndBufSize,
                 .sndKernelSize, .transport, .type]

/-- `Inbound/Outbound.buildFMQMap`: `chans.<n>.numSockets = 1` and the per-socket keys. -/
def fmqMap (n : String) (m : Misc) (e : Entry) : PMap :=
  (.sockets n, "1") :: (fieldsOf e.method).map fun f => (.chan n f, fieldVal m e f)

/-- `for k, v := range kvs { propMap[k] = v }` (keys of one Go map are distinct: order irrelevant). -/
def setAll (pm kvs : PMap) : PMap := kvs.foldl (fun a kv => Assoc.set a kv.1 kv.2) pm

/-- The inbound loop of BuildPropertyMap on the property map itself. -/
def addInP (loc : BindMap) : PMap → List Inbound → PMap
  | pm, [] => pm
  | pm, c :: cs =>
      match inboundFMQ loc c with
      | some e => addInP loc (setAll pm (fmqMap c.name c.misc e)) cs
      | none => addInP loc pm cs

/-- The outbound loop of BuildPropertyMap on the property map itself. -/
def addOutP (bm : BindMap) : PMap → List Outbound → Except Err PMap
  | pm, [] => .ok pm
  | pm, o :: os =>
      match outboundFMQ bm o with
      | .error e => .error e
      | .ok en => addOutP bm (setAll pm (fmqMap o.name o.misc en)) os

/-- `fillCommonProperties`; the environment id is renamed `%env` in the observation. -/
def baseProps : PMap := [(.other "environment_id", "%env")]

/-- `Task.BuildPropertyMap(bindMap)` for a FAIRMQ / DIRECT task. -/
def buildPMap (cfg : Cfg) (bm : BindMap) (t : Task) : Except Err PMap :=
  let pm0 := if cfg.generatedLast then setAll baseProps t.props else baseProps
  match addOutP bm (addInP t.loc pm0 t.inbound) t.outbound with
  | .error e => .error e
  | .ok pm => .ok (if cfg.generatedLast then pm else setAll pm t.props)

def wireP (cfg : Cfg) (tasks : List Task) : Except Err (List PMap) :=
  match build [] (claims tasks) with
  | .error e => .error e
  | .ok bm => mapE (buildPMap cfg bm) tasks

/-- configureTasks up to the CONFIGURE command, with the whole property map per task. -/
def configurePWith (cfg : Cfg) (tasks : List Task) : Except Err (List PMap) :=
  if cfg.aliasPerTask && tasks.any redefines then .error .aliasConflict else wireP cfg tasks

/-- The code as it is: what the Driver prints and the correspondence run compares. -/
def configureP (tasks : List Task) : Except Err (List PMap) := configurePWith codeCfg tasks

/-- The generated channel keys of one task, in the order they are written (independent of the
    task's declared properties by construction). -/
def inKVs (loc : BindMap) : List Inbound → PMap
  | [] => []
  | c :: cs =>
      match inboundFMQ loc c with
      | some e => fmqMap c.name c.misc e ++ inKVs loc cs
      | none => inKVs loc cs

def outKVs (bm : BindMap) : List Outbound → Except Err PMap
  | [] => .ok []
  | o :: os =>
      match outboundFMQ bm o with
      | .error e => .error e
      | .ok en =>
          match outKVs bm os with
          | .error e => .error e
          | .ok r => .ok (fmqMap o.name o.misc en ++ r)

def genKVs (bm loc : BindMap) (inb : List Inbound) (out : List Outbound) : Except Err PMap :=
  match outKVs bm out with
  | .error e => .error e
  | .ok r => .ok (inKVs loc inb ++ r)

/-! ## workflow templates: iterators and per-instance resolution

  Mirrors core/workflow/iteratorrole.go (`expandTemplate`: one generated role per
  value of the range, `generateRole` = `copy()` of the template + the iteration
  variable in `Locals`), rolebase.go `copy()` (the generated role gets its OWN
  `Connect` / `Bind` slices) and `wrapBindAndConnectFields` + the STAGE5 pass of
  `aggregatorRole/taskRole.ProcessTemplates` (every `connect[i].target` and every
  `bind[i].global` is read from and written back to the role's own slice, resolved
  against the role's own variable stack and object stack).

  The template engine itself (fasttemplate + expr) is a parameter: an expression
  is a list of segments — literal text, `{{ var }}`, `{{ Parent().Path }}`,
  `{{ Parent().Name }}`, `{{ This().Path }}`, `{{ This().Name }}` — and evaluating
  it concatenates the segments' values in the role's context. -/

/-- One piece of a templated string. -/
inductive Seg where
  | lit (s : String)
  | var (v : String)     -- `{{ v }}`
  | parentPath           -- `{{ Parent().Path }}`
  | parentName           -- `{{ Parent().Name }}`
  | thisPath             -- `{{ This().Path }}`  (STAGE5 only)
  | thisName             -- `{{ This().Name }}`  (STAGE5 only)
  deriving DecidableEq, Repr, Inhabited

abbrev Tmpl := List Seg

/-- What a role sees while its templates are resolved: the iteration variables in
    force (innermost first: `Locals` beat everything inherited), its parent role's
    resolved path and name, and (from STAGE5 on) its own resolved name. -/
structure Ctx where
  env : List (String × String)
  parentPath : String
  parentName : String
  self : String
  deriving DecidableEq, Repr, Inhabited

/-- The context of the root role (hung under the environment's ParentAdapter). -/
def Ctx.top : Ctx := { env := [], parentPath := "", parentName := "", self := "" }

/-- `locals[i.For.GetVar()] = localValue` for one generated role. -/
def Ctx.push (c : Ctx) (v x : String) : Ctx := { c with env := (v, x) :: c.env }

/-- The role's own name is known (STAGE4 done). -/
def Ctx.named (c : Ctx) (nm : String) : Ctx := { c with self := nm }

/-- The context of the children of a role called `nm` in context `c`. -/
def Ctx.child (c : Ctx) (nm : String) : Ctx :=
  { env := c.env, parentPath := joinPath c.parentPath nm, parentName := nm, self := "" }

def Seg.inst (c : Ctx) : Seg → String
  | .lit s => s
  | .var v => (Assoc.get c.env v).getD ""
  | .parentPath => c.parentPath
  | .parentName => c.parentName
  | .thisPath => joinPath c.parentPath c.self
  | .thisName => c.self

/-- Evaluate a templated string in a context. -/
def Tmpl.inst (c : Ctx) : Tmpl → String
  | [] => ""
  | s :: r => s.inst c ++ Tmpl.inst c r

/-- A `connect` declaration as written in a workflow template. -/
structure OutT where
  name : String
  transport : Transport
  target : Tmpl
  misc : Misc := {}
  deriving DecidableEq, Repr, Inhabited

/-- A `bind` declaration as written in a workflow template (only `global` is templated). -/
structure InT where
  name : String
  transport : Transport
  addressing : Addressing
  target : String
  global : Tmpl
  misc : Misc := {}
  deriving DecidableEq, Repr, Inhabited

/-- The declaration a role holds once its own copy has been resolved in its own context. -/
def OutT.inst (c : Ctx) (o : OutT) : Outbound :=
  { name := o.name, transport := o.transport, target := o.target.inst c, misc := o.misc }

def InT.inst (c : Ctx) (b : InT) : Inbound :=
  { name := b.name, transport := b.transport, addressing := b.addressing, target := b.target,
    global := b.global.inst c, misc := b.misc }

/-- Role templates: like `Forest`, with templated names / targets / aliases, plus
    iterator roles (`for:` over a list of values around ONE role template). -/
inductive TForest where
  | nil : TForest
  | agg (name : Tmpl) (bind : List InT) (connect : List OutT) (kids next : TForest) : TForest
  | task (name : Tmpl) (cls : String) (host : Nat) (bind : List InT) (connect : List OutT) (next : TForest) : TForest
  | iter (var : String) (vals : List String) (body next : TForest) : TForest
  deriving Repr, Inhabited

/-- Sibling lists are concatenated (`aggregator.GetRoles` splices the roles an iterator generated
    into its parent's list, in range order). -/
def Forest.append : Forest → Forest → Forest
  | .nil, g => g
  | .agg n b c kids next, g => .agg n b c kids (next.append g)
  | .task n cls h b c next, g => .task n cls h b c (next.append g)

/-- Loading a workflow template (`ProcessTemplates`): every role resolves its name, then its OWN
    copy of its declarations in its OWN context; an iterator contributes one instance of its
    body per value, each with the iteration variable bound to that value. -/
def expand (c : Ctx) : TForest → Forest
  | .nil => .nil
  | .agg n b co kids next =>
      let nm := n.inst c
      .agg nm (b.map (InT.inst (c.named nm))) (co.map (OutT.inst (c.named nm)))
        (expand (c.child nm) kids) (expand c next)
  | .task n cls h b co next =>
      let nm := n.inst c
      .task nm cls h (b.map (InT.inst (c.named nm))) (co.map (OutT.inst (c.named nm))) (expand c next)
  | .iter v vals body next =>
      (vals.foldr (fun x acc => (expand (c.push v x) body).append acc) .nil).append (expand c next)

/-! ### the same as a store of per-role copies (for the order-independence theorem)

  `generateRole` hands every generated role a cell of its own; the STAGE5 pass of a role reads
  and writes that cell only. `processOrder` runs the passes in any order (the three concurrency
  switches of the loader only change that order). -/

/-- A role's own declarations (its copy of the template's slices) and its context. -/
structure Cell where
  ctx : Ctx
  connect : List OutT
  bind : List InT
  deriving DecidableEq, Repr, Inhabited

/-- The setter of `wrapBindAndConnectFields`: the resolved text replaces the expression. -/
def OutT.resolve (c : Ctx) (o : OutT) : OutT := { o with target := [.lit (o.target.inst c)] }
def InT.resolve (c : Ctx) (b : InT) : InT := { b with global := [.lit (b.global.inst c)] }

/-- The STAGE5 pass of one role on its own cell. -/
def Cell.resolve (x : Cell) : Cell :=
  { x with connect := x.connect.map (OutT.resolve x.ctx), bind := x.bind.map (InT.resolve x.ctx) }

/-- What `Collect*Channels` later reads out of a cell (own declarations only). -/
def Cell.read (x : Cell) : List Inbound × List Outbound :=
  (x.bind.map (InT.inst x.ctx), x.connect.map (OutT.inst x.ctx))

/-- The fresh cells of all generated roles, in tree (pre-)order. -/
def cells (c : Ctx) : TForest → List Cell
  | .nil => []
  | .agg n b co kids next =>
      let nm := n.inst c
      { ctx := c.named nm, connect := co, bind := b } :: (cells (c.child nm) kids ++ cells c next)
  | .task n _ _ b co next =>
      { ctx := c.named (n.inst c), connect := co, bind := b } :: cells c next
  | .iter v vals body next =>
      vals.foldr (fun x acc => cells (c.push v x) body ++ acc) [] ++ cells c next

def modAt {α} (f : α → α) : List α → Nat → List α
  | [], _ => []
  | x :: xs, 0 => f x :: xs
  | x :: xs, i + 1 => x :: modAt f xs i

/-- Run the STAGE5 passes of the roles `ord` names, in that order. -/
def processOrder (st : List Cell) (ord : List Nat) : List Cell :=
  ord.foldl (modAt Cell.resolve) st

/-- Own declarations of every role of a loaded tree, in tree (pre-)order. -/
def ownDecls : Forest → List (List Inbound × List Outbound)
  | .nil => []
  | .agg _ b c kids next => (b, c) :: (ownDecls kids ++ ownDecls next)
  | .task _ _ _ b c next => (b, c) :: ownDecls next

/-- A plain (already resolved) declaration / role tree seen as a template. -/
def Outbound.toT (o : Outbound) : OutT :=
  { name := o.name, transport := o.transport, target := [.lit o.target], misc := o.misc }
def Inbound.toT (b : Inbound) : InT :=
  { name := b.name, transport := b.transport, addressing := b.addressing, target := b.target,
    global := [.lit b.global], misc := b.misc }

def Forest.toT : Forest → TForest
  | .nil => .nil
  | .agg n b c kids next => .agg [.lit n] (b.map Inbound.toT) (c.map Outbound.toT) kids.toT next.toT
  | .task n cls h b c next => .task [.lit n] cls h (b.map Inbound.toT) (c.map Outbound.toT) next.toT

/-- `MergeInbound(descriptor.RoleBind, class.Bind)` / `MergeOutbound(RoleConnect, class.Connect)`
    and the launch's local bind map: the task configureTasks sees. -/
def mkTask (classes : List (String × Class)) (d : TaskDecl) (path host : String) (loc : BindMap) : Task :=
  let cls := (Assoc.get classes d.cls).getD { bind := [], connect := [] }
  { path := path, host := host,
    inbound := mergeIn d.roleBind cls.bind,
    outbound := mergeOut d.roleConnect cls.connectLoaded,
    loc := loc, props := cls.props }

end Channels
