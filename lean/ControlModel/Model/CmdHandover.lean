/-
  Model/CmdHandover — the hand-over of a command's consolidated answer to its
  caller, and the one-command-at-a-time discipline of a queue
  (core/controlcommands/commandqueue.go, the closure of `CommandQueue.Start`):

      for { select { case entry, more := <-m.q:        -- dequeue          `start c`
              m.Lock()
              response, err := m.commit(entry.cmd)      -- … `complete c`: the answer exists
              entry.callback <- response                -- a BLOCKING send  `take c`
              m.Unlock() } }

  `entry.callback` is the caller's channel (unbuffered in every caller of
  core/task). The send is a rendezvous: it completes exactly when the caller
  executes its receive, however late that is, and until then the consumer
  goroutine sits in this statement — it dequeues nothing else. So

  * `complete c` (Model/CmdQueue) puts the answer of `c` on offer
    (`State.callbacks`), whether or not the caller listens already;
  * `listen c`: the caller reaches `<-notify`;
  * `take c`: the rendezvous — enabled iff the answer is on offer, the caller
    listens and has not been served; the caller then holds exactly the offered
    value (`received`);
  * `start c` is DISABLED while another command of the same queue has been
    dequeued and its answer not taken (`holds`).

  This layer sits on top of `CmdQueue.step`, which stays as permissive as it
  was (commands of different queues are truly in flight together; `qof` maps a
  command index to its queue). Every state reachable here projects to a state
  reachable there (`Proofs/CmdHandover: base_reachable`), so all theorems about
  `run cmds init sched` keep applying.

  Core Lean only.
-/
import ControlModel.Model.CmdQueue

namespace CmdQueue

structure QState where
  base : State
  /-- the caller of command `c` is at its receive on `c`'s callback channel -/
  listening : Nat → Bool
  /-- the caller of command `c` has received the answer -/
  taken : Nat → Bool
  /-- what callers received: (command index, result), in order -/
  received : List (Nat × Result)

def qinit : QState :=
  { base := init, listening := fun _ => false, taken := fun _ => false, received := [] }

inductive QStep where
  | base (st : Step)
  | listen (c : Nat)
  | take (c : Nat)
  /-- an observer looks where the consumer goroutine is (a goroutine dump): no effect -/
  | probe (c : Nat)
deriving DecidableEq, Repr

/-- The consumer goroutine of `c`'s queue is occupied by another command: dequeued,
    answer not yet taken by its caller. -/
def holds (qof : Nat → Nat) (n : Nat) (s : QState) (c : Nat) : Bool :=
  (List.range n).any (fun c' => c' != c && qof c' == qof c && s.base.started c' && !s.taken c')

/-- The answer of `c` that is on offer (the value `commit` returned). -/
def offered (s : QState) (c : Nat) : Option Result :=
  (s.base.callbacks.find? (fun e => e.1 == c)).map (·.2)

def qstep (cmds : List Cmd) (qof : Nat → Nat) (s : QState) : QStep → QState
  | .base (.start c) =>
    if holds qof cmds.length s c = true then s else { s with base := step cmds s.base (.start c) }
  | .base st => { s with base := step cmds s.base st }
  | .listen c => { s with listening := upd s.listening c true }
  | .take c =>
    if s.listening c = true ∧ s.taken c = false then
      match offered s c with
      | some res => { s with taken := upd s.taken c true, received := s.received ++ [(c, res)] }
      | none => s
    else s
  | .probe _ => s

def qrun (cmds : List Cmd) (qof : Nat → Nat) (s : QState) : List QStep → QState
  | [] => s
  | st :: rest => qrun cmds qof (qstep cmds qof s st) rest

end CmdQueue
