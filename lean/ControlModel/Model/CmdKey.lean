/-
  Model/CmdKey — which components of a `MesosCommandTarget` enter the key of
  `Servent.pending` (C12, added after seed C12-7).

  A target is the triple `{AgentId, ExecutorId, TaskId}`. In `Model/CmdQueue` a
  target is a number `t` that stands for the whole triple. Here the triple is
  made visible: `t` is the task, and an assignment `ex : Nat → Nat` says behind
  which agent+executor the task sits (`ex t` names the pair; production layout:
  one executor per agent, several tasks behind it — so `ex` is in general NOT
  injective). The identity of a target is still `t` (the pair is a function of it).

  `stepK kc ex` is `CmdQueue.step` with the key of every access to `pending`
  (register, the two unregisters, ProcessResponse's lookup-and-delete) passed
  through `projKey kc ex`:

    * `codeKey`  (keyHasTask = true)  — the code: `CallId{id, Target: receiver}` holds
      the whole triple, the key is `(id, t)`; `ex` does not enter at all;
    * `execKey`  (keyHasTask = false) — NOT the code: the key keeps only agent and
      executor, `(id, ex t)`; two tasks of one command behind one executor share
      an entry (the second registration overwrites the first, …).

  What is pushed into the semaphore is `commit`'s own `receiver` variable, not
  the key: it stays `t` in both configurations.

  Core Lean only.
-/
import ControlModel.Model.CmdQueue

namespace CmdQueue

structure KeyCfg where
  keyHasTask : Bool
deriving DecidableEq, Repr

/-- the code: the key holds the whole target -/
def codeKey : KeyCfg := ⟨true⟩
/-- not the code: the key holds agent id and executor id only -/
def execKey : KeyCfg := ⟨false⟩

/-- The key configuration that the two `CallId{…}` literals of the Servent stand for
    (go/ast facts; anything else is not a configuration of this model). -/
def keyCfgOf (runKey prKey : String) : Option KeyCfg :=
  if runKey = "CallId{ Id: cmdId, Target: receiver, }" ∧
     prKey = "CallId{ Id: res.GetCommandId(), Target: sender, }" then some codeKey else none

def projKey (kc : KeyCfg) (ex : Nat → Nat) (k : CallId) : CallId :=
  if kc.keyHasTask = true then k else ⟨k.id, ex k.target⟩

/-- `finish` with the map key (`pk`) and the receiver (`t`) kept apart. -/
def finishK (s : State) (i : Ref) (pk : CallId) (t : Nat) (o : Outcome) (unregister : Bool) : State :=
  { s with
    pending := if unregister then upd s.pending pk none else s.pending
    call := upd s.call i ⟨.finished o, (s.call i).mailbox⟩
    sem := upd s.sem i.1 (s.sem i.1 ++ [(t, o)]) }

def stepK (kc : KeyCfg) (ex : Nat → Nat) (cmds : List Cmd) (s : State) : Step → State
  | .register i =>
    match keyOf? cmds i with
    | none => s
    | some k =>
      if s.started i.1 = true ∧ (s.call i).pc = .idle then
        { s with pending := upd s.pending (projKey kc ex k) (some i)
                 call := upd s.call i ⟨.registered, (s.call i).mailbox⟩ }
      else s
  | .sendFail i =>
    match keyOf? cmds i with
    | none => s
    | some k =>
      if (s.call i).pc = .registered then finishK s i (projKey kc ex k) k.target .sendErr true else s
  | .deliver r =>
    match s.pending (projKey kc ex r.key) with
    | none => s
    | some j =>
      { s with pending := upd s.pending (projKey kc ex r.key) none
               call := upd s.call j ⟨(s.call j).pc, some r⟩ }
  | .recv i =>
    match keyOf? cmds i with
    | none => s
    | some k =>
      if (s.call i).pc = .waiting then
        match (s.call i).mailbox with
        | some r => finishK s i (projKey kc ex k) k.target (.reply r) false
        | none => s
      else s
  | .timeout i =>
    match keyOf? cmds i with
    | none => s
    | some k =>
      if (s.call i).pc = .waiting then finishK s i (projKey kc ex k) k.target .timeoutErr true else s
  | st => step cmds s st

def runK (kc : KeyCfg) (ex : Nat → Nat) (cmds : List Cmd) (s : State) : List Step → State
  | [] => s
  | st :: rest => runK kc ex cmds (stepK kc ex cmds s st) rest

/-- Several targets of one command sit behind one executor. -/
def sharesExecutor (ex : Nat → Nat) (c : Cmd) : Bool :=
  c.targets.any fun t => c.targets.any fun u => t != u && ex t == ex u

end CmdQueue
