/-
  Model/CmdLock — the servent mutex and the two "leave windows" of
  `Servent.RunCommand` (core/controlcommands/mesoscommandservent.go).

  The base model (Model/CmdQueue) makes "the caller stops listening on
  `call.Done`" and "the caller removes its entry from `pending` and returns" ONE
  atomic step (`sendFail i`, `timeout i`). In the code they are two:

      err := s.SendFunc(cmd, receiver)
      if err != nil {                        -- `expire i` (from `registered`): no receive will ever follow
          s.mu.Lock(); delete(s.pending, callId); s.mu.Unlock()      -- `unregister i`
          return nil, err }
      select {
      case <-call.Done:                                               -- `recv i`
      case <-time.After(cmd.GetResponseTimeout()):                    -- `expire i` (from `waiting`)
          s.mu.Lock(); delete(s.pending, callId); s.mu.Unlock() }     -- `unregister i`

  and between the two the entry is still pending while nobody will ever receive
  on `call.Done` again. `ProcessResponse` for that key, arriving in the window,

      s.mu.Lock(); call, ok := s.pending[callId]; delete(s.pending, callId); s.mu.Unlock()
      call.Response = res
      call.Done <- empty{}                  -- BLOCKING: parked for ever, a leaked goroutine

  takes the entry and parks: the reply is handed to nobody (`leaked`), the caller
  returns its send error / "timed out" all the same, and — because the mutex was
  released BEFORE the blocking send — nobody else is affected. What matters is
  exactly that order, so the layer has a switch:

      `LockCfg.lockSpansSend = false`  (= the code, `codeLock`; tied by
            `C12_process_response_lock_is_code`): unlock, then hand over;
      `LockCfg.lockSpansSend = true`   (`deferLock`: `defer s.mu.Unlock()`): the
            mutex is held until the hand-over on `call.Done` is over.

  State on top of the queue layer (Model/CmdHandover): `mu` = the mutex, held only
  by a `ProcessResponse` that is blocked in its hand-over (every other critical
  section of the Servent contains no blocking operation and stays one atomic
  step); `left i` = caller `i` is in its leave window; `leaked` = replies whose
  `ProcessResponse` is parked for ever. `register`, `unregister` and `deliver`
  need the mutex; `sendOk` / `recv` are not possible for a caller that has left.
  The base layer's atomic `sendFail` / `timeout` are NOT steps of this layer (they
  are `expire` followed by `unregister`).

  Every step here performs at most one step of the queue layer (`lproj`), so the
  states of this layer project to states of the queue layer and of the base layer
  (`Proofs/CmdLock: lrun_refines`): every older theorem keeps applying.

  Core Lean only.
-/
import ControlModel.Model.CmdHandover

namespace CmdQueue

structure LockCfg where
  /-- `ProcessResponse` still holds `s.mu` while it is blocked in `call.Done <- empty{}` -/
  lockSpansSend : Bool
deriving DecidableEq, Repr

/-- The code: `s.mu.Unlock()` precedes the hand-over. -/
def codeLock : LockCfg := ⟨false⟩

/-- `defer s.mu.Unlock()` in `ProcessResponse`: not the code. -/
def deferLock : LockCfg := ⟨true⟩

structure LState where
  q : QState
  /-- `some (r, j)`: the servent mutex is held by `ProcessResponse(r)`, which is blocked
      handing `r` over to caller `j` -/
  mu : Option (Resp × Ref)
  /-- caller `i` has stopped listening on `call.Done` (its send returned an error / its
      timer fired) and has not yet unregistered -/
  left : Ref → Bool
  /-- replies handed to a `Call` whose caller will never receive: their `ProcessResponse`
      goroutine is parked for ever -/
  leaked : List Resp

def linit : LState := { q := qinit, mu := none, left := fun _ => false, leaked := [] }

inductive LStep where
  | q (st : QStep)
  /-- the send function returned an error (caller `registered`) / the response timer
      fired and was chosen by the select (caller `waiting`) -/
  | expire (i : Ref)
  /-- `s.mu.Lock(); delete(s.pending, callId); s.mu.Unlock()`; return; semaphore push -/
  | unregister (i : Ref)
  /-- an observer takes a goroutine dump and looks whether command `c` is wedged: no effect -/
  | look (c : Nat)
deriving DecidableEq, Repr

/-- Caller `i` can leave: it is between register and return, and still listening. -/
def canExpire (s : LState) (i : Ref) : Bool :=
  !s.left i && ((s.q.base.call i).pc == .registered || (s.q.base.call i).pc == .waiting)

/-- The base-layer step a base step of this layer performs, if it is enabled here. -/
def lprojB (s : LState) : Step → Option Step
  | .start c => some (.start c)
  | .register i => if s.mu.isSome then none else some (.register i)
  | .sendOk i => if s.left i then none else some (.sendOk i)
  | .sendFail _ => none
  | .deliver r => if s.mu.isSome then none else some (.deliver r)
  | .recv i => if s.left i then none else some (.recv i)
  | .timeout _ => none
  | .complete c => some (.complete c)

/-- The queue-layer step a step of this layer performs, if any. -/
def lproj (s : LState) : LStep → Option QStep
  | .q (.base b) => (lprojB s b).map .base
  | .q (.listen c) => some (.listen c)
  | .q (.take c) => some (.take c)
  | .q (.probe c) => some (.probe c)
  | .expire _ => none
  | .unregister i =>
    if s.left i = true ∧ s.mu = none then
      match (s.q.base.call i).pc with
      | .registered => some (.base (.sendFail i))
      | .waiting => some (.base (.timeout i))
      | _ => none
    else none
  | .look _ => none

/-- The mutex after a step. -/
def lmu (cfg : LockCfg) (s : LState) : LStep → Option (Resp × Ref)
  | .q (.base (.deliver r)) =>
    if s.mu.isSome then s.mu
    else match s.q.base.pending r.key with
      | some j => if cfg.lockSpansSend then some (r, j) else none
      | none => none
  | .q (.base (.recv i)) =>
    if s.left i = false ∧ (s.q.base.call i).pc = .waiting ∧ (s.q.base.call i).mailbox.isSome then
      match s.mu with
      | some (r, j) => if j = i then none else some (r, j)
      | none => none
    else s.mu
  | _ => s.mu

def lleft (s : LState) : LStep → Ref → Bool
  | .expire i => if canExpire s i then upd s.left i true else s.left
  | _ => s.left

def lleaked (s : LState) : LStep → List Resp
  | .q (.base (.deliver r)) =>
    if s.mu.isSome then s.leaked
    else match s.q.base.pending r.key with
      | some j => if s.left j then r :: s.leaked else s.leaked
      | none => s.leaked
  | .expire i =>
    if canExpire s i then
      match (s.q.base.call i).mailbox with
      | some r => r :: s.leaked
      | none => s.leaked
    else s.leaked
  | _ => s.leaked

def lstep (cfg : LockCfg) (cmds : List Cmd) (qof : Nat → Nat) (s : LState) (st : LStep) : LState :=
  { q := match lproj s st with
         | some qst => qstep cmds qof s.q qst
         | none => s.q
    mu := lmu cfg s st
    left := lleft s st
    leaked := lleaked s st }

def lrun (cfg : LockCfg) (cmds : List Cmd) (qof : Nat → Nat) (s : LState) : List LStep → LState
  | [] => s
  | st :: rest => lrun cfg cmds qof (lstep cfg cmds qof s st) rest

/-- Caller `i` needs the servent mutex for its next move: it is in its leave window
    (about to unregister), or its goroutine exists and has not registered yet. -/
def wantsLock (cmds : List Cmd) (s : LState) (i : Ref) : Bool :=
  (s.left i && ((s.q.base.call i).pc == .registered || (s.q.base.call i).pc == .waiting)) ||
    (s.q.base.started i.1 && (keyOf? cmds i).isSome && (s.q.base.call i).pc == .idle)

/-- What a goroutine dump shows when command `c` is wedged: the mutex is held by a
    `ProcessResponse` blocked in a hand-over whose receiver has stopped listening, and a
    per-target caller of `c` (dequeued, not answered) is blocked in `s.mu.Lock()`. -/
def wedgedFor (cmds : List Cmd) (s : LState) (c : Nat) : Bool :=
  (match s.mu with
   | some (_, j) => s.left j
   | none => false) &&
  s.q.base.started c && !s.q.base.completed c &&
  (match cmds[c]? with
   | some cmd => (List.range cmd.targets.length).any (fun p => wantsLock cmds s (c, p))
   | none => false)

end CmdQueue
