/-
  Model/CmdQueue — core/controlcommands: Servent (pending calls keyed by
  (command id, target)) and CommandQueue.commit / consolidateResponses.

  What is modelled (anchors in /repo/core/controlcommands):

  * `Servent.pending map[CallId]*Call`           → `State.pending : CallId → Option Ref`
    (a Go map IS a partial function; the value is the POINTER to the caller's
    `Call` object, here the caller's index `Ref`. Pointer semantics are kept so
    that what happens with non-distinct keys is what the code does: the second
    `pending[k] = call` overwrites, and the first caller's `delete` on timeout
    removes the second caller's entry.)
  * `MesosCommandBase.MakeSingleTarget` → `singleTarget`; `commit`'s
    `singleCommand := command.MakeSingleTarget(receiver)` → `callCmd`: the object
    whose id makes the key (`keyOf?`), that the send function is handed and whose
    response timeout arms the timer (`timerOf`). Durations are labels: the model
    has no clock, `timeout` is a step that is enabled whenever a caller waits.
  * `Servent.RunCommand` (one goroutine per target, spawned by `commit`):
        register            s.pending[callId] = call           (under s.mu)
        sendOk | sendFail   err := s.SendFunc(cmd, receiver);  on error: delete + return (nil, err)
        recv   | timeout    select { <-call.Done | <-time.After(timeout) }; on timeout: delete
    followed — atomically in the model, nothing else can observe the gap — by
    the goroutine's push of `responseSemaphore{receiver, response, err}`
    into `semaphore` (buffered with len(targets), so the push never blocks).
  * `Servent.ProcessResponse(res, sender)` = `deliver r`: lookup-and-delete of
    `(res.GetCommandId(), sender)` under the lock; found ⇒ `call.Response = res`
    and a BLOCKING `call.Done <- empty{}` (the `mailbox`: it stays there until
    the caller's `recv`, or for ever if the caller leaves through `timeout`);
    not found ⇒ dropped.
  * `CommandQueue.Start` loop body: `start c` (dequeue) … `complete c`
    (`commit` has read len(targets) semaphore entries, built
    `responses[receiver] = response` in arrival order, consolidated, and the
    loop sent the result on the callback channel).
  * `consolidateResponses`: 0 ⇒ nil, 1 ⇒ that response, ≥2 ⇒ multi-response.

  The model is deliberately MORE permissive than the code in one respect: the
  queue mutex (one `commit` at a time per queue) is not enforced by `step`, so
  every theorem also covers several queues sharing one Servent and direct
  concurrent callers of `RunCommand`.

  Core Lean only.
-/

namespace CmdQueue

/-- `controlcommands.CallId{Id xid.ID, Target MesosCommandTarget}`. -/
structure CallId where
  id : Nat
  target : Nat
deriving DecidableEq, Repr

/-- An incoming MesosCommandResponse as `ProcessResponse(res, sender)` sees it:
    `id = res.GetCommandId()`, `sender`, and the payload (`tag` identifies the
    message, `err` = `res.Err() != nil`). -/
structure Resp where
  id : Nat
  sender : Nat
  tag : Nat
  err : Bool
deriving DecidableEq, Repr

def Resp.key (r : Resp) : CallId := ⟨r.id, r.sender⟩

/-- What `RunCommand` returns: `(call.Response, nil)`, `(nil, sendErr)`, `(nil, "… timed out …")`. -/
inductive Outcome where
  | reply (r : Resp)
  | sendErr
  | timeoutErr
deriving DecidableEq, Repr

inductive Pc where
  | idle
  | registered
  | waiting
  | finished (o : Outcome)
deriving DecidableEq, Repr

/-- The caller's `*Call` object plus its program counter. -/
structure CallSt where
  pc : Pc
  mailbox : Option Resp
deriving DecidableEq, Repr

/-- A command (`MesosCommandBase`): its id, `TargetList`, `ResponseTimeout`
    (a label: milliseconds; the model has no clock) and `argMap` (per-target
    arguments, target ↦ token ≥ 1; a target without a binding gets the empty
    map, written 0). -/
structure Cmd where
  id : Nat
  targets : List Nat
  tmo : Nat := 0
  args : List (Nat × Nat) := []
deriving DecidableEq, Repr

/-- `m.argMap[receiver]`, the empty map (0) when there is no binding. -/
def argOf (c : Cmd) (t : Nat) : Nat :=
  match c.args.find? (fun e => e.1 == t) with
  | some e => e.2
  | none => 0

/-- `MesosCommandBase.MakeSingleTarget(receiver)`: nil for a receiver that is
    not in the target list; otherwise the SAME command — name, id, environment,
    response timeout — narrowed down to that receiver, carrying that receiver's
    arguments (`argMap = {receiver: args}`, `Arguments = argMap[receiver]`). -/
def singleTarget (c : Cmd) (t : Nat) : Option Cmd :=
  if c.targets.contains t then
    some { id := c.id, targets := [t], tmo := c.tmo, args := [(t, argOf c t)] }
  else none

/-- A caller = (index of the command, position in its target list). -/
abbrev Ref := Nat × Nat

/-- What `commit`'s goroutine for a target hands to `Servent.RunCommand`:
    `singleCommand := command.MakeSingleTarget(receiver)` and `receiver`. This
    object is the `cmd` of `RunCommand`: its id makes the key, it is what the
    send function receives, and its response timeout arms the timer
    (`time.After(cmd.GetResponseTimeout())`). -/
def callCmd (cmds : List Cmd) (i : Ref) : Option (Cmd × Nat) :=
  match cmds[i.1]? with
  | some c =>
    match c.targets[i.2]? with
    | some t => (singleTarget c t).map (fun sc => (sc, t))
    | none => none
  | none => none

/-- The key a caller registers: `CallId{cmd.GetId(), receiver}` with `cmd` the
    single-target command; `none` for a reference that names no goroutine of
    the configuration. -/
def keyOf? (cmds : List Cmd) (i : Ref) : Option CallId :=
  (callCmd cmds i).map (fun x => ⟨x.1.id, x.2⟩)

/-- The duration of the timer caller `i` selects on. -/
def timerOf (cmds : List Cmd) (i : Ref) : Option Nat :=
  (callCmd cmds i).map (fun x => x.1.tmo)

inductive ErrKind where
  | send
  | timeout
deriving DecidableEq, Repr

/-- One entry of the `responses` map built by `commit`: the target's own
    response object, or `NewMesosCommandResponse(command, err)` synthesised for
    a target without one (it carries the COMMAND's id). -/
inductive TResp where
  | own (r : Resp)
  | synth (cmdId : Nat) (e : ErrKind)
deriving DecidableEq, Repr

def tresp (c : Cmd) : Outcome → TResp
  | .reply r => .own r
  | .sendErr => .synth c.id .send
  | .timeoutErr => .synth c.id .timeout

/-- `v.Err() != nil` of a map entry. -/
def TResp.isErr : TResp → Bool
  | .own r => r.err
  | .synth _ _ => true

/-- What arrives on the Enqueue callback channel. -/
inductive Result where
  | nil
  | single (r : TResp)
  | multi (cmdId : Nat) (m : List (Nat × TResp))
deriving DecidableEq, Repr

/-- Go map assignment on an association list (overwrite the binding or append). -/
def mset : List (Nat × TResp) → Nat → TResp → List (Nat × TResp)
  | [], k, v => [(k, v)]
  | (k', v') :: rest, k, v => if k' = k then (k, v) :: rest else (k', v') :: mset rest k v

def mget : List (Nat × TResp) → Nat → Option TResp
  | [], _ => none
  | (k', v) :: rest, k => if k' = k then some v else mget rest k

/-- `responses[respSemaphore.receiver] = respSemaphore.response` for every
    semaphore entry, in arrival order. -/
def collect (c : Cmd) : List (Nat × Outcome) → List (Nat × TResp) → List (Nat × TResp)
  | [], m => m
  | (t, o) :: rest, m => collect c rest (mset m t (tresp c o))

/-- `consolidateResponses`. -/
def consolidate (c : Cmd) : List (Nat × TResp) → Result
  | [] => .nil
  | [(_, v)] => .single v
  | m => .multi c.id m

/-- The value `commit` returns for the semaphore entries it read. -/
def commit (c : Cmd) (sem : List (Nat × Outcome)) : Result :=
  consolidate c (collect c sem [])

/-- Point update of a total function. -/
def upd {α β} [DecidableEq α] (f : α → β) (a : α) (b : β) : α → β :=
  fun x => if x = a then b else f x

structure State where
  pending : CallId → Option Ref
  call : Ref → CallSt
  /-- per command index: the semaphore entries pushed so far, in order -/
  sem : Nat → List (Nat × Outcome)
  started : Nat → Bool
  completed : Nat → Bool
  /-- log of values sent on callback channels: (command index, result) -/
  callbacks : List (Nat × Result)

def init : State :=
  { pending := fun _ => none
    call := fun _ => ⟨.idle, none⟩
    sem := fun _ => []
    started := fun _ => false
    completed := fun _ => false
    callbacks := [] }

inductive Step where
  | start (c : Nat)
  | register (i : Ref)
  | sendOk (i : Ref)
  | sendFail (i : Ref)
  | deliver (r : Resp)
  | recv (i : Ref)
  | timeout (i : Ref)
  | complete (c : Nat)
deriving DecidableEq, Repr

/-- `RunCommand` returns `o`; the goroutine pushes its semaphore entry.
    `unregister` = the `delete(s.pending, callId)` of the send-error and
    timeout branches. -/
def finish (s : State) (i : Ref) (k : CallId) (o : Outcome) (unregister : Bool) : State :=
  { s with
    pending := if unregister then upd s.pending k none else s.pending
    call := upd s.call i ⟨.finished o, (s.call i).mailbox⟩
    sem := upd s.sem i.1 (s.sem i.1 ++ [(k.target, o)]) }

/-- One atomic step; a step that is not enabled leaves the state unchanged. -/
def step (cmds : List Cmd) (s : State) : Step → State
  | .start c =>
    if c < cmds.length ∧ s.started c = false then { s with started := upd s.started c true } else s
  | .register i =>
    match keyOf? cmds i with
    | none => s
    | some k =>
      if s.started i.1 = true ∧ (s.call i).pc = .idle then
        { s with pending := upd s.pending k (some i)
                 call := upd s.call i ⟨.registered, (s.call i).mailbox⟩ }
      else s
  | .sendOk i =>
    if (s.call i).pc = .registered then
      { s with call := upd s.call i ⟨.waiting, (s.call i).mailbox⟩ }
    else s
  | .sendFail i =>
    match keyOf? cmds i with
    | none => s
    | some k => if (s.call i).pc = .registered then finish s i k .sendErr true else s
  | .deliver r =>
    match s.pending r.key with
    | none => s
    | some j =>
      { s with pending := upd s.pending r.key none
               call := upd s.call j ⟨(s.call j).pc, some r⟩ }
  | .recv i =>
    match keyOf? cmds i with
    | none => s
    | some k =>
      if (s.call i).pc = .waiting then
        match (s.call i).mailbox with
        | some r => finish s i k (.reply r) false
        | none => s
      else s
  | .timeout i =>
    match keyOf? cmds i with
    | none => s
    | some k => if (s.call i).pc = .waiting then finish s i k .timeoutErr true else s
  | .complete c =>
    match cmds[c]? with
    | none => s
    | some cmd =>
      if s.started c = true ∧ s.completed c = false ∧ (s.sem c).length = cmd.targets.length then
        { s with completed := upd s.completed c true
                 callbacks := s.callbacks ++ [(c, commit cmd (s.sem c))] }
      else s

/-- Run a schedule. -/
def run (cmds : List Cmd) (s : State) : List Step → State
  | [] => s
  | st :: rest => run cmds (step cmds s st) rest

/-- Hypothesis of the property: distinct command ids, and the targets of each
    command are a set. (xid.New() ids; `Tasks.GetMesosCommandTargets`.) -/
def distinctIds : List Cmd → Bool
  | [] => true
  | c :: rest => rest.all (fun d => d.id != c.id) && distinctIds rest

def distinctTargets : List Nat → Bool
  | [] => true
  | t :: rest => rest.all (fun u => u != t) && distinctTargets rest

def wfCfg (cmds : List Cmd) : Bool :=
  distinctIds cmds && cmds.all (fun c => distinctTargets c.targets)

end CmdQueue
