/-
  Model/Deadline — WHEN an acknowledgement counts (C02): the response time-out a transition gives its targets.

    core/controlcommands/mesoscommand.go         defaultResponseTimeout, NewMesosCommand          → `newMesosCommand`
                                                 MesosCommandBase.MakeSingleTarget                 → `makeSingleTarget`
    core/task/manager.go                         configureTasks (`cmd.ResponseTimeout = 120 s`),
                                                 transitionTasks / TriggerHooks (constructor's)    → `transitionCommand`
    core/controlcommands/commandqueue.go         commit: `singleCommand := command.MakeSingleTarget(receiver)`;
                                                 `m.servent.RunCommand(singleCommand, receiver)`   → `commitT`
    core/controlcommands/mesoscommandservent.go  RunCommand: `select { case <-call.Done: …
                                                 case <-time.After(cmd.GetResponseTimeout()): … }` → `runCommandT`

  A command carries a response time-out (milliseconds here). The constructor stamps the default; configureTasks raises
  CONFIGURE's ("we need more time for the tasks to configure"). What is SENT to a target and WAITED for is not the
  command but the per-target copy made by MakeSingleTarget, and RunCommand arms its timer with the COPY's time-out: an
  answer counts iff it arrives before the copy's time-out. `DlCfg.copyInherits` says whether the copy carries the
  command's time-out (the code: `ResponseTimeout: m.ResponseTimeout`) or the constructor's default (not the code: the
  variant the refutation theorems are about).

  `TOutcome` = what a task does with a command and after how long; `settle` reduces it to the untimed `Outcome` of
  Model/Transition (an answer that comes too late is no answer: the target counts as silent), and everything else —
  classification, bodies, the API, scenarios — is Model/Transition on the settled outcomes (`commitT_eq_commit`).
  A delay EQUAL to the time-out is a race of the two `select` cases in the code; the model counts it as too late and the
  harness never takes a verdict from such a run.
-/
import ControlModel.Model.Transition
import ControlModel.Model.DeployAttempts

namespace Trans
open EnvM

/-- The three places that decide which time-out a target is waited for with (milliseconds). -/
structure DlCfg where
  dflt : Nat            -- `defaultResponseTimeout`, stamped by `NewMesosCommand`
  configure : Nat       -- `configureTasks`: `cmd.ResponseTimeout = …` on the CONFIGURE command
  copyInherits : Bool   -- `MakeSingleTarget`: the per-target copy carries the command's `ResponseTimeout`
  deriving DecidableEq, Repr

/-- The code as it is: 90 s, CONFIGURE 120 s, the copy inherits. -/
def DlCfg.code : DlCfg := ⟨90000, 120000, true⟩
/-- NOT the code: the per-target copy is built by the constructor and so carries the default. -/
def DlCfg.defaultCopy : DlCfg := ⟨90000, 120000, false⟩

/-- A MesosCommand, as far as its time-out goes. -/
structure Command where
  timeout : Nat
  deriving DecidableEq, Repr

/-- `NewMesosCommand` (and the wrappers `NewMesosCommand_Transition`, `NewMesosCommand_TriggerHook`). -/
def newMesosCommand (dc : DlCfg) : Command := ⟨dc.dflt⟩

/-- The command a transition's body enqueues: `configureTasks` overrides the time-out, `transitionTasks` (START / STOP /
    RESET) does not. -/
def transitionCommand (dc : DlCfg) : Ev → Command
  | .CONFIGURE => { newMesosCommand dc with timeout := dc.configure }
  | _ => newMesosCommand dc

/-- `MesosCommandBase.MakeSingleTarget`: the copy for one receiver. -/
def makeSingleTarget (dc : DlCfg) (c : Command) : Command :=
  if dc.copyInherits then ⟨c.timeout⟩ else newMesosCommand dc

/-- The time-out every target of the transition `e` is actually waited for with. -/
def targetDeadline (dc : DlCfg) (e : Ev) : Nat := (makeSingleTarget dc (transitionCommand dc e)).timeout

/-- What a commanded task does, and how long after the command it does it (ms). -/
structure TOutcome where
  base : Outcome
  delay : Nat := 0
  deriving DecidableEq, Repr, Inhabited

/-- `Servent.RunCommand` on the per-target command with time-out `tmo`: a reply that is there before the timer fires is
    returned, otherwise the call times out (the reply that comes later finds no pending call and is dropped). A send
    error comes back at once. -/
def runCommandT (tmo : Nat) (o : TOutcome) : Reply :=
  match o.base with
  | .ok => if o.delay < tmo then .response false else .timedOut
  | .errorReplyStaySrc => if o.delay < tmo then .response true else .timedOut
  | .errorReplyToError => if o.delay < tmo then .response true else .timedOut
  | .undeliverable => .sendError
  | .silent => .timedOut
  | .dies => .timedOut

/-- `CommandQueue.commit` with time: per target the copy is made, sent and waited for with ITS time-out. -/
def commitT (dc : DlCfg) (c : Command) (ts : List (Bool × TOutcome)) : List (Bool × Bool) :=
  ts.map (fun t => (t.1, entryErr (runCommandT (makeSingleTarget dc c).timeout t.2)))

/-- The untimed outcome a timed one amounts to under the time-out `dl`: an answer that is not there in time is none. -/
def TOutcome.settle (dl : Nat) (o : TOutcome) : Outcome :=
  if o.base.replies && !decide (o.delay < dl) then .silent else o.base

/-- The target acknowledged within `dl`. -/
def TOutcome.ackedWithin (dl : Nat) (o : TOutcome) : Bool := o.base = .ok && decide (o.delay < dl)

def settleOuts (dl : Nat) (os : List TOutcome) : List Outcome := os.map (TOutcome.settle dl)

/-- The body of a transition on timed targets. -/
def bodyForT (dc : DlCfg) (cfg : Cfg) (e : Ev) (ts : List (Bool × TOutcome)) : BodyRes :=
  bodyFor cfg e (ts.map (fun t => (t.1, t.2.settle (targetDeadline dc e))))

/-! ### scenarios with timed outcomes -/

inductive TStep where
  | ctl (e : Ev) (outs : List TOutcome) (watcherFirst : Bool) (ls : List (Option Loss))
  | die (outs : List Outcome)
  deriving Repr

/-- A step with its outcomes settled by the time-out `dl` allows its event. -/
def TStep.settle (dl : Ev → Nat) : TStep → SStep
  | .ctl e outs w ls => .ctl e (settleOuts (dl e) outs) w ls
  | .die outs => .die outs

structure TScenario where
  wf : Workflow
  configure : List TOutcome     -- the CONFIGURE inside NewEnvironment
  steps : List TStep
  deriving Repr

def TScenario.settle (dl : Ev → Nat) (sc : TScenario) : Scenario :=
  { wf := sc.wf, configure := settleOuts (dl .CONFIGURE) sc.configure, steps := sc.steps.map (TStep.settle dl) }

/-- The same with scripted offers rounds (Model/DeployAttempts). -/
structure OTScenario where
  wf : OWorkflow
  configure : List TOutcome
  steps : List TStep
  deriving Repr

def OTScenario.settle (dl : Ev → Nat) (sc : OTScenario) : OScenario :=
  { wf := sc.wf, configure := settleOuts (dl .CONFIGURE) sc.configure, steps := sc.steps.map (TStep.settle dl) }

/-- An observed request together with the time-out each commanded target was given (parallel to `obs.cmd`; read off
    the MESSAGE the master saw: the per-target command is sent with its `ResponseTimeout`). -/
structure TObs where
  obs : Obs
  dl : List Nat
  deriving DecidableEq, Repr

/-- The event whose command a request's body sends (NewEnvironment: the CONFIGURE after DEPLOY). -/
def Obs.commandEv (o : Obs) : Ev := o.ev.getD .CONFIGURE

/-- The time-outs the model's command queue gives the targets of each request. -/
def withDeadlines (dc : DlCfg) (os : List Obs) : List TObs :=
  os.map (fun o => { obs := o, dl := o.cmd.map (fun _ => targetDeadline dc o.commandEv) })

/-- A timed scenario: the outcomes are settled by the time-outs the code gives, the rest is `run`. -/
def runT (dc : DlCfg) (cfg : Cfg) (sc : TScenario) : List TObs :=
  withDeadlines dc (run cfg (sc.settle (targetDeadline dc)))

def runOT (dc : DlCfg) (acfg : AcqCfg) (cfg : Cfg) (sc : OTScenario) : List TObs :=
  withDeadlines dc (runO acfg cfg (sc.settle (targetDeadline dc)))

/-- The commanded tasks with their timed outcomes (`targets` with time). -/
def targetsT (ps : List (Task × TOutcome)) : List (Bool × TOutcome) :=
  (ps.filter (fun p => p.1.active)).map (fun p => (p.1.critical, p.2))

/-! ### the untimed scenarios inside the timed ones: every answer comes at once -/

def Outcome.timed (o : Outcome) : TOutcome := ⟨o, 0⟩

def SStep.timed : SStep → TStep
  | .ctl e outs w ls => .ctl e (outs.map Outcome.timed) w ls
  | .die outs => .die outs

def Scenario.timed (sc : Scenario) : TScenario :=
  { wf := sc.wf, configure := sc.configure.map Outcome.timed, steps := sc.steps.map SStep.timed }

end Trans
