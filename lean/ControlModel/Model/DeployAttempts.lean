/-
  Model/DeployAttempts — the task side of DEPLOY when the offers come late (C02).

    core/task/manager.go    Manager.acquireTasks, DEPLOYMENT_ATTEMPTS_LOOP              → `acquireLoop`, `acquire`
    core/task/scheduler.go  resourceOffers (one offers round = one deployment attempt)  → `roundOutcome`
    core/task/schedulerstate.go  MAX_ATTEMPTS_PER_DEPLOY_REQUEST                        → `attemptLimit`

  acquireTasks hands the WHOLE list of descriptors to the scheduler, revives offers and waits for the verdict of the
  next offers round; "a retry should only be necessary if the Mesos master has not been able to provide the resources we
  need in the offers round immediately after reviving". Every role of the scenarios is constrained to one machine
  (`machine_id`), as the roles of the production workflows are. For such descriptors resourceOffers first looks for the
  offer of the required machine: a descriptor whose machine has no offer in this round is *undeployable*, and if there
  is any undeployable descriptor the round is abandoned before a single task is launched
  (`if len(descriptorsUndeployable) == 0 { // we still have hope to deploy something`). Otherwise every descriptor is
  launched on its machine (the agents of the scenarios have room for all of them).

  acquireTasks judges the attempt: it is a failure iff a CRITICAL descriptor is among the undeployed / undeployable ones.
  A failed attempt is followed by a pause and the next attempt, up to the limit; the first attempt that is not a failure
  ends the loop — also when it launched nothing because the machine of a NON-critical descriptor was missing (the roles
  then stay without tasks and DEPLOY runs into deploy_timeout: finding deploy_noncritical_blocks). After the last failed
  attempt the critical undeployable roles are marked UNDEPLOYABLE, which makes DEPLOY give up at once.

  The verdict of a round reaches acquireTasks through a channel that acquireTasks makes afresh for every attempt and on
  which resourceOffers sends exactly once, WITHOUT blocking (`select { case outcomeCh <- …: default: }`). Whether
  acquireTasks has got from "offers revived" to its receive when that send is tried is up to the scheduler of the Go
  runtime: an environment choice of the scenarios, `OWorkflow.notListening = some k` — the round of attempt k is over
  first (seen on the real core under load, mostly on rounds that are abandoned at once). What follows from it depends on
  the channel (`trySend`): it has room for the one verdict it ever carries (`AcqCfg.outcomeCap = 1`, the code as it is
  since `fix: acquireTasks cannot miss the verdict of its offers round`), so the send succeeds either way and the choice
  makes no difference (`C02_verdict_always_heard`, `C02_listening_irrelevant_code`). With the unbuffered channel of the
  code as it was (`AcqCfg.legacy`, capacity 0) the verdict was dropped and acquireTasks waited for ever, holding the
  deployment mutex (the former finding deploy_verdict_lost: `acquireLost`, `C02_finding_deploy_verdict_lost`).

  `AcqCfg.resetPerAttempt` is the statement `deploymentSuccess = true` at the head of the loop body: with it (the code)
  the verdict on an attempt depends on that attempt alone; without it the flag is sticky and a failed first attempt
  condemns every later one (`AcqCfg.sticky`, not the code: see `C02_retry_needs_reset`).
-/
import ControlModel.Model.Transition

namespace Trans

/-- `MAX_ATTEMPTS_PER_DEPLOY_REQUEST` (tied to the source by `C02_attempt_loop_is_code`). -/
def attemptLimit : Nat := 3

/-- A task descriptor as the attempt loop sees it. -/
structure Desc where
  critical : Bool
  host : Option Nat      -- the machine its role is constrained to; none: no agent has that machine id
  deriving DecidableEq, Repr

/-- One offers round: the hosts whose offer is MISSING from it. -/
abbrev Round := List Nat

/-- The round carries an offer of the descriptor's machine. -/
def Desc.offered (r : Round) (d : Desc) : Bool :=
  match d.host with
  | some h => !r.contains h
  | none => false

/-- Every descriptor finds the offer of its machine. -/
def complete (ds : List Desc) (r : Round) : Bool := ds.all (·.offered r)

/-- A critical descriptor does not find the offer of its machine. -/
def critMissing (ds : List Desc) (r : Round) : Bool := ds.any (fun d => d.critical && !d.offered r)

/-- `ResourceOffersOutcome` (indices into the descriptor list; `undeployed` is always empty for machine-bound descriptors). -/
structure RoundOutcome where
  deployed : List Nat
  undeployable : List Nat
  deriving DecidableEq, Repr

/-- resourceOffers on one round: the descriptors without an offer of their machine are undeployable; if there is one,
    nothing at all is launched; otherwise everything is. -/
def roundOutcome (ds : List Desc) (r : Round) : RoundOutcome :=
  let und := ((indexed ds).filter (fun p => !p.2.offered r)).map (·.1)
  if und.isEmpty then { deployed := List.range ds.length, undeployable := [] }
  else { deployed := [], undeployable := und }

/-- The critical trait of descriptor `i`. -/
def critAt (ds : List Desc) (i : Nat) : Bool :=
  match ds[i]? with
  | some d => d.critical
  | none => false

/-- acquireTasks' verdict on one attempt: `if len(deployedTasks) != len(tasksToRun)` the undeployed and undeployable
    descriptors are looked through and a critical one makes `deploymentSuccess = false`. -/
def attemptVerdict (ds : List Desc) (o : RoundOutcome) : Bool :=
  if o.deployed.length ≠ ds.length then !(o.undeployable.any (critAt ds)) else true

structure AcqCfg where
  maxAttempts : Nat
  resetPerAttempt : Bool     -- `deploymentSuccess = true` in the "reset all variable before try" block
  outcomeCap : Nat           -- capacity of the channel made per attempt for the round's verdict (`make(chan ResourceOffersOutcome, 1)`)
  deriving DecidableEq, Repr

/-- The code as it is (the three components are tied to the source by `C02_attempt_loop_is_code` and
    `C02_verdict_channel_is_code`). -/
def AcqCfg.code : AcqCfg := ⟨attemptLimit, true, 1⟩
/-- The code as it was before `fix: acquireTasks cannot miss the verdict of its offers round`: the channel was unbuffered. -/
def AcqCfg.legacy : AcqCfg := ⟨attemptLimit, true, 0⟩
/-- NOT the code: the verdict flag is never reset, one failed attempt condemns all later ones. -/
def AcqCfg.sticky : AcqCfg := ⟨attemptLimit, false, 1⟩

/-- A non-blocking send (`select { case ch <- v: default: }`) on a channel of capacity `cap` that holds `buffered` values:
    it goes through iff a receiver is waiting or the buffer has room; otherwise the value is dropped. -/
def trySend (cap buffered : Nat) (listening : Bool) : Bool := listening || decide (buffered < cap)

/-- The verdict of a round reaches acquireTasks. The channel is made afresh for every attempt and resourceOffers sends on
    it once (go/ast: `C02_verdict_channel_is_code`), so it is empty when the send is tried; `listening`: acquireTasks is
    at its receive by then. -/
def AcqCfg.heard (cfg : AcqCfg) (listening : Bool) : Bool := trySend cfg.outcomeCap 0 listening

/-- What acquireTasks leaves behind. -/
structure Acquired where
  attempts : List (List Nat)   -- the tasks launched in each attempt made, in order
  ok : Bool                    -- `deploymentSuccess` after the loop: acquireTasks returns no error
  kept : List Nat              -- descriptors whose role holds a task afterwards (`SetParent` / `SetTask`)
  marked : List Nat            -- critical descriptors whose role is marked UNDEPLOYABLE
  deriving DecidableEq, Repr

/-- DEPLOYMENT_ATTEMPTS_LOOP with `n` attempts left and the flag as the previous attempt left it. The tasks of an attempt
    that is neither successful nor the last are forgotten (`deployedTasks = make(DeploymentMap)`); those of a failed last
    attempt are detached (`SetParent(nil)`) — either way no role holds them. -/
def acquireLoop (cfg : AcqCfg) (ds : List Desc) : Nat → Bool → List Round → Acquired
  | 0, flag, _ => { attempts := [], ok := flag, kept := [], marked := [] }
  | n + 1, flag, rs =>
    let o := roundOutcome ds (rs.headD [])
    let f := (if cfg.resetPerAttempt then true else flag) && attemptVerdict ds o
    if f || n == 0 then
      { attempts := [o.deployed], ok := f, kept := if f then o.deployed else [],
        marked := o.undeployable.filter (critAt ds) }
    else
      let a := acquireLoop cfg ds n f rs.tail
      { a with attempts := o.deployed :: a.attempts }

/-- `Manager.acquireTasks` as DEPLOY uses it (`if len(taskDescriptors) != 0`: with no descriptor it is not called). -/
def acquire (cfg : AcqCfg) (ds : List Desc) (rs : List Round) : Acquired :=
  if ds.isEmpty then { attempts := [], ok := true, kept := [], marked := [] }
  else acquireLoop cfg ds cfg.maxAttempts true rs

/-- What the launch of descriptor `i` amounts to for the DEPLOY wait: its script if its role got a task; UNDEPLOYABLE
    (`nohost` of a critical task) if it was marked; otherwise the role just stays INACTIVE. -/
def effLaunch (a : Acquired) (i : Nat) (l : Launch) : Launch :=
  if a.kept.contains i then l else if a.marked.contains i then .nohost else .silent

/-- A task of a scenario with scripted offers rounds. -/
structure OTask where
  critical : Bool
  launch : Launch      -- what the task does once launched (`nohost`: its role names a machine no agent has)
  host : Nat
  deriving DecidableEq, Repr

structure OWorkflow where
  calls : Nat
  tasks : List OTask
  rounds : List Round          -- the offers rounds after REVIVE, in order; rounds beyond the list are complete
  notifyLost : Bool := false
  notListening : Option Nat := none  -- the round of this attempt (0 = the first) is over before acquireTasks is at its
                                     -- receive: the hand-over of its verdict finds no receiver
  deriving Repr

def OTask.desc (t : OTask) : Desc := { critical := t.critical, host := if t.launch = .nohost then none else some t.host }

def OWorkflow.descs (w : OWorkflow) : List Desc := w.tasks.map OTask.desc

/-- The workflow as the DEPLOY wait sees it after acquireTasks. -/
def OWorkflow.eff (w : OWorkflow) (a : Acquired) : Workflow :=
  { calls := w.calls, tasks := (indexed w.tasks).map (fun p => (p.2.critical, effLaunch a p.1 p.2.launch)),
    notifyLost := w.notifyLost }

structure OScenario where
  wf : OWorkflow
  configure : List Outcome
  steps : List SStep
  deriving Repr

/-- acquireTasks when the verdict of attempt `k` is dropped: up to and including that attempt everything goes as ever
    (the tasks of attempt `k` are launched), then acquireTasks waits for ever — it neither gives roles their tasks nor
    marks anything nor tries again. If the loop ends before attempt `k`, nothing is lost. -/
def acquireLost (acfg : AcqCfg) (ds : List Desc) (rs : List Round) (k : Nat) : Acquired :=
  let a := acquire acfg ds rs
  if k < a.attempts.length then { attempts := a.attempts.take (k + 1), ok := false, kept := [], marked := [] } else a

/-- The attempt whose verdict is dropped, if any: the one that finds no receiver, when the channel has no room either. -/
def OWorkflow.dropped (w : OWorkflow) (acfg : AcqCfg) : Option Nat :=
  match w.notListening with
  | none => none
  | some k => if acfg.heard false then none else some k

/-- acquireTasks in the environment of the workflow. -/
def OWorkflow.acquired (w : OWorkflow) (acfg : AcqCfg) : Acquired :=
  match w.dropped acfg with
  | none => acquire acfg w.descs w.rounds
  | some k => acquireLost acfg w.descs w.rounds k

/-- acquireTasks is still waiting for a verdict. -/
def OWorkflow.hung (w : OWorkflow) (acfg : AcqCfg) : Bool :=
  match w.dropped acfg with
  | none => false
  | some k => decide (k < (acquire acfg w.descs w.rounds).attempts.length)

/-- A scenario with scripted offers rounds: acquireTasks first, then everything as in `run` on what it left behind;
    the attempts are part of the observation of NewEnvironment. -/
def runO (acfg : AcqCfg) (cfg : Cfg) (sc : OScenario) : List Obs :=
  let a := sc.wf.acquired acfg
  match run cfg { wf := sc.wf.eff a, configure := sc.configure, steps := sc.steps } with
  | [] => []
  | o :: os => { o with att := some a.attempts, verdictLost := sc.wf.hung acfg } :: os

end Trans
