/-
  Model/Env — the environment state machine with its workflow hooks
  (C01 C08 C09 C10; env half of C02 C03 C06).

  Mirrors core/environment/environment.go:
    * the fsm.FSM built in newEnvironment (looplab/fsm v1.0.1 `Event` semantics:
      before_event → leave_state (+ the task-level body via handlerFunc) →
      set dst → enter_state → after_event; `Cancel` in before/leave aborts),
    * the bookkeeping inside the four callbacks (run number, the four run
      timestamps, last_run_number),
    * handleHooks (per weight: start calls, await pending calls, run task hooks,
      stop at the first weight with a critical failure),
    * TryTransition, the ControlEnvironment glue of core/server.go
      (failed transition ⇒ GO_ERROR ⇒ forced ERROR unless the environment is DONE), and
      environment.Manager.TeardownEnvironment.

  Everything is a total function; the outcome of each hook execution and of each
  task-level body is part of the input (oracle). Time is a logical clock that
  ticks at every `time.Now()` whose value is stored.
-/
import ControlModel.Basic

namespace EnvM

inductive St where
  | STANDBY | DEPLOYED | CONFIGURED | RUNNING | ERROR | DONE
  deriving DecidableEq, Repr, Inhabited

inductive Ev where
  | DEPLOY | CONFIGURE | RESET | START_ACTIVITY | STOP_ACTIVITY | EXIT | GO_ERROR | RECOVER
  deriving DecidableEq, Repr, Inhabited

def St.name : St → String
  | .STANDBY => "STANDBY" | .DEPLOYED => "DEPLOYED" | .CONFIGURED => "CONFIGURED"
  | .RUNNING => "RUNNING" | .ERROR => "ERROR" | .DONE => "DONE"

def St.all : List St := [.STANDBY, .DEPLOYED, .CONFIGURED, .RUNNING, .ERROR, .DONE]

def Ev.name : Ev → String
  | .DEPLOY => "DEPLOY" | .CONFIGURE => "CONFIGURE" | .RESET => "RESET"
  | .START_ACTIVITY => "START_ACTIVITY" | .STOP_ACTIVITY => "STOP_ACTIVITY"
  | .EXIT => "EXIT" | .GO_ERROR => "GO_ERROR" | .RECOVER => "RECOVER"

def Ev.all : List Ev :=
  [.DEPLOY, .CONFIGURE, .RESET, .START_ACTIVITY, .STOP_ACTIVITY, .EXIT, .GO_ERROR, .RECOVER]

def St.parse? (s : String) : Option St := St.all.find? (fun x => x.name == s)
def Ev.parse? (s : String) : Option Ev := Ev.all.find? (fun x => x.name == s)

/-- The transition table of the FSM built in `newEnvironment`. -/
def dst? : Ev → St → Option St
  | .DEPLOY, .STANDBY => some .DEPLOYED
  | .CONFIGURE, .DEPLOYED => some .CONFIGURED
  | .RESET, .CONFIGURED => some .DEPLOYED
  | .START_ACTIVITY, .CONFIGURED => some .RUNNING
  | .STOP_ACTIVITY, .RUNNING => some .CONFIGURED
  | .EXIT, .CONFIGURED => some .DONE
  | .EXIT, .DEPLOYED => some .DONE
  | .EXIT, .STANDBY => some .DONE
  | .GO_ERROR, .STANDBY => some .ERROR
  | .GO_ERROR, .CONFIGURED => some .ERROR
  | .GO_ERROR, .DEPLOYED => some .ERROR
  | .GO_ERROR, .RUNNING => some .ERROR
  | .RECOVER, .ERROR => some .DEPLOYED
  | _, _ => none

/-- Trigger / await moments. `never n` stands for a trigger string that no
    transition ever fires. -/
inductive Moment where
  | before (e : Ev) | leave (s : St) | enter (s : St) | after (e : Ev)
  | destroy | afterDestroy | never (n : Nat)
  deriving DecidableEq, Repr, Inhabited

def Moment.name : Moment → String
  | .before e => "before_" ++ e.name
  | .leave s => "leave_" ++ s.name
  | .enter s => "enter_" ++ s.name
  | .after e => "after_" ++ e.name
  | .destroy => "DESTROY"
  | .afterDestroy => "after_DESTROY"
  | .never n => "never_" ++ toString n

structure Hook where
  id : Nat
  isTask : Bool
  critical : Bool
  trig : Moment
  tw : Int
  await : Moment
  aw : Int
  /-- outcome of the k-th execution: `true` = fails; beyond the list: succeeds -/
  outcomes : List Bool
  deriving Repr, Inhabited

/-- A run timestamp variable: not in the map, present but "", or set. -/
inductive TV where
  | absent | empty | val (t : Nat)
  deriving DecidableEq, Repr, Inhabited

structure Vars where
  rnVar : Option Nat := none        -- workflow var `run_number`
  lastRn : Option Nat := none       -- workflow var `last_run_number`
  sosor : TV := .absent             -- run_start_time_ms
  eosor : TV := .absent             -- run_start_completion_time_ms
  soeor : TV := .absent             -- run_end_time_ms
  eoeor : TV := .absent             -- run_end_completion_time_ms
  deriving DecidableEq, Repr, Inhabited

/-- One execution of a hook: which hook, its execution index, whether it fails,
    whether it is critical, and the variables its call stack was built from. -/
structure Inst where
  hook : Nat
  k : Nat
  fails : Bool
  critical : Bool
  snap : Vars
  st : St
  deriving Repr, Inhabited

structure Env where
  st : St := .STANDBY
  rn : Nat := 0                                 -- currentRunNumber
  vars : Vars := {}
  pending : List ((Moment × Int) × List Inst) := []   -- callsPendingAwait
  cancelled : List Inst := []                   -- cancelled at teardown
  clock : Nat := 0
  counter : Nat := 0                            -- the run counter store
  execs : List (Nat × Nat) := []                -- hook id ↦ executions so far
  gone : Bool := false                          -- removed from the manager's listing
  deriving Repr, Inhabited

inductive RunStatus where | started | doneOk | doneError deriving DecidableEq, Repr

/-- Main-flow steps in program order. -/
inductive Step where
  | mark (name : String) (fin : Bool)            -- "transition step starting/finished"
  | start (m : Moment) (w : Int) (is : List Inst)
  | await (m : Moment) (w : Int) (is : List Inst)
  | tasks (m : Moment) (w : Int) (is : List Inst)
  | callSync (m : Moment) (w : Int) (i : Inst)   -- DESTROY hooks: Calls.CallAll
  | body (e : Ev) (ok : Bool)
  | setState (s : St)
  | rnSet (n : Nat)
  | rnCleared
  | tsSet (which : Nat) (t : Nat)                -- 0 sosor 1 eosor 2 soeor 3 eoeor
  | tsCleared                                    -- the three later stamps reset to ""
  | runEvent (tr : String) (status : RunStatus) (rn : Nat) (t : Nat)
  | release (nTasks : Nat) (ok : Bool)
  | cancel (is : List Inst)
  deriving Repr

inductive Result where
  | ok
  | illegal                               -- event inappropriate in current state
  | cancelledHooks (n : Nat) (m : Moment) -- n critical hooks failed at before_/leave_
  | cancelledBody
  | cancelledRn
  | reported (errs : List (Nat × Moment)) -- enter_/after_ failures: state already changed
  | teardownRefused
  | releaseFailed
  | notFound                              -- the API no longer lists the environment
  deriving Repr, DecidableEq, Inhabited

def Result.isOk : Result → Bool
  | .ok => true
  | _ => false

/-! ### handleHooks -/

def execCount (env : Env) (id : Nat) : Nat := (Assoc.get env.execs id).getD 0

def mkInst (env : Env) (h : Hook) : Inst :=
  let k := execCount env h.id
  { hook := h.id, k := k, fails := h.outcomes.getD k false, critical := h.critical, snap := env.vars, st := env.st }

def bumpExec (env : Env) (id : Nat) : Env :=
  { env with execs := Assoc.set env.execs id (execCount env id + 1) }

/-- Instantiate the given hooks in order, bumping their execution counters. -/
def instantiate (env : Env) : List Hook → Env × List Inst
  | [] => (env, [])
  | h :: hs =>
    let i := mkInst env h
    let r := instantiate (bumpExec env h.id) hs
    (r.1, i :: r.2)

def pendingAt (env : Env) (m : Moment) (w : Int) : List Inst :=
  (env.pending.find? (fun p => p.1.1 = m ∧ p.1.2 = w)).map (·.2) |>.getD []

def addPending (pend : List ((Moment × Int) × List Inst)) (m : Moment) (w : Int) (i : Inst) :
    List ((Moment × Int) × List Inst) :=
  match pend with
  | [] => [((m, w), [i])]
  | p :: ps => if p.1.1 = m ∧ p.1.2 = w then (p.1, p.2 ++ [i]) :: ps else p :: addPending ps m w i

def removePending (pend : List ((Moment × Int) × List Inst)) (m : Moment) (w : Int) :
    List ((Moment × Int) × List Inst) :=
  pend.filter (fun p => ¬ (p.1.1 = m ∧ p.1.2 = w))

/-- Register each started call under its await expression. -/
def registerAwaits (pend : List ((Moment × Int) × List Inst)) : List (Hook × Inst) → List ((Moment × Int) × List Inst)
  | [] => pend
  | (h, i) :: rest => registerAwaits (addPending pend h.await h.aw i) rest

def insertSorted (w : Int) : List Int → List Int
  | [] => [w]
  | x :: xs => if w < x then w :: x :: xs else if w = x then x :: xs else x :: insertSorted w xs

def sortDedup (ws : List Int) : List Int := ws.foldl (fun acc w => insertSorted w acc) []

/-- Phase 1 of one weight: start the call hooks triggered at (m, w) and register each
    under its await expression. Returns the environment and the started instances. -/
def phase1 (env : Env) (hooks : List Hook) (m : Moment) (w : Int) : Env × List Inst :=
  let calls := (hooks.filter (fun h => h.trig = m ∧ h.tw = w)).filter (fun h => !h.isTask)
  let r1 := instantiate env calls
  ({ r1.1 with pending := registerAwaits r1.1.pending (calls.zip r1.2) }, r1.2)

/-- Phase 2: collect whatever is pending at (m, w). -/
def phase2 (env : Env) (m : Moment) (w : Int) : Env × List Inst :=
  let awaited := pendingAt env m w
  (if awaited.isEmpty then env else { env with pending := removePending env.pending m w }, awaited)

/-- The call was cancelled by a teardown (`Manager.cancelCallsPendingAwait`): its goroutine has dropped
    the result and closed the await channel, so a later `Await` reads nil — whatever the call returned. -/
def isCancelled (env : Env) (i : Inst) : Bool := env.cancelled.any (fun c => c.hook == i.hook && c.k == i.k)

/-- One weight of handleHooks: phases 1–4. Returns the new env, the steps and
    the number of critical failures at this weight. A call that a teardown cancelled (the teardown then
    failed to release its tasks, so the environment lives on and still lists the call) is collected as a
    success. -/
def handleWeight (env : Env) (hooks : List Hook) (m : Moment) (w : Int) : Env × List Step × Nat :=
  let tasks := (hooks.filter (fun h => h.trig = m ∧ h.tw = w)).filter (fun h => h.isTask)
  let p1 := phase1 env hooks m w
  let s1 := if p1.2.isEmpty then [] else [Step.start m w p1.2]
  let p2 := phase2 p1.1 m w
  let s2 := if p2.2.isEmpty then [] else [Step.await m w p2.2]
  -- phase 3
  let r3 := instantiate p2.1 tasks
  let s3 := if tasks.isEmpty then [] else [Step.tasks m w r3.2]
  -- phase 4
  let crit := ((p2.2.filter (fun i => !isCancelled env i) ++ r3.2).filter (fun i => i.fails && i.critical)).length
  (r3.1, s1 ++ s2 ++ s3, crit)

def handleWeights (env : Env) (hooks : List Hook) (m : Moment) : List Int → Env × List Step × Nat
  | [] => (env, [], 0)
  | w :: ws =>
    let r := handleWeight env hooks m w
    if r.2.2 > 0 then r
    else
      let r' := handleWeights r.1 hooks m ws
      (r'.1, r.2.1 ++ r'.2.1, r'.2.2)

/-- The weights handleHooks visits — computed BEFORE anything is started: those of hooks triggered at `m`,
    those at which a call triggered at `m` declares its await when the await names `m` itself (since
    "fix: handleHooks visits the await weight of a call it starts at the same trigger": a call started in this
    pass is collected in this pass; as it was: `weightsForLegacy`, Model/EnvLegacy.lean), and those of calls
    already pending an await at `m` — filtered by the pass predicate, ascending. -/
def weightsFor (env : Env) (hooks : List Hook) (m : Moment) (pred : Int → Bool) : List Int :=
  let hw := (hooks.filter (fun h => h.trig = m)).map (·.tw)
  let aw := (hooks.filter (fun h => h.trig = m ∧ !h.isTask ∧ h.await = m)).map (·.aw)
  let pw := (env.pending.filter (fun p => p.1.1 = m ∧ !p.2.isEmpty)).map (·.1.2)
  (sortDedup (hw ++ aw ++ pw)).filter pred

def handleHooks (env : Env) (hooks : List Hook) (m : Moment) (pred : Int → Bool) : Env × List Step × Nat :=
  handleWeights env hooks m (weightsFor env hooks m pred)

def negW (w : Int) : Bool := decide (w < 0)
def posW (w : Int) : Bool := decide (w ≥ 0)
def allW (_ : Int) : Bool := true

/-! ### bookkeeping -/

def tick (env : Env) : Env × Nat := ({ env with clock := env.clock + 1 }, env.clock + 1)

/-- `endTime, ok := Get("run_end_time_ms"); if ok && endTime == ""` -/
def TV.isEmpty : TV → Bool
  | .empty => true
  | _ => false

/-- Set run_end_time_ms if it is present and empty; optionally publish a run event. -/
def setSoeorIfEmpty (env : Env) (tr : String) (publish : Bool) : Env × List Step :=
  if env.vars.soeor.isEmpty then
    let (env, t) := tick env
    ({ env with vars := { env.vars with soeor := .val t } },
      [Step.tsSet 2 t] ++ (if publish then [Step.runEvent tr .started env.rn t] else []))
  else (env, [])

def setEoeorIfEmpty (env : Env) (tr : String) (status : RunStatus) : Env × List Step :=
  if env.vars.eoeor.isEmpty then
    let (env, t) := tick env
    ({ env with vars := { env.vars with eoeor := .val t } },
      [Step.tsSet 3 t, Step.runEvent tr status env.rn t])
  else (env, [])

/-! ### Sm.Event -/

/-- The bookkeeping `before_event` does between its two hook passes. The Bool says
    that acquiring the run number failed (START_ACTIVITY only). -/
def bkBefore (env : Env) (e : Ev) (rnFail : Bool) : Env × List Step × Bool :=
  match e with
  | .START_ACTIVITY =>
    if rnFail then (env, [], true)
    else
      let n := env.counter + 1
      let (env, t) := tick { env with counter := n, rn := n }
      ({ env with vars := { env.vars with rnVar := some n, sosor := .val t, eosor := .empty, soeor := .empty, eoeor := .empty } },
        [Step.rnSet n, Step.tsSet 0 t, Step.tsCleared, Step.runEvent e.name .started n t], false)
  | .STOP_ACTIVITY => let r := setSoeorIfEmpty env e.name true; (r.1, r.2, false)
  | .GO_ERROR => let r := setSoeorIfEmpty env e.name true; (r.1, r.2, false)
  | _ => (env, [], false)

/-- `before_event`. Returns env, steps, and `none` if the event goes on or the
    reason it was cancelled. -/
def beforeEvent (env : Env) (hooks : List Hook) (e : Ev) (rnFail : Bool) : Env × List Step × Option Result :=
  let m := Moment.before e
  let r1 := handleHooks env hooks m negW
  if r1.2.2 > 0 then
    (r1.1, [Step.mark m.name false] ++ r1.2.1 ++ [Step.mark m.name true], some (.cancelledHooks r1.2.2 m))
  else
    let bk := bkBefore r1.1 e rnFail
    if bk.2.2 then
      (bk.1, [Step.mark m.name false] ++ r1.2.1, some .cancelledRn)
    else
      let r2 := handleHooks bk.1 hooks m posW
      (r2.1, [Step.mark m.name false] ++ r1.2.1 ++ bk.2.1 ++ r2.2.1 ++ [Step.mark m.name true],
        if r2.2.2 > 0 then some (.cancelledHooks r2.2.2 m) else none)

/-- `leave_state`, including the task-level body run by handlerFunc. -/
def leaveState (env : Env) (hooks : List Hook) (e : Ev) (bodyOk : Bool) : Env × List Step × Option Result :=
  let src := env.st
  let m := Moment.leave src
  let r1 := handleHooks env hooks m negW
  let bk := if src = .RUNNING then setSoeorIfEmpty r1.1 e.name false else (r1.1, [])
  if r1.2.2 > 0 then
    (bk.1, [Step.mark m.name false] ++ r1.2.1 ++ bk.2 ++ [Step.mark m.name true], some (.cancelledHooks r1.2.2 m))
  else
    let r2 := handleHooks bk.1 hooks m posW
    let pre := [Step.mark m.name false] ++ r1.2.1 ++ bk.2 ++ r2.2.1 ++ [Step.mark m.name true]
    if r2.2.2 > 0 then (r2.1, pre, some (.cancelledHooks r2.2.2 m))
    else
      let tname := "tasks_" ++ e.name
      let env := r2.1
      -- a failed START_ACTIVITY body resets currentRunNumber
      let env := if !bodyOk ∧ e = .START_ACTIVITY then { env with rn := 0 } else env
      (env, pre ++ [Step.mark tname false, Step.body e bodyOk, Step.mark tname true],
        if bodyOk then none else some .cancelledBody)

/-- `enter_state`: both passes always run; errors are joined. -/
def enterState (env : Env) (hooks : List Hook) : Env × List Step × List (Nat × Moment) :=
  let m := Moment.enter env.st
  let r1 := handleHooks env hooks m negW
  let r2 := handleHooks r1.1 hooks m posW
  (r2.1, [Step.mark m.name false] ++ r1.2.1 ++ r2.2.1 ++ [Step.mark m.name true],
    (if r1.2.2 > 0 then [(r1.2.2, m)] else []) ++ (if r2.2.2 > 0 then [(r2.2.2, m)] else []))

/-- The bookkeeping `after_event` does between its two hook passes; `failed` = e.Err is set. -/
def bkAfter (env : Env) (e : Ev) (failed : Bool) : Env × List Step :=
  let status := if failed then RunStatus.doneError else RunStatus.doneOk
  match e with
  | .START_ACTIVITY =>
    let (env, t) := tick env
    ({ env with vars := { env.vars with eosor := .val t } }, [Step.tsSet 1 t, Step.runEvent e.name status env.rn t])
  -- guarded like its neighbours since "fix: after_STOP_ACTIVITY stamps run_end_completion_time_ms only if it is
  -- still empty" (the write as it was: `bkAfterLegacy`, Model/EnvLegacy.lean)
  | .STOP_ACTIVITY => setEoeorIfEmpty env e.name status
  | .GO_ERROR => setEoeorIfEmpty env e.name .doneOk
  | _ => (env, [])

/-- What `after_event` does last: after STOP_ACTIVITY the run number is retired. -/
def finAfter (env : Env) (e : Ev) : Env × List Step :=
  if e = .STOP_ACTIVITY then
    ({ env with rn := 0, vars := { env.vars with lastRn := some env.rn, rnVar := none } }, [Step.rnCleared])
  else (env, [])

/-- `after_event`. `errSoFar` = what e.Err holds on entry (enter_state failures).
    Returns what e.Err holds at the end. -/
def afterEvent (env : Env) (hooks : List Hook) (e : Ev) (errSoFar : List (Nat × Moment)) :
    Env × List Step × List (Nat × Moment) :=
  let m := Moment.after e
  let r1 := handleHooks env hooks m negW
  let err1 := if r1.2.2 > 0 then [(r1.2.2, m)] else errSoFar
  let bk := bkAfter r1.1 e (!err1.isEmpty)
  let r2 := handleHooks bk.1 hooks m posW
  let errs := (if r1.2.2 > 0 then [(r1.2.2, m)] else []) ++ (if r2.2.2 > 0 then [(r2.2.2, m)] else [])
  let errFinal := if errs.isEmpty then errSoFar else errs
  let fin := finAfter r2.1 e
  (fin.1, [Step.mark m.name false] ++ r1.2.1 ++ bk.2 ++ r2.2.1 ++ fin.2 ++ [Step.mark m.name true], errFinal)

/-- `env.Sm.Event(e, transition)`. -/
def fsmEvent (env : Env) (hooks : List Hook) (e : Ev) (bodyOk rnFail : Bool) : Env × List Step × Result :=
  match dst? e env.st with
  | none => (env, [], .illegal)
  | some d =>
    let b := beforeEvent env hooks e rnFail
    match b.2.2 with
    | some r => (b.1, b.2.1, r)
    | none =>
      let l := leaveState b.1 hooks e bodyOk
      match l.2.2 with
      | some r => (l.1, b.2.1 ++ l.2.1, r)
      | none =>
        let env := { l.1 with st := d }
        let en := enterState env hooks
        let af := afterEvent en.1 hooks e en.2.2
        (af.1, b.2.1 ++ l.2.1 ++ [Step.setState d] ++ en.2.1 ++ af.2.1,
          if af.2.2.isEmpty then .ok else .reported af.2.2)

/-- `TryTransition` with a non-nil task manager (check() passes). -/
def tryTransition (env : Env) (hooks : List Hook) (e : Ev) (bodyOk rnFail : Bool) : Env × List Step × Result :=
  fsmEvent env hooks e bodyOk rnFail

/-- ControlEnvironment: a failed transition is followed by GO_ERROR, and if that
    fails too the state is forced to ERROR — unless the environment is DONE
    (`goErr != nil && env.CurrentState() != "DONE"`): a finished environment stays
    DONE. The reported result is that of the requested transition. -/
def controlApi (env : Env) (hooks : List Hook) (e : Ev) (bodyOk rnFail : Bool) : Env × List Step × Result :=
  let r := tryTransition env hooks e bodyOk rnFail
  if r.2.2.isOk then r
  else
    let g := tryTransition r.1 hooks .GO_ERROR true false
    -- the real GoErrorTransition body does nothing and is not a scripted (observable) body
    let gs := g.2.1.filter (fun s => match s with | .body .. => false | _ => true)
    if g.2.2.isOk || g.1.st == .DONE then (g.1, r.2.1 ++ gs, r.2.2)
    else ({ g.1 with st := .ERROR }, r.2.1 ++ gs ++ [Step.setState .ERROR], r.2.2)

/-- The glue as it was before the repair "ControlEnvironment does not force ERROR on an
    environment that is DONE": ERROR is forced whenever GO_ERROR is refused, whatever the state
    (finding control_overlaps_teardown). NOT the code as it is; kept so that the former
    refutation stays a true statement about the code as it was. -/
def controlApiLegacy (env : Env) (hooks : List Hook) (e : Ev) (bodyOk rnFail : Bool) : Env × List Step × Result :=
  let r := tryTransition env hooks e bodyOk rnFail
  if r.2.2.isOk then r
  else
    let g := tryTransition r.1 hooks .GO_ERROR true false
    let gs := g.2.1.filter (fun s => match s with | .body .. => false | _ => true)
    if g.2.2.isOk then (g.1, r.2.1 ++ gs, r.2.2)
    else ({ g.1 with st := .ERROR }, r.2.1 ++ gs ++ [Step.setState .ERROR], r.2.2)

/-! ### teardown -/

/-- DESTROY hooks by weight: the map for "DESTROY" overwritten, weight by weight,
    by the map for "after_DESTROY" (`hooksMapForDestroy[k] = v`). -/
def destroyHooksAt (hooks : List Hook) (w : Int) : List Hook × Moment :=
  let a := hooks.filter (fun h => h.trig = .afterDestroy ∧ h.tw = w)
  if a.isEmpty then (hooks.filter (fun h => h.trig = .destroy ∧ h.tw = w), .destroy) else (a, .afterDestroy)

def callAllSync (env : Env) (m : Moment) (w : Int) : List Hook → Env × List Step
  | [] => (env, [])
  | h :: hs =>
    let i := mkInst env h
    let r := callAllSync (bumpExec env h.id) m w hs
    (r.1, Step.callSync m w i :: r.2)

def destroyWeights (env : Env) (hooks : List Hook) : List Int → Env × List Step
  | [] => (env, [])
  | w :: ws =>
    let hm := destroyHooksAt hooks w
    let r := callAllSync env hm.2 w (hm.1.filter (fun h => !h.isTask))
    let r' := destroyWeights r.1 hooks ws
    (r'.1, r.2 ++ r'.2)

def allPending (env : Env) : List Inst := (env.pending.map (·.2)).flatten

/-- `TeardownEnvironment(id, force)`; `relOk1`/`relOk2`: whether the two
    ReleaseTasks rounds report no error. -/
def teardown (env : Env) (hooks : List Hook) (force relOk1 relOk2 : Bool) (nTasks : Nat) : Env × List Step × Result :=
  if env.st = .DONE then (env, [], .teardownRefused)
  else if env.st ≠ .STANDBY ∧ env.st ≠ .DEPLOYED ∧ !force then (env, [], .teardownRefused)
  else
    let h := handleHooks env hooks (.leave env.st) allW
    let env := h.1
    let ts : Env × List Step :=
      if env.st = .RUNNING then
        let a := setSoeorIfEmpty env "TEARDOWN" true
        let b := setEoeorIfEmpty a.1 "TEARDOWN" .started
        (b.1, a.2 ++ b.2)
      else (env, [])
    let env := ts.1
    if !relOk1 then (env, h.2.1 ++ ts.2 ++ [Step.release nTasks false], .releaseFailed)
    else
      let ws := sortDedup ((hooks.filter (fun h => h.trig = .destroy ∨ h.trig = .afterDestroy)).map (·.tw))
      let d := destroyWeights env hooks ws
      let env := d.1
      let cancelled := allPending env
      let env := { env with cancelled := env.cancelled ++ cancelled }
      let pre := h.2.1 ++ ts.2 ++ [Step.release nTasks true] ++ d.2 ++ [Step.cancel cancelled]
      if !relOk2 then (env, pre ++ [Step.release 0 false], .releaseFailed)
      else
        -- TeardownEnvironment ends with `return err`, and `err` still holds the error of the
        -- leave_<state> hooks unless a DESTROY weight overwrote it (with TriggerHooks' result)
        let res := if h.2.2 > 0 ∧ ws.isEmpty then Result.reported [(h.2.2, Moment.leave env.st)] else .ok
        ({ env with st := .DONE, gone := true }, pre ++ [Step.release 0 true, Step.setState .DONE], res)

/-! ### request sequences -/

inductive Req where
  | try_ (e : Ev) (bodyOk rnFail : Bool)       -- env.TryTransition
  | control (e : Ev) (bodyOk rnFail : Bool)    -- ControlEnvironment glue
  | teardown (force relOk1 relOk2 : Bool)
  deriving Repr, Inhabited

def step (hooks : List Hook) (nTasks : Nat) (env : Env) : Req → Env × List Step × Result
  | .try_ e b r => tryTransition env hooks e b r
  | .control e b r => if env.gone then (env, [], .notFound) else controlApi env hooks e b r
  | .teardown f r1 r2 => if env.gone then (env, [], .notFound) else teardown env hooks f r1 r2 nTasks

/-- The environment after a request sequence, with per request the steps, the
    result and the state reported afterwards. -/
def runSeq (hooks : List Hook) (nTasks : Nat) : Env → List Req → List (List Step × Result × Env)
  | _, [] => []
  | env, q :: qs =>
    let r := step hooks nTasks env q
    (r.2.1, r.2.2, r.1) :: runSeq hooks nTasks r.1 qs

def finalEnv (hooks : List Hook) (nTasks : Nat) (env : Env) (qs : List Req) : Env :=
  qs.foldl (fun e q => (step hooks nTasks e q).1) env

/-! ### overlapping requests

  Two requests issued by concurrent callers are executed one after the other (the
  environment's transitionMutex spans TryTransition and TeardownEnvironment entirely): the
  second waits for the mutex. What it does NOT wait with is its look-up of the environment
  (`environments.Environment(id)` in RpcServer.ControlEnvironment, the first lines of
  TeardownEnvironment): that happened when it arrived, i.e. BEFORE the first request
  finished. `stepHeld listed` is a request whose look-up saw `listed`. -/

def stepHeld (hooks : List Hook) (nTasks : Nat) (listed : Bool) (env : Env) : Req → Env × List Step × Result
  | .try_ e b r => tryTransition env hooks e b r
  | .control e b r => if !listed then (env, [], .notFound) else controlApi env hooks e b r
  | .teardown f r1 r2 => if !listed then (env, [], .notFound) else teardown env hooks f r1 r2 nTasks

/-- A request, or a pair of overlapping requests (the second arrived while the first was in progress). -/
inductive PReq where
  | one (q : Req)
  | par (q1 q2 : Req)
  deriving Repr, Inhabited

def PReq.flat : PReq → List Req
  | .one q => [q]
  | .par a b => [a, b]

/-- `runSeq` for request lists with overlapping pairs: one entry per request, in the order
    in which they get the mutex. -/
def runPar (hooks : List Hook) (nTasks : Nat) : Env → List PReq → List (List Step × Result × Env)
  | _, [] => []
  | env, .one q :: qs =>
    let r := step hooks nTasks env q
    (r.2.1, r.2.2, r.1) :: runPar hooks nTasks r.1 qs
  | env, .par a b :: qs =>
    let r1 := step hooks nTasks env a
    let r2 := stepHeld hooks nTasks (!env.gone) r1.1 b
    (r1.2.1, r1.2.2, r1.1) :: (r2.2.1, r2.2.2, r2.1) :: runPar hooks nTasks r2.1 qs

/-! ### the same with the glue as it was (`controlApiLegacy`) — not the code as it is -/

def stepLegacy (hooks : List Hook) (nTasks : Nat) (env : Env) : Req → Env × List Step × Result
  | .try_ e b r => tryTransition env hooks e b r
  | .control e b r => if env.gone then (env, [], .notFound) else controlApiLegacy env hooks e b r
  | .teardown f r1 r2 => if env.gone then (env, [], .notFound) else teardown env hooks f r1 r2 nTasks

def stepHeldLegacy (hooks : List Hook) (nTasks : Nat) (listed : Bool) (env : Env) : Req → Env × List Step × Result
  | .try_ e b r => tryTransition env hooks e b r
  | .control e b r => if !listed then (env, [], .notFound) else controlApiLegacy env hooks e b r
  | .teardown f r1 r2 => if !listed then (env, [], .notFound) else teardown env hooks f r1 r2 nTasks

def runParLegacy (hooks : List Hook) (nTasks : Nat) : Env → List PReq → List (List Step × Result × Env)
  | _, [] => []
  | env, .one q :: qs =>
    let r := stepLegacy hooks nTasks env q
    (r.2.1, r.2.2, r.1) :: runParLegacy hooks nTasks r.1 qs
  | env, .par a b :: qs =>
    let r1 := stepLegacy hooks nTasks env a
    let r2 := stepHeldLegacy hooks nTasks (!env.gone) r1.1 b
    (r1.2.1, r1.2.2, r1.1) :: (r2.2.1, r2.2.2, r2.1) :: runParLegacy hooks nTasks r2.1 qs

end EnvM
