/-
  Model/EnvBodies — what the task-level BODIES of the environment transitions
  (core/environment/transition_*.go, method `do`) write to the state Model/Env speaks about.

  A body is a command round trip with the task manager (ConfigureTasks / TransitionTasks on
  taskman.MessageChannel, answer on env.stateChangedCh); `ok` = every task reached the destination
  state. To the variables of the model — currentRunNumber, the workflow variables run_number /
  last_run_number, the four run timestamps, the machine state — a body does NOTHING, with one
  exception: StartActivityTransition.do resets currentRunNumber when the tasks fail to start.
  `leaveState` (Model/Env) has that reset written out; `Proofs/EnvRun.leaveState_body` shows
  that it is exactly `applyBody`, and `C10_transition_bodies_are_code` compares `bodyRows` with the
  writes read from the source (go/ast, Gen/EnvBodies.lean).
-/
import ControlModel.Model.Env

namespace EnvM

/-- One write of a transition body to the modelled state. -/
inductive BodyWrite where
  | rnReset          -- `env.currentRunNumber = 0`
  deriving DecidableEq, Repr, Inhabited

/-- The writes of the body of `e`, on the branch taken when the tasks complied (`ok`) or not. -/
def bodyWrites (e : Ev) (ok : Bool) : List BodyWrite :=
  match e, ok with
  | .START_ACTIVITY, false => [.rnReset]
  | _, _ => []

def BodyWrite.apply (env : Env) : BodyWrite → Env
  | .rnReset => { env with rn := 0 }

/-- The environment after the body of `e` returned. -/
def applyBody (env : Env) (e : Ev) (ok : Bool) : Env := (bodyWrites e ok).foldl BodyWrite.apply env

/-- How a write is spelled in the source: (kind, what). -/
def BodyWrite.row : BodyWrite → String × String
  | .rnReset => ("assign", "env.currentRunNumber = 0")

/-- The events that have a transition type with a body, in the order of their source files
    (transition_configure.go, _deploy, _goerror, _reset, _startactivity, _stopactivity). -/
def bodyEvents : List Ev := [.CONFIGURE, .DEPLOY, .GO_ERROR, .RESET, .START_ACTIVITY, .STOP_ACTIVITY]

/-- The model's table in the shape of the generated one: (event, branch, kind, what); branch
    "failure" = inside the `if` that returns the tasks' error, "main" = everywhere else. -/
def bodyRows : List (String × String × String × String) :=
  bodyEvents.flatMap fun e =>
    ((bodyWrites e true).map fun w => (e.name, "main", w.row.1, w.row.2)) ++
    ((bodyWrites e false).filter (fun w => !(bodyWrites e true).contains w)).map fun w => (e.name, "failure", w.row.1, w.row.2)

end EnvM
