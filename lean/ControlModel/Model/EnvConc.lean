/-
  Model/EnvConc — concurrent callers on one environment (C01, "one at a time").

  TryTransition and TeardownEnvironment take the environment's transitionMutex for their
  whole duration (go/ast facts Gen.smEventSites / Gen.stateWriteSites, see Props/C01.lean),
  so what a caller does is a sequence of PIECES, each executed atomically with respect to
  the other callers' pieces:
    * look-up           : unlocked; `environments.Environment(id)` (RpcServer.ControlEnvironment,
                          first lines of TeardownEnvironment) — made when the caller arrives
    * try_ e            : one locked piece
    * teardown          : one locked piece
    * control e (API)   : locked piece (the request); if it failed, a second locked piece
                          (GO_ERROR); if that failed too, an UNLOCKED read of the state
                          (`env.CurrentState() != "DONE"`) and, unless it read DONE, an UNLOCKED
                          write of ERROR — two separate moves: other callers may move in between.
  A schedule says which caller moves next. A caller that wants a locked piece can only move
  when nobody holds the mutex; it then holds it until its `leave` move. A move that is not
  enabled leaves the system unchanged, so every `List Nat` is a schedule.
-/
import ControlModel.Model.Env

namespace EnvM

inductive Piece where
  | locked (q : Req)            -- try_ / teardown / the first half of control
  | goError                     -- the GO_ERROR fallback of the API glue
  | check                       -- `env.CurrentState() != "DONE"`, read outside the mutex (changes nothing, not logged)
  | force                       -- env.Sm.SetState("ERROR"), outside the mutex
  deriving Repr, Inhabited

/-- where a caller is in its program -/
inductive Pc where
  | arrive                       -- about to look the environment up
  | start                        -- about to take the mutex for its request
  | holding (next : Option Piece) -- inside the mutex; `next` = what follows after release
  | between (next : Piece)       -- released, next piece pending
  | done
  deriving Repr, Inhabited

structure Caller where
  req : Req
  pc : Pc := .arrive
  listed : Bool := true          -- what the look-up saw
  deriving Repr, Inhabited

def Caller.isHolding (c : Caller) : Bool :=
  match c.pc with
  | .holding _ => true
  | _ => false

structure LogEntry where
  caller : Nat
  piece : Piece
  before : Env
  after : Env
  result : Result
  deriving Repr, Inhabited

structure Sys where
  env : Env
  callers : List Caller
  log : List LogEntry := []      -- newest last
  deriving Repr, Inhabited

/-- nobody is inside the mutex -/
def Sys.free (s : Sys) : Bool := s.callers.all (fun c => !c.isHolding)

/-- What the request's own locked piece does to the environment it finds (the API glue's first
    half for `control`); `listed` = what the caller's look-up saw. -/
def runLocked (hooks : List Hook) (n : Nat) (listed : Bool) (env : Env) : Req → Env × Result
  | .try_ e b r => let x := tryTransition env hooks e b r; (x.1, x.2.2)
  | .control e b r => if !listed then (env, .notFound) else let x := tryTransition env hooks e b r; (x.1, x.2.2)
  | .teardown f r1 r2 => if !listed then (env, .notFound) else let x := teardown env hooks f r1 r2 n; (x.1, x.2.2)

/-- One move of caller `i`. A move that is not enabled leaves the system unchanged. -/
def move (hooks : List Hook) (n : Nat) (s : Sys) (i : Nat) : Sys :=
  match s.callers[i]? with
  | none => s
  | some c =>
    match c.pc with
    | .arrive =>
      { s with callers := s.callers.set i { c with pc := .start, listed := !s.env.gone } }
    | .start =>
      if s.free then
        let r := runLocked hooks n c.listed s.env c.req
        let next : Option Piece :=
          match c.req with
          | .control .. => if r.2.isOk || r.2 == .notFound then none else some .goError
          | _ => none
        { env := r.1, callers := s.callers.set i { c with pc := .holding next },
          log := s.log ++ [{ caller := i, piece := .locked c.req, before := s.env, after := r.1, result := r.2 }] }
      else s
    | .holding next =>
      -- release the mutex
      { s with callers := s.callers.set i { c with pc := match next with | none => .done | some p => .between p } }
    | .between .goError =>
      if s.free then
        let x := tryTransition s.env hooks .GO_ERROR true false
        { env := x.1, callers := s.callers.set i { c with pc := .holding (if x.2.2.isOk then none else some .check) },
          log := s.log ++ [{ caller := i, piece := .goError, before := s.env, after := x.1, result := x.2.2 }] }
      else s
    | .between .check =>
      -- NOT under the mutex: the glue reads the state; a finished environment is left alone
      { s with callers := s.callers.set i { c with pc := if s.env.st = .DONE then .done else .between .force } }
    | .between .force =>
      -- NOT under the mutex: allowed even while another caller holds it
      let env' := { s.env with st := .ERROR }
      { env := env', callers := s.callers.set i { c with pc := .done },
        log := s.log ++ [{ caller := i, piece := .force, before := s.env, after := env', result := .ok }] }
    | .between (.locked _) => s
    | .done => s

def runSched (hooks : List Hook) (n : Nat) (s : Sys) (sched : List Nat) : Sys :=
  sched.foldl (move hooks n) s

def initSys (env : Env) (reqs : List Req) : Sys := { env := env, callers := reqs.map fun q => { req := q } }

/-- "each one seeing the state left by the previous one": the log is a chain from `e0`. -/
def chained (e0 : Env) : List LogEntry → Prop
  | [] => True
  | x :: xs => x.before = e0 ∧ chained x.after xs

/-- the environment after the last logged piece -/
def lastEnv (e0 : Env) : List LogEntry → Env
  | [] => e0
  | x :: xs => lastEnv x.after xs

/-- what a logged piece did is what that piece does, run on its own on the state it found -/
def LogEntry.faithful (hooks : List Hook) (n : Nat) (x : LogEntry) : Prop :=
  match x.piece with
  | .locked q => ∃ listed, (x.after, x.result) = runLocked hooks n listed x.before q
  | .goError => (x.after, x.result) = ((tryTransition x.before hooks .GO_ERROR true false).1, (tryTransition x.before hooks .GO_ERROR true false).2.2)
  | .check => x.after = x.before
  | .force => x.after = { x.before with st := .ERROR }

/-! ### who may write while somebody is inside

  Two notions the "one at a time" clause of Spec.C01 rests on (theorems in Proofs/EnvConc.lean):
  a caller that has not yet been inside the mutex (`isNew`: it is about to look the environment up, or
  waits for the mutex) and, for the one write that is made outside any critical section — the glue's
  forced ERROR —, the critical sections its writer must have been through before. -/

/-- the caller has not been inside the mutex yet: about to look the environment up, or queueing -/
def Caller.isNew (c : Caller) : Bool :=
  match c.pc with
  | .arrive | .start => true
  | _ => false

/-- the entry is caller `i`'s own request (through the API glue), carried out under the mutex, refused or failed -/
def LogEntry.failedOwn (x : LogEntry) (i : Nat) : Bool :=
  x.caller == i && !x.result.isOk &&
    (match x.piece with
     | .locked (.control ..) => true
     | _ => false)

/-- the entry is caller `i`'s GO_ERROR fallback, carried out under the mutex, refused or failed -/
def LogEntry.failedGoError (x : LogEntry) (i : Nat) : Bool :=
  x.caller == i && !x.result.isOk &&
    (match x.piece with
     | .goError => true
     | _ => false)

/-- caller `i` has been through its two critical sections, and both failed -/
def wentThrough (log : List LogEntry) (i : Nat) : Bool :=
  log.any (·.failedOwn i) && log.any (·.failedGoError i)

def LogEntry.isForce (x : LogEntry) : Bool :=
  match x.piece with
  | .force => true
  | _ => false

/-- every forced write in `rest` was made by a caller that, in what was logged before it (`seen` and the
    part of `rest` in front of it), had been through its two critical sections -/
def forcedJustified : List LogEntry → List LogEntry → Bool
  | _, [] => true
  | seen, x :: xs => (!x.isForce || wentThrough seen x.caller) && forcedJustified (seen ++ [x]) xs

end EnvM
