/-
  Model/EnvConc — concurrent callers on one environment (C01, "one at a time").

  TryTransition and TeardownEnvironment take the environment's transitionMutex for their
  whole duration (go/ast fact Gen.smEventSites / Gen.stateWriteSites, see Props/C01.lean),
  so what a caller does is a sequence of PIECES, each executed atomically with respect to
  the other callers' pieces:
    * try_ e            : one locked piece
    * teardown          : one locked piece
    * control e (API)   : locked piece (the request); if it failed, a second locked piece
                          (GO_ERROR); if that failed too, an UNLOCKED write of ERROR.
  A schedule says which caller moves next. A caller that wants a locked piece can only move
  when nobody holds the mutex; it then holds it until its `leave` move.
-/
import ControlModel.Model.Env

namespace EnvM

inductive Piece where
  | locked (q : Req)            -- try_ / teardown / the first half of control
  | goError                     -- the GO_ERROR fallback of the API glue
  | force                       -- env.Sm.SetState("ERROR"), outside the mutex
  deriving Repr, Inhabited

/-- where a caller is in its program -/
inductive Pc where
  | start                        -- about to take the mutex for its request
  | holding (next : Option Piece) -- inside the mutex; `next` = what follows after release
  | between (next : Piece)       -- released, next piece pending
  | done
  deriving Repr, Inhabited

structure Caller where
  req : Req
  pc : Pc := .start
  deriving Repr, Inhabited

structure LogEntry where
  caller : Nat
  piece : Piece
  before : Env
  after : Env
  result : Result
  deriving Repr, Inhabited

structure Sys where
  env : Env
  callers : List Caller
  log : List LogEntry := []      -- newest last
  deriving Repr, Inhabited

def holders (s : Sys) : List Nat :=
  (s.callers.zipIdx.filter fun (c, _) => match c.pc with | .holding _ => true | _ => false).map (·.2)

/-- what the request's own locked piece is and does (the API glue's first half for `control`) -/
def runLocked (hooks : List Hook) (n : Nat) (env : Env) : Req → Env × Result
  | .try_ e b r => let x := tryTransition env hooks e b r; (x.1, x.2.2)
  | .control e b r => if env.gone then (env, .notFound) else let x := tryTransition env hooks e b r; (x.1, x.2.2)
  | .teardown f r1 r2 => if env.gone then (env, .notFound) else let x := teardown env hooks f r1 r2 n; (x.1, x.2.2)

def setCaller (cs : List Caller) (i : Nat) (c : Caller) : List Caller := cs.set i c

/-- One move of caller `i`. A move that is not enabled leaves the system unchanged. -/
def move (hooks : List Hook) (n : Nat) (s : Sys) (i : Nat) : Sys :=
  match s.callers[i]? with
  | none => s
  | some c =>
    match c.pc with
    | .start =>
      if (holders s).isEmpty then
        let r := runLocked hooks n s.env c.req
        let next : Option Piece :=
          match c.req with
          | .control .. => if r.2.isOk || r.2 == .notFound then none else some .goError
          | _ => none
        { env := r.1, callers := setCaller s.callers i { c with pc := .holding next },
          log := s.log ++ [{ caller := i, piece := .locked c.req, before := s.env, after := r.1, result := r.2 }] }
      else s
    | .holding next =>
      -- release the mutex
      { s with callers := setCaller s.callers i { c with pc := match next with | none => .done | some p => .between p } }
    | .between .goError =>
      if (holders s).isEmpty then
        let x := tryTransition s.env hooks .GO_ERROR true false
        { env := x.1, callers := setCaller s.callers i { c with pc := .holding (if x.2.2.isOk then none else some .force) },
          log := s.log ++ [{ caller := i, piece := .goError, before := s.env, after := x.1, result := x.2.2 }] }
      else s
    | .between .force =>
      -- NOT under the mutex: allowed even while another caller holds it
      let env' := { s.env with st := .ERROR }
      { env := env', callers := setCaller s.callers i { c with pc := .done },
        log := s.log ++ [{ caller := i, piece := .force, before := s.env, after := env', result := .ok }] }
    | .between (.locked _) => s
    | .done => s

def runSched (hooks : List Hook) (n : Nat) (s : Sys) (sched : List Nat) : Sys :=
  sched.foldl (move hooks n) s

def initSys (env : Env) (reqs : List Req) : Sys := { env := env, callers := reqs.map fun q => { req := q } }

end EnvM
