/-
  Model/EnvLegacy — the environment machine AS IT WAS before the repairs
  "fix: after_STOP_ACTIVITY stamps run_end_completion_time_ms only if it is still empty" (C10) and
  "fix: handleHooks visits the await weight of a call it starts at the same trigger" (C08).

  NOT the code as it is. `Model/Env.lean` describes the code as it is (`bkAfter … STOP_ACTIVITY` is the guarded
  writer `setEoeorIfEmpty`, like GO_ERROR's branch and the teardown; `weightsFor` holds the await weights of the
  calls a pass is about to start). This file keeps the old behaviours available as a configuration so that the
  former refutations (`C10_finding_end_stamp_rewritten`, `C08_finding_await_weight_not_visited`) stay true
  statements about the code as it was:

    * `RunCfg.stopStampGuarded` — does the STOP_ACTIVITY branch of after_event write the end-completion time only
      when the key is present and empty? `codeRunCfg` = yes (the code as it is), `legacyRunCfg` = no.
    * `RunCfg.awaitWeightsUpFront` — does handleHooks put, before it starts anything, the await weight of every
      call triggered at this moment whose await names this same moment among the weights it visits?
      `codeRunCfg` = yes (the code as it is), `legacyAwaitCfg` = no (only trigger weights and the weights of calls
      already pending). Each legacy configuration switches ONE repair off.
    * `weightsForOf`, `handleHooksOf`, `beforeEventOf`, `leaveStateOf`, `enterStateOf`, `bkAfterOf`, `afterEventOf`,
      `fsmEventOf`, `controlApiOf`, `teardownOf`, `stepOf`, `finalEnvOf`: the chain one pass → the four FSM
      callbacks → Sm.Event → TryTransition / ControlEnvironment glue / TeardownEnvironment → one request, line
      for line the definitions of Model/Env.lean with `handleHooksOf c` in the place of `handleHooks` and
      `bkAfterOf c` in the place of `bkAfter`.
    * `stepOf_code` (Proofs/EnvRunOnce.lean): `stepOf codeRunCfg = step` — the chain with the switches ON is the model
      of the code as it is, so a legacy chain differs from it in its one switch and in nothing else.
-/
import ControlModel.Model.Env

namespace EnvM

structure RunCfg where
  /-- after_STOP_ACTIVITY writes run_end_completion_time_ms only if it is present and empty -/
  stopStampGuarded : Bool
  /-- handleHooks counts the await weight of a call it is about to start (await moment = this trigger) among
      the weights of the pass, before anything is started -/
  awaitWeightsUpFront : Bool := true
  deriving DecidableEq, Repr

/-- the code as it is -/
def codeRunCfg : RunCfg := { stopStampGuarded := true, awaitWeightsUpFront := true }
/-- the code as it was: after_STOP_ACTIVITY sets the stamp unconditionally -/
def legacyRunCfg : RunCfg := { stopStampGuarded := false }
/-- the code as it was: the weights of a pass are the trigger weights and the weights of calls ALREADY pending -/
def legacyAwaitCfg : RunCfg := { stopStampGuarded := true, awaitWeightsUpFront := false }

/-! ### one pass of handleHooks -/

/-- The weights handleHooks visited as it was: those of hooks triggered at `m` and of calls pending an await
    at `m` — computed BEFORE anything is started, so the await weight of a call started in this very pass is
    among them only if something else put it there. -/
def weightsForLegacy (env : Env) (hooks : List Hook) (m : Moment) (pred : Int → Bool) : List Int :=
  let hw := (hooks.filter (fun h => h.trig = m)).map (·.tw)
  let pw := (env.pending.filter (fun p => p.1.1 = m ∧ !p.2.isEmpty)).map (·.1.2)
  (sortDedup (hw ++ pw)).filter pred

def weightsForOf (c : RunCfg) (env : Env) (hooks : List Hook) (m : Moment) (pred : Int → Bool) : List Int :=
  if c.awaitWeightsUpFront then weightsFor env hooks m pred else weightsForLegacy env hooks m pred

def handleHooksOf (c : RunCfg) (env : Env) (hooks : List Hook) (m : Moment) (pred : Int → Bool) : Env × List Step × Nat :=
  handleWeights env hooks m (weightsForOf c env hooks m pred)

/-- What fills the set of weights of a pass before its loop starts (`allWeightsSet[…] = …` in handleHooks), as
    the model has it: (the key written, the `range` statements it stands in from the outside in, the conditions
    it stands under). Row 1 = `hw`, row 2 = `aw` (present iff `c.awaitWeightsUpFront`), row 3 = `pw` of
    `weightsFor`; `!h.isTask` is `FilterCalls()`, `h.await = m` is `awaitName == trigger`. -/
def weightSources (c : RunCfg) : List (String × List String × List String) :=
  [("k", [if c.awaitWeightsUpFront then "k, hooks := range hooksMapForTrigger" else "k := range hooksMapForTrigger"], [])] ++
  (if c.awaitWeightsUpFront then
    [("awaitWeight", ["k, hooks := range hooksMapForTrigger", "_, call := range hooks.FilterCalls()"],
      ["awaitName, awaitWeight := callable.ParseTriggerExpression(call.GetTraits().Await); awaitName == trigger"])]
   else []) ++
  [("k", ["k := range callsMapForAwait"], [])]

/-! ### the FSM callbacks over the configured pass -/

/-- `beforeEvent` with the configured pass. -/
def beforeEventOf (c : RunCfg) (env : Env) (hooks : List Hook) (e : Ev) (rnFail : Bool) : Env × List Step × Option Result :=
  let m := Moment.before e
  let r1 := handleHooksOf c env hooks m negW
  if r1.2.2 > 0 then
    (r1.1, [Step.mark m.name false] ++ r1.2.1 ++ [Step.mark m.name true], some (.cancelledHooks r1.2.2 m))
  else
    let bk := bkBefore r1.1 e rnFail
    if bk.2.2 then
      (bk.1, [Step.mark m.name false] ++ r1.2.1, some .cancelledRn)
    else
      let r2 := handleHooksOf c bk.1 hooks m posW
      (r2.1, [Step.mark m.name false] ++ r1.2.1 ++ bk.2.1 ++ r2.2.1 ++ [Step.mark m.name true],
        if r2.2.2 > 0 then some (.cancelledHooks r2.2.2 m) else none)

/-- `leaveState` with the configured pass. -/
def leaveStateOf (c : RunCfg) (env : Env) (hooks : List Hook) (e : Ev) (bodyOk : Bool) : Env × List Step × Option Result :=
  let src := env.st
  let m := Moment.leave src
  let r1 := handleHooksOf c env hooks m negW
  let bk := if src = .RUNNING then setSoeorIfEmpty r1.1 e.name false else (r1.1, [])
  if r1.2.2 > 0 then
    (bk.1, [Step.mark m.name false] ++ r1.2.1 ++ bk.2 ++ [Step.mark m.name true], some (.cancelledHooks r1.2.2 m))
  else
    let r2 := handleHooksOf c bk.1 hooks m posW
    let pre := [Step.mark m.name false] ++ r1.2.1 ++ bk.2 ++ r2.2.1 ++ [Step.mark m.name true]
    if r2.2.2 > 0 then (r2.1, pre, some (.cancelledHooks r2.2.2 m))
    else
      let tname := "tasks_" ++ e.name
      let env := r2.1
      let env := if !bodyOk ∧ e = .START_ACTIVITY then { env with rn := 0 } else env
      (env, pre ++ [Step.mark tname false, Step.body e bodyOk, Step.mark tname true],
        if bodyOk then none else some .cancelledBody)

/-- `enterState` with the configured pass. -/
def enterStateOf (c : RunCfg) (env : Env) (hooks : List Hook) : Env × List Step × List (Nat × Moment) :=
  let m := Moment.enter env.st
  let r1 := handleHooksOf c env hooks m negW
  let r2 := handleHooksOf c r1.1 hooks m posW
  (r2.1, [Step.mark m.name false] ++ r1.2.1 ++ r2.2.1 ++ [Step.mark m.name true],
    (if r1.2.2 > 0 then [(r1.2.2, m)] else []) ++ (if r2.2.2 > 0 then [(r2.2.2, m)] else []))

/-- The bookkeeping of `after_event` as it was: the STOP_ACTIVITY branch ticks the clock and writes
    run_end_completion_time_ms whatever it holds (and publishes the end-of-run event). -/
def bkAfterLegacy (env : Env) (e : Ev) (failed : Bool) : Env × List Step :=
  let status := if failed then RunStatus.doneError else RunStatus.doneOk
  match e with
  | .STOP_ACTIVITY =>
    let (env, t) := tick env
    ({ env with vars := { env.vars with eoeor := .val t } }, [Step.tsSet 3 t, Step.runEvent e.name status env.rn t])
  | _ => bkAfter env e failed

def bkAfterOf (c : RunCfg) (env : Env) (e : Ev) (failed : Bool) : Env × List Step :=
  if c.stopStampGuarded then bkAfter env e failed else bkAfterLegacy env e failed

/-- `afterEvent` with the configured pass and bookkeeping. -/
def afterEventOf (c : RunCfg) (env : Env) (hooks : List Hook) (e : Ev) (errSoFar : List (Nat × Moment)) :
    Env × List Step × List (Nat × Moment) :=
  let m := Moment.after e
  let r1 := handleHooksOf c env hooks m negW
  let err1 := if r1.2.2 > 0 then [(r1.2.2, m)] else errSoFar
  let bk := bkAfterOf c r1.1 e (!err1.isEmpty)
  let r2 := handleHooksOf c bk.1 hooks m posW
  let errs := (if r1.2.2 > 0 then [(r1.2.2, m)] else []) ++ (if r2.2.2 > 0 then [(r2.2.2, m)] else [])
  let errFinal := if errs.isEmpty then errSoFar else errs
  let fin := finAfter r2.1 e
  (fin.1, [Step.mark m.name false] ++ r1.2.1 ++ bk.2 ++ r2.2.1 ++ fin.2 ++ [Step.mark m.name true], errFinal)

/-- `fsmEvent` with the configured callbacks. -/
def fsmEventOf (c : RunCfg) (env : Env) (hooks : List Hook) (e : Ev) (bodyOk rnFail : Bool) : Env × List Step × Result :=
  match dst? e env.st with
  | none => (env, [], .illegal)
  | some d =>
    let b := beforeEventOf c env hooks e rnFail
    match b.2.2 with
    | some r => (b.1, b.2.1, r)
    | none =>
      let l := leaveStateOf c b.1 hooks e bodyOk
      match l.2.2 with
      | some r => (l.1, b.2.1 ++ l.2.1, r)
      | none =>
        let env := { l.1 with st := d }
        let en := enterStateOf c env hooks
        let af := afterEventOf c en.1 hooks e en.2.2
        (af.1, b.2.1 ++ l.2.1 ++ [Step.setState d] ++ en.2.1 ++ af.2.1,
          if af.2.2.isEmpty then .ok else .reported af.2.2)

/-- `controlApi` (the glue as it is) over the configured machine. -/
def controlApiOf (c : RunCfg) (env : Env) (hooks : List Hook) (e : Ev) (bodyOk rnFail : Bool) : Env × List Step × Result :=
  let r := fsmEventOf c env hooks e bodyOk rnFail
  if r.2.2.isOk then r
  else
    let g := fsmEventOf c r.1 hooks .GO_ERROR true false
    let gs := g.2.1.filter (fun s => match s with | .body .. => false | _ => true)
    if g.2.2.isOk || g.1.st == .DONE then (g.1, r.2.1 ++ gs, r.2.2)
    else ({ g.1 with st := .ERROR }, r.2.1 ++ gs ++ [Step.setState .ERROR], r.2.2)

/-- `teardown` with the configured pass (its leave_<state> hooks go through handleHooks with every weight). -/
def teardownOf (c : RunCfg) (env : Env) (hooks : List Hook) (force relOk1 relOk2 : Bool) (nTasks : Nat) : Env × List Step × Result :=
  if env.st = .DONE then (env, [], .teardownRefused)
  else if env.st ≠ .STANDBY ∧ env.st ≠ .DEPLOYED ∧ !force then (env, [], .teardownRefused)
  else
    let h := handleHooksOf c env hooks (.leave env.st) allW
    let env := h.1
    let ts : Env × List Step :=
      if env.st = .RUNNING then
        let a := setSoeorIfEmpty env "TEARDOWN" true
        let b := setEoeorIfEmpty a.1 "TEARDOWN" .started
        (b.1, a.2 ++ b.2)
      else (env, [])
    let env := ts.1
    if !relOk1 then (env, h.2.1 ++ ts.2 ++ [Step.release nTasks false], .releaseFailed)
    else
      let ws := sortDedup ((hooks.filter (fun h => h.trig = .destroy ∨ h.trig = .afterDestroy)).map (·.tw))
      let d := destroyWeights env hooks ws
      let env := d.1
      let cancelled := allPending env
      let env := { env with cancelled := env.cancelled ++ cancelled }
      let pre := h.2.1 ++ ts.2 ++ [Step.release nTasks true] ++ d.2 ++ [Step.cancel cancelled]
      if !relOk2 then (env, pre ++ [Step.release 0 false], .releaseFailed)
      else
        let res := if h.2.2 > 0 ∧ ws.isEmpty then Result.reported [(h.2.2, Moment.leave env.st)] else .ok
        ({ env with st := .DONE, gone := true }, pre ++ [Step.release 0 true, Step.setState .DONE], res)

/-- `step` over the configured machine. -/
def stepOf (c : RunCfg) (hooks : List Hook) (nTasks : Nat) (env : Env) : Req → Env × List Step × Result
  | .try_ e b r => fsmEventOf c env hooks e b r
  | .control e b r => if env.gone then (env, [], .notFound) else controlApiOf c env hooks e b r
  | .teardown f r1 r2 => if env.gone then (env, [], .notFound) else teardownOf c env hooks f r1 r2 nTasks

def finalEnvOf (c : RunCfg) (hooks : List Hook) (nTasks : Nat) (env : Env) (qs : List Req) : Env :=
  qs.foldl (fun e q => (stepOf c hooks nTasks e q).1) env

/-! ### the sites that write an end-of-run stamp -/

/-- One `SetRuntimeVar("run_end_time_ms" | "run_end_completion_time_ms", …)` of core/environment, as the model has it. -/
structure StampSite where
  file : String
  ctx : String       -- FSM callback or function
  branch : String    -- event=… / src=… / state=…: the test it stands under
  key : String
  clear : Bool       -- writes "" (before_START_ACTIVITY opens the run) rather than the time
  guarded : Bool     -- writes only if the key is present and empty (`setSoeorIfEmpty` / `setEoeorIfEmpty`)
  publishes : Bool   -- an Ev_RunEvent goes with the write
  deriving DecidableEq, Repr

/-- The writers of the two end stamps, in source order, and the model function each of them is:
    `bkBefore .START_ACTIVITY` (clears), `bkBefore .STOP_ACTIVITY` / `bkBefore .GO_ERROR` (`setSoeorIfEmpty … true`),
    `leaveState` from RUNNING (`setSoeorIfEmpty … false`: no event), `bkAfterOf c .STOP_ACTIVITY` (guarded iff
    `c.stopStampGuarded`), `bkAfter .GO_ERROR` (`setEoeorIfEmpty`), and the two of `teardown` while RUNNING. -/
def stampSites (c : RunCfg) : List StampSite := [
  ⟨"environment.go", "before_event", "event=START_ACTIVITY", "run_end_time_ms", true, false, true⟩,
  ⟨"environment.go", "before_event", "event=START_ACTIVITY", "run_end_completion_time_ms", true, false, true⟩,
  ⟨"environment.go", "before_event", "event=STOP_ACTIVITY", "run_end_time_ms", false, true, true⟩,
  ⟨"environment.go", "before_event", "event=GO_ERROR", "run_end_time_ms", false, true, true⟩,
  ⟨"environment.go", "leave_state", "src=RUNNING", "run_end_time_ms", false, true, false⟩,
  ⟨"environment.go", "after_event", "event=STOP_ACTIVITY", "run_end_completion_time_ms", false, c.stopStampGuarded, true⟩,
  ⟨"environment.go", "after_event", "event=GO_ERROR", "run_end_completion_time_ms", false, true, true⟩,
  ⟨"manager.go", "TeardownEnvironment", "state=RUNNING", "run_end_time_ms", false, true, true⟩,
  ⟨"manager.go", "TeardownEnvironment", "state=RUNNING", "run_end_completion_time_ms", false, true, true⟩]

/-- A site in the shape of the generated table (Gen/EnvStamps.lean). -/
def StampSite.row (s : StampSite) : String × String × String × String × String × String × Bool :=
  (s.file, s.ctx, s.branch, s.key, if s.clear then "clear" else "stamp", if s.guarded then "presentAndEmpty" else "none", s.publishes)

end EnvM
