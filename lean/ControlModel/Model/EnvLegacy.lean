/-
  Model/EnvLegacy — the environment machine AS IT WAS before the repair
  "fix: after_STOP_ACTIVITY stamps run_end_completion_time_ms only if it is still empty" (C10).

  NOT the code as it is. `Model/Env.lean` describes the code as it is (`bkAfter … STOP_ACTIVITY` is the guarded
  writer `setEoeorIfEmpty`, like GO_ERROR's branch and the teardown). This file keeps the old behaviour available
  as a configuration so that the former refutation (`C10_finding_end_stamp_rewritten`) stays a true statement
  about the code as it was:

    * `RunCfg.stopStampGuarded` — does the STOP_ACTIVITY branch of after_event write the end-completion time only
      when the key is present and empty? `codeRunCfg` = yes (the code as it is), `legacyRunCfg` = no.
    * `bkAfterOf`, `afterEventOf`, `fsmEventOf`, `controlApiOf`, `stepOf`, `finalEnvOf`: the chain
      after_event → Sm.Event → TryTransition / ControlEnvironment glue → one request, line for line the
      definitions of Model/Env.lean with `bkAfterOf c` in the place of `bkAfter`.
    * `stepOf_code` (Proofs/EnvRun.lean): `stepOf codeRunCfg = step` — the chain with the switch ON is the model of the
      code as it is, so the legacy chain differs from it in that one write and in nothing else.
-/
import ControlModel.Model.Env

namespace EnvM

structure RunCfg where
  /-- after_STOP_ACTIVITY writes run_end_completion_time_ms only if it is present and empty -/
  stopStampGuarded : Bool
  deriving DecidableEq, Repr

/-- the code as it is -/
def codeRunCfg : RunCfg := { stopStampGuarded := true }
/-- the code as it was: after_STOP_ACTIVITY sets the stamp unconditionally -/
def legacyRunCfg : RunCfg := { stopStampGuarded := false }

/-- The bookkeeping of `after_event` as it was: the STOP_ACTIVITY branch ticks the clock and writes
    run_end_completion_time_ms whatever it holds (and publishes the end-of-run event). -/
def bkAfterLegacy (env : Env) (e : Ev) (failed : Bool) : Env × List Step :=
  let status := if failed then RunStatus.doneError else RunStatus.doneOk
  match e with
  | .STOP_ACTIVITY =>
    let (env, t) := tick env
    ({ env with vars := { env.vars with eoeor := .val t } }, [Step.tsSet 3 t, Step.runEvent e.name status env.rn t])
  | _ => bkAfter env e failed

def bkAfterOf (c : RunCfg) (env : Env) (e : Ev) (failed : Bool) : Env × List Step :=
  if c.stopStampGuarded then bkAfter env e failed else bkAfterLegacy env e failed

/-- `afterEvent` with the configured bookkeeping. -/
def afterEventOf (c : RunCfg) (env : Env) (hooks : List Hook) (e : Ev) (errSoFar : List (Nat × Moment)) :
    Env × List Step × List (Nat × Moment) :=
  let m := Moment.after e
  let r1 := handleHooks env hooks m negW
  let err1 := if r1.2.2 > 0 then [(r1.2.2, m)] else errSoFar
  let bk := bkAfterOf c r1.1 e (!err1.isEmpty)
  let r2 := handleHooks bk.1 hooks m posW
  let errs := (if r1.2.2 > 0 then [(r1.2.2, m)] else []) ++ (if r2.2.2 > 0 then [(r2.2.2, m)] else [])
  let errFinal := if errs.isEmpty then errSoFar else errs
  let fin := finAfter r2.1 e
  (fin.1, [Step.mark m.name false] ++ r1.2.1 ++ bk.2 ++ r2.2.1 ++ fin.2 ++ [Step.mark m.name true], errFinal)

/-- `fsmEvent` with the configured after_event. -/
def fsmEventOf (c : RunCfg) (env : Env) (hooks : List Hook) (e : Ev) (bodyOk rnFail : Bool) : Env × List Step × Result :=
  match dst? e env.st with
  | none => (env, [], .illegal)
  | some d =>
    let b := beforeEvent env hooks e rnFail
    match b.2.2 with
    | some r => (b.1, b.2.1, r)
    | none =>
      let l := leaveState b.1 hooks e bodyOk
      match l.2.2 with
      | some r => (l.1, b.2.1 ++ l.2.1, r)
      | none =>
        let env := { l.1 with st := d }
        let en := enterState env hooks
        let af := afterEventOf c en.1 hooks e en.2.2
        (af.1, b.2.1 ++ l.2.1 ++ [Step.setState d] ++ en.2.1 ++ af.2.1,
          if af.2.2.isEmpty then .ok else .reported af.2.2)

/-- `controlApi` (the glue as it is) over the configured machine. -/
def controlApiOf (c : RunCfg) (env : Env) (hooks : List Hook) (e : Ev) (bodyOk rnFail : Bool) : Env × List Step × Result :=
  let r := fsmEventOf c env hooks e bodyOk rnFail
  if r.2.2.isOk then r
  else
    let g := fsmEventOf c r.1 hooks .GO_ERROR true false
    let gs := g.2.1.filter (fun s => match s with | .body .. => false | _ => true)
    if g.2.2.isOk || g.1.st == .DONE then (g.1, r.2.1 ++ gs, r.2.2)
    else ({ g.1 with st := .ERROR }, r.2.1 ++ gs ++ [Step.setState .ERROR], r.2.2)

/-- `step` over the configured machine. -/
def stepOf (c : RunCfg) (hooks : List Hook) (nTasks : Nat) (env : Env) : Req → Env × List Step × Result
  | .try_ e b r => fsmEventOf c env hooks e b r
  | .control e b r => if env.gone then (env, [], .notFound) else controlApiOf c env hooks e b r
  | .teardown f r1 r2 => if env.gone then (env, [], .notFound) else teardown env hooks f r1 r2 nTasks

def finalEnvOf (c : RunCfg) (hooks : List Hook) (nTasks : Nat) (env : Env) (qs : List Req) : Env :=
  qs.foldl (fun e q => (stepOf c hooks nTasks e q).1) env

/-! ### the sites that write an end-of-run stamp -/

/-- One `SetRuntimeVar("run_end_time_ms" | "run_end_completion_time_ms", …)` of core/environment, as the model has it. -/
structure StampSite where
  file : String
  ctx : String       -- FSM callback or function
  branch : String    -- event=… / src=… / state=…: the test it stands under
  key : String
  clear : Bool       -- writes "" (before_START_ACTIVITY opens the run) rather than the time
  guarded : Bool     -- writes only if the key is present and empty (`setSoeorIfEmpty` / `setEoeorIfEmpty`)
  publishes : Bool   -- an Ev_RunEvent goes with the write
  deriving DecidableEq, Repr

/-- The writers of the two end stamps, in source order, and the model function each of them is:
    `bkBefore .START_ACTIVITY` (clears), `bkBefore .STOP_ACTIVITY` / `bkBefore .GO_ERROR` (`setSoeorIfEmpty … true`),
    `leaveState` from RUNNING (`setSoeorIfEmpty … false`: no event), `bkAfterOf c .STOP_ACTIVITY` (guarded iff
    `c.stopStampGuarded`), `bkAfter .GO_ERROR` (`setEoeorIfEmpty`), and the two of `teardown` while RUNNING. -/
def stampSites (c : RunCfg) : List StampSite := [
  ⟨"environment.go", "before_event", "event=START_ACTIVITY", "run_end_time_ms", true, false, true⟩,
  ⟨"environment.go", "before_event", "event=START_ACTIVITY", "run_end_completion_time_ms", true, false, true⟩,
  ⟨"environment.go", "before_event", "event=STOP_ACTIVITY", "run_end_time_ms", false, true, true⟩,
  ⟨"environment.go", "before_event", "event=GO_ERROR", "run_end_time_ms", false, true, true⟩,
  ⟨"environment.go", "leave_state", "src=RUNNING", "run_end_time_ms", false, true, false⟩,
  ⟨"environment.go", "after_event", "event=STOP_ACTIVITY", "run_end_completion_time_ms", false, c.stopStampGuarded, true⟩,
  ⟨"environment.go", "after_event", "event=GO_ERROR", "run_end_completion_time_ms", false, true, true⟩,
  ⟨"manager.go", "TeardownEnvironment", "state=RUNNING", "run_end_time_ms", false, true, true⟩,
  ⟨"manager.go", "TeardownEnvironment", "state=RUNNING", "run_end_completion_time_ms", false, true, true⟩]

/-- A site in the shape of the generated table (Gen/EnvStamps.lean). -/
def StampSite.row (s : StampSite) : String × String × String × String × String × String × Bool :=
  (s.file, s.ctx, s.branch, s.key, if s.clear then "clear" else "stamp", if s.guarded then "presentAndEmpty" else "none", s.publishes)

end EnvM
