/-
  Model/EnvPhase — the TASK PHASE of a transition inside its critical section (C01, "one at a time").

  `Environment.handlerFunc` — the helper the leave_<state> callback of the FSM uses — runs the
  task-level body of the transition, `Transition.do`: the command goes to the tasks
  (`taskman.MessageChannel <- …`) and `do` waits for their answer on the environment's `stateChangedCh`.
  handlerFunc calls `do` synchronously and TryTransition holds `transitionMutex` all along (deferred
  unlock), so the task phase — from the command to the answer, however long the tasks take — lies INSIDE
  the locked piece of Model/EnvConc. This layer makes that explicit: on top of a `Sys` of concurrent
  callers it keeps

    * `waiting`    — the callers whose `do` has sent its command and is reading `stateChangedCh`, oldest
                     first (receivers of a Go channel are served in the order in which they arrived),
    * `unanswered` — the callers whose command the tasks have not answered yet,
    * `consumed`   — per answer delivered: (whose command it answers, whose `do` received it),

  and three kinds of moves: a move of a caller in its program (`move` of Model/EnvConc — not enabled while
  the caller's own `do` has not returned), the tasks answering a command, and — only under a configuration
  that is NOT the code (`abandonPhaseCfg`) — handlerFunc giving up on a `do` that is still waiting
  ("the tasks get at most so long"): the caller leaves its critical section with its task phase open.

  As in Model/EnvConc the effect of a locked piece on the environment is applied at the move that takes the
  mutex; what an abandoned transition reports and leaves of the state is not modelled (the statements about
  `abandonPhaseCfg` are about overlap only).
-/
import ControlModel.Model.EnvConc

namespace EnvM

/-- how handlerFunc waits for `Transition.do` -/
structure PhaseCfg where
  /-- handlerFunc may stop waiting for a `do` that has not returned (do() in a goroutine, a select with a
      timer around its result) -/
  abandon : Bool
  deriving Repr, DecidableEq

/-- the code as it is: `transErr := transition.do(env)`, a plain call (`C01_task_phase_is_synchronous_is_code`) -/
def codePhaseCfg : PhaseCfg := { abandon := false }

/-- NOT the code: a body that may be abandoned -/
def abandonPhaseCfg : PhaseCfg := { abandon := true }

def Step.isBody : Step → Bool
  | .body .. => true
  | _ => false

/-- the main-flow steps of the locked piece caller `c` runs next on `env` (nothing if its next move is not a
    locked piece) -/
def nextLockedSteps (hooks : List Hook) (n : Nat) (c : Caller) (env : Env) : List Step :=
  match c.pc with
  | .start =>
    (match c.req with
     | .try_ e b r => (tryTransition env hooks e b r).2.1
     | .control e b r => if !c.listed then [] else (tryTransition env hooks e b r).2.1
     | .teardown f r1 r2 => if !c.listed then [] else (teardown env hooks f r1 r2 n).2.1)
  | .between .goError => (tryTransition env hooks .GO_ERROR true false).2.1
  | _ => []

/-- that piece gets as far as the task-level body of its transition: it has a task phase -/
def nextHasTaskPhase (hooks : List Hook) (n : Nat) (c : Caller) (env : Env) : Bool :=
  (nextLockedSteps hooks n c env).any Step.isBody

structure PSys where
  sys : Sys
  waiting : List Nat := []
  unanswered : List Nat := []
  consumed : List (Nat × Nat) := []
  deriving Repr, Inhabited

inductive PMove where
  | caller (i : Nat)      -- caller `i` moves in its program
  | answer (i : Nat)      -- the tasks answer the command of caller `i`'s transition
  | giveUp (i : Nat)      -- handlerFunc stops waiting for caller `i`'s `do` (never enabled for the code)
  deriving Repr, Inhabited

def isHoldingAt (s : Sys) (i : Nat) : Bool :=
  match s.callers[i]? with
  | some c => c.isHolding
  | none => false

def pmove (cfg : PhaseCfg) (hooks : List Hook) (n : Nat) (ps : PSys) : PMove → PSys
  | .caller i =>
    match ps.sys.callers[i]? with
    | none => ps
    | some c =>
      if c.isHolding && ps.waiting.contains i then ps      -- inside handlerFunc: `do` has not returned
      else
        let s' := move hooks n ps.sys i
        if !c.isHolding && isHoldingAt s' i && nextHasTaskPhase hooks n c ps.sys.env then
          -- took the mutex for a piece that reaches its body: the command goes out, `do` waits
          { ps with sys := s', waiting := ps.waiting ++ [i], unanswered := ps.unanswered ++ [i] }
        else { ps with sys := s' }
  | .answer i =>
    if ps.unanswered.contains i then
      match ps.waiting with
      | [] => ps
      | w :: ws => { ps with waiting := ws, unanswered := ps.unanswered.erase i, consumed := ps.consumed ++ [(i, w)] }
    else ps
  | .giveUp i =>
    if cfg.abandon && isHoldingAt ps.sys i && ps.waiting.contains i then
      { ps with sys := move hooks n ps.sys i }            -- leaves the mutex; its `do` keeps waiting
    else ps

def runPhases (cfg : PhaseCfg) (hooks : List Hook) (n : Nat) (ps : PSys) (sched : List PMove) : PSys :=
  sched.foldl (pmove cfg hooks n) ps

def initPSys (env : Env) (reqs : List Req) : PSys := { sys := initSys env reqs }

end EnvM
