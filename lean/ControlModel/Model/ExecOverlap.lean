/-
  Model/ExecOverlap — OVERLAPPING REQUESTS on one task inside the executor (C17).

  Mirrors  executor/handlers.go: handleMessageEvent and handleKillEvent look the task up in activeTasks INSIDE
           the handler (eventLoop runs one handler at a time) and then serve the request in a goroutine of its
           own (`go func() { … activeTask.Transition(cmd) … }`, `go func() { … hookTask.Trigger() … }`,
           `go func() { _ = activeTask.Kill(); … delete(state.activeTasks, …) }`): the next event is handled
           while the previous request is still being served, and the two goroutines share the task object
           without any lock.
           executor/executable/basictaskcommon.go: startBasicTask (t.taskCmd = prepareTaskCmd(…); pipes and
           t.taskCmd.Start(); `go func() { taskCmd := t.taskCmd; err = taskCmd.Wait() … }`),
           ensureBasicTaskKilled, Kill (t.taskCmd = nil).

  A schedule element is now an `Item`: one step as before (`one op`), or `par a b` — request `b` is delivered
  while request `a` is being served (the harness hands both events to eventLoop back to back).

  The goroutine that serves a request runs in atomic PARTS. Every request is one part (`whole`: what `step`
  does once the look-up has succeeded) except the one that starts a child (START of a basic task, trigger of a
  hook), which is three: `prep` (t.taskCmd is replaced by the prepared command: Process and ProcessState nil),
  `exec` (pipes + Start: uses t.taskCmd), `reap` (the reaper goroutine copies t.taskCmd and waits; the
  request is answered). `exec` and `reap` dereference t.taskCmd: when a KILL has set it to nil in between the
  executor panics (`crash startBasicTask`). The look-up of each request is a part of its own (`look`, run by the
  handler): A's comes first; B's comes after any number of A's parts (the goroutine of A may or may not have run
  when eventLoop handles B).

  The behaviours of `par a b` are ALL interleavings of the parts of the two requests (`parOutcomes`), and, the
  order in which the two goroutines' emissions reach the agent being free as well (a BASIC_TASK_TERMINATED is
  sent by the reaper goroutine, a status by `go sendStatus`), every outcome also with the emissions of the pair
  in the other order. The run of a schedule with overlaps is therefore a SET of outcomes (`runI`); the
  correspondence check is a monitor: the real executor's observation must be one of them.

  Two repairs (`Cfg`, Model/ExecTask) changed what an overlap can do; the code before them is `overlapLegacyCfg`:
  * `killClaimsEntry` — handleKillEvent removes the entry from activeTasks in the critical section that looks it
    up: the look-up part of a KILL that finds the task makes it inactive at once (before: only `whole kill`, the
    goroutine, did), so the look-up of any later request — a second KILL in particular — is refused;
  * `startOwnsCmd` — startBasicTask keeps the command it built in a local variable: `exec` and `reap` no longer
    read t.taskCmd and cannot find nil; a KILL in between still clears the field (the child is then started for a
    task that has reported its terminal status: finding `basic_kill_spares_child`, Kill signals and fences nothing).

  Granularity (modelled, not verified): one part is atomic — in particular the four reads of t.taskCmd in
  ensureBasicTaskKilled (a STOP does not wait: `stopDoesNotWait` in Props/C17) and the handful of statements of
  basicTaskBase.Kill. Not described: two overlapping requests that both start a child, and an overlapping KILL of
  a controllable task (`parOK`).
-/
import ControlModel.Model.ExecTask

namespace ExecTask

/-- One element of a schedule: a single step, or request `b` delivered while request `a` is being served. -/
inductive Item where
  | one (op : Op)
  | par (a b : Op)
  deriving DecidableEq, Repr, Inhabited

/-- the steps that are requests of the core (events), as opposed to the happenings `tick` and `await` -/
def Op.isRequest : Op → Bool
  | .start | .stop | .conf | .trigger | .kill => true
  | _ => false

/-- does serving the request start a child: START of a basic task, trigger of a hook -/
def spawns (k : Kind) (op : Op) : Bool := (k = .basic && op = .start) || (k = .hook && op = .trigger)

/-- the overlaps the model describes and the harness can observe -/
def parOK (k : Kind) (a b : Op) : Bool :=
  a.isRequest && b.isRequest && !(spawns k a && spawns k b) && !(k = .ctl && (a = .kill || b = .kill))

def Item.ok (k : Kind) : Item → Bool
  | .one _ => true
  | .par a b => parOK k a b

/-- Atomic parts of the handling of one request. `h`: the request is a hook trigger (answered with `hresp`). -/
inductive Part where
  | look (op : Op)     -- the handler: look the task up; refuse (notask / ignored), or start the goroutine
  | whole (op : Op)    -- the goroutine serves the request in one piece
  | prep (h : Bool)    -- startBasicTask: t.taskCmd = prepareTaskCmd(…)
  | exec (h : Bool)    -- startBasicTask: StdoutPipe/StderrPipe, Start() (before the repair: through t.taskCmd)
  | reap (h : Bool)    -- startBasicTask: go func() { taskCmd.Wait() … } (before: `taskCmd := t.taskCmd` first); the answer
  deriving DecidableEq, Repr, Inhabited

/-- the parts of the handling of `op` for a task of kind `k`: the look-up, then the goroutine -/
def partsOf (k : Kind) (op : Op) : List Part :=
  if spawns k op then [.look op, .prep (k = .hook), .exec (k = .hook), .reap (k = .hook)]
  else [.look op, .whole op]

/-- A request served after its look-up succeeded, whatever has happened to the task's entry in activeTasks
    since: `step` with the look-up forced. -/
def serve (c : Cfg) (s : St) (op : Op) : St × Res :=
  let (s', r) := step c { s with active := true } op
  ({ s' with active := s'.active && s.active }, r)

/-- startBasicTask up to Start(): the task's command is replaced (Process nil, ProcessState nil); a child
    that is still running is no longer referenced -/
def prepS (s : St) : St :=
  { s with cmd := true, child := .notStarted, reaped := false,
           orphans := if s.child = .running then s.orphans + 1 else s.orphans, helpersOld := s.helpers }

/-- Start() succeeded -/
def execS (s : St) : St :=
  { s with child := .running, helpers := s.helpers || s.beh.forks }

/-- the answer of a START / trigger -/
def spawnAnswer (h : Bool) (failed : Bool) : Res :=
  if h then .hresp failed else .resp (if failed then .CONFIGURED else .RUNNING) failed

/-- the effect of one part -/
inductive PStep where
  /-- the part ran: new state; the request's answer, if this part gives it; `drop`: the rest of the request's
      parts is not run (refused by the look-up; Start() failed) -/
  | next (s : St) (ans : Option Res) (drop : Bool)
  /-- the executor is gone -/
  | halt (r : Res)
  deriving Repr, Inhabited

/-- The task's state after a look-up that found it: the repaired handleKillEvent takes the entry out of
    activeTasks in the critical section of its look-up; every other request (and the KILL handler before the
    repair) leaves it in. -/
def claim (c : Cfg) (s : St) (op : Op) : St :=
  if c.killClaimsEntry && op = .kill then { s with active := false } else s

def pstep (c : Cfg) (s : St) : Part → PStep
  | .look op =>
    if !s.loop then .next s (some .dead) true
    else if s.active then
      .next (claim c s op) none false      -- found: the goroutine is started
    else
      let (s', r) := step c s op           -- no active task: notask / ignored (before the repair: the loop ends)
      .next s' (some r) true
  | .whole op =>
    let (s', r) := serve c s op
    if r.halts then .halt r else .next s' (some r) false
  | .prep _ => if s.kind.basicLike then .next (prepS s) none false else .next s none false
  | .exec h =>
    if !s.cmd && !c.startOwnsCmd then .halt (.crash .startBasicTask)      -- t.taskCmd.StdoutPipe() on nil
    else if s.beh.startFails then .next s (some (spawnAnswer h true)) true
    else .next (execS s) none false
  | .reap h =>
    if !s.cmd && !c.startOwnsCmd then .halt (.crash .startBasicTask)      -- taskCmd := t.taskCmd; taskCmd.Wait() on nil
    else .next s (some (spawnAnswer h false)) false

/-- Two requests in flight: what is left of each and the answers given so far. -/
structure Conf where
  s  : St
  pa : List Part
  ra : Option Res
  pb : List Part
  rb : Option Res
  deriving Repr, Inhabited

/-- which request moves next: the chosen one if it has a part left, else the other -/
def Conf.pickA (cf : Conf) (ch : Bool) : Bool :=
  match cf.pa, cf.pb with
  | [], _ => false
  | _, [] => true
  | _, _ => ch

/-- one move: the next part of the picked request -/
def Conf.move (c : Cfg) (cf : Conf) (ch : Bool) : Except Res Conf :=
  if cf.pickA ch then
    match cf.pa with
    | [] => .ok cf
    | p :: rest =>
      match pstep c cf.s p with
      | .halt r => .error r
      | .next s' ans drop =>
        .ok { cf with s := s', pa := if drop then [] else rest, ra := if ans.isSome then ans else cf.ra }
  else
    match cf.pb with
    | [] => .ok cf
    | p :: rest =>
      match pstep c cf.s p with
      | .halt r => .error r
      | .next s' ans drop =>
        .ok { cf with s := s', pb := if drop then [] else rest, rb := if ans.isSome then ans else cf.rb }

/-- run along a list of choices -/
def runChoices (c : Cfg) : List Bool → Conf → Except Res Conf
  | [], cf => .ok cf
  | ch :: rest, cf =>
    match cf.move c ch with
    | .error r => .error r
    | .ok cf' => runChoices c rest cf'

def allChoices : Nat → List (List Bool)
  | 0 => [[]]
  | n + 1 => (allChoices n).flatMap (fun l => [true :: l, false :: l])

/-- What an overlap leaves behind. -/
inductive POut where
  | done (s : St) (ra rb : Res)
  | halt (r : Res)
  deriving DecidableEq, Repr, Inhabited

/-- the emissions added since the list had `n` elements, in the other order -/
def swapNew (n : Nat) (out : List Emit) : List Emit := out.take n ++ (out.drop n).reverse

def POut.ofRun (n : Nat) : Except Res Conf → List POut
  | .error r => [.halt r]
  | .ok cf =>
    let ra := cf.ra.getD .none
    let rb := cf.rb.getD .none
    [.done cf.s ra rb, .done { cf.s with out := swapNew n cf.s.out } ra rb]

/-- the configuration in which A's event has been handed to its handler and B's is waiting -/
def parStart (s : St) (a b : Op) : Conf :=
  { s := s, pa := partsOf s.kind a, ra := none, pb := partsOf s.kind b, rb := none }

/-- B's look-up never precedes A's: eventLoop handles A's event first -/
def lookFirst (c : Cfg) (cf : Conf) : Except Res Conf := cf.move c true

/-- ALL behaviours of `par a b` in state `s`: every interleaving of the parts (A's look-up first), each with the
    pair's emissions in either order. -/
def parOutcomes (c : Cfg) (s : St) (a b : Op) : List POut :=
  let cf0 := parStart s a b
  let n := cf0.pa.length + cf0.pb.length
  ((allChoices n).flatMap (fun chs =>
    POut.ofRun s.out.length
      (match lookFirst c cf0 with
       | .error r => .error r
       | .ok cf1 => runChoices c chs cf1))).eraseDups

/-! ### schedules of items -/

/-- result of one schedule element -/
inductive IRes where
  | one (r : Res)
  | par (ra rb : Res)
  deriving DecidableEq, Repr, Inhabited

structure IOutcome where
  st     : St
  res    : List IRes
  halted : Bool
  deriving DecidableEq, Repr, Inhabited

def IOutcome.push (r : IRes) (o : IOutcome) : IOutcome := { o with res := r :: o.res }

/-- All runs of the rest of a schedule. A crash or hang ends a run. -/
def runFromI (c : Cfg) (s : St) : List Item → List IOutcome
  | [] => [{ st := finish s, res := [], halted := false }]
  | .one op :: rest =>
    if !s.loop then (runFromI c s rest).map (IOutcome.push (.one .dead))
    else
      let (s', r) := step c s op
      if r.halts then [{ st := haltState s r, res := [.one r], halted := true }]
      else (runFromI c s' rest).map (IOutcome.push (.one r))
  | .par a b :: rest =>
    if !s.loop then (runFromI c s rest).map (IOutcome.push (.par .dead .dead))
    else
      (parOutcomes c s a b).flatMap (fun o =>
        match o with
        | .halt r => [{ st := haltState s r, res := [.one r], halted := true }]
        | .done s' ra rb => (runFromI c s' rest).map (IOutcome.push (.par ra rb)))

def runI (c : Cfg) (k : Kind) (b : Beh) (items : List Item) : List IOutcome :=
  let (s, r) := init c k b
  if r.halts then [{ st := s, res := [.one r], halted := true }]
  else (runFromI c s items).map (IOutcome.push (.one r))

/-- a plain schedule as a schedule of items -/
def plain (ops : List Op) : List Item := ops.map .one

def Outcome.lift (o : Outcome) : IOutcome := { st := o.st, res := o.res.map .one, halted := o.halted }

/-! ### the observation of a schedule of items -/

structure IObs where
  res   : List IRes
  emits : List Emit
  alive : Option Bool
  sigs  : List Sig
  deriving DecidableEq, Repr, Inhabited

def IOutcome.obs (o : IOutcome) : IObs :=
  { res := o.res, emits := o.st.out,
    alive := if o.halted then none else some o.st.alive,
    sigs := if o.halted then [] else o.st.sigs.filter (· ≠ .KILL) }

end ExecTask
