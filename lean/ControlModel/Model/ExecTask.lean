/-
  Model/ExecTask — one task inside the executor (C17).

  Mirrors  executor/executable/task.go            (NewTask, prepareTaskCmd)
           executor/executable/basictaskcommon.go (doLaunch, startBasicTask + its reaper goroutine,
                                                   ensureBasicTaskKilled, Kill)
           executor/executable/basictask.go, hooktask.go (transition functions, Trigger)
           executor/executable/controllabletask.go (Launch + its reaper, Kill, doTermIntKill)
           executor/handlers.go  (handleLaunchEvent, handleMessageEvent, handleKillEvent)
           executor/actions.go   (performStatusUpdate: a terminal status removes the task from activeTasks)
           executor/eventloop.go (a handler error ends the loop)

  One task, one schedule. A schedule is a list of steps; each step is either one
  event delivered to the executor (MESSAGE transition START/STOP/CONFIGURE,
  MESSAGE TriggerHook, KILL) or one asynchronous happening placed at a definite
  position: `tick` (the 200 ms TASK_RUNNING timer armed by doLaunch fires),
  `await` (the latest child ends on its own and its reaper goroutine runs; a
  controllable task that is still dialling has no reaper yet: its command stays a
  zombie) and `giveup` (the gRPC dial of a controllable task's Launch gives up:
  TASK_FAILED, then doTermIntKill over the task's process GROUP — `escalateGroup`,
  a leader and members with signal dispositions of their own, pidExists seeing the
  leader only). The LAUNCH event is always step 0 (`init`).

  The model describes the code THAT EXISTS: a handler that would dereference nil
  yields the explicit result `crash <site>`, a send on the full
  pendingFinalTaskStateCh yields `hang`, a handler error that ends eventLoop
  yields `loopexit`.

  Seven repairs of the executor are switches of the model (`Cfg`): `codeCfg` is the
  code as it is (all seven in), `legacyCfg` the code before them, `overlapLegacyCfg` the
  code before the last two (the repairs of two defects that need overlapping requests:
  Model/ExecOverlap) — the former refutations stay true statements about that code.
  Props/C17 ties every switch of `codeCfg` to a fact re-extracted from the source.
  An eighth switch is not a repair: `launchFailKeepsLeader` (nobody waits for the command
  on the launch-failure path, in every version of the code); `reapingCfg` turns it off to
  state what the no-survivors theorem of a given-up launch depends on.

  What the children do is a parameter (`Beh`); operating-system facts used:
  a process group that received SIGKILL is gone; SIGTERM/SIGINT end a process
  unless it ignores them; a child that forked keeps helpers in its group; a process
  that ended and was not waited for keeps its pid (kill(pid, 0) succeeds).
-/
import ControlModel.Basic

namespace ExecTask

/-- Which repairs are in the code (each is one `fix:` commit in /repo). -/
structure Cfg where
  /-- ensureBasicTaskKilled tests taskCmd.ProcessState and taskCmd.Process for nil and pushes into
      pendingFinalTaskStateCh without blocking (STOP of a running child kills its group) -/
  stopNilSafe : Bool
  /-- handleLaunchEvent returns when NewTask gave no task (TASK_FAILED is already on its way) -/
  launchNilSafe : Bool
  /-- the Launch goroutine of a controllable task tests taskCmd.Process before signalling after a failed Start -/
  startFailSafe : Bool
  /-- handleKillEvent ignores a KILL for a task that is not active instead of returning an error -/
  killInactiveIgnored : Bool
  /-- basicTaskBase.Kill stops the TASK_RUNNING timer armed by doLaunch -/
  killStopsTimer : Bool
  /-- handleKillEvent takes the task out of activeTasks in the critical section that looks it up (before: only
      the goroutine it starts removed the entry, a second KILL handled before that goroutine ran found the task
      again). Matters only when requests overlap (Model/ExecOverlap): in a plain schedule the entry is gone when
      the next request is handled either way. -/
  killClaimsEntry : Bool
  /-- startBasicTask works on the command it built (a local pointer) and only publishes it in t.taskCmd
      (before: StdoutPipe/StderrPipe/Start went through the field and the reaper goroutine copied the field when
      it ran, while basicTaskBase.Kill sets the field to nil from another goroutine). Matters only when requests
      overlap (Model/ExecOverlap). -/
  startOwnsCmd : Bool
  /-- NOT a repair — how the code has always been, a switch only to say what depends on it: on the launch-failure
      paths of ControllableTask.Launch nobody waits for the command before or while doTermIntKill(-pgid) runs.
      A group leader that dies of a signal therefore stays a zombie, and pidExists(-pgid) — which looks at the
      LEADER of the group only — stays true until the whole group has got SIGKILL. `false` = the command is reaped
      while its group is being escalated (`reapingCfg`, not the code): the escalation then stops as soon as the
      leader is gone, whatever is left of the group. -/
  launchFailKeepsLeader : Bool
  deriving DecidableEq, Repr, Inhabited

/-- The code before the repairs. -/
def legacyCfg : Cfg :=
  { stopNilSafe := false, launchNilSafe := false, startFailSafe := false, killInactiveIgnored := false,
    killStopsTimer := false, killClaimsEntry := false, startOwnsCmd := false, launchFailKeepsLeader := true }

/-- The code after the first five repairs and before the two that concern overlapping requests (/repo d83ccb7). -/
def overlapLegacyCfg : Cfg :=
  { stopNilSafe := true, launchNilSafe := true, startFailSafe := true, killInactiveIgnored := true,
    killStopsTimer := true, killClaimsEntry := false, startOwnsCmd := false, launchFailKeepsLeader := true }

/-- The code as it is (identified with the facts extracted from the source in Props/C17). -/
def codeCfg : Cfg :=
  { stopNilSafe := true, launchNilSafe := true, startFailSafe := true, killInactiveIgnored := true,
    killStopsTimer := true, killClaimsEntry := true, startOwnsCmd := true, launchFailKeepsLeader := true }

/-- NOT the code: the code as it is, except that the launch-failure path reaps the command while it escalates
    its process group (what a well-meant "do not leave a zombie behind" would do). Kept to state what the
    no-survivors theorems of the launch failure depend on (Props/C17). -/
def reapingCfg : Cfg := { codeCfg with launchFailKeepsLeader := false }

/-- controlmode.BASIC / HOOK / DIRECT(=controllable); `nodata` = TaskInfo.Data missing. -/
inductive Kind where
  | basic | hook | ctl | nodata
  deriving DecidableEq, Repr, Inhabited

/-- What the child process does.
    basic/hook children (`/bin/sh -c` scripts): `ok` exit 0, `fail` exit 3, `sig` dies of a signal on its
    own, `fork` has a helper process in its group and exits 0, `nobin` cannot be started, `ign` = `ok` that
    ignores SIGTERM and SIGINT (nothing in the executor's handling of a basic or hook task sends either: the
    model treats it as `ok`; the correspondence run holds the real executor to that).
    controllable children: `noport` never opens its control port, `nobin` cannot be started,
    `occ*` serve OCC and walk to DONE when asked: `occ` exits at DONE, `occstay` stays and dies of
    SIGTERM, `occign` ignores SIGTERM/SIGINT, `occfork` has a helper in its group, `occfail` = `occ`
    that exits 3 when it ends on its own.
    `noport*`: controllable children that never open their control port, told apart by the PROCESS GROUP the
    executor has to terminate when it gives the launch up (`Beh.lead`, `Beh.members`: how the group leader and the
    other members treat SIGTERM and SIGINT): `noport` a leader alone that obeys; `noportfork` + a member that
    obeys; `noportkid` + a member that ignores both signals; `noportkidt` + a member that ignores SIGTERM only;
    `noportign` leader and member ignore both; `noportmix` an obeying leader with one member of each kind. -/
inductive Beh where
  | ok | fail | sig | fork | nobin | noport | occ | occstay | occign | occfork | occfail | ign
  | noportfork | noportkid | noportkidt | noportign | noportmix
  deriving DecidableEq, Repr, Inhabited

/-- `giveup`: the gRPC dial of ControllableTask.Launch gives up (GRPC_DIAL_TIMEOUT after it began) — like `tick`
    and `await` an asynchronous happening that the schedule gives a position. -/
inductive Op where
  | tick | start | stop | conf | trigger | kill | await | giveup
  deriving DecidableEq, Repr, Inhabited

/-- The shape in which the command reaches prepareTaskCmd (task.go): TaskCommandInfo.Shell and .Arguments.
    `sh` / `sha`: run through `/bin/sh -c` (value alone / value and arguments joined by spaces);
    `ex` / `exa`: exec'd directly (without / with arguments).
    prepareTaskCmd gives the child a process group of its own (`SysProcAttr.Setpgid`) whatever the shape
    (`ownGroup`, identified with the source in Props/C17), and every termination site addresses the task by that
    group or by the device's pid: nothing in the executor's control logic depends on the shape. The model
    therefore does NOT look at it (`runIn`), and the correspondence run compares the real executor's behaviour
    for every shape with the same model run. -/
inductive Shape where
  | sh | sha | ex | exa
  deriving DecidableEq, Repr, Inhabited

/-- terminal mesos.TaskState values. -/
inductive Fin where
  | FINISHED | FAILED | KILLED
  deriving DecidableEq, Repr, Inhabited

/-- What leaves the executor: UPDATE calls (`running`, `term`) and the
    BASIC_TASK_TERMINATED device event (`btt final voluntary exitCode`). -/
inductive Emit where
  | running
  | term (f : Fin)
  | btt (f : Fin) (vol : Bool) (code : Int)
  deriving DecidableEq, Repr, Inhabited

inductive Child where
  | notStarted | running | exited (code : Nat) | signalled
  deriving DecidableEq, Repr, Inhabited

/-- O² state machine of a DIRECT-mode device. -/
inductive Dev where
  | STANDBY | CONFIGURED | RUNNING | DONE
  deriving DecidableEq, Repr, Inhabited

inductive Sig where
  | TERM | INT | KILL
  deriving DecidableEq, Repr, Inhabited

/-- What a process does with SIGTERM and SIGINT (SIGKILL ends every process). -/
inductive Disp where
  | obey       -- dies of either
  | ignTerm    -- ignores SIGTERM, dies of SIGINT
  | ignAll     -- ignores both
  deriving DecidableEq, Repr, Inhabited

def Disp.survives : Disp → Sig → Bool
  | .ignTerm, .TERM => true
  | .ignAll, .TERM => true
  | .ignAll, .INT => true
  | _, _ => false

/-- A process group as doTermIntKill(-pgid) meets it: the leader (the command the executor started — its pid is
    the group's id) and the other members. -/
structure Grp where
  /-- how the leader treats the signals -/
  lead : Disp
  /-- the leader is running -/
  leadLive : Bool
  /-- the leader has ended and nobody has waited for it: the pid still exists -/
  leadZombie : Bool
  /-- the other members that are running -/
  members : List Disp
  deriving DecidableEq, Repr, Inhabited

/-- Where the executor process panics. -/
inductive Site where
  | handleLaunchEvent        -- handlers.go: myTask.Launch() on the nil Task returned by NewTask
  | ctlLaunch                -- controllabletask.go Launch goroutine: taskCmd.Process.Pid after a failed Start
  | ensureBasicTaskKilled    -- basictaskcommon.go: taskCmd.ProcessState.Exited() with ProcessState == nil
  | ctlKill                  -- controllabletask.go Kill: t.rpc.GetState with t.rpc == nil
  | startBasicTask           -- basictaskcommon.go startBasicTask (before it worked on its own pointer): t.taskCmd used
                             -- (pipes, Start, the reaper goroutine's copy) after a concurrent Kill set it to nil — only
                             -- in an overlap of the two requests
  deriving DecidableEq, Repr, Inhabited

inductive Res where
  | ok | none | dead | loopexit | notask | norpc | nonhook
  | ignored     -- a KILL for a task that is not active (any more), survived by the loop
  | resp (st : Dev) (err : Bool)
  | hresp (err : Bool)
  | crash (s : Site)
  | hang
  deriving DecidableEq, Repr, Inhabited

structure St where
  kind    : Kind
  beh     : Beh
  /-- eventLoop still running -/
  loop    : Bool
  /-- the task is in state.activeTasks -/
  active  : Bool
  /-- the time.AfterFunc(200ms, TASK_RUNNING) of doLaunch has not fired yet -/
  timer   : Bool
  /-- basic/hook: t.taskCmd != nil -/
  cmd     : Bool
  /-- the latest child started for this task -/
  child   : Child
  /-- Wait() has returned for the latest child: ProcessState is set, its reaper has run -/
  reaped  : Bool
  /-- pendingFinalTaskStateCh (capacity 1) -/
  pending : Option Fin
  /-- running children no longer referenced by the task (taskCmd overwritten by a restart) -/
  orphans : Nat
  /-- a forked helper process is alive in a child's process group -/
  helpers : Bool
  /-- a forked helper process is alive in the group of a child that is not the latest one -/
  helpersOld : Bool
  /-- controllable: t.rpc != nil -/
  rpc     : Bool
  dev     : Dev
  out     : List Emit
  /-- signals sent by doTermIntKill, in order -/
  sigs    : List Sig
  /-- a KILL request has been carried out -/
  killed  : Bool
  /-- the executor has given the launch up (dial timeout): TASK_FAILED reported, the group escalated -/
  gaveUp  : Bool
  /-- signals sent to the process GROUP by the doTermIntKill of the launch failure, in order (not observable:
      the members of such a group do not report what they receive) -/
  gsigs   : List Sig
  deriving DecidableEq, Repr, Inhabited

/-! ### behaviours -/

def Beh.forks : Beh → Bool
  | .fork | .occfork => true
  | _ => false

def Beh.startFails : Beh → Bool
  | .nobin => true
  | _ => false

/-- becomes ready: opens the control port and reaches STANDBY -/
def Beh.ready : Beh → Bool
  | .occ | .occstay | .occign | .occfork | .occfail => true
  | _ => false

/-- how the child ends when it ends on its own -/
def Beh.ownEnd : Beh → Child
  | .fail | .occfail => .exited 3
  | .sig => .signalled
  | _ => .exited 0

def Beh.exitsAtDone : Beh → Bool
  | .occ | .occfork | .occfail => true
  | _ => false

def Beh.ignoresTermInt : Beh → Bool
  | .occign => true
  | _ => false

/-- never opens its control port -/
def Beh.unready : Beh → Bool
  | .noport | .noportfork | .noportkid | .noportkidt | .noportign | .noportmix => true
  | _ => false

/-- how the leader of an unready task's process group treats SIGTERM / SIGINT -/
def Beh.lead : Beh → Disp
  | .noportign => .ignAll
  | _ => .obey

/-- the other members of an unready task's process group -/
def Beh.members : Beh → List Disp
  | .noportfork => [.obey]
  | .noportkid => [.ignAll]
  | .noportkidt => [.ignTerm]
  | .noportign => [.ignAll]
  | .noportmix => [.obey, .ignTerm, .ignAll]
  | _ => []

def Kind.basicLike : Kind → Bool
  | .basic | .hook => true
  | _ => false

/-! ### pieces of the code -/

def Emit.isTerm : Emit → Bool
  | .term _ => true
  | _ => false

/-- what cmd.Wait()'s error makes of the child's end: FINISHED iff exit status 0 -/
def Child.base : Child → Fin
  | .exited 0 => .FINISHED
  | _ => .FAILED

def Child.code : Child → Int
  | .exited n => n
  | _ => -1

/-- The reaper goroutine of startBasicTask: a value waiting in pendingFinalTaskStateCh overrides the
    state derived from Wait() and clears `voluntary`. -/
def bttOf (c : Child) (p : Option Fin) : Emit :=
  match p with
  | some f => .btt f false c.code
  | none => .btt c.base true c.code

/-- startBasicTask (START of a basic task, Trigger of a hook). Returns (state, failed). -/
def spawn (s : St) : St × Bool :=
  let orph := if s.child = .running then s.orphans + 1 else s.orphans
  if s.beh.startFails then
    -- prepareTaskCmd has already assigned t.taskCmd; Start() fails: Process and ProcessState stay nil
    ({ s with cmd := true, child := .notStarted, reaped := false, orphans := orph, helpersOld := s.helpers }, true)
  else
    ({ s with cmd := true, child := .running, reaped := false, orphans := orph, helpersOld := s.helpers,
              helpers := s.helpers || s.beh.forks }, false)

/-- ensureBasicTaskKilled, basic tasks only.
    Repaired (`stopNilSafe`): a child whose Wait() has returned, or that never started, is left alone; a running
    child gets TASK_KILLED queued for its reaper (never blocking) and SIGKILL to its process group: the child and
    the helpers of its group are gone, the reaper reports BASIC_TASK_TERMINATED (KILLED, involuntary).
    Before: ProcessState was used without a nil test (panic while the child runs / after a failed Start), and
    after a child that died of a signal the push went into a channel nobody reads any more. -/
def stopBasic (c : Cfg) (s : St) : St × Res :=
  if !s.cmd then (s, .resp .CONFIGURED false)
  else if c.stopNilSafe then
    if s.reaped then (s, .resp .CONFIGURED false)                      -- ProcessState != nil
    else match s.child with
      | .running =>
        let p := match s.pending with
          | some f => some f                                           -- channel full: the push is skipped
          | none => some .KILLED
        ({ s with child := .signalled, reaped := true, pending := none, helpers := s.helpersOld,
                  out := s.out ++ [bttOf .signalled p] }, .resp .CONFIGURED false)
      | _ => (s, .resp .CONFIGURED false)                              -- Process == nil: Start() failed
  else if !s.reaped then (s, .crash .ensureBasicTaskKilled)           -- ProcessState == nil
  else match s.child with
    | .exited _ => (s, .resp .CONFIGURED false)                        -- ProcessState.Exited()
    | _ =>                                                             -- reaped, died of a signal
      match s.pending with
      | some _ => (s, .hang)                                           -- send on the full channel
      | none => ({ s with pending := some .KILLED }, .resp .CONFIGURED true)  -- kill(-pid): ESRCH

/-- doTermIntKill after DONE_TIMEOUT, for a device that has been walked to DONE. -/
def escalate (b : Beh) : List Sig × Child :=
  if b.exitsAtDone then ([], .exited 0)            -- pidExists is false: "task terminated on its own"
  else if !b.ignoresTermInt then ([.TERM], .signalled)
  else ([.TERM, .INT, .KILL], .signalled)

/-! ### doTermIntKill over a process GROUP (the launch-failure paths of ControllableTask.Launch) -/

/-- pidExists(-pgid): the pid of the group LEADER exists — running, or ended and not waited for. -/
def Grp.leaderSeen (g : Grp) : Bool := g.leadLive || g.leadZombie

/-- kill(-pgid, sig) finds a process to signal (a zombie counts). -/
def Grp.any (g : Grp) : Bool := g.leaderSeen || !g.members.isEmpty

/-- some process of the group still runs -/
def Grp.live (g : Grp) : Bool := g.leadLive || !g.members.isEmpty

/-- kill(-pgid, sig): every running process that does not ignore the signal ends. A leader that ends stays a
    zombie if nobody waits for it (`keeps`), else it is gone at once. -/
def Grp.signal (keeps : Bool) (g : Grp) (sg : Sig) : Grp :=
  { g with leadLive := g.leadLive && g.lead.survives sg,
           leadZombie := (g.leadZombie || (g.leadLive && !g.lead.survives sg)) && keeps,
           members := g.members.filter (fun d => d.survives sg) }

/-- doTermIntKill(-pgid), statement by statement: SIGTERM to the group; if that could be delivered, after
    SIGTERM_TIMEOUT `if pidExists(pid)` SIGINT and SIGINT_TIMEOUT; then `if !pidExists(pid) return`; else SIGKILL.
    Both tests see the leader only. Returns the signals sent and what is left of the group. -/
def escalateGroup (keeps : Bool) (g : Grp) : List Sig × Grp :=
  let g0 : Grp := { g with leadZombie := g.leadZombie && keeps }    -- a Wait() in flight collects a zombie at once
  let g1 := g0.signal keeps .TERM
  let int := g0.any && g1.leaderSeen
  let g2 := if int then g1.signal keeps .INT else g1
  let sg := if int then [Sig.TERM, .INT] else [.TERM]
  if g2.leaderSeen then (sg ++ [.KILL], g2.signal keeps .KILL) else (sg, g2)

/-- the device's answer to a transition request -/
def devEdge : Op → Option (Dev × Dev)
  | .conf => some (.STANDBY, .CONFIGURED)
  | .start => some (.CONFIGURED, .RUNNING)
  | .stop => some (.RUNNING, .CONFIGURED)
  | _ => none

/-- destination the core names in the transition command (used by the no-op transitions) -/
def opDst : Op → Dev
  | .start => .RUNNING
  | _ => .CONFIGURED

def ctlTransition (s : St) (op : Op) : St × Res :=
  if !s.rpc then (s, .norpc)                                           -- UnmarshalTransition: "RPC is down"
  else match devEdge op with
    | some (src, dst) =>
      if s.dev = src then ({ s with dev := dst }, .resp dst false)
      else (s, .resp s.dev true)
    | none => (s, .none)

/-- the reaper part of ControllableTask.Launch's goroutine -/
def reapCtl (s : St) (c : Child) : St :=
  let fin := match s.pending with
    | some f => f
    | none => c.base
  { s with child := c, reaped := true, pending := none, rpc := false, active := false,
           out := s.out ++ [.term fin] }

/-- the process group of a controllable task as its Launch goroutine finds it when the dial gives up -/
def grpOf (s : St) : Grp :=
  { lead := s.beh.lead, leadLive := s.child = .running,
    leadZombie := s.child ≠ .running && s.child ≠ .notStarted && !s.reaped,
    members := if s.helpers then s.beh.members else [] }

/-- ControllableTask.Launch, `t.rpc == nil` after NewClient: TASK_FAILED (which takes the task out of
    activeTasks), then doTermIntKill(-pid) over the process group. Nobody has called Wait(). -/
def giveUp (c : Cfg) (s : St) : St :=
  { s with active := false, gaveUp := true,
           gsigs := (escalateGroup c.launchFailKeepsLeader (grpOf s)).1,
           child := if s.child = .running && !(escalateGroup c.launchFailKeepsLeader (grpOf s)).2.leadLive
                    then .signalled else s.child,
           helpers := !(escalateGroup c.launchFailKeepsLeader (grpOf s)).2.members.isEmpty,
           out := s.out ++ [.term .FAILED] }

/-- One step. The task is looked up in activeTasks first (handlers.go). -/
def step (c : Cfg) (s : St) (op : Op) : St × Res :=
  match op with
  | .tick =>
    if s.kind.basicLike then
      if s.timer then ({ s with timer := false, out := s.out ++ [.running] }, .ok) else (s, .ok)
    else (s, .none)
  | .await =>
    if s.child = .running then
      let c := s.beh.ownEnd
      if s.kind.basicLike then
        ({ s with child := c, reaped := true, pending := none, out := s.out ++ [bttOf c s.pending] }, .ok)
      else if s.kind = .ctl && s.rpc then (reapCtl s c, .ok)
      else if s.kind = .ctl && s.active then
        ({ s with child := c }, .ok)   -- controllable, still dialling: nobody calls Wait() — the leader stays a zombie
      else (s, .none)
    else (s, .none)
  | .giveup =>
    -- only a controllable task whose Launch goroutine is still dialling has a dial that can give up
    if s.kind = .ctl && s.active && !s.rpc then (giveUp c s, .ok) else (s, .none)
  | .kill =>
    if !s.active then
      if c.killInactiveIgnored then (s, .ignored)                        -- logged, nothing to do
      else ({ s with loop := false }, .loopexit)                         -- "invalid task ID" ends eventLoop
    else match s.kind with
      | .basic | .hook =>
        -- basicTaskBase.Kill: forget taskCmd, (repaired: stop the TASK_RUNNING timer,) report FINISHED;
        -- the child is not signalled
        ({ s with cmd := false, active := false, killed := true, timer := s.timer && !c.killStopsTimer,
                  out := s.out ++ [.term .FINISHED] }, .ok)
      | .ctl =>
        if !s.rpc then (s, .crash .ctlKill)
        else
          -- GetState ok, walk to DONE, rpc = nil, pending <- FINISHED, DONE_TIMEOUT, escalate, reaper
          let (sg, c) := escalate s.beh
          (reapCtl { s with dev := .DONE, pending := some .FINISHED, sigs := sg, killed := true } c, .ok)
      | .nodata => ({ s with active := false }, .none)    -- no task object (never active): the entry, if any, goes
  | .trigger =>
    if !s.active then (s, .notask)
    else if s.kind = .hook then
      let (s', failed) := spawn s
      (s', .hresp failed)
    else (s, .nonhook)
  | .start | .stop | .conf =>
    if !s.active then (s, .notask)
    else match s.kind with
      | .basic =>
        match op with
        | .start =>
          let (s', failed) := spawn s
          (s', .resp (if failed then .CONFIGURED else .RUNNING) failed)
        | .stop => stopBasic c s
        | _ => (s, .resp (opDst op) false)
      | .hook => (s, .resp (opDst op) false)
      | .ctl => ctlTransition s op
      | .nodata => (s, .none)

def base (k : Kind) (b : Beh) : St :=
  { kind := k, beh := b, loop := true, active := false, timer := false, cmd := false, child := .notStarted,
    reaped := false, pending := none, orphans := 0, helpers := false, helpersOld := false, rpc := false,
    dev := .STANDBY,
    out := [], sigs := [], killed := false, gaveUp := false, gsigs := [] }

/-- Step 0: the LAUNCH event.
    `nodata`: NewTask reports TASK_FAILED and returns nil; repaired, handleLaunchEvent stops there (the task
    never becomes active), before it called Launch() on nil.
    controllable, Start() fails: the Launch goroutine reports TASK_FAILED (which removes the task from
    activeTasks); repaired, it stops there, before it evaluated taskCmd.Process.Pid with Process == nil. -/
def init (c : Cfg) (k : Kind) (b : Beh) : St × Res :=
  match k with
  | .nodata =>
    if c.launchNilSafe then ({ base k b with out := [.term .FAILED] }, .ok)
    else (base k b, .crash .handleLaunchEvent)
  | .basic | .hook => ({ base k b with active := true, timer := true }, .ok)
  | .ctl =>
    if b.startFails then
      if c.startFailSafe then ({ base k b with out := [.term .FAILED] }, .ok)
      else (base k b, .crash .ctlLaunch)
    else if b.ready then
      ({ base k b with active := true, child := .running, rpc := true, helpers := b.forks, out := [.running] }, .ok)
    else ({ base k b with active := true, child := .running, helpers := !b.members.isEmpty }, .ok)

def Res.halts : Res → Bool
  | .crash _ | .hang => true
  | _ => false

/-- crashed, hung, or ended the event loop -/
def Res.stuck : Res → Bool
  | .crash _ | .hang | .loopexit => true
  | _ => false

/-- end of the schedule: an armed TASK_RUNNING timer fires (and is delivered if the loop still runs) -/
def finish (s : St) : St :=
  if s.kind.basicLike && s.timer && s.loop then { s with timer := false, out := s.out ++ [.running] } else s

structure Outcome where
  st     : St
  res    : List Res
  halted : Bool
  deriving Repr, Inhabited

/-- The state reported when a step is fatal: the one before the step (what the step itself emitted races with
    the crash and is not compared). After a hang the executor lives on, so an armed TASK_RUNNING timer still fires. -/
def haltState (s : St) (r : Res) : St :=
  match r with
  | .hang => finish s
  | _ => s

/-- Run the rest of a schedule. A crash or hang ends it. -/
def runFrom (c : Cfg) (s : St) : List Op → Outcome
  | [] => { st := finish s, res := [], halted := false }
  | op :: ops =>
    if !s.loop then
      let o := runFrom c s ops
      { o with res := .dead :: o.res }
    else
      let (s', r) := step c s op
      if r.halts then { st := haltState s r, res := [r], halted := true }
      else
        let o := runFrom c s' ops
        { o with res := r :: o.res }

def run (c : Cfg) (k : Kind) (b : Beh) (ops : List Op) : Outcome :=
  let (s, r) := init c k b
  if r.halts then { st := s, res := [r], halted := true }
  else
    let o := runFrom c s ops
    { o with res := r :: o.res }

/-- prepareTaskCmd: is the child made the leader of a process group of its own? For every command shape —
    the operating-system facts of this model ("SIGKILL to the group of the child ends the child and the helpers
    in its group") are about that group. -/
def ownGroup : Shape → Bool := fun _ => true

/-- The run of a task whose command has the given shape: the shape has no influence. -/
def runIn (c : Cfg) (k : Kind) (b : Beh) (_shape : Shape) (ops : List Op) : Outcome := run c k b ops

/-- is anything of the task's process groups still alive -/
def St.alive (s : St) : Bool := s.child = .running || s.orphans > 0 || s.helpers

/-! ### the observation (shared by the model's output and the parsed implementation output) -/

structure Obs where
  res   : List Res
  emits : List Emit
  alive : Option Bool
  sigs  : List Sig
  deriving Repr, Inhabited

def Outcome.obs (o : Outcome) : Obs :=
  { res := o.res, emits := o.st.out,
    alive := if o.halted then none else some o.st.alive,
    sigs := if o.halted then [] else o.st.sigs.filter (· ≠ .KILL) }   -- SIGKILL cannot be seen by its target

/-! ### constants and tables of controllabletask.go restated (tied to the code in Props/C17) -/

/-- `nextTransition` inside ControllableTask.Kill: (current state, event, destination). -/
def killWalk : List (String × String × String) :=
  [("RUNNING", "STOP", "CONFIGURED"), ("CONFIGURED", "RESET", "STANDBY"), ("ERROR", "EXIT", "DONE"), ("STANDBY", "EXIT", "DONE")]

def walkNext (tbl : List (String × String × String)) (s : String) : Option String :=
  (tbl.find? (fun e => e.1 == s)).map (·.2.2)

/-- follow the table for at most `fuel` transitions on a device that obeys -/
def walkToDone (tbl : List (String × String × String)) : Nat → String → Bool
  | 0, s => s == "DONE"
  | n + 1, s => if s == "DONE" then true else
      match walkNext tbl s with
      | some d => walkToDone tbl n d
      | none => false

/-- capacity of pendingFinalTaskStateCh: one value (`pending : Option Fin`). -/
def pendingCap : Nat := 1

/-- wall-clock the escalation of `escalate` takes, in ms, given the code's timeouts -/
def escalateMs (done term int : Nat) (b : Beh) : Nat :=
  if b.exitsAtDone then done
  else if !b.ignoresTermInt then done + term
  else done + term + int

/-! ### names for the wire -/

def Kind.parse? : String → Option Kind
  | "basic" => some .basic | "hook" => some .hook | "ctl" => some .ctl | "nodata" => some .nodata | _ => none

def Beh.parse? : String → Option Beh
  | "ok" => some .ok | "fail" => some .fail | "sig" => some .sig | "fork" => some .fork | "nobin" => some .nobin
  | "noport" => some .noport | "occ" => some .occ | "occstay" => some .occstay | "occign" => some .occign
  | "occfork" => some .occfork | "occfail" => some .occfail | "ign" => some .ign
  | "noportfork" => some .noportfork | "noportkid" => some .noportkid | "noportkidt" => some .noportkidt
  | "noportign" => some .noportign | "noportmix" => some .noportmix | _ => none

def Op.parse? : String → Option Op
  | "tick" => some .tick | "start" => some .start | "stop" => some .stop | "conf" => some .conf
  | "trigger" => some .trigger | "kill" => some .kill | "await" => some .await | "giveup" => some .giveup
  | _ => none

/-- the (kind, behaviour) pairs the harness can build -/
def validCase : Kind → Beh → Bool
  | .basic, b | .hook, b => b = .ok || b = .fail || b = .sig || b = .fork || b = .nobin || b = .ign
  | .ctl, b => b.unready || b = .nobin || b.ready
  | .nodata, b => b = .ok

def Shape.parse? : String → Option Shape
  | "sh" => some .sh | "sha" => some .sha | "ex" => some .ex | "exa" => some .exa | _ => none

/-- the shape of an input that names none: through the shell; a command that cannot be started is exec'd directly -/
def Shape.default (b : Beh) : Shape := if b = .nobin then .ex else .sh

/-- the (kind, behaviour, shape) triples the harness can build: a command that cannot be started has no shell
    form (the shell would start and exit 127); a task without data has no command at all -/
def validShape : Kind → Beh → Shape → Bool
  | .nodata, _, s => s = .sh
  | _, .nobin, s => s = .ex || s = .exa
  | _, _, _ => true

def Fin.name : Fin → String
  | .FINISHED => "FINISHED" | .FAILED => "FAILED" | .KILLED => "KILLED"

def Fin.parse? : String → Option Fin
  | "FINISHED" => some .FINISHED | "FAILED" => some .FAILED | "KILLED" => some .KILLED | _ => none

def Dev.name : Dev → String
  | .STANDBY => "STANDBY" | .CONFIGURED => "CONFIGURED" | .RUNNING => "RUNNING" | .DONE => "DONE"

def Dev.parse? : String → Option Dev
  | "STANDBY" => some .STANDBY | "CONFIGURED" => some .CONFIGURED | "RUNNING" => some .RUNNING
  | "DONE" => some .DONE | _ => none

def Site.name : Site → String
  | .handleLaunchEvent => "handleLaunchEvent"
  | .ctlLaunch => "ControllableTask.Launch"
  | .ensureBasicTaskKilled => "basicTaskBase.ensureBasicTaskKilled"
  | .ctlKill => "ControllableTask.Kill"
  | .startBasicTask => "basicTaskBase.startBasicTask"

def Site.parse? : String → Option Site
  | "handleLaunchEvent" => some .handleLaunchEvent
  | "ControllableTask.Launch" => some .ctlLaunch
  | "basicTaskBase.ensureBasicTaskKilled" => some .ensureBasicTaskKilled
  | "ControllableTask.Kill" => some .ctlKill
  | "basicTaskBase.startBasicTask" => some .startBasicTask
  | _ => none

def Sig.name : Sig → String
  | .TERM => "TERM" | .INT => "INT" | .KILL => "KILL"

def Sig.parse? : String → Option Sig
  | "TERM" => some .TERM | "INT" => some .INT | "KILL" => some .KILL | _ => none

end ExecTask
