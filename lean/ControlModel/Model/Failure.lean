/-
  Model/Failure — what the failure of a task does to a live environment (C03).

  Composition of
    * core/task/manager.go  handleMessage(TaskStatusMessage) / updateTaskStatus /
      updateTaskState / HandleExecutorFailed / HandleAgentFailed, scheduler.go failure():
      a terminal Mesos status of an owned task, the loss of its executor or of its
      agent ⇒ task state ERROR (TASK_FINISHED ⇒ DONE) and status INACTIVE — whatever the
      REASON of the status update: also when the core was cut off from the master while the
      task died and learns the terminal state only from the answer to the implicit RECONCILE
      of its re-subscription (kinds R…, `Kind.viaReconciliation`);
    * core/environment/manager.go handleDeviceEvent(TASK_INTERNAL_ERROR): the task's ROLE is
      told ERROR whatever the environment's state (task.state is not touched; `Cfg.roleAlways`,
      the code as it is since "fix: a task's TASK_INTERNAL_ERROR reaches its role in every
      environment state"), and — only if the environment reports RUNNING at that instant and the
      task is CRITICAL (`Cfg.stopAsksCritical`, "fix: TASK_INTERNAL_ERROR of a non-critical task
      does not stop the run") — the same goroutine then queues env.TryTransition(STOP_ACTIVITY).
      Before the two repairs (`deviceLegacyCfg`): nothing at all unless RUNNING, and the STOP
      whatever the task's criticality. The environment is the one of the task's parent role,
      `envs.environment(t.GetEnvironmentId())` (`Cfg.envByTask`) — not the one the event's
      `environmentId` label names (the environment the executor launched the task for): the
      difference shows only among several environments, Model/FailureRoster `hitTagged`;
    * core/workflow/taskrole.go + aggregatorrole.go  = RoleTree.updState / updStatus;
    * core/workflow/parentadapter.go updateState: a NON-BLOCKING send on the channel of
      every subscriber (`notify`). The watcher's channel has a buffer of one value
      (`Cfg.buffered`, the code as it is since "fix: the workflow state watcher cannot miss
      an ERROR …"): the value is kept if the buffer is empty and dropped if it is full.
      `legacyCfg` is the code before: an unbuffered channel, the value is delivered iff the
      watcher is parked at its receive at that instant (`ready`, decided by the schedule);
    * core/environment/environment.go subscribeToWfState: the watcher goroutine
      (`Watch`): it takes the pending value (`Label.take`), then (`Label.look`,
      `Cfg.reread`) re-reads the root role's state — ERROR there overrides a stale value —
      and on ERROR arms a 500 ms timer and leaves its loop, on DONE it just leaves. The goroutine is
      CREATED by `subscribeToWfState` at the end of the creation (after CONFIGURE); until it runs
      (`Watch.starting`, `Label.subscribe`) nobody is subscribed, and when it runs it first reads the
      root once — a root that is ERROR already makes it return without entering its loop; the timer
      (`Label.timer`) runs GO_ERROR through TryTransition, forces the state to ERROR if that
      is refused, and sends STOP to every task whose own state is RUNNING;
    * Model/Env for the environment machine itself (GO_ERROR bookkeeping, controlApi).

  Time is abstracted to enabledness: an in-flight transition holds the transition
  mutex, so `timer` and `devStop` are enabled only when nothing is in flight; replies of
  an in-flight transition arrive one by one (`arrive`), each queues a task-state update
  that is applied at any later moment (`apply`), and the transition ends when all
  replies are in (`finish`).
  Core only.
-/
import ControlModel.Model.RoleTree
import ControlModel.Model.Env

namespace Failure
open RoleTree EnvM

/-- How a task fails on its own. EXEC/AGENT: FAILURE event preceded by the agent's /
    master's terminal status updates for the tasks; EXEC0/AGENT0: the bare FAILURE event.
    R…: the task died while the core was cut off from the master (event stream dropped); the
    one-shot status update was never delivered and the core learns the terminal state only
    from the master's answer to the implicit RECONCILE it sends on every (re-)subscription:
    a TaskStatusMessage with reason REASON_RECONCILIATION about a task that IS in the roster
    (RAGENT: TASK_LOST reported that way for every task of an agent). -/
inductive Kind where
  | FAILED | LOST | KILLED | TERROR | FINISHED | EXEC | EXEC0 | AGENT | AGENT0 | INTERNAL
  | RFAILED | RLOST | RKILLED | RTERROR | RFINISHED | RAGENT
  deriving DecidableEq, Repr, Inhabited

def Kind.all : List Kind := [.FAILED, .LOST, .KILLED, .TERROR, .FINISHED, .EXEC, .EXEC0, .AGENT, .AGENT0, .INTERNAL,
  .RFAILED, .RLOST, .RKILLED, .RTERROR, .RFINISHED, .RAGENT]

def Kind.name : Kind → String
  | .FAILED => "FAILED" | .LOST => "LOST" | .KILLED => "KILLED" | .TERROR => "TERROR" | .FINISHED => "FINISHED"
  | .EXEC => "EXEC" | .EXEC0 => "EXEC0" | .AGENT => "AGENT" | .AGENT0 => "AGENT0" | .INTERNAL => "INTERNAL"
  | .RFAILED => "RFAILED" | .RLOST => "RLOST" | .RKILLED => "RKILLED" | .RTERROR => "RTERROR" | .RFINISHED => "RFINISHED"
  | .RAGENT => "RAGENT"

/-- Learnt only through the reconciliation answer after a re-subscription. -/
def Kind.viaReconciliation : Kind → Bool
  | .RFAILED | .RLOST | .RKILLED | .RTERROR | .RFINISHED | .RAGENT => true
  | _ => false

/-- The same terminal Mesos state delivered directly (a status update with any other reason). -/
def Kind.direct : Kind → Kind
  | .RFAILED => .FAILED | .RLOST => .LOST | .RKILLED => .KILLED | .RTERROR => .TERROR | .RFINISHED => .FINISHED
  | .RAGENT => .LOST
  | k => k

def Kind.parse? (s : String) : Option Kind := Kind.all.find? (fun k => k.name == s)

/-- What the core does to ONE affected task. -/
structure Effect where
  st : Option TState      -- updateTaskState(…) / role.UpdateState(…)
  su : Option TStatus     -- role.UpdateStatus(…)
  stop : Bool             -- handleDeviceEvent queues env.TryTransition(STOP_ACTIVITY)
  roleOnly : Bool         -- only the role was told: task.state keeps its value
  deriving DecidableEq, Repr

/-- What the repairs changed: in subscribeToWfState ("fix: the workflow state watcher cannot
    miss an ERROR of the root role") and in handleDeviceEvent's TASK_INTERNAL_ERROR case. -/
structure Cfg where
  buffered : Bool   -- `notify := make(chan sm.State, 1)` (false: `make(chan sm.State)`)
  reread : Bool     -- after a receive: `if wfState != sm.ERROR && wf.GetState() == sm.ERROR { wfState = sm.ERROR }`
  stopAsksCritical : Bool  -- TASK_INTERNAL_ERROR: `if !t.GetTraits().Critical { return }` before TryTransition(STOP_ACTIVITY)
  roleAlways : Bool        -- TASK_INTERNAL_ERROR: the role is told ERROR outside the test `env.CurrentState() == "RUNNING"`
  -- TASK_INTERNAL_ERROR: the environment the event is handled in is looked up by the task's CURRENT environment,
  -- `envs.environment(t.GetEnvironmentId())` (the parent role's), not by the `environmentId` label of the event (the
  -- environment the executor launched the task FOR: stamped once, never updated; empty / stale for a task that was
  -- released by that environment and belongs to another one now). Only Model/FailureRoster (`hitTagged`) looks at it:
  -- inside ONE environment there is nothing to look up. Never false in any version of the code; `false` is the
  -- refuted alternative (`C03_env_must_be_resolved_by_task`), tied to the source by `C03_internal_env_is_code`.
  envByTask : Bool := true
  deriving DecidableEq, Repr, Inhabited

/-- The code as it is (tied to the source by `C03_watcher_is_code` and `C03_internal_effect_is_code`). -/
def codeCfg : Cfg := { buffered := true, reread := true, stopAsksCritical := true, roleAlways := true }

/-- The code as it was before any of the repairs (finding notify_dropped and the two below). -/
def legacyCfg : Cfg := { buffered := false, reread := false, stopAsksCritical := false, roleAlways := false }

/-- The code as it was before the two repairs of the TASK_INTERNAL_ERROR case (findings
    internal_error_noncritical_stops_run, internal_error_ignored_unless_running), the watcher
    already repaired. -/
def deviceLegacyCfg : Cfg := { codeCfg with stopAsksCritical := false, roleAlways := false }

/-- manager.go: TASK_FINISHED ⇒ "DONE"; TASK_LOST/KILLED/FAILED/ERROR of a locked task,
    executor lost, agent lost ⇒ "ERROR"; all of them status INACTIVE.
    The switch on the Mesos state in handleMessage(TaskStatusMessage) and — for a task that
    is in the roster — the call of updateTaskStatus do not look at the update's REASON (only
    the KILL of tasks that are NOT in the roster does): a terminal state learnt through
    reconciliation (R…) has the effect of the directly delivered one.
    handleDeviceEvent, TASK_INTERNAL_ERROR of a task whose role is critical or not (`crit`):
    `running := env.CurrentState() == "RUNNING"`; the role is told ERROR (always / only if
    running: `Cfg.roleAlways`); STOP_ACTIVITY is requested if running (and, `Cfg.stopAsksCritical`,
    the task is critical). -/
def effect (c : Cfg) (k : Kind) (envSt : St) (crit : Bool) : Effect :=
  match k with
  | .FINISHED | .RFINISHED => ⟨some .DONE, some .INACTIVE, false, false⟩
  | .INTERNAL =>
    let running := decide (envSt = .RUNNING)
    let tells := c.roleAlways || running
    ⟨if tells then some .ERROR else none, none, running && (!c.stopAsksCritical || crit), tells⟩
  | .FAILED | .LOST | .KILLED | .TERROR | .EXEC | .EXEC0 | .AGENT | .AGENT0
  | .RFAILED | .RLOST | .RKILLED | .RTERROR | .RAGENT => ⟨some .ERROR, some .INACTIVE, false, false⟩

/-- The kinds the code turns into task state ERROR whatever the environment does. -/
def Kind.hard : Kind → Bool
  | .FINISHED | .RFINISHED | .INTERNAL => false
  | _ => true

/-- The process ended with exit status 0 (TASK_FINISHED, directly or through reconciliation):
    the one kind of "the task is gone" that the code records as DONE (open finding
    finished_not_error). -/
def Kind.exitZero : Kind → Bool
  | .FINISHED | .RFINISHED => true
  | _ => false

/-- Excluded-hypothesis side of the `_partial` theorems: does this kind, arriving while
    the environment reports `envSt`, put the task's role into ERROR? (Independent of the task's
    criticality: `effect_st_crit`.) For the code as it is: every kind but `exitZero`, in every
    state (`drives_code`). -/
def Kind.drives (k : Kind) (c : Cfg) (envSt : St) : Bool := (effect c k envSt false).st == some TState.ERROR

/-- Does it leave everything but the task's own role alone when the task (critical or not:
    `crit`) fails? For the code as it is: always, for a non-critical task (`quiet_code`). -/
def Kind.quiet (k : Kind) (c : Cfg) (envSt : St) (crit : Bool) : Bool := !(effect c k envSt crit).stop

/-- The watcher goroutine of subscribeToWfState. -/
inductive Watch where
  | starting -- `subscribeToWfState` has executed its `go func() { … }()`, the goroutine has not yet subscribed: the
             -- adapter has no subscriber, a notification goes nowhere (creation's end; `Label.subscribe`)
  | parked   -- in its loop (at the select, or — unbuffered channel only — busy between two selects: `ready` tells)
  | holding (v : TState)  -- has taken `v` from its channel, has not yet looked at it (buffered channel only)
  | armed    -- saw ERROR: handlingError, 500 ms timer set, loop left
  | gone     -- timer ran / saw DONE / unsubscribed
  deriving DecidableEq, Repr, Inhabited

def Watch.inLoop : Watch → Bool
  | .parked | .holding _ => true
  | _ => false

/-- A transition of the environment that holds the transition mutex. -/
structure Inflight where
  ev : Ev
  api : Bool                          -- ControlEnvironment (failure ⇒ GO_ERROR) or bare TryTransition
  pending : List (List Nat × TState)  -- command replies still to ARRIVE: leaf path, reported state
  ok : Bool                           -- outcome of the task-level body once all replies are in
  deriving Repr, Inhabited

structure Sys where
  f : Forest                        -- the workflow: one root aggregator at index 0
  env : Env
  hooks : List Hook := []
  w : Watch := .parked
  inflight : Option Inflight := none
  updq : List (List Nat × TState) := []  -- replies that arrived: `go updateTaskState(…)` goroutines not yet run (unordered)
  stopReq : Nat := 0                -- STOP_ACTIVITY requests queued by handleDeviceEvent
  roleOnly : List (List Nat × TState) := []  -- leaves whose ROLE was told ERROR directly, with the task's own state
  chan : Option TState := none      -- the value waiting in the watcher's channel (buffered channel only)
  dropped : Nat := 0                -- ERROR notifications that were dropped (watcher away from its receive / buffer full)
  log : List Step := []             -- what the environment machine did since the failure
  stopped : List (List Nat) := []   -- tasks that were sent STOP by the timer function / a queued STOP_ACTIVITY
  transRes : Option (Bool × St) := none  -- how the in-flight transition ended: succeeded?, state reported
  deriving Repr, Inhabited

/-- The cached state of the first top-level role (the root aggregator): `wf.GetState()`. -/
def rootState : Forest → TState
  | .agg st _ _ _ => st
  | .leaf _ _ st _ _ => st
  | .nil => .INVARIANT

def rootStatus : Forest → TStatus
  | .agg _ su _ _ => su
  | .leaf _ _ _ su _ => su
  | .nil => .UNDEFINED

/-- The first thing the watcher goroutine does: `SubscribeToStateChange`, then
    `wfState := wf.GetState(); if wfState != sm.ERROR { …loop… }` — a root that says ERROR
    ALREADY makes it skip its loop altogether: it returns without ever touching the environment. -/
def subscribeStep (s : Sys) : Sys :=
  if rootState s.f = .ERROR then { s with w := .gone } else { s with w := .parked }

/-- What the watcher does with a value it has received: (re-read of the root,) ERROR ⇒ arm
    the timer and leave, DONE ⇒ leave, anything else ⇒ back to the select. -/
def react (c : Cfg) (s : Sys) (v : TState) : Sys :=
  let v' := if c.reread && v != .ERROR && rootState s.f == .ERROR then .ERROR else v
  if v' = .ERROR then { s with w := .armed }
  else if v' = .DONE then { s with w := .gone }
  else { s with w := .parked }

/-- `ParentAdapter.updateState`: `select { case ch <- s: default: }` towards the watcher.
    Buffered channel: the value goes into the buffer if that is empty (a watcher waiting at
    its receive gets it through `take` as the very next step) and is dropped otherwise;
    `ready` plays no role. Unbuffered channel: delivered iff the watcher is at its receive. -/
def notify (c : Cfg) (s : Sys) (v : Option TState) (ready : Bool) : Sys :=
  match v with
  | none => s
  | some st =>
    if c.buffered then
      if s.w.inLoop then
        match s.chan with
        | none => { s with chan := some st }
        | some _ => if st = .ERROR then { s with dropped := s.dropped + 1 } else s
      else s   -- the watcher has left its loop — or has not subscribed yet (`starting`): nobody will ever receive
    else
      match s.w with
      | .parked =>
        if ready then react c s st
        else if st = .ERROR then { s with dropped := s.dropped + 1 } else s
      | _ => s

/-- `updateTaskState(id, v)` of one task (a command reply, or the watcher's STOP). -/
def setLeaf (c : Cfg) (s : Sys) (p : List Nat) (v : TState) (ready : Bool) : Sys :=
  let r := updState s.f p v
  notify c { s with f := r.1, roleOnly := s.roleOnly.filter (fun x => x.1 != p) } r.2 ready

/-- Leaves with their paths (from the owner of the sibling list, first index `i`). -/
def leavesFrom (i : Nat) : Forest → List (List Nat × TState × TStatus)
  | .nil => []
  | .leaf _ _ st su next => ([i], st, su) :: leavesFrom (i + 1) next
  | .agg _ _ kids next => (leavesFrom 0 kids).map (fun l => (i :: l.1, l.2)) ++ leavesFrom (i + 1) next

def leaves (f : Forest) : List (List Nat × TState × TStatus) := leavesFrom 0 f

/-- The task's own state (`task.state`): what its role reports unless the role was overwritten. -/
def ownState (s : Sys) (p : List Nat) (roleSt : TState) : TState :=
  match s.roleOnly.find? (fun x => x.1 == p) with
  | some x => x.2
  | none => roleSt

def roleStateAt (f : Forest) (p : List Nat) : TState :=
  match (leaves f).find? (fun l => l.1 == p) with
  | some l => l.2.1
  | none => .UNKNOWN

/-- Does `p` address a critical task/call role of the forest? -/
def critLeafAt : Forest → List Nat → Bool
  | .nil, _ => false
  | .leaf _ crit _ _ next, p =>
    match p with
    | [0] => crit
    | (i + 1) :: rest => critLeafAt next (i :: rest)
    | _ => false
  | .agg _ _ kids next, p =>
    match p with
    | 0 :: rest => critLeafAt kids rest
    | (i + 1) :: rest => critLeafAt next (i :: rest)
    | [] => false

/-- Does `p` address a non-critical task/call role? -/
def plainLeafAt : Forest → List Nat → Bool
  | .nil, _ => false
  | .leaf _ crit _ _ next, p =>
    match p with
    | [0] => !crit
    | (i + 1) :: rest => plainLeafAt next (i :: rest)
    | _ => false
  | .agg _ _ kids next, p =>
    match p with
    | 0 :: rest => plainLeafAt kids rest
    | (i + 1) :: rest => plainLeafAt next (i :: rest)
    | [] => false

/-- One task affected by a failure of kind `k`. -/
def failOne (c : Cfg) (k : Kind) (s : Sys) (p : List Nat) (ready : Bool) : Sys :=
  let e := effect c k s.env.st (critLeafAt s.f p)
  let r := match e.st with
    | some st => updState s.f p st
    | none => (s.f, none)
  let f2 := match e.su with
    | some su => (updStatus r.1 p su).1
    | none => r.1
  notify c { s with f := f2, stopReq := s.stopReq + (if e.stop then 1 else 0),
                    roleOnly := if e.roleOnly then (p, ownState s p (roleStateAt s.f p)) :: s.roleOnly else s.roleOnly } r.2 ready

/-- The failure of one task whose update of the role's STATE is overwritten before anybody looks
    at it — the victim's own reply to the transition in flight (`go updateTaskState(dst)`) runs
    between the failure's write of the role and the root's recomputation / the root's hand-over
    to the environment (`parent.updateState(r.state.get())` re-reads a root the reply has
    recomputed): the role tree never shows the ERROR to the watcher. Everything else the
    failure does (status, a requested STOP_ACTIVITY) happens. `updState` is atomic in this
    model, so this is NOT a schedule of `failOne` + `apply`: it is the code's non-atomic
    `updateTaskState`, open finding stale_update_overwrites_error; the driver offers it only
    with the harness' evidence that the environment is still watched (`(again …)`), and
    `C03_overwritten_update_keeps_watcher` says what that evidence must be. -/
def failOneLost (c : Cfg) (k : Kind) (s : Sys) (p : List Nat) : Sys :=
  let e := effect c k s.env.st (critLeafAt s.f p)
  let f2 := match e.su with
    | some su => (updStatus s.f p su).1
    | none => s.f
  { s with f := f2, stopReq := s.stopReq + (if e.stop then 1 else 0) }

/-- A failure hitting several tasks (all tasks of an executor / agent), one after the other. -/
def fail (c : Cfg) (k : Kind) (s : Sys) : List (List Nat × Bool) → Sys
  | [] => s
  | (p, rdy) :: rest => fail c k (failOne c k s p rdy) rest

/-- `task.IsSafeToStop()` of a controllable task: its OWN state is RUNNING. -/
def taskRunning (s : Sys) (l : List Nat × TState × TStatus) : Bool :=
  ownState s l.1 l.2.1 == TState.RUNNING

def setLeaves (c : Cfg) (s : Sys) (ps : List (List Nat)) (v : TState) (ready : Bool) : Sys :=
  ps.foldl (fun acc p => setLeaf c acc p v ready) s

/-- Internal (non-input) steps. A command reply does two independent things: it counts for
    the transition (`arrive`; the transition ends when all replies are in, `finish`) and it
    queues a `go updateTaskState` (`apply k`: the k-th queued goroutine runs — any order,
    also after the transition has ended). -/
inductive Label where
  | arrive                        -- next reply of the in-flight transition arrives
  | apply (k : Nat) (ready : Bool) -- a queued task-state update is applied
  | finish                        -- the in-flight transition ends and releases the mutex
  | devStop (ok ready : Bool)     -- a queued TryTransition(STOP_ACTIVITY) gets the mutex
  | timer                         -- the watcher's timer function gets the mutex
  | subscribe                     -- the watcher goroutine starts running: subscribes and reads the root once
  | take                          -- the watcher receives the value waiting in its channel
  | look                          -- the watcher (re-reads the root and) acts on the value it holds
  deriving DecidableEq, Repr

def enabled (s : Sys) : Label → Bool
  | .arrive => match s.inflight with
    | some i => !i.pending.isEmpty
    | none => false
  | .apply k _ => decide (k < s.updq.length)
  | .finish => match s.inflight with
    | some i => i.pending.isEmpty
    | none => false
  | .devStop _ _ => s.inflight.isNone && decide (0 < s.stopReq)
  | .timer => s.inflight.isNone && decide (s.w = .armed)
  | .subscribe => decide (s.w = .starting)
  | .take => decide (s.w = .parked) && s.chan.isSome
  | .look => match s.w with
    | .holding _ => true
    | _ => false

def isBody : Step → Bool
  | .body .. => true
  | _ => false

/-- The timer function of subscribeToWfState: GO_ERROR (forced if refused), then STOP to every
    task whose own state is RUNNING (`stopped` records the commands). -/
def timerStep (c : Cfg) (s : Sys) : Sys :=
  let g := tryTransition s.env s.hooks .GO_ERROR true false
  let env' := if g.2.2.isOk then g.1 else if g.1.st = .ERROR then g.1 else { g.1 with st := .ERROR }
  let targets := (leaves s.f).filter (taskRunning s)
  let s1 := { s with env := env', w := .gone, log := s.log ++ g.2.1, stopped := s.stopped ++ targets.map (·.1) }
  -- only a task that is still there (role ACTIVE) answers the STOP
  setLeaves c s1 ((targets.filter (fun l => l.2.2 == TStatus.ACTIVE)).map (·.1)) .CONFIGURED true

/-- `env.TryTransition(NewStopActivityTransition)` from handleDeviceEvent: STOP goes to the
    tasks whose role is ACTIVE; if the body ran and succeeded they all report CONFIGURED. -/
def devStopStep (c : Cfg) (s : Sys) (ok ready : Bool) : Sys :=
  let r := tryTransition s.env s.hooks .STOP_ACTIVITY ok false
  let s1 := { s with env := r.1, stopReq := s.stopReq - 1, log := s.log ++ r.2.1 }
  let targets := ((leaves s.f).filter (fun l => l.2.2 == TStatus.ACTIVE)).map (·.1)
  if r.2.1.any isBody then
    let s2 := { s1 with stopped := s1.stopped ++ targets }
    if ok then setLeaves c s2 targets .CONFIGURED ready else s2
  else s1

def istep (c : Cfg) (s : Sys) : Label → Sys
  | .arrive =>
    match s.inflight with
    | some i =>
      match i.pending with
      | pv :: rest => { s with inflight := some { i with pending := rest }, updq := s.updq ++ [pv] }
      | [] => s
    | none => s
  | .apply k ready =>
    match s.updq[k]? with
    | some (p, v) => setLeaf c { s with updq := s.updq.eraseIdx k } p v ready
    | none => s
  | .finish =>
    match s.inflight with
    | some i =>
      let r := if i.api then controlApi s.env s.hooks i.ev i.ok false else tryTransition s.env s.hooks i.ev i.ok false
      { s with env := r.1, inflight := none, log := s.log ++ r.2.1, transRes := some (r.2.2.isOk, r.1.st) }
    | none => s
  | .devStop ok ready => devStopStep c s ok ready
  | .timer => timerStep c s
  | .subscribe => if s.w = .starting then subscribeStep s else s
  | .take =>
    match s.w, s.chan with
    | .parked, some v => { s with w := .holding v, chan := none }
    | _, _ => s
  | .look =>
    match s.w with
    | .holding v => react c s v
    | _ => s

def irun (c : Cfg) (s : Sys) (ls : List Label) : Sys := ls.foldl (istep c) s

/-- Every label of the run is enabled when it is taken. -/
def validRun (c : Cfg) : Sys → List Label → Bool
  | _, [] => true
  | s, l :: ls => enabled s l && validRun c (istep c s l) ls

/-- No internal step is enabled. -/
def quiescent (s : Sys) : Bool :=
  !enabled s .arrive && !enabled s (.apply 0 true) && !enabled s .finish && !enabled s (.devStop true true) && !enabled s .timer &&
  !enabled s .take && !enabled s .look && !enabled s .subscribe

/-- Upper bound on the number of internal steps still possible: every step that is not the
    watcher's own costs 3 (it can put one value into the watcher's channel, which the watcher
    then takes and looks at). -/
def Watch.weight : Watch → Nat
  | .starting => 3 | .holding _ => 3 | .parked => 2 | .armed => 1 | .gone => 0

def chanWeight (s : Sys) : Nat := if s.chan.isSome then 2 else 0

def budget (s : Sys) : Nat :=
  3 * ((match s.inflight with
        | some i => 2 * i.pending.length + 1
        | none => 0) + s.updq.length + s.stopReq) + s.w.weight + chanWeight s

/-- The schedule the wall clock produces (the watcher goroutine first: it only has to wake
    up; replies, end of the transition, the queued STOP, then — 500 ms later — the timer),
    every notification finding the watcher at its receive. -/
def pick (s : Sys) : Option Label :=
  if enabled s .subscribe then some .subscribe
  else if enabled s .take then some .take
  else if enabled s .look then some .look
  else if enabled s .arrive then some .arrive
  else if enabled s (.apply 0 true) then some (.apply 0 true)
  else if enabled s .finish then some .finish
  else if enabled s (.devStop true true) then some (.devStop true true)
  else if enabled s .timer then some .timer
  else none

/-- The same, but queued state updates run last (the transition can end, and the timer
    function can look at the tasks' states, before a reply's update has been applied). -/
def pickLate (s : Sys) : Option Label :=
  if enabled s .subscribe then some .subscribe
  else if enabled s .take then some .take
  else if enabled s .look then some .look
  else if enabled s .arrive then some .arrive
  else if enabled s .finish then some .finish
  else if enabled s (.devStop true true) then some (.devStop true true)
  else if enabled s .timer then some .timer
  else if enabled s (.apply 0 true) then some (.apply 0 true)
  else none

def settleLate (c : Cfg) : Nat → Sys → Sys
  | 0, s => s
  | n + 1, s =>
    match pickLate s with
    | some l => settleLate c n (istep c s l)
    | none => s

def settle (c : Cfg) : Nat → Sys → Sys
  | 0, s => s
  | n + 1, s =>
    match pick s with
    | some l => settle c n (istep c s l)
    | none => s

/-- The watcher consumes what is waiting in its channel (at most `take`, `look`). -/
def drain (c : Cfg) (s : Sys) : Sys :=
  let s1 := if enabled s .take then istep c s .take else s
  if enabled s1 .look then istep c s1 .look else s1

end Failure
