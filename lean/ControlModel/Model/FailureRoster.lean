/-
  Model/FailureRoster — the task manager's roster is ONE table for the whole core (C03).

  `Failure.Sys` is one environment. The code that turns a lost executor / agent into task
  failures does not know about environments: core/task/manager.go HandleExecutorFailed /
  HandleAgentFailed

      tasksForFailedExecutor := m.roster.filtered(func(t *Task) bool { return t.agentId == e.AgentId.Value })
      for _, t := range tasksForFailedExecutor {
          envIdsForExecutor[t.GetEnvironmentId()] = struct{}{}
          t.agentId = ""
          thisTask := t
          go func() {
              m.updateTaskState(thisTask.taskId, "ERROR")
              thisTask.status = INACTIVE
              if taskParent := thisTask.GetParent(); taskParent != nil { taskParent.UpdateStatus(INACTIVE) }
          }()
      }

  first takes a snapshot of the affected roster entries (`affected`) and then runs a per-task
  body for EVERY entry of the snapshot (`hit`), each in a goroutine of its own — whatever the
  other entries are. A roster holds, besides the tasks of the environment one is looking at,
    * tasks of OTHER live environments (`owner = some e'`), and
    * tasks that belong to NO environment (`owner = none`): released by an environment that
      was destroyed with keepTasks (or whose deployment was rolled back) and still running;
      `parent = nil`, `GetEnvironmentId() = uid.NilID()`, `IsLocked() = false`;
  in any position: the roster is appended to on every deployment and only ever filtered.

  `World` = the environments (each a `Failure.Sys`, with its own watcher, transition mutex,
  queues) + the roster. A failure event (`Scope`: a status update about one task, an executor,
  an agent) selects entries; `hitAll` walks the snapshot. The walk is parameterised
  (`Walk.perTask`): `codeWalk` is the code as it is — every entry of the snapshot gets its
  body; `stoppingWalk` is a walk that ends at the first entry without a parent role (one
  goroutine over the snapshot whose body leaves the loop there) — NOT the code, kept as the
  refuted alternative (`C03_walk_must_cover_every_task`), tied to the source by
  `C03_lost_walk_is_code`.

  What the per-task body does to a task WITHOUT a parent (`looseEffect`): updateTaskState
  writes task.state (no role to tell), status INACTIVE; a terminal status update about such a
  task never reaches updateTaskState("ERROR") (`t.IsLocked()` is false) but TASK_FINISHED's
  updateTaskState("DONE") is unguarded; updateTaskStatus sets INACTIVE; a device event finds no
  environment and does nothing.

  Internal steps are per environment (`wstep (e, l)` = `istep` in environment `e`):
  environments share nothing but the roster.
  Core only.
-/
import ControlModel.Model.Failure

namespace Failure
open RoleTree EnvM

/-- One entry of the task manager's roster. -/
structure RTask where
  owner : Option Nat          -- index of the environment the parent role belongs to; none: no parent role
  path : List Nat := []       -- the parent role in that environment's workflow (leaf path)
  agent : Nat := 0
  exec : Nat := 0
  st : TState := .STANDBY     -- task.state  (tracked here only for a task without a parent: an owned task's is its role's / `Sys.roleOnly`)
  su : TStatus := .ACTIVE     -- task.status (same)
  deriving DecidableEq, Repr, Inhabited

structure World where
  envs : List Sys
  roster : List RTask
  deriving Repr, Inhabited

/-- What a failure event is about. -/
inductive Scope where
  | task (i : Nat)          -- a status update / device event about the i-th roster entry
  | exec (a e : Nat)        -- FAILURE{agent a, executor e}
  | agent (a : Nat)         -- FAILURE{agent a} (or TASK_LOST for every task of the agent after a re-subscription)
  deriving DecidableEq, Repr

def Scope.covers : Scope → Nat → RTask → Bool
  | .task i, j, _ => i == j
  | .exec a e, _, t => t.agent == a && t.exec == e
  | .agent a, _, t => t.agent == a

/-- `m.roster.filtered(…)`: the snapshot, in roster order, with the entries' positions. -/
def affectedFrom (sc : Scope) (i : Nat) : List RTask → List (Nat × RTask)
  | [] => []
  | t :: rest => if sc.covers i t then (i, t) :: affectedFrom sc (i + 1) rest else affectedFrom sc (i + 1) rest

def affected (sc : Scope) (r : List RTask) : List (Nat × RTask) := affectedFrom sc 0 r

/-- The per-task body on a task without a parent role: (task.state, task.status). -/
def looseEffect : Kind → Option TState × Option TStatus
  | .EXEC | .EXEC0 | .AGENT | .AGENT0 => (some .ERROR, some .INACTIVE)
  | .FINISHED | .RFINISHED => (some .DONE, some .INACTIVE)
  | .FAILED | .LOST | .KILLED | .TERROR | .RFAILED | .RLOST | .RKILLED | .RTERROR | .RAGENT => (none, some .INACTIVE)
  | .INTERNAL => (none, none)

def RTask.hitLoose (t : RTask) (k : Kind) : RTask :=
  { t with st := (looseEffect k).1.getD t.st, su := (looseEffect k).2.getD t.su }

/-- The per-task body for one entry of the snapshot. -/
def hit (c : Cfg) (k : Kind) (W : World) (i : Nat) (t : RTask) (ready : Bool) : World :=
  match t.owner with
  | some e =>
    match W.envs[e]? with
    | some s => { W with envs := W.envs.set e (failOne c k s t.path ready) }
    | none => W
  | none =>
    match W.roster[i]? with
    | some t' => { W with roster := W.roster.set i (t'.hitLoose k) }
    | none => W

/-- How the snapshot is walked. -/
structure Walk where
  perTask : Bool   -- every entry gets its body, independently of the others (false: the walk ends at the first entry without a parent)
  deriving DecidableEq, Repr, Inhabited

/-- The code as it is (tied to the source by `C03_lost_walk_is_code`). -/
def codeWalk : Walk := { perTask := true }

/-- One walk whose body leaves the loop at an entry without a parent role. Not the code. -/
def stoppingWalk : Walk := { perTask := false }

/-- The walk over the snapshot; `ready` per entry as in `Failure.fail`. Every order of the
    snapshot is a schedule of the per-task goroutines: the theorems quantify over ALL lists. -/
def hitAll (wk : Walk) (c : Cfg) (k : Kind) (W : World) : List (Nat × RTask × Bool) → World
  | [] => W
  | (i, t, rdy) :: rest =>
    let W1 := hit c k W i t rdy
    if !wk.perTask && t.owner.isNone then W1 else hitAll wk c k W1 rest

/-- The victims of environment `e` among the snapshot, as `Failure.fail` takes them. -/
def victimsFor (e : Nat) : List (Nat × RTask × Bool) → List (List Nat × Bool)
  | [] => []
  | (_, t, rdy) :: rest => if t.owner = some e then (t.path, rdy) :: victimsFor e rest else victimsFor e rest

/-- A failure event of kind `k` about `sc` reaches the core: snapshot, then the walk. -/
def worldFail (wk : Walk) (c : Cfg) (k : Kind) (W : World) (sc : Scope) : World :=
  hitAll wk c k W ((affected sc W.roster).map (fun x => (x.1, x.2, true)))

/-! ### the `environmentId` label of a message about a task

  Every message an executor sends about a task (status update, device event) carries the label
  `environmentId`: the environment the task was LAUNCHED FOR (executor: `knownEnvironmentId`,
  stamped once). It is the task's environment only as long as the task stays with the
  environment it was launched for: a task released by that environment (destroyed with
  keepTasks) and claimed by a later one (acquireTasks, reuseUnlockedTasks), an executor that
  sends no label at all, a label that fails to parse — all name NO environment of the world
  (`none`), or ANOTHER live one (`some h`, h ≠ owner).
  handleMessage / updateTaskStatus use the label for log fields only. handleDeviceEvent's
  TASK_INTERNAL_ERROR case needs the environment (its state decides about the STOP request) and
  gets it with `envs.environment(t.GetEnvironmentId())`: from the task's parent role
  (`Cfg.envByTask`, `resolveEnv`). The alternative — `envs.environment(envId)`, envId the
  label parsed at the top of the function for the log fields — is NOT the code; it is kept
  switchable as the refuted variant: a label that names no environment makes the lookup fail
  ("cannot find environment for DeviceEvent") and the event is dropped. -/

/-- `failOne` for a given effect. -/
def applyEffect (c : Cfg) (e : Effect) (s : Sys) (p : List Nat) (ready : Bool) : Sys :=
  let r := match e.st with
    | some st => updState s.f p st
    | none => (s.f, none)
  let f2 := match e.su with
    | some su => (updStatus r.1 p su).1
    | none => r.1
  notify c { s with f := f2, stopReq := s.stopReq + (if e.stop then 1 else 0),
                    roleOnly := if e.roleOnly then (p, ownState s p (roleStateAt s.f p)) :: s.roleOnly else s.roleOnly } r.2 ready

/-- The environment handleDeviceEvent's TASK_INTERNAL_ERROR case handles the event in: index of
    the environment `envs.environment(…)` returns; `none`: "cannot find environment". `lab`: what
    the event's label names (`none`: no label / an id no environment of the world has). -/
def resolveEnv (c : Cfg) (t : RTask) (lab : Option Nat) : Option Nat :=
  if c.envByTask then t.owner else lab

/-- TASK_INTERNAL_ERROR about a task whose role lives in environment `o`, handled in ANOTHER
    environment `h` (label-resolving variant only): `running` is read off `h`, the role that is
    told is the task's own (`t.GetParent()`, in `o`), the STOP request is `h`'s. -/
def internalAcross (c : Cfg) (W : World) (o h : Nat) (p : List Nat) (ready : Bool) : World :=
  match W.envs[o]?, W.envs[h]? with
  | some so, some sh =>
    let e := effect c .INTERNAL sh.env.st (critLeafAt so.f p)
    let W1 : World := { W with envs := W.envs.set o (applyEffect c { e with stop := false } so p ready) }
    if e.stop then
      match W1.envs[h]? with
      | some sh' => { W1 with envs := W1.envs.set h { sh' with stopReq := sh'.stopReq + 1 } }
      | none => W1
    else W1
  | _, _ => W

/-- The per-task body for a message that carries a label. Every kind but TASK_INTERNAL_ERROR
    ignores the label (log fields). TASK_INTERNAL_ERROR: no environment found ⇒ the event is
    dropped; the task's own environment ⇒ `hit`; another one ⇒ `internalAcross` (a task without a
    parent role: nothing to tell, `GetTraits()` of a nil parent is not critical: nothing). -/
def hitTagged (c : Cfg) (k : Kind) (W : World) (i : Nat) (t : RTask) (ready : Bool) (lab : Option Nat) : World :=
  match k with
  | .INTERNAL =>
    match resolveEnv c t lab with
    | none => W
    | some h =>
      match t.owner with
      | some o => if o = h then hit c k W i t ready else internalAcross c W o h t.path ready
      | none => W
  | _ => hit c k W i t ready

/-- The walk over a snapshot whose entries carry the label of the message about them. -/
def hitAllTagged (wk : Walk) (c : Cfg) (k : Kind) (W : World) : List (Nat × RTask × Bool × Option Nat) → World
  | [] => W
  | (i, t, rdy, lab) :: rest =>
    let W1 := hitTagged c k W i t rdy lab
    if !wk.perTask && t.owner.isNone then W1 else hitAllTagged wk c k W1 rest

/-- Forget the labels. -/
def untag (ts : List (Nat × RTask × Bool × Option Nat)) : List (Nat × RTask × Bool) :=
  ts.map (fun x => (x.1, x.2.1, x.2.2.1))

/-- A failure event of kind `k` about `sc` whose messages carry the label `lab`. -/
def worldFailTagged (wk : Walk) (c : Cfg) (k : Kind) (W : World) (sc : Scope) (lab : Option Nat) : World :=
  hitAllTagged wk c k W ((affected sc W.roster).map (fun x => (x.1, x.2, true, lab)))

/-! ### internal steps: per environment -/

def wenabled (W : World) (x : Nat × Label) : Bool :=
  match W.envs[x.1]? with
  | some s => enabled s x.2
  | none => false

def wstep (c : Cfg) (W : World) (x : Nat × Label) : World :=
  match W.envs[x.1]? with
  | some s => { W with envs := W.envs.set x.1 (istep c s x.2) }
  | none => W

def wrun (c : Cfg) (W : World) (ls : List (Nat × Label)) : World := ls.foldl (wstep c) W

def wvalid (c : Cfg) : World → List (Nat × Label) → Bool
  | _, [] => true
  | W, x :: ls => wenabled W x && wvalid c (wstep c W x) ls

/-- Nothing is enabled in any environment. -/
def wquiescent (W : World) : Bool := W.envs.all quiescent

/-- The labels of environment `e` in a world run. -/
def labelsOf (e : Nat) : List (Nat × Label) → List Label
  | [] => []
  | (e', l) :: rest => if e' = e then l :: labelsOf e rest else labelsOf e rest

/-- Every environment settles under the wall-clock schedule. -/
def wsettle (c : Cfg) (n : Nat) (W : World) : World := { W with envs := W.envs.map (settle c n) }

end Failure
