/-
  Model/FairMQ — the executor's transitioner (executor/executorcmd/transitioner)
  driving a simulated device, core Lean only.

  What is modelled, and from where:

  * `fmqOf` / `o2Of`            fairmq.go  NewFairMQTransitioner (stateMap / invStateMap),
                                 fmqStateForState / stateForFmqState
  * `commitFMQ`                 fairmq.go  Commit, doConfigure, doReset (roll-backs included), as a
                                 function of `Cfg`: `codeCfg` = the code as it is, `legacyCfg` /
                                 `originalCfg` = the code before the `fix:` commits (doConfigure went on
                                 after a roll-back; GO_ERROR / RECOVER answered with err = nil)
  * `commitDirect`              direct.go  Commit
  * `accept`                    client.go  doTransition — the rule by which a reply is accepted
  * `Dev.step`                  the DEVICE: its transition graph and what it answers. The graph of a
                                 FairMQ device (which event is valid in which state) is NOT in the
                                 repository: `fmqDev` is written once here and once in the scripted
                                 Go device (harness/props/c16) — trusted base. The targets of the
                                 events are cross-checked with the table in occ/plugin/OccFMQCommon.h.
                                 The DIRECT device graph is transcribed from
                                 occ/occlib/OccServer.cxx processStateTransition.
  * `Outcome`                   the adversary: what happens to one request the transitioner issues.

  The transitioner is written as an interaction tree (`Prog`): `ask` = one call of
  `DoTransition(EventInfo{…})`, the continuation receives what the call returned
  (`Reply` = (newState, err)). Two interpreters: `run` (against a script of
  outcomes — this is what the compiled driver executes) and `runs` (ALL outcome
  choices — what the theorems enumerate); `run_mem_runs` connects them.
-/

namespace FairMQ

/-! ## names -/

/-- States of a FairMQ device as seen through the OCC plugin (fairmq/states.go). -/
inductive FState where
  | IDLE | INITIALIZING_DEVICE | INITIALIZED | BOUND | DEVICE_READY | READY | RUNNING | ERROR | EXITING
  deriving DecidableEq, Repr, Inhabited

/-- FairMQ transition events the transitioner issues (fairmq/transitions.go). -/
inductive FEvent where
  | INIT_DEVICE | COMPLETE_INIT | BIND | CONNECT | INIT_TASK | RUN | STOP | RESET_TASK | RESET_DEVICE | END
  deriving DecidableEq, Repr, Inhabited

/-- O² task states (core/task/sm) that a task transition can name. -/
inductive O2State where
  | STANDBY | CONFIGURED | RUNNING | ERROR | DONE
  deriving DecidableEq, Repr, Inhabited

/-- O² task events (core/task/sm/machine.go). -/
inductive O2Event where
  | START | STOP | CONFIGURE | RESET | EXIT | GO_ERROR | RECOVER
  deriving DecidableEq, Repr, Inhabited

def FState.all : List FState :=
  [.IDLE, .INITIALIZING_DEVICE, .INITIALIZED, .BOUND, .DEVICE_READY, .READY, .RUNNING, .ERROR, .EXITING]
def FEvent.all : List FEvent :=
  [.INIT_DEVICE, .COMPLETE_INIT, .BIND, .CONNECT, .INIT_TASK, .RUN, .STOP, .RESET_TASK, .RESET_DEVICE, .END]
def O2State.all : List O2State := [.STANDBY, .CONFIGURED, .RUNNING, .ERROR, .DONE]
def O2Event.all : List O2Event := [.START, .STOP, .CONFIGURE, .RESET, .EXIT, .GO_ERROR, .RECOVER]

/-- The string constants of fairmq/states.go. -/
def FState.name : FState → String
  | .IDLE => "IDLE" | .INITIALIZING_DEVICE => "INITIALIZING DEVICE" | .INITIALIZED => "INITIALIZED"
  | .BOUND => "BOUND" | .DEVICE_READY => "DEVICE READY" | .READY => "READY" | .RUNNING => "RUNNING"
  | .ERROR => "ERROR" | .EXITING => "EXITING"

/-- The string constants of fairmq/transitions.go. -/
def FEvent.name : FEvent → String
  | .INIT_DEVICE => "INIT DEVICE" | .COMPLETE_INIT => "COMPLETE INIT" | .BIND => "BIND" | .CONNECT => "CONNECT"
  | .INIT_TASK => "INIT TASK" | .RUN => "RUN" | .STOP => "STOP" | .RESET_TASK => "RESET TASK"
  | .RESET_DEVICE => "RESET DEVICE" | .END => "END"

def O2State.name : O2State → String
  | .STANDBY => "STANDBY" | .CONFIGURED => "CONFIGURED" | .RUNNING => "RUNNING" | .ERROR => "ERROR" | .DONE => "DONE"

def O2Event.name : O2Event → String
  | .START => "START" | .STOP => "STOP" | .CONFIGURE => "CONFIGURE" | .RESET => "RESET" | .EXIT => "EXIT"
  | .GO_ERROR => "GO_ERROR" | .RECOVER => "RECOVER"

def FState.parse? (s : String) : Option FState := FState.all.find? (·.name == s)
def FEvent.parse? (s : String) : Option FEvent := FEvent.all.find? (·.name == s)
def O2State.parse? (s : String) : Option O2State := O2State.all.find? (·.name == s)
def O2Event.parse? (s : String) : Option O2Event := O2Event.all.find? (·.name == s)

/-- Destination the core's task state machine names for an event. -/
def dstOf : O2Event → O2State
  | .START => .RUNNING | .STOP => .CONFIGURED | .CONFIGURE => .CONFIGURED | .RESET => .STANDBY
  | .EXIT => .DONE | .GO_ERROR => .ERROR | .RECOVER => .STANDBY

/-! ## the state maps of fairmq.go -/

/-- `stateMap` (NewFairMQTransitioner) = `fmqStateForState` on the five O² states. -/
def fmqOf : O2State → FState
  | .STANDBY => .IDLE | .CONFIGURED => .READY | .RUNNING => .RUNNING | .ERROR => .ERROR | .DONE => .EXITING

/-- `invStateMap` = `stateForFmqState` = `FromDeviceState`: `none` is the `""` the code
    returns for a name that is not in the map (the four intermediate states). -/
def o2Of : FState → Option O2State
  | .IDLE => some .STANDBY | .READY => some .CONFIGURED | .RUNNING => some .RUNNING
  | .ERROR => some .ERROR | .EXITING => some .DONE
  | .INITIALIZING_DEVICE | .INITIALIZED | .BOUND | .DEVICE_READY => none

/-- `stateForFmqState` applied to what `DoTransition` returned (`none` = `""`, which is not in the map). -/
def o2Of? (s : Option FState) : Option O2State := s.bind o2Of

/-! ## requests, replies, adversary -/

/-- What happens to ONE request the transitioner issues.
    * `done`        the device performs the event if its graph allows it (else it refuses in place) and
                    answers ok / executor-triggered / same event with its new state
    * `refused`     the device stays where it is and says so (ok = false)
    * `errorState`  the device goes to ERROR and says so (trigger DEVICE_ERROR)
    * `reqLost`     transport error, the request never reached the device
    * `replyLost`   transport error after the device performed the event (if its graph allows it)
    * `errorNoState` the device falls into ERROR and its reply ARRIVES but carries no state: ok = false,
                    trigger zero, state `""` (every field but the event echo has its zero value — on the JSON
                    transport, whose codec omits zero fields, the document holds the event only) -/
inductive Outcome where
  | done | refused | errorState | reqLost | replyLost | errorNoState
  deriving DecidableEq, Repr, Inhabited

def Outcome.all : List Outcome := [.done, .refused, .errorState, .reqLost, .replyLost, .errorNoState]
def Outcome.name : Outcome → String
  | .done => "done" | .refused => "refused" | .errorState => "errorState" | .reqLost => "reqLost" | .replyLost => "replyLost"
  | .errorNoState => "errorNoState"
def Outcome.parse? (s : String) : Option Outcome := Outcome.all.find? (·.name == s)
/-- The executor learns no device state from this request: a transport error (`DoTransition` returns
    `("", "occplugin returned …")`) or a reply without a state (`("", "transition unsuccessful: …")`). -/
def Outcome.lost : Outcome → Bool
  | .reqLost | .replyLost | .errorNoState => true
  | _ => false

/-- The `err` that `client.doTransition` returns, by kind. -/
inductive ErrKind where
  | nil         -- reply accepted
  | rejected    -- a reply arrived but the acceptance rule said no ("transition unsuccessful: …")
  | transport   -- gRPC error ("occplugin returned …"): no reply, newState = ""
  | unimplemented -- fairmq.go Commit itself: "transition not implemented: …" (GO_ERROR, RECOVER); the device was not asked
  deriving DecidableEq, Repr, Inhabited

def ErrKind.name : ErrKind → String
  | .nil => "nil" | .rejected => "rejected" | .transport => "transport" | .unimplemented => "unimplemented"

/-- `transitioner.EventInfo` (Args reduced to "was a non-nil map passed on"). -/
structure Ask (σ ε : Type) where
  evt : ε
  src : σ
  dst : σ
  args : Bool
  deriving DecidableEq, Repr

/-- What `DoTransition` returned: `(newState, err)`; `state = none` is `""`. -/
structure Reply (σ : Type) where
  state : Option σ
  err : ErrKind
  deriving DecidableEq, Repr

/-- client.go doTransition: a reply is accepted iff ok ∧ trigger = EXECUTOR ∧ the event is echoed ∧
    the state is the requested destination. -/
def accept (ok trigExecutor sameEvent stateIsDst : Bool) : ErrKind :=
  if ok && trigExecutor && sameEvent && stateIsDst then .nil else .rejected

/-- A device: transition graph + its error state. -/
structure Dev (σ ε : Type) where
  next : σ → ε → Option σ
  error : σ

/-- One request against the device in state `dev`. `strict` = the device compares the request's
    `SrcState` with its own state first and answers a mismatch with a gRPC error without doing
    anything — what the repository's own devices do (occ/plugin/OccFMQCommon.cxx doTransition,
    occ/occlib/OccServer.cxx Transition: INVALID_ARGUMENT "state mismatch"); the script's outcome for
    that request is then irrelevant (it is consumed and ignored). -/
def Dev.step {σ ε : Type} [DecidableEq σ] (D : Dev σ ε) (strict : Bool) (dev : σ) (a : Ask σ ε) (o : Outcome) :
    σ × Reply σ :=
  if strict && decide (a.src ≠ dev) then (dev, ⟨none, .transport⟩) else
  match o with
  | .done =>
    match D.next dev a.evt with
    | some d' => (d', ⟨some d', accept true true true (decide (d' = a.dst))⟩)
    | none => (dev, ⟨some dev, .rejected⟩)
  | .refused => (dev, ⟨some dev, .rejected⟩)
  | .errorState => (D.error, ⟨some D.error, .rejected⟩)
  | .reqLost => (dev, ⟨none, .transport⟩)
  | .replyLost => ((D.next dev a.evt).getD dev, ⟨none, .transport⟩)
  | .errorNoState => (D.error, ⟨none, .rejected⟩)

/-! ## the control transport (protobuf | JSON) between the device and `doTransition`

`pb.TransitionReply` has four fields. The protobuf client (`pb.NewOccClient`) and the JSON client
(`nopb.NewOccClient`, codec `encoding/json` over the generated struct whose tags say `omitempty`) both hand
`doTransition` a reply object allocated for THIS call. A JSON document leaves out every field that has its zero
value and `encoding/json` leaves a field that is not in the document as it finds it — so what `doTransition`
sees is `jsonDecodeInto base (jsonDoc m)` with `base` = the object the client decodes into. -/

/-- `pb.TransitionReply`: `state = none` is `""`, `trig = 0` is `EXECUTOR`, `evt = none` is `""`. -/
structure Msg (σ ε : Type) where
  state : Option σ
  ok : Bool
  trig : Nat
  evt : Option ε
  deriving DecidableEq, Repr

/-- `new(pb.TransitionReply)`. -/
def Msg.zero {σ ε : Type} : Msg σ ε := ⟨none, false, 0, none⟩

/-- The JSON document of a reply: a field is present iff it is not its type's zero value (`omitempty`). -/
structure JsonDoc (σ ε : Type) where
  state : Option σ
  ok : Option Bool
  trig : Option Nat
  evt : Option ε
  deriving DecidableEq, Repr

def jsonDoc {σ ε : Type} (m : Msg σ ε) : JsonDoc σ ε :=
  ⟨m.state, if m.ok then some true else none, if m.trig = 0 then none else some m.trig, m.evt⟩

/-- `json.Unmarshal(doc, base)`: fields of the document are set, all others stay what they were. -/
def jsonDecodeInto {σ ε : Type} (base : Msg σ ε) (d : JsonDoc σ ε) : Msg σ ε :=
  ⟨(d.state.map some).getD base.state, d.ok.getD base.ok, d.trig.getD base.trig, (d.evt.map some).getD base.evt⟩

/-- The two transports of executorcmd.NewClient. -/
inductive Transport where
  | pb | json
  deriving DecidableEq, Repr

/-- What `doTransition` gets to see of the device's message `m`: both clients decode into a fresh object. -/
def Transport.deliver {σ ε : Type} : Transport → Msg σ ε → Msg σ ε
  | .pb, m => m
  | .json, m => jsonDecodeInto Msg.zero (jsonDoc m)

/-- client.go doTransition on a reply that arrived: the state passed on is the reply's, the error by `accept`. -/
def replyOf {σ ε : Type} [DecidableEq σ] [DecidableEq ε] (a : Ask σ ε) (m : Msg σ ε) : Reply σ :=
  ⟨m.state, accept m.ok (m.trig = 0) (decide (m.evt = some a.evt)) (decide (m.state = some a.dst))⟩

/-- The message a device that is asked `a` in state `dev` sends when the request's outcome is `o`
    (`none`: no reply — transport error). Triggers: 0 EXECUTOR, 1 DEVICE_INTENTIONAL, 2 DEVICE_ERROR. -/
def Dev.msg {σ ε : Type} [DecidableEq σ] (D : Dev σ ε) (strict : Bool) (dev : σ) (a : Ask σ ε) (o : Outcome) :
    Option (Msg σ ε) :=
  if strict && decide (a.src ≠ dev) then none else
  match o with
  | .done =>
    match D.next dev a.evt with
    | some d' => some ⟨some d', true, 0, some a.evt⟩
    | none => some ⟨some dev, false, 1, some a.evt⟩
  | .refused => some ⟨some dev, false, 1, some a.evt⟩
  | .errorState => some ⟨some D.error, false, 2, some a.evt⟩
  | .reqLost | .replyLost => none
  | .errorNoState => some ⟨none, false, 0, some a.evt⟩

/-- The FairMQ device graph (NOT in the repository — trusted, mirrored in the Go scripted device):
    the FairMQ state machine with the automatic intermediate states (BINDING, CONNECTING,
    INITIALIZING TASK, RESETTING …) collapsed, RESET DEVICE accepted from INITIALIZED, BOUND and
    DEVICE READY, END accepted from IDLE and from ERROR. -/
def fmqNext : FState → FEvent → Option FState
  | .IDLE, .INIT_DEVICE => some .INITIALIZING_DEVICE
  | .IDLE, .END => some .EXITING
  | .INITIALIZING_DEVICE, .COMPLETE_INIT => some .INITIALIZED
  | .INITIALIZED, .BIND => some .BOUND
  | .INITIALIZED, .RESET_DEVICE => some .IDLE
  | .BOUND, .CONNECT => some .DEVICE_READY
  | .BOUND, .RESET_DEVICE => some .IDLE
  | .DEVICE_READY, .INIT_TASK => some .READY
  | .DEVICE_READY, .RESET_DEVICE => some .IDLE
  | .READY, .RUN => some .RUNNING
  | .READY, .RESET_TASK => some .DEVICE_READY
  | .RUNNING, .STOP => some .READY
  | .ERROR, .END => some .EXITING
  | _, _ => none

def fmqDev : Dev FState FEvent := ⟨fmqNext, .ERROR⟩

/-- The DIRECT device graph: occ/occlib/OccServer.cxx processStateTransition restricted to the five
    states above (PAUSED/pause/resume are not reachable with the seven O² events). GO_ERROR is an
    invalid event in every state there. -/
def directNext : O2State → O2Event → Option O2State
  | .STANDBY, .CONFIGURE => some .CONFIGURED
  | .STANDBY, .EXIT => some .DONE
  | .CONFIGURED, .START => some .RUNNING
  | .CONFIGURED, .RESET => some .STANDBY
  | .CONFIGURED, .EXIT => some .DONE
  | .RUNNING, .STOP => some .CONFIGURED
  | .ERROR, .RECOVER => some .STANDBY
  | .ERROR, .EXIT => some .DONE
  | _, _ => none

def directDev : Dev O2State O2Event := ⟨directNext, .ERROR⟩

/-! ## the transitioner as an interaction tree -/

/-- `ret finalState err` = `return`; `ask ei k` = `state, err = cm.DoTransition(ei)` then `k`. -/
inductive Prog (σ ε : Type) where
  | ret (state : Option O2State) (err : ErrKind)
  | ask (a : Ask σ ε) (k : Reply σ → Prog σ ε)

abbrev FProg := Prog FState FEvent

/-- fairmq.go doReset, with the caller's continuation (`Commit` case "EXIT" looks at the result).
    Neither repair touches it (see `commitFMQ`). -/
def doReset (src dst : O2State) (k : Option O2State → ErrKind → FProg) : FProg :=
  .ask ⟨.RESET_TASK, fmqOf src, .DEVICE_READY, false⟩ fun r1 =>
  if r1.state ≠ some .DEVICE_READY then k (o2Of? r1.state) r1.err else
  .ask ⟨.RESET_DEVICE, .DEVICE_READY, fmqOf dst, true⟩ fun r2 =>
  if r2.state = some .DEVICE_READY then
    -- stuck in the intermediate DEVICE READY state: roll back to READY; `state, _ =` keeps r2's err
    .ask ⟨.INIT_TASK, .DEVICE_READY, fmqOf src, false⟩ fun r3 => k (o2Of? r3.state) r2.err
  else k (o2Of? r2.state) r2.err

/-- fairmq.go doConfigure. After the first two roll-backs the code does NOT return: it issues the next
    forward step (whose `state, err =` overwrite what the roll-back returned). `fixed = true` is the
    first repair (notes/C16.fix.patch, in /repo): return what the roll-back reached. -/
def doConfigure (fixed : Bool) (src dst : O2State) : FProg :=
  .ask ⟨.INIT_DEVICE, fmqOf src, .INITIALIZING_DEVICE, true⟩ fun r1 =>
  if r1.state ≠ some .INITIALIZING_DEVICE then .ret (o2Of? r1.state) r1.err else
  .ask ⟨.COMPLETE_INIT, .INITIALIZING_DEVICE, .INITIALIZED, false⟩ fun r2 =>
  if r2.state ≠ some .INITIALIZED then .ret (o2Of? r2.state) r2.err else
  let initTask : FProg :=
    .ask ⟨.INIT_TASK, .DEVICE_READY, fmqOf dst, false⟩ fun r5 =>
    if r5.state = some .DEVICE_READY then
      .ask ⟨.RESET_DEVICE, .DEVICE_READY, fmqOf src, false⟩ fun r6 => .ret (o2Of? r6.state) r5.err
    else .ret (o2Of? r5.state) r5.err
  let connect : FProg :=
    .ask ⟨.CONNECT, .BOUND, .DEVICE_READY, false⟩ fun r4 =>
    if r4.state = some .BOUND then
      .ask ⟨.RESET_DEVICE, .BOUND, fmqOf src, false⟩ fun rb =>
        if fixed then .ret (o2Of? rb.state) r4.err else initTask
    else if r4.state ≠ some .DEVICE_READY then .ret (o2Of? r4.state) r4.err
    else initTask
  .ask ⟨.BIND, .INITIALIZED, .BOUND, false⟩ fun r3 =>
  if r3.state = some .INITIALIZED then
    .ask ⟨.RESET_DEVICE, .INITIALIZED, fmqOf src, false⟩ fun rb =>
      if fixed then .ret (o2Of? rb.state) r3.err else connect
  else if r3.state ≠ some .BOUND then .ret (o2Of? r3.state) r3.err
  else connect

/-- Which of the two repaired behaviours of fairmq.go the transitioner has (each `true` = as in the
    `fix:` commit in /repo, `false` = as before it).
    * `stopsAfterRollback`    "FairMQ transitioner stops after a roll-back and sends END from the state the
                              reset reached": doConfigure returns what its roll-back reached, END after the
                              implicit reset of EXIT names IDLE as its source.
    * `refusesUnimplemented`  "FairMQ transitioner reports GO_ERROR and RECOVER as not implemented instead of
                              as done": the branch of the two events that fairmq.go does not implement returns
                              an error next to the source state (before: `err = nil`). -/
structure Cfg where
  stopsAfterRollback : Bool
  refusesUnimplemented : Bool
  deriving DecidableEq, Repr, Inhabited

/-- fairmq.go (*FairMQ).Commit for the seven O² events. `cfg.stopsAfterRollback` additionally lets END after
    the implicit reset name the state the device is then in (IDLE) as its source. -/
def commitFMQ (cfg : Cfg) (evt : O2Event) (src dst : O2State) : FProg :=
  let fixed := cfg.stopsAfterRollback
  let one (e : FEvent) (s : FState) : FProg :=
    .ask ⟨e, s, fmqOf dst, true⟩ fun r => .ret (o2Of? r.state) r.err
  match evt with
  | .START => one .RUN (fmqOf src)
  | .STOP => one .STOP (fmqOf src)
  | .RECOVER | .GO_ERROR =>
    -- "transition not implemented yet": the device is not asked, finalState = src;
    -- err = "transition not implemented: <evt>" (before the repair: err = nil)
    .ret (some src) (if cfg.refusesUnimplemented then .unimplemented else .nil)
  | .CONFIGURE => doConfigure fixed src dst
  | .RESET => doReset src dst .ret
  | .EXIT =>
    if src = .CONFIGURED then
      doReset src dst fun st err =>
        if st ≠ some .STANDBY then .ret st err
        else one .END (if fixed then .IDLE else fmqOf src)
    else one .END (fmqOf src)

/-- direct.go (*Direct).Commit: the request is passed on verbatim, the answer passed back verbatim. -/
def commitDirect (evt : O2Event) (src dst : O2State) : Prog O2State O2Event :=
  .ask ⟨evt, src, dst, true⟩ fun r => .ret r.state r.err

/-! ## running a transitioner against a device -/

/-- One issued request, as it happened. -/
structure Step (σ ε : Type) where
  ask : Ask σ ε
  out : Outcome
  before : σ
  after : σ
  deriving DecidableEq, Repr

/-- A complete `Commit` call: what it returned, what it asked the device, where the device ended up. -/
structure Run (σ ε : Type) where
  reported : Option O2State
  err : ErrKind
  steps : List (Step σ ε)
  final : σ
  deriving DecidableEq, Repr

/-- Execute against a script of outcomes (one per issued request, in order; a script that is too short
    is continued with `refused`). -/
def Prog.run {σ ε : Type} [DecidableEq σ] (D : Dev σ ε) (strict : Bool) : Prog σ ε → σ → List Outcome → Run σ ε
  | .ret st e, dev, _ => ⟨st, e, [], dev⟩
  | .ask a k, dev, script =>
    let o := script.head?.getD .refused
    let res := D.step strict dev a o
    let r := (k res.2).run D strict res.1 script.tail
    { r with steps := ⟨a, o, dev, res.1⟩ :: r.steps }

/-- Every way the call can go: all five outcomes at every request. -/
def Prog.runs {σ ε : Type} [DecidableEq σ] (D : Dev σ ε) (strict : Bool) : Prog σ ε → σ → List (Run σ ε)
  | .ret st e, dev => [⟨st, e, [], dev⟩]
  | .ask a k, dev =>
    Outcome.all.flatMap fun o =>
      let res := D.step strict dev a o
      ((k res.2).runs D strict res.1).map fun r => { r with steps := ⟨a, o, dev, res.1⟩ :: r.steps }

/-- THE CODE AS IT IS: both repairs are in /repo. Tied to the source by the exhaustive correspondence run
    (every cell × every consumable script, harness/props/c16) and, for the branch of the unimplemented
    events, by `C16_unimplemented_is_code` over a table `vh gen` evaluates from the linked transitioner. -/
def codeCfg : Cfg := ⟨true, true⟩

/-- The code before the `fix:` commit "… reports GO_ERROR and RECOVER as not implemented …" (and after the
    first one): what finding `unimplemented_event` was about. -/
def legacyCfg : Cfg := ⟨true, false⟩

/-- The code before both `fix:` commits: what finding `stale_src_request` was about. -/
def originalCfg : Cfg := ⟨false, false⟩

def Cfg.all : List Cfg := [⟨false, false⟩, ⟨false, true⟩, ⟨true, false⟩, ⟨true, true⟩]

/-- The FAIRMQ transitioner against a FairMQ device that is in the state the request names as source. -/
def runFMQ (cfg : Cfg) (strict : Bool) (evt : O2Event) (src : O2State) (script : List Outcome) : Run FState FEvent :=
  (commitFMQ cfg evt src (dstOf evt)).run fmqDev strict (fmqOf src) script

def runsFMQ (cfg : Cfg) (strict : Bool) (evt : O2Event) (src : O2State) : List (Run FState FEvent) :=
  (commitFMQ cfg evt src (dstOf evt)).runs fmqDev strict (fmqOf src)

/-- The DIRECT transitioner against an OCC-library device in the source state. -/
def runDirect (strict : Bool) (evt : O2Event) (src : O2State) (script : List Outcome) : Run O2State O2Event :=
  (commitDirect evt src (dstOf evt)).run directDev strict src script

def runsDirect (strict : Bool) (evt : O2Event) (src : O2State) : List (Run O2State O2Event) :=
  (commitDirect evt src (dstOf evt)).runs directDev strict src

end FairMQ
