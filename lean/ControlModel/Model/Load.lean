/-
  Model/Load — workflow template processing (C15).

  Mirrors  core/workflow/aggregatorrole.go, iteratorrole.go, iteratorrange.go, taskrole.go,
           callrole.go, includerole.go (ProcessTemplates, expandTemplate, GetRange), load.go
           (the LoadSubworkflowFunc: fresh root, unmarshal, `setParent(include role)`), roleutils.go
           (MakeDisabledRoleCallback), rolebase.go (IsEnabled), aggregator.go (GetRoles),
           configuration/template/fields.go (Sequence.Execute: stages 0–5, VarStack.consolidated)
           for the expression fragment  literal | {{ var }} | == | != | && | || | ! | true/false.

  Shape. A workflow template is a `Tmpl` in first-child / next-sibling form (one plain
  inductive, so everything is structurally recursive). `proc` is the big-step semantics
  of `ProcessTemplates` on a sibling list: it ALWAYS visits every sibling and ORs the
  error flags (= the concurrent code path: every goroutine runs, errors are accumulated).
  `procSeq` is the sequential code path (first error returns). `PT`/`Step`/`finish` is
  the small-step machine for arbitrary interleavings: a step processes ONE role header; its
  signature only lets it read the finished ancestors' stack (`Ctx`) and write its own node.

  Configurations (`Cfg`). The code used to show three behaviours that the property does not
  want (findings iterator_enabled_expr, hollow_iterator, enabled_error_masked); two repairs in
  /repo removed them (notes/C15.fix-1.patch, fix-2.patch). `codeCfg` is THE CODE AS IT IS,
  `legacyCfg` the code as it was, so that the former refutations stay true statements about
  the former code. The events are still computed (`Out.ev`), for either configuration:
    * masked   – an error while evaluating `enabled` is swallowed by the stage-0 callback:
                 the role counts as disabled (roleutils.go:MakeDisabledRoleCallback).
                 `Cfg.maskEnabledError`; the code as it is passes the error on.
    * iterDrop – the parent keeps/drops an iterator by `template.IsEnabled()` on the RAW,
                 unprocessed `enabled` text of the iterator's template (iteratorrole.go:IsEnabled).
                 `Cfg.iterByRawText`; the code as it is keeps an iterator iff it still holds
                 a generated role (`len(i.Roles) > 0`).
    * (no event, a third switch) `Cfg.inclPublishLate` – WHEN an include role writes its iterator
                 Locals into its Vars. The code does it right after its own template sequence, i.e.
                 BEFORE `r.aggregatorRole = *subWfRoot` replaces the whole embedded roleBase (Locals,
                 Defaults, Vars, UserVars) by the loaded root's; the maps written at the include site
                 stay in the gera hierarchy as the loaded root's parents, so that is where the
                 iteration variable has to be. `true` = the loop stands after the replacement: it then
                 ranges over the loaded root's (empty) Locals and publishes nothing. NOT the code
                 (`codeCfg`, `legacyCfg` have `false`); kept to state what the order is good for.
    * hollow   – an aggregator's "am I empty" test (`len(r.Roles) == 0`, unchanged) counts
                 iterator nodes; with the legacy rule also iterators that expanded to nothing
                 stayed in `Roles`. With the rule of the code as it is an iterator that holds
                 nothing is filtered out first, so the event cannot occur (`proc_code_solid`).
-/
import ControlModel.Basic

namespace Load

/-! ## variable stacks -/

/-- Association list; the FIRST binding of a key wins (child before parent). -/
abbrev Env := List (String × String)

def lookup (e : Env) (k : String) : Option String := Assoc.get e k

abbrev Look := String → Option String

/-- Look a key up in a priority chain of maps (highest priority first). -/
def lookupChain : List Env → Look
  | [], _ => none
  | e :: es, k =>
    match lookup e k with
    | some v => some v
    | none => lookupChain es k

/-! ## the expression fragment -/

/-- string-valued expressions -/
inductive SE where
  | lit (s : String)
  | var (x : String)
  deriving Repr, DecidableEq, Inhabited

/-- bool-valued expressions -/
inductive BE where
  | eq (a b : SE)
  | ne (a b : SE)
  | and (a b : BE)
  | or (a b : BE)
  | not (a : BE)
  | const (b : Bool)
  deriving Repr, DecidableEq, Inhabited

/-- One piece of a templated string: verbatim text or a `{{ … }}` tag. -/
inductive Part where
  | text (s : String)
  | str (e : SE)
  | bool (e : BE)
  deriving Repr, DecidableEq, Inhabited

/-- A templated string field (name, enabled, a variable's value, …). -/
abbrev Field := List Part

/-- `none` = "unknown name": expr compiles every tag against the environment, an
    undefined variable is an error wherever it occurs (no short-circuit). -/
def SE.eval (ρ : Look) : SE → Option String
  | .lit s => some s
  | .var x => ρ x

def BE.eval (ρ : Look) : BE → Option Bool
  | .eq a b =>
    match a.eval ρ, b.eval ρ with
    | some x, some y => some (x == y)
    | _, _ => none
  | .ne a b =>
    match a.eval ρ, b.eval ρ with
    | some x, some y => some (x != y)
    | _, _ => none
  | .and a b =>
    match a.eval ρ, b.eval ρ with
    | some x, some y => some (x && y)
    | _, _ => none
  | .or a b =>
    match a.eval ρ, b.eval ρ with
    | some x, some y => some (x || y)
    | _, _ => none
  | .not a =>
    match a.eval ρ with
    | some x => some (!x)
    | none => none
  | .const b => some b

def Part.eval (ρ : Look) : Part → Option String
  | .text s => some s
  | .str e => e.eval ρ
  | .bool e =>
    match e.eval ρ with
    | some true => some "true"
    | some false => some "false"
    | none => none

/-- fasttemplate + expr on one field: concatenation of the evaluated parts. -/
def evalField (ρ : Look) : Field → Option String
  | [] => some ""
  | p :: ps =>
    match p.eval ρ, evalField ρ ps with
    | some a, some b => some (a ++ b)
    | _, _ => none

def evalFields (ρ : Look) : List Field → Option (List String)
  | [] => some []
  | f :: fs =>
    match evalField ρ f, evalFields ρ fs with
    | some a, some b => some (a :: b)
    | _, _ => none

def evalKV (ρ : Look) : List (String × Field) → Option Env
  | [] => some []
  | (k, f) :: r =>
    match evalField ρ f, evalKV ρ r with
    | some v, some r' => some ((k, v) :: r')
    | _, _ => none

/-- No `{{ }}` tag at all: processing leaves the text as it is. -/
def isLiteral : Field → Bool
  | [] => true
  | .text _ :: ps => isLiteral ps
  | _ :: _ => false

/-- The unprocessed text of a tag-free field. -/
def rawText : Field → String
  | [] => ""
  | .text s :: ps => s ++ rawText ps
  | _ :: ps => "{{" ++ rawText ps

/-! ## `enabled` truthiness: `strings.ToLower(strings.TrimSpace(s)) ∈ {"true","1"}` -/

def isSpace (c : Char) : Bool := c == ' ' || c == '\t' || c == '\n' || c == '\r'

def trimL (cs : List Char) : List Char := cs.dropWhile isSpace

def trim (s : String) : String := String.ofList (trimL (trimL s.toList).reverse).reverse

def truthy (s : String) : Bool :=
  let t := ((trim s).toList.map Char.toLower)
  t == ['t', 'r', 'u', 'e'] || t == ['1']

/-! ## iterator ranges -/

def digitVal (c : Char) : Option Nat :=
  if '0' ≤ c ∧ c ≤ '9' then some (c.toNat - '0'.toNat) else none

def parseDigits : List Char → Nat → Option Nat
  | [], acc => some acc
  | c :: cs, acc =>
    match digitVal c with
    | some d => parseDigits cs (acc * 10 + d)
    | none => none

/-- `strconv.Atoi` on the fragment: optional sign, at least one decimal digit. -/
def parseInt (s : String) : Option Int :=
  match s.toList with
  | [] => none
  | '-' :: c :: cs => (parseDigits (c :: cs) 0).map fun n => - (Int.ofNat n)
  | '+' :: c :: cs => (parseDigits (c :: cs) 0).map Int.ofNat
  | c :: cs => (parseDigits (c :: cs) 0).map Int.ofNat

/-- `for j := begin; j <= end; j++ { ran = append(ran, strconv.Itoa(j)) }` -/
def intRange (b e : Int) : List String :=
  (List.range (e - b + 1).toNat).map fun i => toString (b + Int.ofNat i)

/-- One item `"abc"` of a JSON string list (no escapes inside the fragment). -/
def parseItem (cs : List Char) : Option String :=
  match cs with
  | '"' :: rest =>
    match rest.reverse with
    | '"' :: body => if body.any (fun c => c == '"' || c == '\\') then none else some (String.ofList body.reverse)
    | _ => none
  | _ => none

def splitComma : List Char → List Char → List (List Char)
  | [], cur => [cur.reverse]
  | ',' :: cs, cur => cur.reverse :: splitComma cs []
  | c :: cs, cur => splitComma cs (c :: cur)

/-- `json.Unmarshal(text, &[]string)` on the fragment `["a","b",…]` (no blanks, no escapes). -/
def parseList (s : String) : Option (List String) :=
  match s.toList with
  | '[' :: rest =>
    match rest.reverse with
    | ']' :: innerRev =>
      let inner := innerRev.reverse
      if inner.isEmpty then some [] else (splitComma inner []).mapM? parseItem
    | _ => none
  | _ => none

inductive RangeT where
  | fromTo (b e : Field)
  | list (f : Field)
  deriving Repr, DecidableEq, Inhabited

/-- `iteratorRange.GetRange`: the fields are templated against the PARENT's flattened stack. -/
def evalRange (ρ : Look) : RangeT → Option (List String)
  | .fromTo b e =>
    match evalField ρ b, evalField ρ e with
    | some bs, some es =>
      match parseInt bs, parseInt es with
      | some bi, some ei => some (intRange bi ei)
      | _, _ => none
    | _, _ => none
  | .list f =>
    match evalField ρ f with
    | some s => parseList s
    | none => none

/-! ## templates and trees -/

/-- What every role carries (roleBase). -/
structure Hdr where
  name : Field
  enabled : Field
  defaults : List (String × Field)
  vars : List (String × Field)
  /-- user variables (`SetRuntimeVars`), literal strings; only the root has them in practice -/
  uvars : Env
  cons : List (String × Field)
  binds : List (String × Field)
  connects : List (String × Field)
  deriving Repr, DecidableEq, Inhabited

/-- Workflow template, a sibling list. `iter`'s body is the iterator's role template. -/
inductive Tmpl where
  | nil
  | agg (h : Hdr) (kids : Tmpl) (next : Tmpl)
  /-- extra = [load, timeout, trigger, await] -/
  | task (h : Hdr) (extra : List Field) (critical : Bool) (next : Tmpl)
  /-- extra = [func, return, timeout, trigger, await] -/
  | call (h : Hdr) (extra : List Field) (critical : Bool) (next : Tmpl)
  | iter (rng : RangeT) (var : String) (body : Tmpl) (next : Tmpl)
  /-- include role: header as written at the include SITE, the `include:` expression, and `docs` =
      the documents of the workflow repository this site can name (a sibling list of `doc`) -/
  | incl (h : Hdr) (inc : Field) (docs : Tmpl) (next : Tmpl)
  /-- one workflow document of the repository: file name, root role (header, children). It is a
      role only as the target of an include (`Ctx.want`); anywhere else it contributes nothing. -/
  | doc (file : String) (h : Hdr) (kids : Tmpl) (next : Tmpl)
  deriving Repr, DecidableEq, Inhabited

/-- A processed role's own data. -/
structure Info where
  name : String
  enabled : String
  ownD : Env
  ownV : Env
  cons : Env
  binds : Env
  connects : Env
  /-- consolidated stack seen from this role, highest priority first -/
  stack : Env
  deriving Repr, DecidableEq, Inhabited

/-- Processed role tree, a sibling list. Iterator nodes stay in `aggregator.Roles`. -/
inductive Tree where
  | nil
  | agg (i : Info) (kids : Tree) (next : Tree)
  | task (i : Info) (extra : List String) (critical : Bool) (next : Tree)
  | call (i : Info) (extra : List String) (critical : Bool) (next : Tree)
  | iter (kids : Tree) (next : Tree)
  deriving Repr, DecidableEq, Inhabited

namespace Tree

def append : Tree → Tree → Tree
  | .nil, b => b
  | .agg i k n, b => .agg i k (append n b)
  | .task i x c n, b => .task i x c (append n b)
  | .call i x c n, b => .call i x c (append n b)
  | .iter k n, b => .iter k (append n b)

instance : Append Tree := ⟨append⟩

def isNil : Tree → Bool
  | .nil => true
  | _ => false

/-- `aggregator.GetRoles()` applied recursively: iterator nodes are transparent. -/
def flatten : Tree → Tree
  | .nil => .nil
  | .agg i k n => .agg i (flatten k) (flatten n)
  | .task i x c n => .task i x c (flatten n)
  | .call i x c n => .call i x c (flatten n)
  | .iter k n => append (flatten k) (flatten n)

/-- number of top-level nodes -/
def len : Tree → Nat
  | .nil => 0
  | .agg _ _ n => len n + 1
  | .task _ _ _ n => len n + 1
  | .call _ _ _ n => len n + 1
  | .iter _ n => len n + 1

/-- the `Info` of the top-level (non-iterator) nodes, in order -/
def infos : Tree → List Info
  | .nil => []
  | .agg i _ n => i :: infos n
  | .task i _ _ n => i :: infos n
  | .call i _ _ n => i :: infos n
  | .iter _ n => infos n

end Tree

/-- Flattened stack of the finished ancestors (defaults, vars, user vars). -/
structure Ctx where
  D : Env := []
  V : Env := []
  U : Env := []
  /-- Only set in the stack an include role hands to the documents of the workflow repository
      (`Tmpl.doc`) it can name: the file its `include:` expression evaluated to, and its own
      resolved name (the loaded root keeps the include role's name: `r.Name = name` after the
      swap). Every stack a role header produces has `none`. -/
  want : Option (String × String) := none
  deriving Repr, DecidableEq, Inhabited

/-- stages 0 and 1: parent stack + locals -/
def Ctx.look (c : Ctx) (loc : Env) : Look := lookupChain [loc, c.U, c.V, c.D]

/-- `gera.FlattenStack(parent defaults, vars, uservars)` used for iterator ranges: no locals -/
def Ctx.lookRange (c : Ctx) : Look := lookupChain [c.U, c.V, c.D]

/-! ## one role header = one `template.Sequence.Execute` -/

inductive HdrRes where
  | error
  /-- evaluating `enabled` failed (the legacy code treated the role as disabled, see `maskedOut`) -/
  | masked
  | disabled
  | ok (i : Info) (c : Ctx) (extra : List String)
  deriving Repr, DecidableEq, Inhabited

/-- Stages 0–5 of one role with locals `loc` under the ancestors' stack `ctx`;
    `extra` are the kind-specific stage-4 fields (class/func, timeout, trigger, await). -/
def procHdr (ctx : Ctx) (loc : Env) (h : Hdr) (extra : List Field) : HdrRes :=
  let ρ0 := ctx.look loc
  match evalField ρ0 h.enabled with
  | none => .masked
  | some en =>
    if !truthy en then .disabled else
    match evalKV ρ0 h.defaults with                                     -- stage 1
    | none => .error
    | some d =>
      match evalKV (lookupChain [loc, ctx.U, ctx.V, d ++ ctx.D]) h.vars with   -- stage 2
      | none => .error
      | some v =>
        -- stage 3: user vars are literal strings here
        let ρ4 := lookupChain [loc, h.uvars ++ ctx.U, v ++ ctx.V, d ++ ctx.D]
        match evalField ρ4 h.name, evalFields ρ4 extra, evalKV ρ4 h.cons, evalKV ρ4 h.connects, evalKV ρ4 h.binds with
        | some nm, some ex, some cs, some co, some bi =>
          -- after the sequence: Locals are written into Vars
          let ownV := loc ++ v
          let c' : Ctx := { D := d ++ ctx.D, V := ownV ++ ctx.V, U := h.uvars ++ ctx.U }
          .ok { name := nm, enabled := trim en, ownD := d, ownV := ownV, cons := cs, binds := bi, connects := co,
                stack := c'.U ++ c'.V ++ c'.D } c' ex
        | _, _, _, _, _ => .error

/-! ## include roles (includerole.go, load.go) -/

/-- Is there a document called `f` among the documents an include site can name? -/
def hasDoc (f : String) : Tmpl → Bool
  | .nil => false
  | .doc file _ _ next => file == f || hasDoc f next
  | .agg _ _ next => hasDoc f next
  | .task _ _ _ next => hasDoc f next
  | .call _ _ _ next => hasDoc f next
  | .iter _ _ _ next => hasDoc f next
  | .incl _ _ _ next => hasDoc f next

/-- `includeRole.ProcessTemplates` up to and including `loadSubworkflow`: the role's own template
    sequence on the header AS WRITTEN AT THE INCLUDE SITE (the `include:` expression is a stage-4
    field like the name; constraints / bind / connect of the site are evaluated — an error there
    fails the load — and then discarded with the composed roleBase), the Locals written to the
    site's Vars (`pub`; see `Cfg.inclPublishLate`), the sub-workflow looked up (unknown file =
    error). The resulting stack is the SITE's — the loaded root's three maps wrap the site's
    (`root.setParent(r)`) — and tells the documents which one is wanted and under which name.
    `pub = false`: nothing of `loc` is in the site's Vars (`c'.V = loc ++ own vars ++ parent's`). -/
def inclHdrP (pub : Bool) (ctx : Ctx) (loc : Env) (h : Hdr) (inc : Field) (docs : Tmpl) : HdrRes :=
  match procHdr ctx loc h [inc] with
  | .ok i c' ex =>
    let file := ex.headD ""
    if hasDoc file docs then
      .ok i { D := c'.D, V := if pub then c'.V else c'.V.drop loc.length, U := c'.U, want := some (file, i.name) } ex
    else .error
  | r => r

/-- `r.aggregatorRole = *subWfRoot; r.parent = parent; r.Name = name;
    r.aggregatorRole.ProcessTemplates(…)`: the wanted document's root is processed as an
    aggregator — its own `enabled`, defaults, vars, constraints, channels; Locals empty — whose
    name field holds the include role's resolved name, against the site's stack. Any other
    document, and a document outside an include, is not there. -/
def docHdr (ctx : Ctx) (file : String) (h : Hdr) : HdrRes :=
  match ctx.want with
  | none => .disabled
  | some (f, nm) => if f == file then procHdr ctx [] { h with name := [.text nm] } [] else .disabled

/-! ## results -/

/-- Things the code does that the property does not want (see file header). -/
structure Events where
  masked : Bool := false
  iterDrop : Bool := false
  hollow : Bool := false
  deriving Repr, DecidableEq, Inhabited

def Events.or (a b : Events) : Events :=
  ⟨a.masked || b.masked, a.iterDrop || b.iterDrop, a.hollow || b.hollow⟩

def Events.none (e : Events) : Bool := !e.masked && !e.iterDrop && !e.hollow

structure Out where
  err : Bool := false
  f : Tree := .nil
  ev : Events := {}
  deriving Repr, DecidableEq, Inhabited

/-- results of siblings: errors accumulate, surviving roles keep their order -/
def Out.seq (a b : Out) : Out := ⟨a.err || b.err, a.f ++ b.f, a.ev.or b.ev⟩

def Out.empty : Out := {}

/-- Which of the two repaired spots behaves how (see the file header). -/
structure Cfg where
  /-- a failed evaluation of `enabled` is turned into "role disabled" instead of failing the load -/
  maskEnabledError : Bool
  /-- `iteratorRole.IsEnabled()` answers with the truthiness of the template's raw `enabled` text
      (else: with "the iterator still holds a generated role") -/
  iterByRawText : Bool
  /-- an include role writes its Locals into its Vars only AFTER it replaced its composed
      aggregatorRole by the loaded root (so: never; see the file header). NOT the code. -/
  inclPublishLate : Bool := false
  deriving Repr, DecidableEq, Inhabited

/-- the code as it is (after `fix:` C15.fix-1 and C15.fix-2) -/
def codeCfg : Cfg := { maskEnabledError := false, iterByRawText := false, inclPublishLate := false }

/-- the code as it was -/
def legacyCfg : Cfg := { maskEnabledError := true, iterByRawText := true, inclPublishLate := false }

/-- NOT the code: the code as it is, except that the include role publishes its Locals after the swap -/
def lateInclCfg : Cfg := { maskEnabledError := false, iterByRawText := false, inclPublishLate := true }

/-- the include header of a configuration -/
def inclHdr (cfg : Cfg) : Ctx → Env → Hdr → Field → Tmpl → HdrRes := inclHdrP (!cfg.inclPublishLate)

/-- What a role whose `enabled` could not be evaluated contributes: silently nothing (legacy),
    or a failed load. -/
def maskedOut (cfg : Cfg) : Out :=
  if cfg.maskEnabledError then ⟨false, .nil, { masked := true }⟩ else ⟨true, .nil, {}⟩

/-- Does a processed sibling list contain a real role once iterators are made transparent? -/
def hasNode : Tree → Bool
  | .nil => false
  | .agg _ _ _ => true
  | .task _ _ _ _ => true
  | .call _ _ _ _ => true
  | .iter k n => hasNode k || hasNode n

/-- `iteratorRole.IsEnabled() = template.IsEnabled()` on the raw text of the template's `enabled`. -/
def rawEnabled : Tmpl → Bool
  | .agg h _ _ => truthy (rawText h.enabled)
  | .task h _ _ _ => truthy (rawText h.enabled)
  | .call h _ _ _ => truthy (rawText h.enabled)
  | .incl h _ _ _ => truthy (rawText h.enabled)
  | _ => false

/-- A leaf (task/call) after its header. -/
def leafOut (cfg : Cfg) (mk : Info → List String → Tree) : HdrRes → Out
  | .error => ⟨true, .nil, {}⟩
  | .masked => maskedOut cfg
  | .disabled => Out.empty
  | .ok i _ ex => ⟨false, mk i ex, {}⟩

/-- An aggregator after its children: pruned when `Roles` is empty. -/
def aggOut (i : Info) (k : Out) : Out :=
  match k.f with
  | .nil => ⟨k.err, .nil, k.ev⟩
  | kf => ⟨k.err, .agg i kf .nil, k.ev.or { hollow := !hasNode kf }⟩

/-- `iteratorRole.IsEnabled()` after the iterator processed its children (`kf` = the generated
    roles that are left); `raw` = truthiness of the template's raw `enabled` text. -/
def iterKeep (cfg : Cfg) (raw : Bool) (kf : Tree) : Bool :=
  if cfg.iterByRawText then raw else !kf.isNil

/-- An iterator after its children: kept by the parent iff `IsEnabled()`. -/
def iterOut (cfg : Cfg) (raw : Bool) (k : Out) : Out :=
  if iterKeep cfg raw k.f then ⟨k.err, .iter k.f .nil, k.ev⟩
  else ⟨k.err, .nil, k.ev.or { iterDrop := hasNode k.f }⟩

/-- `taskRole.resolveTaskClassIdentifier` with the harness's repository
    (identifier `h/p/r`, hash `x`). -/
def resolveClass (c : String) : String :=
  if c.toList.contains '/' then c ++ "@x" else "h/p/r/tasks/" ++ c ++ "@x"

def resolveExtra : List String → List String
  | [] => []
  | c :: r => resolveClass c :: r

/-- Big-step `ProcessTemplates` on a sibling list whose members all have locals `loc`
    and ancestors' stack `ctx` (accumulating = concurrent code path). -/
def proc (cfg : Cfg) (ctx : Ctx) (loc : Env) : Tmpl → Out
  | .nil => Out.empty
  | .agg h kids next =>
    let me : Out :=
      match procHdr ctx loc h [] with
      | .error => ⟨true, .nil, {}⟩
      | .masked => maskedOut cfg
      | .disabled => Out.empty
      | .ok i c' _ => aggOut i (proc cfg c' [] kids)
    me.seq (proc cfg ctx loc next)
  | .task h extra crit next =>
    (leafOut cfg (fun i ex => .task i (resolveExtra ex) crit .nil) (procHdr ctx loc h extra)).seq (proc cfg ctx loc next)
  | .call h extra crit next =>
    (leafOut cfg (fun i ex => .call i ex crit .nil) (procHdr ctx loc h extra)).seq (proc cfg ctx loc next)
  | .iter rng var body next =>
    let me : Out :=
      match evalRange ctx.lookRange rng with
      | none => ⟨true, .nil, {}⟩
      | some vals =>
        iterOut cfg (rawEnabled body)
          (vals.foldr (fun v acc => (proc cfg ctx [(var, v)] body).seq acc) Out.empty)
    me.seq (proc cfg ctx loc next)
  | .incl h inc docs next =>
    let me : Out :=
      match inclHdr cfg ctx loc h inc docs with
      | .error => ⟨true, .nil, {}⟩
      | .masked => maskedOut cfg
      | .disabled => Out.empty
      | .ok _ cw _ => proc cfg cw [] docs
    me.seq (proc cfg ctx loc next)
  | .doc file h kids next =>
    let me : Out :=
      match docHdr ctx file h with
      | .error => ⟨true, .nil, {}⟩
      | .masked => maskedOut cfg
      | .disabled => Out.empty
      | .ok i c' _ => aggOut i (proc cfg c' [] kids)
    me.seq (proc cfg ctx loc next)

/-- What `Load` hands back. -/
inductive Loaded where
  | error
  /-- the root itself is disabled or ended up empty -/
  | none
  | tree (t : Tree)
  deriving Repr, DecidableEq, Inhabited

def Out.loaded (o : Out) : Loaded :=
  if o.err then .error else
  match o.f.flatten with
  | .nil => .none
  | t => .tree t

/-- Load a workflow: process the root role (a one-element sibling list) with an empty stack. -/
def load (cfg : Cfg) (t : Tmpl) : Loaded := (proc cfg {} [] t).loaded

/-! ## sequential code path: the first error returns -/

def okOr (o : Option α) : Except Unit α :=
  match o with
  | some a => .ok a
  | none => .error ()

def aggTree (i : Info) : Tree → Tree
  | .nil => .nil
  | kf => .agg i kf .nil

/-- two sibling results of the sequential path: the first error wins -/
def seqCat (a b : Except Unit Tree) : Except Unit Tree :=
  match a with
  | .error e => .error e
  | .ok x =>
    match b with
    | .error e => .error e
    | .ok y => .ok (x ++ y)

def procSeq (cfg : Cfg) (ctx : Ctx) (loc : Env) : Tmpl → Except Unit Tree
  | .nil => .ok .nil
  | .agg h kids next =>
    match procHdr ctx loc h [] with
    | .error => .error ()
    | .masked => if cfg.maskEnabledError then procSeq cfg ctx loc next else .error ()
    | .disabled => procSeq cfg ctx loc next
    | .ok i c' _ =>
      match procSeq cfg c' [] kids with
      | .error e => .error e
      | .ok kf =>
        match procSeq cfg ctx loc next with
        | .error e => .error e
        | .ok r => .ok (aggTree i kf ++ r)
  | .task h extra crit next =>
    match procHdr ctx loc h extra with
    | .error => .error ()
    | .masked => if cfg.maskEnabledError then procSeq cfg ctx loc next else .error ()
    | .disabled => procSeq cfg ctx loc next
    | .ok i _ ex =>
      match procSeq cfg ctx loc next with
      | .error e => .error e
      | .ok r => .ok (.task i (resolveExtra ex) crit r)
  | .call h extra crit next =>
    match procHdr ctx loc h extra with
    | .error => .error ()
    | .masked => if cfg.maskEnabledError then procSeq cfg ctx loc next else .error ()
    | .disabled => procSeq cfg ctx loc next
    | .ok i _ ex =>
      match procSeq cfg ctx loc next with
      | .error e => .error e
      | .ok r => .ok (.call i ex crit r)
  | .iter rng var body next =>
    match evalRange ctx.lookRange rng with
    | none => .error ()
    | some vals =>
      match vals.foldr (fun v acc => seqCat (procSeq cfg ctx [(var, v)] body) acc) (Except.ok Tree.nil) with
      | .error e => .error e
      | .ok kf =>
        match procSeq cfg ctx loc next with
        | .error e => .error e
        | .ok r => .ok ((if iterKeep cfg (rawEnabled body) kf then Tree.iter kf .nil else .nil) ++ r)
  | .incl h inc docs next =>
    match inclHdr cfg ctx loc h inc docs with
    | .error => .error ()
    | .masked => if cfg.maskEnabledError then procSeq cfg ctx loc next else .error ()
    | .disabled => procSeq cfg ctx loc next
    | .ok _ cw _ => seqCat (procSeq cfg cw [] docs) (procSeq cfg ctx loc next)
  | .doc file h kids next =>
    match docHdr ctx file h with
    | .error => .error ()
    | .masked => if cfg.maskEnabledError then procSeq cfg ctx loc next else .error ()
    | .disabled => procSeq cfg ctx loc next
    | .ok i c' _ =>
      match procSeq cfg c' [] kids with
      | .error e => .error e
      | .ok kf =>
        match procSeq cfg ctx loc next with
        | .error e => .error e
        | .ok r => .ok (aggTree i kf ++ r)

def loadSeq (cfg : Cfg) (t : Tmpl) : Loaded :=
  match procSeq cfg {} [] t with
  | .error _ => .error
  | .ok f =>
    match f.flatten with
    | .nil => .none
    | ft => .tree ft

/-! ## arbitrary interleavings -/

namespace Tmpl

def take : Nat → Tmpl → Tmpl
  | 0, _ => .nil
  | _ + 1, .nil => .nil
  | n + 1, .agg h k nx => .agg h k (take n nx)
  | n + 1, .task h x c nx => .task h x c (take n nx)
  | n + 1, .call h x c nx => .call h x c (take n nx)
  | n + 1, .iter r v b nx => .iter r v b (take n nx)
  | n + 1, .incl h i d nx => .incl h i d (take n nx)
  | n + 1, .doc f h k nx => .doc f h k (take n nx)

def drop : Nat → Tmpl → Tmpl
  | 0, t => t
  | _ + 1, .nil => .nil
  | n + 1, .agg _ _ nx => drop n nx
  | n + 1, .task _ _ _ nx => drop n nx
  | n + 1, .call _ _ _ nx => drop n nx
  | n + 1, .iter _ _ _ nx => drop n nx
  | n + 1, .incl _ _ _ nx => drop n nx
  | n + 1, .doc _ _ _ nx => drop n nx

end Tmpl

/-- A partially processed sibling list. `pend ctx loc t` = roles whose goroutine has not
    run yet; they know only the finished ancestors' stack and their locals. -/
inductive PT where
  | nil
  | pend (ctx : Ctx) (loc : Env) (t : Tmpl) (next : PT)
  /-- aggregator whose header is done (enabled), children in progress -/
  | aggW (i : Info) (kids : PT) (next : PT)
  /-- finished leaf -/
  | leaf (o : Out) (next : PT)
  /-- iterator already expanded; `raw` = truthiness of the raw `enabled` text of its template -/
  | iterW (raw : Bool) (kids : PT) (next : PT)
  deriving Repr, Inhabited

/-- One pending copy of the iterator's template per range element, in range order. -/
def expandPend (ctx : Ctx) (var : String) (body : Tmpl) : List String → PT
  | [] => .nil
  | v :: vs => .pend ctx [(var, v)] body (expandPend ctx var body vs)

/-- Run the goroutine of the FIRST role of a pending sibling list: one header. -/
def fire (cfg : Cfg) (ctx : Ctx) (loc : Env) (next : PT) : Tmpl → PT
  | .nil => next
  | .agg h kids nx =>
    let rest := PT.pend ctx loc nx next
    match procHdr ctx loc h [] with
    | .error => .leaf ⟨true, .nil, {}⟩ rest
    | .masked => .leaf (maskedOut cfg) rest
    | .disabled => rest
    | .ok i c' _ => .aggW i (.pend c' [] kids .nil) rest
  | .task h extra crit nx =>
    .leaf (leafOut cfg (fun i ex => .task i (resolveExtra ex) crit .nil) (procHdr ctx loc h extra)) (.pend ctx loc nx next)
  | .call h extra crit nx =>
    .leaf (leafOut cfg (fun i ex => .call i ex crit .nil) (procHdr ctx loc h extra)) (.pend ctx loc nx next)
  | .iter rng var body nx =>
    let rest := PT.pend ctx loc nx next
    match evalRange ctx.lookRange rng with
    | none => .leaf ⟨true, .nil, {}⟩ rest
    | some vals => .iterW (rawEnabled body) (expandPend ctx var body vals) rest
  | .incl h inc docs nx =>
    -- the include role's own sequence, the lookup and the swap; the loaded root's header is the
    -- next step (the same goroutine in the code: a finer interleaving than the code has)
    let rest := PT.pend ctx loc nx next
    match inclHdr cfg ctx loc h inc docs with
    | .error => .leaf ⟨true, .nil, {}⟩ rest
    | .masked => .leaf (maskedOut cfg) rest
    | .disabled => rest
    | .ok _ cw _ => .pend cw [] docs rest
  | .doc file h kids nx =>
    let rest := PT.pend ctx loc nx next
    match docHdr ctx file h with
    | .error => .leaf ⟨true, .nil, {}⟩ rest
    | .masked => .leaf (maskedOut cfg) rest
    | .disabled => rest
    | .ok i c' _ => .aggW i (.pend c' [] kids .nil) rest

/-- Where in the partial tree a step happens. -/
inductive Dir where
  | right   -- next sibling group
  | down    -- into the children
  deriving Repr, DecidableEq, Inhabited

/-- A scheduler decision: at the node addressed by the path either run the first pending
    role there (`k = none`) or split the pending sibling list after `k` roles, so that any
    sibling can become "first" (siblings run in any order). -/
structure Step where
  path : List Dir
  split : Option Nat
  deriving Repr, Inhabited

def stepAt (cfg : Cfg) : PT → List Dir → Option Nat → PT
  | .pend ctx loc t next, [], none => fire cfg ctx loc next t
  | .pend ctx loc t next, [], some k => .pend ctx loc (t.take k) (.pend ctx loc (t.drop k) next)
  | .pend ctx loc t next, .right :: p, s => .pend ctx loc t (stepAt cfg next p s)
  | .aggW i kids next, .right :: p, s => .aggW i kids (stepAt cfg next p s)
  | .aggW i kids next, .down :: p, s => .aggW i (stepAt cfg kids p s) next
  | .leaf o next, .right :: p, s => .leaf o (stepAt cfg next p s)
  | .iterW kp kids next, .right :: p, s => .iterW kp kids (stepAt cfg next p s)
  | .iterW kp kids next, .down :: p, s => .iterW kp (stepAt cfg kids p s) next
  | t, _, _ => t

def run (cfg : Cfg) (s : PT) : List Step → PT
  | [] => s
  | st :: rest => run cfg (stepAt cfg s st.path st.split) rest

/-- Let every goroutine that has not run yet run to completion, then collect (wg.Wait,
    error accumulation, filtering of disabled children, self-disable when empty). -/
def finish (cfg : Cfg) : PT → Out
  | .nil => Out.empty
  | .pend ctx loc t next => (proc cfg ctx loc t).seq (finish cfg next)
  | .aggW i kids next => (aggOut i (finish cfg kids)).seq (finish cfg next)
  | .leaf o next => o.seq (finish cfg next)
  | .iterW raw kids next => (iterOut cfg raw (finish cfg kids)).seq (finish cfg next)

/-- Did some goroutine that already ran hit a template error? -/
def hasFailed : PT → Bool
  | .nil => false
  | .pend _ _ _ next => hasFailed next
  | .aggW _ kids next => hasFailed kids || hasFailed next
  | .leaf o next => o.err || hasFailed next
  | .iterW _ kids next => hasFailed kids || hasFailed next

/-- Concurrent load under an arbitrary schedule. -/
def loadConc (cfg : Cfg) (sched : List Step) (t : Tmpl) : Loaded :=
  (finish cfg (run cfg (.pend {} [] t .nil) sched)).loaded

/-- The three switches of the code (viper keys concurrentWorkflowTemplateProcessing,
    concurrentWorkflowTemplateIteratorProcessing, concurrentIteratorRoleExpansion). -/
structure Switches where
  aggConc : Bool
  iterConc : Bool
  expandConc : Bool
  deriving Repr, DecidableEq, Inhabited

/-- Any setting: everything sequential is `loadSeq`; as soon as something is concurrent
    the children run under some schedule. -/
def loadWith (cfg : Cfg) (sw : Switches) (sched : List Step) (t : Tmpl) : Loaded :=
  if !sw.aggConc && !sw.iterConc && !sw.expandConc then loadSeq cfg t else loadConc cfg sched t

end Load
