/-
  Model/Own — tasks, ownership, detectors (C04, C06; shared with C18 / the
  acquire–release half of C02).

  Mirrors
    core/task/task.go        isLocked (the real conjunction), IsClaimable, SetParent
    core/task/roster.go      the roster as a list
    core/task/manager.go     acquireTasks (incl. reuse of unlocked tasks; the deployMu
                             Lock/Unlock pairing: `Cfg.unlockUnpaired`), releaseTasks/releaseTask,
                             KillTasks/doKillTasks, Cleanup
    core/environment/manager.go
                             CreateEnvironment (detector snapshot → Cleanup → load →
                             detector check → insertion → DEPLOY → CONFIGURE → failure
                             path GO_ERROR / forced teardown / KillTasks),
                             TeardownEnvironment (release non-hook tasks → DESTROY and
                             after_DESTROY hooks by weight → cancelCallsPendingAwait →
                             release the hook tasks (`Cfg.lastWeightOnly`) → DONE → delete), the
                             pendingTeardownsCh rendezvous with the event loop (`Cfg.lateDelete`)
    core/server.go           DestroyEnvironment decision tree, doTeardownAndCleanup,
                             ControlEnvironment glue, CleanupTasks

  Two views are kept apart: `roster` is what the core believes (parent, status,
  state), `master` is what really runs (one row per launched Mesos task).
  Everything is a total function. Outcomes the code does not decide (which
  tasks had reported TASK_RUNNING when a deployment was given up, which task
  fails a transition, and — in the legacy configuration only — whether the event
  loop deletes the pending-teardown entry before or after TeardownEnvironment
  re-registers) are oracle arguments.

  Three defects of the code were repaired (notes/C04.fix-1, C06.fix-1, C06.fix-2). A state
  carries the configuration `Cfg` it runs under: `codeCfg` is the code as it is (the default
  of `init`), `legacyCfg` the code as it was; the refutation theorems of the three findings
  are statements about `legacyCfg`.

  Executor / agent failure (Mesos FAILURE event → HandleExecutorFailed /
  HandleAgentFailed, the status update TASK_RUNNING re-filling agentId / executorId)
  and the environment's workflow watcher (subscribeToWfState: GO_ERROR and STOP of the
  RUNNING tasks 0.5 s after a critical task went to ERROR) are steps of their own
  (`hostLost`, `watchError`); whether a watcher is still alive is left to the caller.

  A KILL call may FAIL at the caller (the master answers it with an error, or the scheduler
  client is disconnected — with mesos-go every failed call drops the subscription, so the calls
  that follow in the same loop fail too until the controller has re-subscribed): `State.refusing`
  names the tasks whose KILL calls fail at present; it is an input of the model like `hosts`, set
  by the fault step `killFault`. doKillTasks puts such a task back into the roster (unowned, still
  running) and reports "could not kill some tasks" — the summary error is set by EVERY failing
  kill and never reset (go/ast tie `C06_kill_error_is_code`); Cleanup / KillTasks / doCleanupTasks
  hand it on and DestroyEnvironment answers it (`tcFin`); the pre-deployment cleanup of a creation
  and the KillTasks of a creation's failure tail only log it.

  A status update about a task that RUNS (step `statusUpdate`: a repeated TASK_RUNNING or a state
  updateTaskStatus has no case for, as the master's answer to a reconciliation or a relayed update; the
  optional fields agent_id / executor_id present or not) goes through `Task.onStatus`, the model of
  updateTaskStatus over Model/TaskIds.lean: the two ids are copied under a nil guard each
  (`idGuardsInCode`, tied to go/ast facts), so what an update omits never takes the lock off a task.

  A deployment may fail in acquireTasks' OWN TAIL, after everything was launched: the lock loop
  (`taskPtr.SetParent(descriptor.TaskRole); if !taskPtr.IsLocked() { … deploymentSuccess = false }`) meets a new
  task that cannot be locked because its placement data is incomplete — the offer it was launched from carried no
  hostname (`SettleOracle.blank`: mesos.Offer.Hostname is a plain string field, it arrives empty; the core places on
  the attribute machine_id and on resources, never on the hostname). "Cannot be locked" is Model/TaskIds
  `Fields.locked` on the task's identity fields with the parent set (`lockFailure`). Then the block
  `if !deploymentSuccess` un-parents EVERY task of `deployedTasks` — the ones that did lock included —, all of
  them are appended to the roster, and no role gets its task (`SetTask` happens on success only): the
  environment's workflow references nothing, the DEPLOY transition waits for its timeout, and the failure tail
  of the creation (GO_ERROR, forced teardown, KillTasks of the environment's tasks: none) releases and kills
  nothing — the tasks sit in the roster unowned and unlocked and fall to the next cleanup (`acquireUnlocked`,
  the branch of `createSettle` / `settleDeploy` before `acquire`). `Cfg.detachOnSpot` is the variant that is NOT
  the code: only the task that cannot be locked is detached (on the spot), its siblings keep the parent role of
  an environment that is about to disappear (go/ast tie `C06_lock_failure_unparents_all_is_code`).
  Offers without hostname are admitted without reuseUnlockedTasks only (`blankHosts`; the reuse loop of the
  model does not consider a roster entry without hostname: under that restriction there is none).

  Not modelled here: reconciliation (C18), automatic environments, the kill
  acknowledgements' blocking (an accepted KILL is answered at once: fairness premise "the
  master eventually reports killed tasks"), the acknowledgement KillTasks registers for a task
  whose KILL call then fails (never taken back: a later KillTasks that names the task skips
  it; Cleanup does not look at acknowledgements).
-/
import ControlModel.Basic
import ControlModel.Model.TaskIds

namespace Own

abbrev EnvId := Nat
abbrev TaskId := Nat
abbrev Det := Nat
abbrev Cls := Nat
abbrev Host := Nat

/-- The three places where the code as it is differs from the code as it was. -/
structure Cfg where
  /-- manager.go acquireTasks: `m.deployMu.Unlock()` stands outside the block
      `if len(tasksToRun) > 0 { m.deployMu.Lock() … }` and runs on every path. -/
  unlockUnpaired : Bool
  /-- environment/manager.go, event loop, `case *event.TasksReleasedEvent`: the pending-teardown
      entry is deleted in a second critical section, after the event was handed over. -/
  lateDelete : Bool
  /-- TeardownEnvironment: the second ReleaseTasks message is assigned inside the loop over the
      DESTROY weights, from the list already filtered for ACTIVE roles. -/
  lastWeightOnly : Bool
  /-- NOT the code, in any version: acquireTasks' lock loop detaches a newly deployed task that cannot be
      locked on the spot, and the block `if !deploymentSuccess` no longer un-parents the deployed tasks — the
      siblings that did lock keep their parent role although the deployment is declared failed. (The code, as
      it is and as it was: the failure block un-parents every task of `deployedTasks`.) -/
  detachOnSpot : Bool := false
  deriving DecidableEq, Repr, Inhabited

/-- The code as it is: Lock/Unlock of deployMu paired, the entry removed in the critical section
    that looks it up, the DESTROY hook tasks of all weights released together (and, as ever, a deployment
    that fails in the lock loop un-parents everything it launched). -/
def codeCfg : Cfg := { unlockUnpaired := false, lateDelete := false, lastWeightOnly := false }

/-- The code as it was before the three repairs. -/
def legacyCfg : Cfg := { unlockUnpaired := true, lateDelete := true, lastWeightOnly := true }

inductive EState where
  | STANDBY | DEPLOYED | CONFIGURED | RUNNING | ERROR | DONE
  deriving DecidableEq, Repr, Inhabited

inductive TState where
  | STANDBY | CONFIGURED | RUNNING | ERROR | DONE
  deriving DecidableEq, Repr, Inhabited

inductive Mesos where
  | staging | running | terminal
  deriving DecidableEq, Repr, Inhabited

def EState.name : EState → String
  | .STANDBY => "STANDBY" | .DEPLOYED => "DEPLOYED" | .CONFIGURED => "CONFIGURED"
  | .RUNNING => "RUNNING" | .ERROR => "ERROR" | .DONE => "DONE"

def TState.name : TState → String
  | .STANDBY => "STANDBY" | .CONFIGURED => "CONFIGURED" | .RUNNING => "RUNNING"
  | .ERROR => "ERROR" | .DONE => "DONE"

def Mesos.name : Mesos → String
  | .staging => "staging" | .running => "running" | .terminal => "terminal"

/-- One roster entry (core/task/task.go). `hostOk/agent/offer/executor` say whether
    hostname, agentId, offerId, executorId are non-empty (newTaskForMesosOffer fills them
    from the offer; the task id is never empty). -/
structure Task where
  id : TaskId
  cls : Cls
  host : Host
  hostOk : Bool := true
  agent : Bool
  offer : Bool
  executor : Bool
  parent : Option EnvId      -- environment of the parent role; `none` = nil parent
  active : Bool              -- status == ACTIVE
  state : TState
  deriving DecidableEq, Repr, Inhabited

def Task.idsOk (t : Task) : Bool := t.hostOk && t.agent && t.offer && t.executor

/-- task.go `isLocked`: all ids non-empty and a parent role. -/
def Task.isLocked (t : Task) : Bool := t.idsOk && t.parent.isSome

/-- The owner of a task: the environment of its parent role while it is locked. -/
def Task.owner (t : Task) : Option EnvId := if t.isLocked then t.parent else none

/-- task.go `IsClaimable`. -/
def Task.claimable (t : Task) : Bool := !t.isLocked && t.active && decide (t.state = .STANDBY)

/-- The identity fields of a roster entry, for Model/TaskIds (`Fields.locked` is task.go `isLocked`). -/
def Task.fields (t : Task) : TaskIds.Fields :=
  { hostname := t.hostOk, agentId := t.agent, offerId := t.offer, taskId := true, executorId := t.executor,
    parent := t.parent.isSome }

/-- One row of the Mesos master's task table. -/
structure MTask where
  id : TaskId
  label : EnvId              -- environmentId label it was launched with
  role : Nat                 -- index of the role it was launched for
  host : Host := 0           -- the agent it was launched on
  mesos : Mesos
  killed : Bool              -- a KILL call named it
  deriving DecidableEq, Repr, Inhabited

structure HookRef where
  task : TaskId
  weight : Int
  after : Bool               -- trigger after_DESTROY (else DESTROY)
  deriving DecidableEq, Repr, Inhabited

/-- A listed environment (an entry of environment.Manager.m). -/
structure Env where
  id : EnvId
  state : EState
  dets : List Det
  tasks : List TaskId        -- workflow.GetTasks(): the task of every task role, hooks included
  hooks : List HookRef       -- the DESTROY / after_DESTROY hook tasks among them
  calls : Nat := 0           -- call roles triggered at before_CONFIGURE whose await never comes
  pending : Nat              -- calls started and not yet awaited (callsPendingAwait)
  started : Nat := 0         -- call goroutines started so far
  cancelled : Nat := 0       -- … cancelled so far (cancelCallsPendingAwait)
  tearing : Bool             -- a TeardownEnvironment hangs inside it (transitionMutex held for ever)
  deriving DecidableEq, Repr, Inhabited

inductive RoleKind where
  | task | hook | call
  deriving DecidableEq, Repr, Inhabited

structure RoleSpec where
  kind : RoleKind
  cls : Cls := 0
  host : Host := 0
  weight : Int := 0
  after : Bool := false
  deriving DecidableEq, Repr, Inhabited

inductive Bad where
  | ok | nowf | noclass
  deriving DecidableEq, Repr, Inhabited

/-- What NewEnvironment is asked to create. `dets` are the detectors of the
    `hosts` variable; `hosts` the machines that exist (a role pinned elsewhere
    cannot be deployed). -/
structure EnvSpec where
  bad : Bad
  dets : List Det
  roles : List RoleSpec
  deriving DecidableEq, Repr, Inhabited

/-- A creation in flight. -/
structure Pending where
  id : EnvId
  spec : EnvSpec
  snapshot : List Det        -- alreadyActiveDetectors, read at the very beginning
  cleaned : Bool             -- past the pre-deployment Cleanup
  inserted : Bool            -- past the detector check, entered in the map
  claims : Option (List (Nat × TaskId))   -- descriptor index ↦ claimed roster task, if the claim step ran on its own
  deriving Repr, Inhabited

structure State where
  reuse : Bool                                   -- flag reuseUnlockedTasks
  cfg : Cfg := codeCfg                           -- which code the state runs under (never changes)
  hosts : List Host                              -- machines that exist
  roster : List Task := []
  envs : List Env := []
  master : List MTask := []
  killLog : List (TaskId × Option EnvId) := []   -- every KILL call, with the owner of the task at that instant
  dead : List (EnvId × Nat × Nat) := []          -- deleted environments: calls started / cancelled in their life
  refusing : List TaskId := []                   -- tasks whose KILL calls fail at present (refused by the master / client disconnected)
  creating : List Pending := []
  used : List EnvId := []                        -- environment ids handed out so far (uid.New is fresh)
  nextTask : TaskId := 1
  crashed : Bool := false                        -- the core process died
  deriving Repr, Inhabited

def init (reuse : Bool) (hosts : List Host) (cfg : Cfg := codeCfg) : State :=
  { reuse := reuse, hosts := hosts, cfg := cfg }

def State.env? (s : State) (k : EnvId) : Option Env := s.envs.find? (fun E => E.id = k)

def State.activeDets (s : State) : List Det := s.envs.flatMap (·.dets)

def setEnv (s : State) (k : EnvId) (f : Env → Env) : State :=
  { s with envs := s.envs.map (fun E => if E.id = k then f E else E) }

/-! ### kill, cleanup -/

def killOne (m : List MTask) (id : TaskId) : List MTask :=
  m.map (fun x => if x.id = id then { x with killed := true, mesos := .terminal } else x)

def killMany (m : List MTask) (ids : List TaskId) : List MTask :=
  m.map (fun x => if x.id ∈ ids then { x with killed := true, mesos := .terminal } else x)

/-- manager.go `doKillTasks`: every task of the list leaves the roster; the ones believed
    ACTIVE get a KILL call, the others are just dropped. A task whose KILL call fails
    (`s.refusing`) is appended to the roster again — as it was: unowned, still ACTIVE — and the
    master's row for it is untouched (it keeps running). -/
def doKill (s : State) (toKill : List Task) : State :=
  let ids := toKill.map (·.id)
  let act := toKill.filter (·.active)
  let sent := act.filter (fun t => decide (t.id ∉ s.refusing))
  let back := act.filter (fun t => decide (t.id ∈ s.refusing))
  { s with roster := s.roster.filter (fun t => decide (t.id ∉ ids)) ++ back,
           master := killMany s.master (sent.map (·.id)),
           killLog := s.killLog ++ act.map (fun t => (t.id, t.owner)) }

/-- The error doKillTasks returns ("could not kill some tasks"): some KILL call failed. It is
    set by every failing kill and never reset, whatever comes later in the loop. -/
def killErr (s : State) (toKill : List Task) : Bool :=
  toKill.any (fun t => t.active && decide (t.id ∈ s.refusing))

/-- manager.go `Cleanup`: kill every unlocked task. -/
def cleanup (s : State) : State := doKill s (s.roster.filter (fun t => !t.isLocked))

/-- manager.go `KillTasks`: of the named tasks, the unlocked ones. -/
def killTasks (s : State) (ids : List TaskId) : State :=
  doKill s (s.roster.filter (fun t => !t.isLocked && decide (t.id ∈ ids)))

/-- server.go `doCleanupTasks`: an empty id list means "everything". -/
def cleanupTasks (s : State) (ids : List TaskId) : State :=
  if ids = [] then cleanup s else killTasks s ids

/-- The error Cleanup / KillTasks / doCleanupTasks hand on from doKillTasks. -/
def cleanupErr (s : State) : Bool := killErr s (s.roster.filter (fun t => !t.isLocked))

def killTasksErr (s : State) (ids : List TaskId) : Bool :=
  killErr s (s.roster.filter (fun t => !t.isLocked && decide (t.id ∈ ids)))

def cleanupTasksErr (s : State) (ids : List TaskId) : Bool :=
  if ids = [] then cleanupErr s else killTasksErr s ids

/-! ### release -/

/-- manager.go `releaseTask` refuses a task locked by another environment. -/
def releaseOk (e : EnvId) (t : Task) : Bool := !(t.isLocked && decide (t.parent ≠ some e))

def releaseTask (e : EnvId) (t : Task) : Task × Bool :=
  if releaseOk e t then ({ t with parent := none }, true) else (t, false)

/-- manager.go `releaseTasks` for the roster tasks named by `ids`; returns the
    number of release errors (TasksReleasedEvent.taskReleaseErrors). -/
def releaseTasks (s : State) (e : EnvId) (ids : List TaskId) : State × Nat :=
  ({ s with roster := s.roster.map (fun t => if t.id ∈ ids then (releaseTask e t).1 else t) },
   (s.roster.filter (fun t => decide (t.id ∈ ids) && !releaseOk e t)).length)

/-! ### teardown -/

def insertW (w : Int) : List Int → List Int
  | [] => [w]
  | x :: xs => if w < x then w :: x :: xs else if w = x then x :: xs else x :: insertW w xs

/-- HooksMap.GetWeights: the distinct weights, ascending. -/
def weightsOf (hs : List HookRef) : List Int := hs.foldl (fun acc h => insertW h.weight acc) []

/-- The hooks the merged map holds at weight `w`: the after_DESTROY entry
    overwrites the DESTROY entry of the same weight (`hooksMapForDestroy[k] = v`). -/
def hooksAt (hs : List HookRef) (w : Int) : List TaskId :=
  let aft := hs.filter (fun h => h.after && decide (h.weight = w))
  let des := hs.filter (fun h => !h.after && decide (h.weight = w))
  (if aft = [] then des else aft).map (·.task)

/-- Every task the merged map still names. -/
def effHooks (hs : List HookRef) : List TaskId := (weightsOf hs).flatMap (hooksAt hs)

def roleActive (s : State) (x : TaskId) : Bool := s.roster.any (fun t => decide (t.id = x) && t.active)

inductive TRes where
  | ok | err | hang | notfound
  | doneErr          -- the teardown completed (environment deleted) and still returned an error
  deriving DecidableEq, Repr, Inhabited

/-- What a teardown did, in order. -/
inductive TEv where
  | release (ids : List TaskId)     -- a ReleaseTasks message for these tasks
  | hooks (ids : List TaskId)       -- TriggerHooks for these hook tasks
  | cancel                          -- cancelCallsPendingAwait
  deriving DecidableEq, Repr, Inhabited

/-- The tasks released first: everything the merged hook map does not name. -/
def tdPlain (E : Env) : List TaskId := E.tasks.filter (fun x => decide (x ∉ effHooks E.hooks))

/-- The hook tasks triggered at weight `w`: those whose role is still ACTIVE. -/
def tdRun (s1 : State) (E : Env) (w : Int) : List TaskId := (hooksAt E.hooks w).filter (roleActive s1)

/-- The second ReleaseTasks message: the hook tasks of all weights, triggered or not.
    (Legacy: `taskmanMessage` was overwritten in every iteration of the loop over the weights,
    so it named the last weight's triggered hook tasks only — or still the first message's
    tasks if there was no DESTROY hook at all.) -/
def tdMsg (s1 : State) (E : Env) : List TaskId :=
  if !s1.cfg.lastWeightOnly then effHooks E.hooks else
  match (weightsOf E.hooks).getLast? with
  | none => tdPlain E
  | some w => tdRun s1 E w

/-- The function-level `err` is overwritten by every TriggerHooks call and returned at the
    very end: a failing hook at the last weight makes a completed teardown return an error. -/
def tdHookErr (s1 : State) (E : Env) (hf : List TaskId) : Bool :=
  match (weightsOf E.hooks).getLast? with
  | none => false
  | some w => (tdRun s1 E w).any (fun x => decide (x ∈ hf))

def tdTrace (s1 : State) (E : Env) : List TEv :=
  [TEv.release (tdPlain E)] ++ (weightsOf E.hooks).map (fun w => TEv.hooks (tdRun s1 E w)) ++ [TEv.cancel]

/-- cancelCallsPendingAwait. -/
def tdCancel (s1 : State) (k : EnvId) (_E : Env) : State :=
  setEnv s1 k (fun X => { X with cancelled := X.cancelled + X.pending, pending := 0 })

/-- TeardownEnvironment after the first release went through: hooks, cancelCallsPendingAwait,
    second release, DONE, delete. `late`: the event loop closes and deletes the
    pending-teardown entry only after the second registration, so the second
    TasksReleasedEvent finds no entry and the call waits for ever (`teardown` passes `false`
    unless the configuration has the late delete). -/
def tdFinish (s1 : State) (k : EnvId) (E : Env) (late : Bool) (hf : List TaskId) : State × TRes × List TEv :=
  let s2 := tdCancel s1 k E
  let tr := tdTrace s1 E
  if late then (setEnv s2 k (fun X => { X with tearing := true }), .hang, tr) else
  let msg := tdMsg s1 E
  let r2 := releaseTasks s2 k msg
  if r2.2 > 0 then (r2.1, .err, tr ++ [.release msg]) else
  ({ r2.1 with envs := r2.1.envs.filter (fun X => decide (X.id ≠ k)),
               dead := r2.1.dead ++ (r2.1.envs.filter (fun X => decide (X.id = k))).map (fun X => (X.id, X.started, X.cancelled)) },
   if tdHookErr s1 E hf then .doneErr else .ok, tr ++ [.release msg])

/-- environment.Manager.TeardownEnvironment. `hf`: hook tasks that answer TriggerHook
    with an error. `late`: the oracle of the rendezvous race; it only has a say in a
    configuration with `lateDelete` (see `Rdv`: the repaired protocol has no such schedule). -/
def teardown (s : State) (k : EnvId) (force late : Bool) (hf : List TaskId := []) : State × TRes × List TEv :=
  match s.env? k with
  | none => (s, .notfound, [])
  | some E =>
    if E.tearing then (s, .hang, []) else
    if E.state = .DONE then (s, .err, []) else
    if !(decide (E.state = .STANDBY) || decide (E.state = .DEPLOYED)) && !force then (s, .err, []) else
    let r1 := releaseTasks s k (tdPlain E)
    if r1.2 > 0 then (r1.1, .err, [.release (tdPlain E)]) else
    tdFinish r1.1 k E (late && s.cfg.lateDelete) hf

/-! ### transitions of a live environment -/

inductive CEv where
  | START | STOP | CONFIGURE | RESET
  deriving DecidableEq, Repr, Inhabited

def CEv.name : CEv → String
  | .START => "START" | .STOP => "STOP" | .CONFIGURE => "CONFIGURE" | .RESET => "RESET"

def envDst? : CEv → EState → Option EState
  | .START, .CONFIGURED => some .RUNNING
  | .STOP, .RUNNING => some .CONFIGURED
  | .CONFIGURE, .DEPLOYED => some .CONFIGURED
  | .RESET, .CONFIGURED => some .DEPLOYED
  | _, _ => none

def taskDst : CEv → TState
  | .START => .RUNNING | .STOP => .CONFIGURED | .CONFIGURE => .CONFIGURED | .RESET => .STANDBY

/-- Is the roster task a target of a transition of environment `E`
    (workflow.GetActiveTasks: its role is ACTIVE and it is still E's)? -/
def isTarget (E : Env) (t : Task) : Bool :=
  decide (t.id ∈ E.tasks) && decide (t.parent = some E.id) && t.active

/-- A transition command sent to E's active tasks. `fails`: the tasks that
    answer with an error, and whether they end in ERROR (else they stay). -/
def applyTrans (s : State) (E : Env) (ev : CEv) (fails : List (TaskId × Bool)) : State × Bool :=
  ({ s with roster := s.roster.map (fun t =>
      if isTarget E t then
        match fails.lookup t.id with
        | some true => { t with state := .ERROR }
        | some false => t
        | none => { t with state := taskDst ev }
      else t) },
   !(s.roster.any (fun t => isTarget E t && (fails.lookup t.id).isSome)))

inductive Res where
  | ok | okState (st : EState) | okKilled (n : Nat)
  | errLoad | errDetector | errDeploy | errConfigure | err | notfound | hang | crash | noop
  deriving DecidableEq, Repr, Inhabited

/-- before_CONFIGURE: the calls of the workflow are started (again). -/
def restartCalls (s : State) (k : EnvId) (E : Env) (ev : CEv) : State :=
  if ev = .CONFIGURE then
    setEnv s k (fun X => { X with pending := X.pending + E.calls, started := X.started + E.calls })
  else s

/-- server.go ControlEnvironment: a failed (or illegal) transition is followed
    by GO_ERROR (forced if GO_ERROR itself is illegal) and the request is answered with
    an error (since the `fix:` commit "ControlEnvironment reports the error of a failed
    transition"; before it the error was overwritten by GO_ERROR's result and the reply
    said OK with state ERROR — C02 finding rpc_ok_on_failed_transition).
    `pre`: the transition is cancelled before its body (START_ACTIVITY lost the
    compare-and-swap on the run number to a concurrent START). A legal CONFIGURE
    starts the before_CONFIGURE calls again. -/
def control (s : State) (k : EnvId) (ev : CEv) (fails : List (TaskId × Bool)) (pre : Bool := false) : State × Res :=
  -- DEPLOY / CONFIGURE of a creation in progress hold the transition mutex: the request is not served yet
  if (s.creating.any (fun p => decide (p.id = k))) then (s, .noop) else
  match s.env? k with
  | none => (s, .notfound)
  | some E =>
    if E.tearing then (s, .hang) else
    match envDst? ev E.state with
    | none =>
      if E.state = .ERROR then (s, .err)
      else (setEnv s k (fun X => { X with state := .ERROR }), .err)
    | some d =>
      if pre then (setEnv s k (fun X => { X with state := .ERROR }), .err) else
      let r := applyTrans (restartCalls s k E ev) E ev fails
      if r.2 then (setEnv r.1 k (fun X => { X with state := d }), .okState d)
      else (setEnv r.1 k (fun X => { X with state := .ERROR }), .err)

/-! ### destroy -/

structure DOracle where
  stopFails : List (TaskId × Bool) := []
  resetFails : List (TaskId × Bool) := []
  late1 : Bool := false       -- the rendezvous race in the first teardown
  late2 : Bool := false       -- … in the forced retry
  hookFails : List TaskId := []   -- hook tasks answering TriggerHook with an error
  deriving Repr, Inhabited

/-- The tail of doTeardownAndCleanup: any error of the (last) teardown is answered as an
    error and the task cleanup is skipped; after a completed teardown the tasks are cleaned up
    (unless they are to be kept) and an error of that cleanup — a KILL call that failed — is
    answered as an error too (the environment is gone all the same). -/
def tcFin (keep : Bool) (ids : List TaskId) (s' : State) (res : TRes) (tr : List TEv) : State × Res × List TEv :=
  match res with
  | .ok => if keep then (s', Res.ok, tr)
           else (cleanupTasks s' ids, if cleanupTasksErr s' ids then Res.err else Res.ok, tr)
  | .hang => (s', Res.hang, tr)
  | .notfound => (s', Res.notfound, tr)
  | _ => (s', Res.err, tr)

/-- server.go doTeardownAndCleanup (with its retry "with force"). `ids` are the
    environment's tasks (env.Workflow().GetTasks(), read from the object the
    caller holds). -/
def teardownAndCleanup (s : State) (k : EnvId) (ids : List TaskId) (force keep : Bool) (o : DOracle) :
    State × Res × List TEv :=
  let r := teardown s k force o.late1 o.hookFails
  if r.2.1 = .ok ∨ r.2.1 = .hang ∨ force then tcFin keep ids r.1 r.2.1 r.2.2
  else
    let r' := teardown r.1 k true o.late2 o.hookFails
    tcFin keep ids r'.1 r'.2.1 (r.2.2 ++ r'.2.2)

/-- The STOP that DestroyEnvironment issues first when allowed and the environment is
    RUNNING: the state afterwards, the environment's state afterwards, whether it went through. -/
def destroyStop (s : State) (k : EnvId) (E : Env) (allow : Bool) (fails : List (TaskId × Bool)) : State × EState × Bool :=
  if allow && decide (E.state = .RUNNING) then
    if (applyTrans s E .STOP fails).2 then
      (setEnv (applyTrans s E .STOP fails).1 k (fun X => { X with state := .CONFIGURED }), .CONFIGURED, true)
    else ((applyTrans s E .STOP fails).1, E.state, false)
  else (s, E.state, true)

/-- DestroyEnvironment after that STOP: forced teardown if the STOP failed or the state does not
    allow a destroy, else RESET when CONFIGURED (forced teardown if that fails), else the teardown asked for. -/
def destroyRest (s1 : State) (st : EState) (stopOk : Bool) (k : EnvId) (E : Env) (keep : Bool) (o : DOracle) :
    State × Res × List TEv :=
  if !stopOk then teardownAndCleanup s1 k E.tasks true false o else
  if !(decide (st = .CONFIGURED) || decide (st = .DEPLOYED) || decide (st = .STANDBY)) then
    teardownAndCleanup s1 k E.tasks true false o else
  if st = .CONFIGURED then
    if (applyTrans s1 { E with state := .CONFIGURED } .RESET o.resetFails).2 then
      teardownAndCleanup (setEnv (applyTrans s1 { E with state := .CONFIGURED } .RESET o.resetFails).1 k
        (fun X => { X with state := .DEPLOYED })) k E.tasks false keep o
    else teardownAndCleanup (applyTrans s1 { E with state := .CONFIGURED } .RESET o.resetFails).1 k E.tasks true false o
  else teardownAndCleanup s1 k E.tasks false keep o

/-- server.go DestroyEnvironment. -/
def destroy (s : State) (k : EnvId) (force allow keep : Bool) (o : DOracle) : State × Res × List TEv :=
  -- DEPLOY / CONFIGURE of a creation in progress hold the transition mutex: the request is not served yet
  if (s.creating.any (fun p => decide (p.id = k))) then (s, .noop, []) else
  match s.env? k with
  | none => (s, .notfound, [])
  | some E =>
    if E.tearing then (s, .hang, []) else
    if force then teardownAndCleanup s k E.tasks true keep o else
    destroyRest (destroyStop s k E allow o.stopFails).1 (destroyStop s k E allow o.stopFails).2.1
      (destroyStop s k E allow o.stopFails).2.2 k E keep o

/-! ### executor / agent lost, the workflow watcher -/

/-- manager.go `HandleExecutorFailed` / `HandleAgentFailed` (`agent`) on one roster entry:
    executorId resp. agentId is blanked ("causes IsLocked() to become false for sure"), the
    task goes to ERROR and INACTIVE. The parent role stays. -/
def Task.lose (agent : Bool) (t : Task) : Task :=
  if agent then { t with agent := false, active := false, state := .ERROR }
  else { t with executor := false, active := false, state := .ERROR }

/-- The roster entries a failure on host `h` names: the core runs one executor per agent and
    re-uses it while it lives, so the tasks carrying the failed executor's id are those on the
    host whose executorId (resp. agentId) has not been blanked by an earlier failure. -/
def Task.hitBy (agent : Bool) (h : Host) (t : Task) : Bool :=
  decide (t.host = h) && (if agent then t.agent else t.executor)

/-- A Mesos FAILURE event for the executor on host `h` (`agent`: for the agent itself): every
    task it ran has ended, the roster entries carrying its id are marked as above; a lost agent
    makes no more offers. -/
def hostLost (s : State) (h : Host) (agent : Bool) : State :=
  { s with roster := s.roster.map (fun t => if t.hitBy agent h then t.lose agent else t),
           master := s.master.map (fun m => if m.host = h then { m with mesos := .terminal } else m),
           hosts := if agent then s.hosts.filter (fun x => decide (x ≠ h)) else s.hosts }

/-- Several such failures, one after the other (`true`: the agent). -/
def lostAll (s : State) (ls : List (Host × Bool)) : State := ls.foldl (fun a l => hostLost a l.1 l.2) s

/-- environment.go `subscribeToWfState`, 0.5 s after the workflow of a successfully created
    environment reported ERROR for the first time: GO_ERROR (the state is forced if the
    transition is refused), then STOP for the environment's tasks that are RUNNING. `fails`:
    the tasks that answer the STOP with an error. -/
def watchError (s : State) (k : EnvId) (fails : List (TaskId × Bool)) : State :=
  match s.env? k with
  | none => s
  | some E =>
    if E.tearing then s else
    setEnv { s with roster := s.roster.map (fun t =>
        if decide (t.id ∈ E.tasks) && decide (t.parent = some E.id) && decide (t.state = .RUNNING) then
          match fails.lookup t.id with
          | some true => { t with state := .ERROR }
          | some false => t
          | none => { t with state := .CONFIGURED }
        else t) } k (fun X => { X with state := .ERROR })

/-! ### creation -/

/-- Descriptors: the task and hook roles of a workflow, with their role index. -/
def descriptors (spec : EnvSpec) : List (Nat × RoleSpec) :=
  (spec.roles.zipIdx.map (fun p => (p.2, p.1))).filter (fun p => decide (p.2.kind ≠ .call))

def callCount (spec : EnvSpec) : Nat := (spec.roles.filter (fun r => decide (r.kind = .call))).length

/-- The very beginning of CreateEnvironment: the active detectors are read; a
    missing workflow file is noticed right away. Environment ids are fresh (an id
    seen before is ignored). -/
def createBegin (s : State) (k : EnvId) (spec : EnvSpec) : State × Res :=
  if k ∈ s.used then (s, .noop) else
  let s0 := { s with used := k :: s.used }
  if spec.bad = .nowf then (s0, .errLoad) else
  ({ s0 with creating := { id := k, spec := spec, snapshot := s.activeDets, cleaned := false, inserted := false, claims := none } :: s0.creating }, .noop)

/-- The pre-deployment Cleanup (every unlocked task is killed). -/
def createCleanup (s : State) (k : EnvId) : State :=
  if s.creating.any (fun p => decide (p.id = k) && !p.cleaned) then
    let s1 := cleanup s
    { s1 with creating := s1.creating.map (fun q => if q.id = k then { q with cleaned := true } else q) }
  else s

def dropPending (s : State) (k : EnvId) : State :=
  { s with creating := s.creating.filter (fun p => decide (p.id ≠ k)) }

def State.pending? (s : State) (k : EnvId) (inserted : Bool) : Option Pending :=
  s.creating.find? (fun p => decide (p.id = k) && p.cleaned && (p.inserted == inserted))

/-- Workflow load, detector check against the snapshot taken at the beginning,
    insertion into the map. -/
def createInsert (s : State) (k : EnvId) : State × Res :=
  match s.pending? k false with
  | none => (s, .noop)
  | some p =>
    if p.spec.bad = .noclass then (dropPending s k, .errLoad) else
    if p.spec.dets.any (fun d => decide (d ∈ p.snapshot)) then (dropPending s k, .errDetector) else
    ({ s with creating := s.creating.map (fun q => if q.id = k then { q with inserted := true } else q),
              envs := s.envs ++ [{ id := k, state := .STANDBY, dets := p.spec.dets, tasks := [], hooks := [],
                                   calls := callCount p.spec, pending := 0, tearing := false }] }, .noop)

/-- acquireTasks' reuse loop: for every descriptor the first claimable roster
    task of the same class on the wanted host that no earlier descriptor took. (`t.hostOk`: a roster
    entry without hostname is not considered. The model admits offers without hostname only when
    reuseUnlockedTasks is off — `blankHosts` —, so wherever this loop runs the conjunct is true of every
    entry; it spares the invariant a case distinction.) -/
def claimLoop (roster : List Task) : List (Nat × RoleSpec) → List (Nat × TaskId) → List (Nat × TaskId)
  | [], acc => acc
  | (i, r) :: rest, acc =>
    match roster.find? (fun t => t.claimable && t.hostOk && decide (t.cls = r.cls) && decide (t.host = r.host)
                          && decide (t.id ∉ acc.map (·.2))) with
    | some t => claimLoop roster rest (acc ++ [(i, t.id)])
    | none => claimLoop roster rest acc

def computeClaims (s : State) (spec : EnvSpec) : List (Nat × TaskId) :=
  if s.reuse then claimLoop s.roster (descriptors spec) [] else []

/-- The claims a settling creation works with: those of its free-standing claim step, if
    there was one, else computed now. -/
def claimsOf (s : State) (p : Pending) : List (Nat × TaskId) :=
  match p.claims with
  | some c => c
  | none => computeClaims s p.spec

/-- The claim part of acquireTasks run on its own (it holds no lock). -/
def createClaim (s : State) (k : EnvId) : State :=
  match s.pending? k true with
  | none => s
  | some p =>
    { s with creating := s.creating.map (fun q => if q.id = k then { q with claims := some (computeClaims s p.spec) } else q) }

structure LaunchOut where
  mesos : Mesos := .running      -- what the launched task really reached when the deployment was decided
  active : Bool := true          -- … and whether the core had processed its TASK_RUNNING by then
  deriving Repr, Inhabited

structure SettleOracle where
  launches : List (Nat × LaunchOut) := []    -- per role index; default: running and seen
  cfgFails : List (Nat × Bool) := []         -- role index ↦ fails CONFIGURE (true: ends in ERROR)
  late : Bool := false                       -- rendezvous race in the failure path's teardown
  hookFails : List TaskId := []              -- hook tasks answering TriggerHook with an error (failure path's teardown)
  lost : List (Host × Bool) := []            -- executors / agents (`true`) lost while the tasks were being configured
  blank : List Host := []                    -- hosts whose OFFER carried no hostname in this deployment
  deriving Repr, Inhabited

def launchOf (o : SettleOracle) (i : Nat) : LaunchOut := (o.launches.lookup i).getD {}

/-- Ids for the descriptors that need a new task: consecutive from `next`. -/
def assignNew : List (Nat × RoleSpec) → TaskId → List (Nat × RoleSpec × TaskId)
  | [], _ => []
  | (i, r) :: rest, n => (i, r, n) :: assignNew rest (n + 1)

/-! ### a deployment that fails in acquireTasks' own tail: a launched task that cannot be locked -/

/-- The hosts whose offer carried no hostname in this deployment. Admitted without reuseUnlockedTasks only
    (a restriction of the modelled inputs: with reuse a task that can never be locked would be a reuse
    candidate for ever). -/
def blankHosts (s : State) (o : SettleOracle) : List Host := if s.reuse then [] else o.blank

/-- The task records resourceOffers hands back for the descriptors it launched, as acquireTasks' lock loop sees
    them after `taskPtr.SetParent(descriptor.TaskRole)`: newTaskForMesosOffer copies hostname, agent id and offer id
    from the offer (the executor id is the offer's or freshly made, the task id is fresh) — an offer without
    hostname leaves `hostOk` false. `active`: whether the core has processed the task's TASK_RUNNING when the
    roster is read next (the deployment never succeeds here). -/
def launchedTasks (s : State) (k : EnvId) (toRun : List (Nat × RoleSpec)) (o : SettleOracle) : List Task :=
  (assignNew toRun s.nextTask).map (fun x =>
    { id := x.2.2, cls := x.2.1.cls, host := x.2.1.host, hostOk := decide (x.2.1.host ∉ blankHosts s o),
      agent := true, offer := true, executor := true, parent := some k,
      active := (launchOf o x.1).active && decide ((launchOf o x.1).mesos = .running),
      state := if (launchOf o x.1).mesos = .terminal then .ERROR else .STANDBY })

/-- The lock loop's verdict: `!taskPtr.IsLocked()` for some newly deployed task (task.go `isLocked` =
    Model/TaskIds `Fields.locked` on the identity fields, parent set). -/
def lockFailure (ts : List Task) : Bool := ts.any (fun t => !t.fields.locked)

/-- One deployed task after the block `if !deploymentSuccess { for taskPtr := range deployedTasks {
    taskPtr.SetParent(nil) … } }`: un-parented, whether it had locked or not. (`detachOnSpot`, NOT the code: only
    the task that cannot be locked loses its parent.) -/
def Task.afterLockFailure (c : Cfg) (t : Task) : Task :=
  if c.detachOnSpot && t.fields.locked then t else { t with parent := none }

/-- acquireTasks when its lock loop failed: every requested task was launched (the master has a row for each),
    all of them are un-parented and appended to the roster ("Finally, we write to the roster"), no role gets
    its task (`SetTask` on success only) — the environment references nothing — and the roster tasks
    earmarked for reuse are not touched. -/
def acquireUnlocked (s : State) (k : EnvId) (toRun : List (Nat × RoleSpec)) (o : SettleOracle) : State :=
  { s with roster := s.roster ++ (launchedTasks s k toRun o).map (Task.afterLockFailure s.cfg),
           master := s.master ++ (assignNew toRun s.nextTask).map (fun x =>
             ({ id := x.2.2, label := k, role := x.1, host := x.2.1.host, mesos := (launchOf o x.1).mesos, killed := false } : MTask)),
           nextTask := s.nextTask + (assignNew toRun s.nextTask).length }

/-- The failure tail of CreateEnvironment: GO_ERROR, forced teardown (its
    result is dropped), KillTasks on the environment's tasks. -/
def createFail (s : State) (k : EnvId) (ids : List TaskId) (late : Bool) (res : Res) (hf : List TaskId := []) : State × Res :=
  let s1 := setEnv s k (fun X => { X with state := .ERROR })
  let r := teardown s1 k true late hf
  match r.2.1 with
  | .hang => (r.1, .hang)
  | _ => (killTasks r.1 ids, res)

/-- What acquireTasks leaves behind. -/
structure Acq where
  s : State
  ids : List TaskId              -- the environment's tasks (claimed or launched), in role order
  deployOk : Bool                -- every launched task came up
  idOf : Nat → Option TaskId     -- role index ↦ task

/-- acquireTasks after the claim: the descriptors nobody was claimed for are launched (ids
    are consecutive), launched and claimed tasks get the parent role, the roles get their task. -/
def acquire (s : State) (k : EnvId) (spec : EnvSpec) (claims : List (Nat × TaskId)) (o : SettleOracle) : Acq :=
  let descs := descriptors spec
  let toRun := descs.filter (fun d => decide (d.1 ∉ claims.map (·.1)))
  let fresh := assignNew toRun s.nextTask
  let deployOk := fresh.all (fun x => decide ((launchOf o x.1).mesos = .running))
  let newTasks : List Task := fresh.map (fun x =>
    { id := x.2.2, cls := x.2.1.cls, host := x.2.1.host, hostOk := true, agent := true, offer := true, executor := true,
      parent := some k,
      active := if deployOk then true else ((launchOf o x.1).active && decide ((launchOf o x.1).mesos = .running)),
      state := if (launchOf o x.1).mesos = .terminal then .ERROR else .STANDBY })
  let newM : List MTask := fresh.map (fun x =>
    { id := x.2.2, label := k, role := x.1, host := x.2.1.host, mesos := (launchOf o x.1).mesos, killed := false })
  let cids := claims.map (·.2)
  let idOf := fun (i : Nat) => match claims.lookup i with
    | some t => some t
    | none => (fresh.find? (fun x => decide (x.1 = i))).map (·.2.2)
  let ids := descs.filterMap (fun d => idOf d.1)
  let hooks := descs.filterMap (fun d =>
    if d.2.kind = .hook then (idOf d.1).map (fun t => ({ task := t, weight := d.2.weight, after := d.2.after } : HookRef)) else none)
  let s1 := { s with roster := s.roster.map (fun t => if t.id ∈ cids then { t with parent := some k } else t) ++ newTasks,
                     master := s.master ++ newM,
                     nextTask := s.nextTask + fresh.length }
  { s := setEnv s1 k (fun X => { X with tasks := ids, hooks := hooks }), ids := ids, deployOk := deployOk, idOf := idOf }

/-- The CONFIGURE transition that ends a creation: the before_CONFIGURE calls are started,
    the tasks are commanded. `o.lost`: executors / agents lost before the outcome of the transition
    is known (the tasks they ran have answered; the watcher is not subscribed yet). -/
def createConfigure (s : State) (k : EnvId) (spec : EnvSpec) (a : Acq) (o : SettleOracle) : State × Res :=
  match s.env? k with
  | none => (s, .noop)
  | some E =>
    let fails := o.cfgFails.filterMap (fun f => (a.idOf f.1).map (fun t => (t, f.2)))
    let r := applyTrans s { E with state := .DEPLOYED } .CONFIGURE fails
    let s3 := lostAll (setEnv r.1 k (fun X => { X with pending := X.pending + callCount spec, started := X.started + callCount spec })) o.lost
    if r.2 then (setEnv s3 k (fun X => { X with state := .CONFIGURED }), .okState .CONFIGURED)
    else createFail s3 k a.ids o.late .errConfigure o.hookFails

/-- DEPLOY (acquireTasks + waiting for the workflow to become ACTIVE), CONFIGURE,
    and the failure tail. With reuseUnlockedTasks a creation that claimed a task never gets past
    DEPLOY (seen on the real core, complete and partial claims alike): it answers a deployment
    error after the deploy timeout and its failure tail releases and kills what it had taken. -/
def createSettle (s : State) (k : EnvId) (o : SettleOracle) : State × Res :=
  match s.pending? k true with
  | none => (s, .noop)
  | some p =>
    let s := dropPending s k
    let descs := descriptors p.spec
    if descs.any (fun d => decide (d.2.host ∉ s.hosts)) then
      -- no offer for a wanted host: nothing is launched, the deployment is given up
      createFail s k [] o.late .errDeploy
    else
    let claims := claimsOf s p
    if s.reuse && s.cfg.unlockUnpaired && (descs.filter (fun d => decide (d.1 ∉ claims.map (·.1)))).isEmpty then
      -- legacy: deployMu.Lock() is skipped but deployMu.Unlock() is not: fatal error, the process dies
      -- (the code as it is unlocks inside the block that locks: nothing to run, nothing locked)
      ({ s with crashed := true }, .crash)
    else
    if lockFailure (launchedTasks s k (descs.filter (fun d => decide (d.1 ∉ claims.map (·.1)))) o) then
      -- everything was launched, but a new task cannot be locked: acquireTasks fails in its own tail, the roles get
      -- nothing, DEPLOY times out; the failure tail finds no task of the environment to release or kill
      createFail (acquireUnlocked s k (descs.filter (fun d => decide (d.1 ∉ claims.map (·.1)))) o) k [] o.late .errDeploy
    else
    let a := acquire s k p.spec claims o
    -- a claimed task gets its parent role and the role gets the task, but the role's status stays INACTIVE
    -- (only a Mesos status update sets it, and none comes for a task that is already running): DEPLOY waits for
    -- the workflow to become ACTIVE until the deploy timeout and the creation is given up ("N inactive roles")
    if !a.deployOk || !claims.isEmpty then createFail a.s k a.ids o.late .errDeploy o.hookFails
    else createConfigure a.s k p.spec a o

/-- The simulated tasks of environment `k` held at launch finish starting
    (updateTaskStatus, TASK_RUNNING: status ACTIVE, agentId and executorId taken from the update). -/
def mesosStart (s : State) (k : EnvId) : State :=
  let ids := (s.master.filter (fun m => decide (m.label = k) && decide (m.mesos = .staging))).map (·.id)
  { s with master := s.master.map (fun m => if m.id ∈ ids then { m with mesos := .running } else m),
           roster := s.roster.map (fun t => if t.id ∈ ids then { t with active := true, agent := true, executor := true } else t) }

/-! ### status updates about running tasks -/

/-- A status update as far as updateTaskStatus reads it: TASK_RUNNING or a state the switch has no case for
    (the inactivating states belong to `hostLost` and to the oracles of a creation), and which of the OPTIONAL
    fields agent_id / executor_id it carries (an update sent by the AliECS executor carries both; one built by
    the master — the answer to a reconciliation after a re-subscription — need not). -/
structure StatusUpd where
  running : Bool
  agent : Bool
  executor : Bool
  deriving DecidableEq, Repr, Inhabited

/-- What the executor sends. -/
def StatusUpd.complete (running : Bool := true) : StatusUpd := { running := running, agent := true, executor := true }

/-- The nil guards in front of the two id copies of updateTaskStatus AS THE CODE HAS THEM
    (Props/C04.lean `C04_status_id_copy_is_code` ties this to the regenerated go/ast facts). -/
def idGuardsInCode : TaskIds.Guards := TaskIds.codeGuards

/-- updateTaskStatus on one roster entry: TASK_RUNNING makes it ACTIVE and copies the ids (Model/TaskIds
    `copyId`: under the guard, an absent field leaves the stored id alone; without it, it is blanked). -/
def Task.onStatus (g : TaskIds.Guards) (u : StatusUpd) (t : Task) : Task :=
  if u.running then
    { t with active := true, agent := TaskIds.copyId g.agent t.agent u.agent,
             executor := TaskIds.copyId g.executor t.executor u.executor }
  else t

def StatusUpd.kind (u : StatusUpd) : TaskIds.Kind := if u.running then .running else .other
def StatusUpd.carried (u : StatusUpd) : TaskIds.Carried := { agent := u.agent, executor := u.executor }

/-- A status update for roster task `x`. The master reports a state only for a task that lives: an entry one of
    whose ids was blanked by a lost executor / agent (`hostLost`: every task it ran has ended, its row at the
    master is terminal) gets none. A task that is not in the roster gets nothing either ("attempted status update of
    task not in roster"). `g`: the guards — `idGuardsInCode` in `step`. -/
def statusUpdate (g : TaskIds.Guards) (s : State) (x : TaskId) (u : StatusUpd) : State :=
  { s with roster := s.roster.map (fun t => if decide (t.id = x) && t.agent && t.executor then t.onStatus g u else t) }

/-! ### steps -/

inductive Step where
  | createBegin (k : EnvId) (spec : EnvSpec)
  | createCleanup (k : EnvId)
  | createInsert (k : EnvId)
  | createClaim (k : EnvId)
  | createSettle (k : EnvId) (o : SettleOracle)
  | control (k : EnvId) (ev : CEv) (fails : List (TaskId × Bool)) (pre : Bool)
  | destroy (k : EnvId) (force allow keep : Bool) (o : DOracle)
  | cleanup
  | killIds (ids : List TaskId)
  | mesosStart (k : EnvId)
  | execLost (h : Host)                                  -- FAILURE{agent, executor}
  | agentLost (h : Host)                                 -- FAILURE{agent}
  | watchError (k : EnvId) (fails : List (TaskId × Bool))
  | killFault (ids : List TaskId)                        -- from now on the KILL calls naming these tasks fail (and no others)
  | statusUpdate (t : TaskId) (u : StatusUpd)            -- updateTaskStatus for a running task, optional fields present or not
  deriving Repr, Inhabited

/-! ### the pendingTeardownsCh rendezvous as a schedule

  TeardownEnvironment (goroutine T) and the environment manager's event loop
  (goroutine L) meet twice per teardown:

    T  register : envs.mu.Lock(); pendingTeardownsCh[id] = make(chan); Unlock()
    T  send     : taskman.MessageChannel <- ReleaseTasks  (… releaseTasks … internalEventCh <- TasksReleasedEvent)
    L  recv     : case *TasksReleasedEvent: RLock; thisEnvCh, ok := pendingTeardownsCh[id]; RUnlock
    L  handoff  : thisEnvCh <- typedEvent            (T's `<-pendingCh` returns)
    L  delete   : Lock; close(thisEnvCh); delete(pendingTeardownsCh, id); Unlock

  `delete` removes whatever is registered under the id at that moment. Between
  `handoff` and `delete` goroutine T is free to run its hooks and `register` again:
  then the delete takes the FRESH entry away, the second TasksReleasedEvent finds
  none (it is dropped) and T waits for ever. `tdFinish … late := true` is this schedule.
  This is the legacy protocol (`atomic := false`). The code as it is (`atomic := true`) does

    L  recv     : case *TasksReleasedEvent: Lock; thisEnvCh, ok := pendingTeardownsCh[id];
                                            delete(pendingTeardownsCh, id); Unlock
    L  handoff  : thisEnvCh <- typedEvent; close(thisEnvCh)

  so the only entry the loop ever removes is the one it has just read. -/

namespace Rdv

inductive Step where
  | register | send | recv | handoff | delete
  deriving DecidableEq, Repr, Inhabited

inductive LoopPc where
  | idle | holding (c : Nat) | deleting
  deriving DecidableEq, Repr, Inhabited

structure St where
  entry : Option Nat := none   -- pendingTeardownsCh[id]
  nextCh : Nat := 1
  queue : Nat := 0             -- TasksReleasedEvents in incomingEventCh
  loop : LoopPc := .idle
  td : Nat := 0                -- 0 register · 1 send · 2 await · 3 register · 4 send · 5 await · 6 returned
  waitCh : Nat := 0            -- the channel T waits on
  deriving DecidableEq, Repr, Inhabited

def done (s : St) : Bool := decide (s.td = 6)

/-- One step of the given kind, if it is enabled. `atomic`: the event loop as it is, which
    takes the entry out of the map in the same critical section in which it looked it up
    (so the hand-off and the deletion cannot be separated by a registration). -/
def step (atomic : Bool) (s : St) : Step → Option St
  | .register =>
    if s.td = 0 ∨ s.td = 3 then some { s with entry := some s.nextCh, waitCh := s.nextCh, nextCh := s.nextCh + 1, td := s.td + 1 } else none
  | .send =>
    if s.td = 1 ∨ s.td = 4 then some { s with queue := s.queue + 1, td := s.td + 1 } else none
  | .recv =>
    if s.loop = .idle ∧ s.queue > 0 then
      match s.entry with
      | some c => some { s with queue := s.queue - 1, loop := .holding c, entry := if atomic then none else s.entry }
      | none => some { s with queue := s.queue - 1 }      -- no pending teardown: the event is dropped
    else none
  | .handoff =>
    match s.loop with
    | .holding c =>
      if (s.td = 2 ∨ s.td = 5) ∧ s.waitCh = c then some { s with td := s.td + 1, loop := if atomic then .idle else .deleting } else none
    | _ => none
  | .delete =>
    if s.loop = .deleting then some { s with entry := none, loop := .idle } else none

def allSteps : List Step := [.register, .send, .recv, .handoff, .delete]

def run (atomic : Bool) (s : St) : List Step → Option St
  | [] => some s
  | st :: rest => (step atomic s st).bind (fun s' => run atomic s' rest)

/-- Nothing can move any more. -/
def stuck (atomic : Bool) (s : St) : Bool := allSteps.all (fun st => (step atomic s st).isNone)

/-- Every state reachable within `fuel` steps (every step advances a counter, 12 suffice). -/
def reach (atomic : Bool) : Nat → List St → List St
  | 0, acc => acc
  | fuel + 1, acc =>
    let next := acc.flatMap (fun s => allSteps.filterMap (step atomic s))
    reach atomic fuel (next.foldl (fun a s => if s ∈ a then a else a ++ [s]) acc)

/-- The protocol a configuration runs. -/
def atomicOf (c : Cfg) : Bool := !c.lateDelete

end Rdv

/-- One step. A dead core does nothing any more. -/
def step (s : State) (st : Step) : State × Res :=
  if s.crashed then (s, .crash) else
  match st with
  | .createBegin k spec => createBegin s k spec
  | .createCleanup k => (createCleanup s k, .noop)
  | .createInsert k => createInsert s k
  | .createClaim k => (createClaim s k, .noop)
  | .createSettle k o => createSettle s k o
  | .control k ev fails pre => control s k ev fails pre
  | .destroy k f a kp o => let r := destroy s k f a kp o; (r.1, r.2.1)
  | .cleanup => (cleanup s, if cleanupErr s then .err else .ok)
  | .killIds ids => (cleanupTasks s ids, if cleanupTasksErr s ids then .err else .ok)
  | .mesosStart k => (mesosStart s k, .ok)
  | .execLost h => (hostLost s h false, .ok)
  | .agentLost h => (hostLost s h true, .ok)
  | .watchError k fails => (watchError s k fails, .ok)
  | .killFault ids => ({ s with refusing := ids }, .ok)
  | .statusUpdate t u => (statusUpdate idGuardsInCode s t u, .ok)

def run (s : State) : List Step → State
  | [] => s
  | st :: rest => run (step s st).1 rest

/-- The whole of CreateEnvironment as one uninterrupted call. -/
def create (s : State) (k : EnvId) (spec : EnvSpec) (o : SettleOracle) : State × Res :=
  let a := createBegin s k spec
  if a.2 ≠ .noop ∨ k ∈ s.used then a else
  let b := createInsert (createCleanup a.1 k) k
  if b.2 ≠ .noop then b else
  createSettle b.1 k o

/-! ### a creation cut at the critical sections of the transition mutex; a destroy that arrives meanwhile

  CreateEnvironment enters the environment in the map and then runs DEPLOY and CONFIGURE as two
  `TryTransition` calls, each of which takes `env.transitionMutex` for itself; its failure tail is
  GO_ERROR (a third `TryTransition`), `TeardownEnvironment` (which takes the mutex too) and
  KillTasks (no lock). The environment is addressable from the insertion on: a DestroyEnvironment
  that arrives while one of these sections runs evaluates its decision tree on the state it reads
  at that moment (STANDBY while DEPLOY runs, DEPLOYED while CONFIGURE runs: no STOP, no RESET) and
  goes straight to doTeardownAndCleanup, whose TeardownEnvironment looks the environment up and
  then WAITS for the mutex. It is served at one of the later section boundaries — right after
  DEPLOY (the creation's CONFIGURE then finds the environment DONE and fails), after CONFIGURE,
  after a failed section, after GO_ERROR, or after the creation's own teardown ("already in DONE" /
  "no environment with id": not found) — and works on the environment AS IT IS THEN: the task
  list, the hooks and the state are read under the mutex. `createSettle` is these sections run
  without interruption (`settle_pieces`); the pieces below let a monitor place the attempts of
  such a destroy between them. (Between DEPLOY and CONFIGURE the environment's state is left at
  STANDBY here, as in `createSettle`: the only reader in between is a waiting teardown, which
  treats STANDBY and DEPLOYED alike.) -/

/-- What the creating goroutine carries from one critical section to the next. -/
structure Mid where
  k : EnvId
  spec : EnvSpec
  ids : List TaskId                    -- env.Workflow().GetTasks() once acquireTasks is through
  fails : List (TaskId × Bool)         -- the tasks that will fail CONFIGURE
  late : Bool
  hf : List TaskId
  lost : List (Host × Bool)
  res : Res                            -- `.noop` while all is well, else the error the creation will answer with
  deriving Repr, Inhabited

/-- DEPLOY (first critical section): acquireTasks and the wait for the workflow to become ACTIVE. -/
def settleDeploy (s : State) (k : EnvId) (o : SettleOracle) : State × Option Mid × Res :=
  match s.pending? k true with
  | none => (s, none, .noop)
  | some p =>
    let s := dropPending s k
    let descs := descriptors p.spec
    if descs.any (fun d => decide (d.2.host ∉ s.hosts)) then
      (s, some { k := k, spec := p.spec, ids := [], fails := [], late := o.late, hf := [], lost := o.lost, res := .errDeploy }, .noop)
    else
    let claims := claimsOf s p
    if s.reuse && s.cfg.unlockUnpaired && (descs.filter (fun d => decide (d.1 ∉ claims.map (·.1)))).isEmpty then
      ({ s with crashed := true }, none, .crash)
    else
    if lockFailure (launchedTasks s k (descs.filter (fun d => decide (d.1 ∉ claims.map (·.1)))) o) then
      (acquireUnlocked s k (descs.filter (fun d => decide (d.1 ∉ claims.map (·.1)))) o,
       some { k := k, spec := p.spec, ids := [], fails := [], late := o.late, hf := [], lost := o.lost, res := .errDeploy }, .noop)
    else
    let a := acquire s k p.spec claims o
    (a.s, some { k := k, spec := p.spec, ids := a.ids,
                 fails := o.cfgFails.filterMap (fun f => (a.idOf f.1).map (fun t => (t, f.2))),
                 late := o.late, hf := o.hookFails, lost := o.lost,
                 res := if !a.deployOk || !claims.isEmpty then .errDeploy else .noop }, .noop)

/-- CONFIGURE (second critical section, entered only after a successful DEPLOY). An environment
    that a waiting teardown took away in between is DONE: the transition is refused. -/
def settleConfigure (s : State) (m : Mid) : State × Mid :=
  match s.env? m.k with
  | none => (s, { m with res := .errConfigure })
  | some E =>
    let r := applyTrans s { E with state := .DEPLOYED } .CONFIGURE m.fails
    let s3 := lostAll (setEnv r.1 m.k (fun X => { X with pending := X.pending + callCount m.spec, started := X.started + callCount m.spec })) m.lost
    if r.2 then (setEnv s3 m.k (fun X => { X with state := .CONFIGURED }), { m with res := .okState .CONFIGURED })
    else (s3, { m with res := .errConfigure })

/-- GO_ERROR (third critical section of a failing creation; refused without effect if the
    environment is gone). -/
def settleGoError (s : State) (m : Mid) : State := setEnv s m.k (fun X => { X with state := .ERROR })

/-- The failing creation's own forced teardown (its result is dropped unless it hangs). -/
def settleTeardown (s : State) (m : Mid) : State × TRes :=
  let r := teardown s m.k true m.late m.hf
  (r.1, r.2.1)

/-- KillTasks on the tasks the workflow referenced after GO_ERROR; the creation answers its error. -/
def settleKill (s : State) (m : Mid) : State × Res := (killTasks s m.ids, m.res)

/-- The failure tail in one go. -/
def settleTail (s : State) (m : Mid) : State × Res :=
  let r := settleTeardown (settleGoError s m) m
  match r.2 with
  | .hang => (r.1, .hang)
  | _ => settleKill r.1 m

/-- The sections run one after the other, nothing in between. -/
def settleSeq (s : State) (k : EnvId) (o : SettleOracle) : State × Res :=
  match settleDeploy s k o with
  | (s1, none, r) => (s1, r)
  | (s1, some m, _) =>
    if m.res = .noop then
      let c := settleConfigure s1 m
      if c.2.res = .okState .CONFIGURED then (c.1, c.2.res) else settleTail c.1 c.2
    else settleTail s1 m

/-- What follows DEPLOY in one go: CONFIGURE if DEPLOY went through (and the failure tail if CONFIGURE fails), the
    failure tail otherwise. `settleDeploy` followed by `settleRest` is `settleSeq`, i.e. `createSettle`. -/
def settleRest (s : State) (m : Mid) : State × Res :=
  if m.res = .noop then
    let c := settleConfigure s m
    if c.2.res = .okState .CONFIGURED then (c.1, c.2.res) else settleTail c.1 c.2
  else settleTail s m

/-- Two creations whose DEPLOY sections overlap (each environment has its own transition mutex, and acquireTasks'
    reuse loop holds no lock at all): DEPLOY of `k1`, DEPLOY of `k2`, then what follows DEPLOY for each, `k1` first
    if `firstRest`. The states passed through, in order. With reuseUnlockedTasks and the claims made beforehand
    (`createClaim`) both DEPLOYs commit the same roster task: the second `SetParent` overwrites the first. -/
def settleOverlapStates (s : State) (k1 k2 : EnvId) (o1 o2 : SettleOracle) (firstRest : Bool) : List State :=
  match settleDeploy s k1 o1 with
  | (s1, some m1, _) =>
    match settleDeploy s1 k2 o2 with
    | (s2, some m2, _) =>
      if firstRest then [s1, s2, (settleRest s2 m1).1, (settleRest (settleRest s2 m1).1 m2).1]
      else [s1, s2, (settleRest s2 m2).1, (settleRest (settleRest s2 m2).1 m1).1]
    | (s2, none, _) => [s1, s2, (settleRest s2 m1).1]
  | (s1, none, _) => [s1]

/-- A DestroyEnvironment that found the transition mutex taken by the creation: the first
    TeardownEnvironment attempt of doTeardownAndCleanup, served in state `s`. `none`: it answered
    an error and was not forced — the forced retry (`lateRetry`) follows, possibly later. -/
def lateAttempt (s : State) (k : EnvId) (ids : List TaskId) (force keep : Bool) (o : DOracle) : Option (State × Res × List TEv) :=
  let r := teardown s k force o.late1 o.hookFails
  if r.2.1 = .ok ∨ r.2.1 = .hang ∨ force then some (tcFin keep ids r.1 r.2.1 r.2.2) else none

/-- The forced retry of doTeardownAndCleanup, served in state `s`. -/
def lateRetry (s : State) (k : EnvId) (ids : List TaskId) (keep : Bool) (o : DOracle) : State × Res × List TEv :=
  let r := teardown s k true o.late2 o.hookFails
  tcFin keep ids r.1 r.2.1 r.2.2

/-- The task ids doTeardownAndCleanup cleans up: those of the environment as listed, none if it is gone. -/
def envTaskIds (s : State) (k : EnvId) : List TaskId :=
  match s.env? k with
  | some E => E.tasks
  | none => []


/-! ### the lookup at the head of TeardownEnvironment and the environment manager's RWMutex

  TeardownEnvironment begins with

      envs.mu.RLock()
      env, err := envs.environment(environmentId)     // … which does envs.mu.RLock(); defer envs.mu.RUnlock()
      envs.mu.RUnlock()

  i.e. goroutine T takes the read lock of `envs.mu` twice. sync.RWMutex is not reentrant: once a
  writer W has called Lock() (CreateEnvironment entering an environment in the map, the event
  loop removing a pending-teardown entry, another TeardownEnvironment closing its state channel
  or registering / deleting) new readers wait until that writer has had its turn — and the writer
  waits until the readers that were in have left. If W's Lock() falls between T's two RLock()s,
  T waits for W and W waits for T: the mutex is dead, and with it every request that needs it.
  `nested := false` is the protocol with the outer pair removed. -/

namespace Rw

inductive Step where
  | rlock | runlock | wannounce | wacquire | wunlock
  deriving DecidableEq, Repr, Inhabited

structure St where
  readers : Nat := 0       -- read locks held
  pending : Bool := false  -- a writer has called Lock() and waits for the readers to leave
  writer : Bool := false   -- the write lock is held
  t : Nat := 0             -- T: lock operations done so far
  w : Nat := 0             -- W: 0 before Lock() · 1 waiting · 2 holds the lock · 3 done
  deriving DecidableEq, Repr, Inhabited

/-- T's program: RLock RLock RUnlock RUnlock (`nested`), RLock RUnlock otherwise. -/
def tLen (nested : Bool) : Nat := if nested then 4 else 2
def tWantsLock (nested : Bool) (t : Nat) : Bool := if nested then decide (t < 2) else decide (t < 1)

def done (nested : Bool) (s : St) : Bool := decide (s.t = tLen nested) && decide (s.w = 3)

def step (nested : Bool) (s : St) : Step → Option St
  | .rlock =>
    -- RLock: waits while a writer holds the lock or has announced itself
    if decide (s.t < tLen nested) && tWantsLock nested s.t && !s.pending && !s.writer then
      some { s with readers := s.readers + 1, t := s.t + 1 } else none
  | .runlock =>
    if decide (s.t < tLen nested) && !tWantsLock nested s.t then some { s with readers := s.readers - 1, t := s.t + 1 } else none
  | .wannounce => if s.w = 0 then some { s with pending := true, w := 1 } else none
  | .wacquire => if s.w = 1 ∧ s.readers = 0 then some { s with pending := false, writer := true, w := 2 } else none
  | .wunlock => if s.w = 2 then some { s with writer := false, w := 3 } else none

def allSteps : List Step := [.rlock, .runlock, .wannounce, .wacquire, .wunlock]

def run (nested : Bool) (s : St) : List Step → Option St
  | [] => some s
  | st :: rest => (step nested s st).bind (fun s' => run nested s' rest)

def stuck (nested : Bool) (s : St) : Bool := allSteps.all (fun st => (step nested s st).isNone)

/-- Every state reachable within `fuel` steps (every step advances a counter: 7 suffice). -/
def reach (nested : Bool) : Nat → List St → List St
  | 0, acc => acc
  | fuel + 1, acc =>
    let next := acc.flatMap (fun s => allSteps.filterMap (step nested s))
    reach nested fuel (next.foldl (fun a s => if s ∈ a then a else a ++ [s]) acc)

/-- The code as it is takes the read lock twice. -/
def nestedInCode : Bool := false   -- since the fix: commit in /repo (TeardownEnvironment no longer wraps environment() in its own RLock); `true` = the code before it

end Rw

/-- The deadlock seen from the ownership model: the TeardownEnvironment calls at work on
    environment `k` never return (the one that holds `k`'s transition mutex keeps it for ever). -/
def wedgeTeardowns (s : State) (k : EnvId) : State := setEnv s k (fun X => { X with tearing := true })

end Own
