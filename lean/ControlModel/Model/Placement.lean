/-
  Model/Placement — where a task may be launched (C05).

  Mirrors  core/task/constraint/attributes.go   (Attributes.Get, Attributes.Satisfy)
           core/task/constraint/constraints.go  (Constraints.MergeParent)
           core/workflow/rolebase.go            (getConstraints: chain of MergeParent up the tree)
           core/task/match.go                   (BuildDescriptorConstraints, Resources.Satisfy)
           core/task/taskclass/port/range.go    (RangesFromExpression)
           core/task/scheduler.go               (resourceOffers: one OFFERS round, makeTaskForMesosResources)
           mesos-go api/v1/lib/ranges.go        (Sort, Squash, Remove, Compare, Min, Size; Value_Ranges.Subtract)

  Numbers: CPU and memory are non-negative integers in QUARTER units (0.25 cpu,
  0.25 MB); ports are `Nat`; port expressions are `List Char`.

  Two behaviours exist for two functions, because the code as it stands has two
  small defects for which fix patches are proposed (notes/C05.fix-*.patch):
    * `satisfy`  (every constraint must hold)    vs `satisfyAsCoded` (the `break`
      leaves the `switch`, so the last Equals-constraint alone decides);
    * `parseRanges true` (end from index 1)      vs `parseRanges false` (end parsed
      from index 0 again, so "a-b" yields {a,a}).
  The round model takes the behaviour as a parameter (`Mode`); the harness
  probes the linked code once and tells the driver which one it is looking at.

  Three further repairs of makeTaskForMesosResources (notes/C05.fix-3/4/5.patch)
  are described by `Cfg`: `codeCfg` is the code as it is (an empty list after
  `Remove` gives nil instead of `Min()` of nothing; the static ranges are taken
  out of what remains of the offer before any port is drawn; CPU and memory of a
  launched task are taken out too), `legacyCfg` the code as it was. `Mode.cfg` is
  NOT probed: it is tied to the source by `C05_bookkeeping_is_code`.
-/
import ControlModel.Basic

namespace Placement

/-! ## constraints and attributes -/

/-- `constraint.Constraint`; `op = 0` is `Equals`, the only operator the code knows. -/
structure Constraint where
  attr : String
  value : String
  op : Nat
  deriving DecidableEq, Repr, Inhabited

abbrev Constraints := List Constraint

/-- Agent attributes: (name, text value); `Attributes.Get` returns the first match.
    (A non-text attribute reads as ""; a nil slice behaves like an empty one.) -/
abbrev Attrs := List (String × String)

def getAttr : Attrs → String → Option String
  | [], _ => none
  | (k, v) :: rest, n => if k = n then some v else getAttr rest n

/-- `strings.Split(s, sep)` for a one-character separator. -/
def splitOn (sep : Char) : List Char → List (List Char)
  | [] => [[]]
  | c :: cs =>
    if c = sep then [] :: splitOn sep cs
    else match splitOn sep cs with
      | [] => [[c]]
      | t :: ts => (c :: t) :: ts

/-- Value comparison inside `Satisfy`: a comma-separated attribute value matches
    any of its items, otherwise plain equality. -/
def valueMatches (v cv : String) : Bool :=
  (v.toList.contains ',' && (splitOn ',' v.toList).contains cv.toList) || v == cv

/-- One constraint holds on an agent. Unsupported operators are skipped by the
    code ("unsupported operator, skipping constraint"), i.e. hold vacuously. -/
def holds (as : Attrs) (c : Constraint) : Bool :=
  if c.op = 0 then
    match getAttr as c.attr with
    | some v => valueMatches v c.value
    | none => false
  else true

/-- `Attributes.Satisfy` as INTENDED (and as it behaves with notes/C05.fix-satisfy.patch:
    `break` → `return`): empty constraint list ⇒ true; otherwise every Equals
    constraint must hold, and the result variable starts `false`, so a list made
    only of unsupported operators gives false. -/
def satisfy (as : Attrs) (cts : Constraints) : Bool :=
  cts.isEmpty || (cts.all (holds as) && cts.any (fun c => c.op = 0))

/-- The loop of `Attributes.Satisfy` as it stands: `ok` is overwritten by every
    Equals constraint (`break` only leaves the `switch`). -/
def satLoop (as : Attrs) : Bool → Constraints → Bool
  | ok, [] => ok
  | ok, c :: rest => if c.op = 0 then satLoop as (holds as c) rest else satLoop as ok rest

def satisfyAsCoded (as : Attrs) (cts : Constraints) : Bool :=
  cts.isEmpty || satLoop as false cts

/-- Resource bookkeeping of makeTaskForMesosResources. -/
structure Cfg where
  /-- an empty list after `availPorts.Remove(…)` makes the function return nil (else: `Min()` panics) -/
  drawChecked : Bool
  /-- the static ranges are subtracted from what remains of the offer before the first draw -/
  staticReserved : Bool
  /-- cpus and mem of the task are subtracted from what remains of the offer -/
  scalarsSubtracted : Bool
  /-- the class store (`taskclass.Classes.UpdateClass`): a class loaded again under a key that is
      already held OVERWRITES the held entry, whatever it holds. `false` describes a store that keeps
      the held entry when `Class.Equals` (command and wants only) finds nothing changed — NOT the code. -/
  storeOverwrites : Bool := true
  deriving DecidableEq, Repr, Inhabited

/-- The code as it is (with notes/C05.fix-3, fix-4, fix-5; the class store overwrites). -/
def codeCfg : Cfg := { drawChecked := true, staticReserved := true, scalarsSubtracted := true, storeOverwrites := true }

/-- The code as it was before those three repairs (the class store has always overwritten). -/
def legacyCfg : Cfg := { drawChecked := false, staticReserved := false, scalarsSubtracted := false, storeOverwrites := true }

/-- NOT the code: the code as it is, but with a class store that keeps the held entry of a key
    when `Class.Equals` says the reloaded class is the same. -/
def keepIfEqualCfg : Cfg := { codeCfg with storeOverwrites := false }

/-- Which of the two behaviours the linked Satisfy / RangesFromExpression show
    (probed), and the bookkeeping configuration (tied to the source). -/
structure Mode where
  satFixed : Bool
  rngFixed : Bool
  cfg : Cfg := codeCfg
  deriving DecidableEq, Repr, Inhabited

def Mode.sat (m : Mode) : Attrs → Constraints → Bool :=
  if m.satFixed then satisfy else satisfyAsCoded

/-- Inner loop of `MergeParent`: replace the first entry for the same attribute, else append. -/
def upsert : Constraints → Constraint → Constraints
  | [], c => [c]
  | p :: rest, c => if c.attr = p.attr then c :: rest else p :: upsert rest c

/-- `cts.MergeParent(parent)`. -/
def mergeParent (cts parent : Constraints) : Constraints := cts.foldl upsert parent

/-- `roleBase.getConstraints` for a chain of roles, nearest first (task role,
    its parent, …, root): the root's own list is taken verbatim. -/
def effective : List Constraints → Constraints
  | [] => []
  | [own] => own
  | own :: rest => mergeParent own (effective rest)

/-- `BuildDescriptorConstraints`: role constraints override those of the task class. -/
def descriptorConstraints (role : Constraints) (cls : Option Constraints) : Constraints :=
  match cls with
  | some c => mergeParent role c
  | none => role

/-- First entry for an attribute. -/
def lookupC (m : Constraints) (a : String) : Option Constraint := m.find? (fun c => c.attr = a)

/-- Last entry for an attribute in one role's own list. -/
def lastDef : Constraints → String → Option Constraint
  | [], _ => none
  | c :: rest, a => match lastDef rest a with
    | some d => some d
    | none => if c.attr = a then some c else none

/-! ## port ranges -/

abbrev Range := Nat × Nat
abbrev Ranges := List Range

def memR (p : Nat) (r : Range) : Bool := decide (r.1 ≤ p) && decide (p ≤ r.2)
def mem (p : Nat) (rs : Ranges) : Bool := rs.any (memR p)

/-- `Ranges.Size` (for ranges with begin ≤ end). -/
def size : Ranges → Nat
  | [] => 0
  | r :: rs => 1 + (r.2 - r.1) + size rs

/-- `Ranges.Less`. -/
def lessR (a b : Range) : Bool := decide (a.1 < b.1) || (decide (a.1 = b.1) && decide (a.2 < b.2))

def insertR (r : Range) : Ranges → Ranges
  | [] => [r]
  | x :: xs => if lessR x r then x :: insertR r xs else r :: x :: xs

/-- `Ranges.Sort` (the order is total on values, so any sort gives this list). -/
def sortR : Ranges → Ranges
  | [] => []
  | r :: rs => insertR r (sortR rs)

/-- `Ranges.Squash` on a pre-sorted list, `cur` = last element of `squashed`. -/
def squashAux (cur : Range) : Ranges → Ranges
  | [] => [cur]
  | r :: rest =>
    if 1 + cur.2 < r.1 then cur :: squashAux r rest
    else if cur.2 ≤ r.2 then squashAux (cur.1, r.2) rest
    else squashAux cur rest

def squash : Ranges → Ranges
  | [] => []
  | r :: rs => squashAux r rs

def normalize (rs : Ranges) : Ranges := squash (sortR rs)

/-- Body of `Ranges.Remove` before the final Squash. -/
def removeCore (rem : Range) : Ranges → Ranges
  | [] => []
  | r :: rs =>
    if rem.1 ≤ r.1 ∧ r.2 ≤ rem.2 then removeCore rem rs
    else if r.1 < rem.1 ∧ rem.2 < r.2 then (r.1, rem.1 - 1) :: (rem.2 + 1, r.2) :: removeCore rem rs
    else if r.2 < rem.1 ∨ rem.2 < r.1 then r :: removeCore rem rs
    else if rem.2 < r.2 then (rem.2 + 1, r.2) :: removeCore rem rs
    else (r.1, rem.1 - 1) :: removeCore rem rs

def remove (rs : Ranges) (rem : Range) : Ranges := squash (removeCore rem rs)

/-- `Ranges.Compare`: 0 equivalent, -1 `x` inside `y`, 1 otherwise. -/
def compareR (x y : Ranges) : Int :=
  let x' := normalize x
  let y' := normalize y
  if x' = y' then 0
  else if x'.all (fun a => y'.any (fun b => decide (b.1 ≤ a.1) && decide (a.2 ≤ b.2))) then -1
  else 1

/-- Sorted, disjoint, non-adjacent, begin ≤ end, first begin ≥ `lo`. -/
def CanonFrom (lo : Nat) : Ranges → Bool
  | [] => true
  | r :: rs => decide (lo ≤ r.1) && decide (r.1 ≤ r.2) && CanonFrom (r.2 + 2) rs

/-- How Mesos sends port ranges (and what `Sort().Squash()` produces). -/
def Canonical (rs : Ranges) : Bool := CanonFrom 0 rs

def Valid (rs : Ranges) : Bool := rs.all (fun r => decide (r.1 ≤ r.2))

/-! ## `port.RangesFromExpression` -/

/-- `unicode.IsSpace`. -/
def isSpace (c : Char) : Bool :=
  let n := c.toNat
  n = 0x20 || (0x09 ≤ n && n ≤ 0x0D) || n = 0x85 || n = 0xA0 || n = 0x1680 ||
  (0x2000 ≤ n && n ≤ 0x200A) || n = 0x2028 || n = 0x2029 || n = 0x202F || n = 0x205F || n = 0x3000

def trimLeft : List Char → List Char
  | [] => []
  | c :: cs => if isSpace c then trimLeft cs else c :: cs

/-- `strings.TrimSpace`. -/
def trimSpace (s : List Char) : List Char := (trimLeft (trimLeft s).reverse).reverse

def digitVal (c : Char) : Option Nat :=
  if '0' ≤ c ∧ c ≤ '9' then some (c.toNat - '0'.toNat) else none

def parseDigits : Nat → List Char → Option Nat
  | acc, [] => some acc
  | acc, c :: cs => match digitVal c with
    | some d => parseDigits (acc * 10 + d) cs
    | none => none

/-- `strconv.ParseUint(s, 10, 64)`: non-empty, ASCII digits only, below 2^64. -/
def parseUint (s : List Char) : Option Nat :=
  match s with
  | [] => none
  | _ => match parseDigits 0 s with
    | some n => if n < 2 ^ 64 then some n else none
    | none => none

/-- One comma-separated item. `fixed = false` reproduces the code as it stands
    (`end` parsed from `rangeSplit[0]`). -/
def parseItem (fixed : Bool) (item : List Char) : Option Range :=
  match splitOn '-' (trimSpace item) with
  | [a] => (parseUint a).map fun p => (p, p)
  | [a, b] =>
    match parseUint a with
    | none => none
    | some x =>
      match parseUint (if fixed then b else a) with
      | none => none
      | some y => some (x, y)
  | _ => none

def parseItems (fixed : Bool) : List (List Char) → Option Ranges
  | [] => some []
  | it :: rest =>
    match parseItem fixed it with
    | none => none
    | some r => (parseItems fixed rest).map (r :: ·)

/-- `RangesFromExpression`; `none` = error. A blank expression is the empty list. -/
def parseRanges (fixed : Bool) (s : List Char) : Option Ranges :=
  if (trimSpace s).isEmpty then some [] else parseItems fixed (splitOn ',' s)

/-- Decimal digits of `n`, most significant first (`fuel > number of digits`). -/
def digitsAux : Nat → Nat → List Char → List Char
  | 0, _, acc => acc
  | fuel + 1, n, acc =>
    let acc' := Char.ofNat ('0'.toNat + n % 10) :: acc
    if n / 10 = 0 then acc' else digitsAux fuel (n / 10) acc'

def printNat (n : Nat) : List Char := digitsAux (n + 1) n []

def printRange (r : Range) : List Char :=
  if r.1 = r.2 then printNat r.1 else printNat r.1 ++ '-' :: printNat r.2

/-- How a template writes a list of ranges: "a-b,c,d-e". -/
def printRanges : Ranges → List Char
  | [] => []
  | [r] => printRange r
  | r :: rest => printRange r ++ ',' :: printRanges rest

/-! ## resources -/

/-- What an offer (still) holds. `none` = no resource of that name. -/
structure Res where
  cpu : Option Nat
  mem : Option Nat
  ports : Option Ranges
  deriving DecidableEq, Repr, Inhabited

/-- `task.Wants`: `inbound` lists the inbound channels, `true` = TCP (draws a port), `false` = IPC. -/
structure Wants where
  cpu : Nat
  mem : Nat
  static : Ranges
  inbound : List Bool
  deriving DecidableEq, Repr, Inhabited

/-- `Resources.Satisfy(wants)`. Memory on offer is truncated to whole MB (`uint64(...)`). -/
def resSatisfy (r : Res) (w : Wants) : Bool :=
  match r.cpu with
  | none => false
  | some c =>
    if c < w.cpu then false else
    match r.mem with
    | none => false
    | some m =>
      if (m / 4) * 4 < w.mem then false else
      match r.ports with
      | none => false
      | some ps =>
        let avail := normalize ps
        let ws := normalize w.static
        if compareR ws avail ≠ -1 then false
        else if size avail - size ws < w.inbound.length then false
        else true

/-! ## `makeTaskForMesosResources` -/

inductive Draw where
  | noPorts                       -- `resources.Ports` not ok: the function returns nil
  | panic                         -- `Ranges.Min` on an empty list
  | ok (p : Nat) (rest : Option Ranges)
  deriving Repr

/-- `Resources.Subtract` of the single port `p` from the ports resource. -/
def subtractPort (ps : Ranges) (p : Nat) : Option Ranges :=
  let a := if 1 < ps.length then normalize ps else ps
  let a := remove a (p, p)
  if a.isEmpty then none else some a

/-- `availPorts.Remove(mesos.Value_Range{Begin: 0, End: …})`: data ports start above
    `dataBelow`, control ports above `ctrlBelow` (literals in scheduler.go, re-read
    from the source on every run: `Gen.Placement.removeEnds`). -/
abbrev dataBelow : Nat := 8999
abbrev ctrlBelow : Nat := 29999

/-- Draw the lowest free port above `below`. With `checked` an empty list makes
    the function return nil like a missing ports resource does; without, `Min()`
    indexes the empty list. -/
def drawPort (checked : Bool) (below : Nat) : Option Ranges → Draw
  | none => .noPorts
  | some ps =>
    match remove (normalize ps) (0, below) with
    | [] => if checked then .noPorts else .panic
    | r :: _ => .ok r.1 (subtractPort ps r.1)

/-- `Resource.Validate` for a ranges resource: no inverted range, no range
    beginning inside an EARLIER-listed one. `Resources.Subtract` silently skips a
    resource that does not validate. -/
def validateRanges : Ranges → Bool
  | [] => true
  | r :: rs => decide (r.1 ≤ r.2) && rs.all (fun r2 => !(decide (r.1 ≤ r2.1) && decide (r2.1 ≤ r.2))) && validateRanges rs

/-- `Resources.Subtract` of a ports resource holding the ranges `rs` (mesos-go
    `Value_Ranges.Subtract`: the left side is sorted and squashed if it has more
    than one range, then every range is `Remove`d; an emptied resource is dropped). -/
def subtractRanges (ps : Ranges) (rs : Ranges) : Option Ranges :=
  let a := if 1 < ps.length then normalize ps else ps
  let a := rs.foldl remove a
  if a.isEmpty then none else some a

/-- "Claim the static ports": `Sort().Squash()` of the template's ranges taken out
    of the ports that remain. Nothing happens for a task without static ranges, or
    if there is no ports resource, or if the ranges do not validate. -/
def reserveStatic (static : Ranges) : Option Ranges → Option Ranges
  | none => none
  | some ps =>
    let rs := normalize static
    if rs.isEmpty || !validateRanges rs then some ps else subtractRanges ps rs

structure Task where
  dyn : List Nat          -- one per inbound TCP channel, in channel order
  ctrl : Nat
  cpu : Nat
  mem : Nat
  static : Ranges
  deriving DecidableEq, Repr, Inhabited

/-- Ranges of the `ports` resource requested for the task. -/
def Task.request (t : Task) : Ranges :=
  normalize (t.static ++ t.dyn.map (fun p => (p, p)) ++ [(t.ctrl, t.ctrl)])

inductive Dyn where
  | noPorts (ports : Option Ranges)
  | panic
  | ok (ps : List Nat) (ports : Option Ranges)
  deriving Repr

/-- The channel loop: one port ≥ 9000 per TCP channel, subtracted as it is drawn. -/
def drawDyn (checked : Bool) : List Bool → Option Ranges → Dyn
  | [], ports => .ok [] ports
  | false :: rest, ports => drawDyn checked rest ports
  | true :: rest, ports =>
    match drawPort checked dataBelow ports with
    | .noPorts => .noPorts ports
    | .panic => .panic
    | .ok p ports' =>
      match drawDyn checked rest ports' with
      | .ok ps ports'' => .ok (p :: ps) ports''
      | other => other

inductive Made where
  | early (ports : Option Ranges)        -- nil before the offer left the decline set
  | late (ports : Option Ranges)         -- nil after the offer left the decline set
  | panic
  | ok (t : Task) (ports : Option Ranges)
  deriving Repr

def Made.isPanic : Made → Bool
  | .panic => true
  | _ => false

/-- The draws of makeTaskForMesosResources: the channel loop, then the control port. -/
def makeDraws (checked : Bool) (w : Wants) (ports : Option Ranges) : Made :=
  match drawDyn checked w.inbound ports with
  | .noPorts ports' => .early ports'
  | .panic => .panic
  | .ok ps ports' =>
    match drawPort checked ctrlBelow ports' with
    | .noPorts => .late ports'
    | .panic => .panic
    | .ok c ports'' => .ok { dyn := ps, ctrl := c, cpu := w.cpu, mem := w.mem, static := w.static } ports''

/-- makeTaskForMesosResources as far as ports are concerned: (with `staticReserved`)
    the static ranges are claimed first, then the draws. -/
def makeTask (k : Cfg) (w : Wants) (ports : Option Ranges) : Made :=
  makeDraws k.drawChecked w (if k.staticReserved then reserveStatic w.static ports else ports)

/-- `Resources.Subtract` of a scalar resource of `x` quarter units: nothing for
    `x = 0` (an empty resource is never put into the request), and a resource
    that reaches zero is dropped from the list. -/
def subScalar (have_ : Option Nat) (x : Nat) : Option Nat :=
  if x = 0 then have_ else
  match have_ with
  | none => none
  | some c => if c - x = 0 then none else some (c - x)

/-- What remains of the offer once task `t` has been made and `p` is what is left
    of the ports: with `scalarsSubtracted`, cpus and mem of the task are gone too. -/
def afterLaunch (k : Cfg) (rem : Res) (t : Task) (p : Option Ranges) : Res :=
  if k.scalarsSubtracted then { cpu := subScalar rem.cpu t.cpu, mem := subScalar rem.mem t.mem, ports := p }
  else { rem with ports := p }

/-! ## one OFFERS round -/

/-- A task class as far as placement is concerned; `portsExpr` is the text of
    `wants.ports` in the template. -/
structure Class where
  cts : Constraints
  cpu : Nat
  mem : Nat
  portsExpr : List Char
  inbound : List Bool
  /-- `command.value` of the template: of no consequence for placement, but it is one of the
      things `Class.Equals` looks at. -/
  cmd : String := ""
  deriving DecidableEq, Repr, Inhabited

structure Desc where
  id : Nat
  role : Constraints            -- Descriptor.RoleConstraints (= effective chain of the task role)
  cls : Option Class            -- none: class not known to the manager
  deriving DecidableEq, Repr, Inhabited

structure Offer where
  oid : Nat
  attrs : Attrs
  res : Res
  deriving DecidableEq, Repr, Inhabited

def Desc.cts (d : Desc) : Constraints := descriptorConstraints d.role (d.cls.map (·.cts))

/-- `GetWantsForDescriptor` (the template was unmarshalled with the linked
    `RangesFromExpression`; a template whose expression does not parse cannot be
    loaded, the harness never builds one). -/
def Class.wants (m : Mode) (c : Class) : Wants :=
  { cpu := c.cpu, mem := c.mem, static := (parseRanges m.rngFixed c.portsExpr).getD [], inbound := c.inbound }

inductive Try where
  | skipCts | skipCls | skipRes
  | early (ports : Option Ranges)
  | late (ports : Option Ranges)
  | panic
  | ok (t : Task) (ports : Option Ranges)
  deriving Repr

/-- The checks made for one descriptor on one offer with what remains of it. -/
def tryPlace (m : Mode) (o : Offer) (rem : Res) (d : Desc) : Try :=
  if !m.sat o.attrs d.cts then .skipCts else
  match d.cls with
  | none => .skipCls
  | some c =>
    let w := c.wants m
    if !resSatisfy rem w then .skipRes else
    match makeTask m.cfg w rem.ports with
    | .early p => .early p
    | .late p => .late p
    | .panic => .panic
    | .ok t p => .ok t p

structure Launch where
  desc : Desc
  task : Task
  deriving DecidableEq, Repr, Inhabited

/-- State of the handling of one offer. -/
structure OState where
  rem : Res
  launches : List Launch        -- in launch order
  used : Bool                   -- offer taken out of the decline set
  crashed : Bool
  deriving Repr, Inhabited

/-- FOR_PREMATCH_DESCRIPTORS: any failure ends the loop; constraint, class and
    resource failures mark the descriptor undeployable. Returns the new
    undeployable descriptors (at most one). -/
def prematchLoop (m : Mode) (o : Offer) : OState → List Desc → OState × List Desc
  | s, [] => (s, [])
  | s, d :: ds =>
    match tryPlace m o s.rem d with
    | .skipCts | .skipCls | .skipRes => (s, [d])
    | .early p => ({ s with rem := { s.rem with ports := p } }, [])
    | .late p => ({ s with rem := { s.rem with ports := p }, used := true }, [])
    | .panic => ({ s with crashed := true }, [])
    | .ok t p =>
      prematchLoop m o { s with rem := afterLaunch m.cfg s.rem t p, used := true,
                                launches := s.launches ++ [⟨d, t⟩] } ds

/-- FOR_DESCRIPTORS over the not pre-matched descriptors, LAST one first;
    returns the descriptors that stay (in the order they are visited). -/
def stillLoop (m : Mode) (o : Offer) : OState → List Desc → OState × List Desc
  | s, [] => (s, [])
  | s, d :: ds =>
    match tryPlace m o s.rem d with
    | .skipCts | .skipCls | .skipRes =>
      let (s', kept) := stillLoop m o s ds
      (s', d :: kept)
    | .early p =>
      let (s', kept) := stillLoop m o { s with rem := { s.rem with ports := p } } ds
      (s', d :: kept)
    | .late p =>
      let (s', kept) := stillLoop m o { s with rem := { s.rem with ports := p }, used := true } ds
      (s', d :: kept)
    | .panic => ({ s with crashed := true }, d :: ds)
    | .ok t p =>
      stillLoop m o { s with rem := afterLaunch m.cfg s.rem t p, used := true,
                             launches := s.launches ++ [⟨d, t⟩] } ds

/-- The text value of the first `machine_id` attribute, "" if there is none. -/
def machineId (o : Offer) : String := (getAttr o.attrs "machine_id").getD ""

/-- The `machine_id` a descriptor insists on ("" = none): value of the first
    constraint on that attribute, whatever its operator. -/
def requiredMachine (d : Desc) : String :=
  match lookupC d.cts "machine_id" with
  | some c => c.value
  | none => ""

/-- `offersByMachineId[id]`: the LAST offer carrying that id. -/
def offerFor (offers : List Offer) (id : String) : Option Offer :=
  (offers.reverse).find? (fun o => machineId o = id)

structure Accept where
  oid : Nat
  launches : List Launch
  deriving DecidableEq, Repr, Inhabited

structure Outcome where
  accepts : List Accept         -- in the order the offers were handled
  declined : List Nat           -- offer ids, in offer order
  undeployed : List Desc
  undeployable : List Desc
  crashed : Bool
  deriving Repr, Inhabited

/-- Pre-processing of the handler: (pre-matched (offer id, descriptor) pairs in
    descriptor order, descriptors without a machine_id requirement, descriptors
    whose required machine has no offer — the latter in REVERSE descriptor order,
    as the code walks the list backwards). -/
def preprocess (offers : List Offer) : List Desc → List (Nat × Desc) × List Desc × List Desc
  | [] => ([], [], [])
  | d :: ds =>
    let (pm, still, und) := preprocess offers ds
    let req := requiredMachine d
    if req = "" then (pm, d :: still, und)
    else match offerFor offers req with
      | some o => ((o.oid, d) :: pm, still, und)
      | none => (pm, still, und ++ [d])

/-- State of the round between offers. -/
structure RState where
  still : List Desc
  und : List Desc
  accepts : List Accept
  usedIds : List Nat
  crashed : Bool
  deriving Repr, Inhabited

/-- Handling of one offer (the body of the per-offer goroutine, which holds
    `descriptorsMu` from the first descriptor to the last). -/
def handleOffer (m : Mode) (pm : List (Nat × Desc)) (st : RState) (o : Offer) : RState :=
  if st.crashed then st else
  let mine := (pm.filter (fun e => e.1 = o.oid)).map (·.2)
  let s0 : OState := { rem := o.res, launches := [], used := false, crashed := false }
  let (s1, und1) := prematchLoop m o s0 mine
  let und := st.und ++ und1
  if s1.crashed then { st with und := und, crashed := true } else
  let (s2, still) :=
    if und.isEmpty then
      let (s2, keptRev) := stillLoop m o s1 st.still.reverse
      (s2, keptRev.reverse)
    else (s1, st.still)
  if s2.crashed then { st with und := und, still := still, crashed := true } else
  { still := still, und := und,
    accepts := st.accepts ++ [⟨o.oid, s2.launches⟩],
    usedIds := if s2.used then st.usedIds ++ [o.oid] else st.usedIds,
    crashed := false }

/-- One OFFERS event with a deployment request for `descs`; `order` is the
    order in which the per-offer goroutines obtained the lock. -/
def round (m : Mode) (offers : List Offer) (descs : List Desc) (order : List Offer) : Outcome :=
  if descs.isEmpty then
    { accepts := [], declined := offers.map (·.oid), undeployed := [], undeployable := [], crashed := false }
  else
    let (pm, still, und) := preprocess offers descs
    if !und.isEmpty then
      { accepts := [], declined := offers.map (·.oid), undeployed := still, undeployable := und, crashed := false }
    else
      let st := order.foldl (handleOffer m pm) { still := still, und := [], accepts := [], usedIds := [], crashed := false }
      { accepts := st.accepts,
        declined := (offers.map (·.oid)).filter (fun i => !st.usedIds.contains i),
        undeployed := st.still, undeployable := st.und, crashed := st.crashed }

/-! ## the class store across workflow loads

`Manager.classes` (`taskclass.Classes`, a map key → *Class) is filled by
`Manager.RefreshClasses` at every workflow load: every class the workflow needs is
handed to `Classes.UpdateClass(key, class)`. `BuildDescriptorConstraints`,
`GetWantsForDescriptor` (and the task-reuse path) read it with `GetClass`. The
store is an association list here; only `storeGet` is ever observed. -/

abbrev Key := Nat
abbrev Store := List (Key × Class)

/-- `Classes.GetClass`. -/
def storeGet : Store → Key → Option Class
  | [], _ => none
  | (k', c) :: rest, k => if k' = k then some c else storeGet rest k

/-- `Class.Equals`: command, wants.cpu, wants.memory and wants.ports (the parsed
    ranges, element by element) — nothing else (not constraints, not bind). -/
def Class.equalsCW (rngFixed : Bool) (a b : Class) : Bool :=
  a.cmd == b.cmd && a.cpu == b.cpu && a.mem == b.mem &&
  (parseRanges rngFixed a.portsExpr).getD [] == (parseRanges rngFixed b.portsExpr).getD []

/-- `Classes.UpdateClass(k, c)`. With `storeOverwrites` (the code): the entry of a
    held key is overwritten, a new key is added. Without: the held entry stays if
    `Class.Equals(held, c)`. -/
def storeUpdate (m : Mode) : Store → Key → Class → Store
  | [], k, c => [(k, c)]
  | (k', h) :: rest, k, c =>
    if k' = k then (k', if !m.cfg.storeOverwrites && h.equalsCW m.rngFixed c then h else c) :: rest
    else (k', h) :: storeUpdate m rest k c

/-- The loop of `RefreshClasses` over the classes of one workflow load. -/
def storeLoad (m : Mode) (s : Store) (defs : List (Key × Class)) : Store :=
  defs.foldl (fun s d => storeUpdate m s d.1 d.2) s

/-- A descriptor before its class is looked up: `key` = `Descriptor.TaskClassName`. -/
structure DescRef where
  id : Nat
  role : Constraints
  key : Option Key              -- none: a class name nobody ever loads
  deriving DecidableEq, Repr, Inhabited

/-- The descriptor with the template a look-up function `f` gives for its class name. -/
def resolveBy (f : Key → Option Class) (d : DescRef) : Desc :=
  { id := d.id, role := d.role, cls := d.key.bind f }

/-- One round of a history: a workflow load (classes handed to the store, in
    order) followed by one OFFERS event with a deployment request; `order` is the
    order in which the per-offer goroutines obtained the lock in that event. -/
structure Step where
  loads : List (Key × Class)
  offers : List Offer
  descs : List DescRef
  order : List Offer
  deriving Repr, Inhabited

/-- A history `load; place; reload; place; …` from the store `s`: what every OFFERS event answers. -/
def history (m : Mode) : Store → List Step → List Outcome
  | _, [] => []
  | s, st :: rest =>
    let s' := storeLoad m s st.loads
    round m st.offers (st.descs.map (resolveBy (storeGet s'))) st.order :: history m s' rest

end Placement
