/-
  Model/Query — component-configuration queries (C20).

  Anchors in /repo:
    configuration/componentcfg/query.go      NewQuery, NewEntriesQuery, NewQueryParameters, Raw/Path/AbsoluteRaw,
                                             WithFallbackRunType, WithFallbackRoleName, the three anchored regexps
    configuration/componentcfg/componentcfg.go  ConfigComponentsPath, SEPARATOR
    apricot/local/serviceutil.go             queryToAbsPath, resolveComponentQuery
    apricot/local/service.go                 GetComponentConfiguration, GetAndProcessComponentConfiguration
    configuration/cfgbackend/yamlsource.go   Exists, Get (map/value tree; array-indexed keys are NOT modelled)
    configuration/template/loader.go         ConsulTemplateLoader.Get (re-parses the printed path)

  Strings are `List Char` (Unicode scalar values; Go strings that are not valid UTF-8 are outside the model).
  Character classes are lists of inclusive code-point ranges so that they can be compared by `decide` with the
  tables `vh gen` obtains by evaluating the linked recognisers on every Unicode scalar value.

  Trusted / not modelled: Go's regexp engine (the recogniser below is hand-written from the pattern text; the pattern
  text and the per-position character classes are re-extracted on every run), pongo2 beyond the fragment
  text | `{{ name }}` | `{% include "f" %}` | `{% extends "f" %}` | top-level `{% block %}` (`lexTemplate` / `scan`
  answer `none` = "outside the modelled fragment"). The per-base-path template cache IS modelled (`Svc`, `step`, `run`).
  Substitution is configurable (`Cfg`): `codeCfg` = the code as it is (apricot/local switches pongo2's autoescaping
  off), `legacyCfg` = the code as it was (every substituted value HTML-escaped; finding `autoescape_html`, repaired).
  Core Lean only.
-/
import ControlModel.Basic

namespace Query

abbrev Str := List Char

/-! ## character classes -/

def inRanges (rs : List (Nat × Nat)) (c : Char) : Bool :=
  rs.any fun r => r.1 ≤ c.toNat && c.toNat ≤ r.2

/-- `[a-zA-Z0-9-_]` : `-`, digits, upper, `_`, lower. -/
def componentClass : List (Nat × Nat) := [(45, 45), (48, 57), (65, 90), (95, 95), (97, 122)]
/-- `[A-Z0-9-_]` -/
def runTypeClass : List (Nat × Nat) := [(45, 45), (48, 57), (65, 90), (95, 95)]
/-- `[a-z-A-Z0-9-_]` (same set as the component class). -/
def roleClass : List (Nat × Nat) := [(45, 45), (48, 57), (65, 90), (95, 95), (97, 122)]
/-- `[a-z-A-Z0-9-_/]` : the role class plus `/` (47). -/
def entryClass : List (Nat × Nat) := [(45, 45), (47, 57), (65, 90), (95, 95), (97, 122)]
/-- parameter key `[a-zA-Z0-9-_]` -/
def paramKeyClass : List (Nat × Nat) := [(45, 45), (48, 57), (65, 90), (95, 95), (97, 122)]
/-- parameter value `[a-zA-Z0-9-_,"\[\]]` : `"` `,` `-` digits upper `[` `]` `_` lower. -/
def paramValueClass : List (Nat × Nat) := [(34, 34), (44, 45), (48, 57), (65, 91), (93, 93), (95, 95), (97, 122)]
/-- what `strings.TrimSpace` removes (unicode.IsSpace). -/
def spaceClass : List (Nat × Nat) :=
  [(9, 13), (32, 32), (133, 133), (160, 160), (5760, 5760), (8192, 8202), (8232, 8233), (8239, 8239), (8287, 8287), (12288, 12288)]

def isComp (c : Char) : Bool := inRanges componentClass c
def isRT (c : Char) : Bool := inRanges runTypeClass c
def isRole (c : Char) : Bool := inRanges roleClass c
def isEntry (c : Char) : Bool := inRanges entryClass c
def isParamKey (c : Char) : Bool := inRanges paramKeyClass c
def isParamValue (c : Char) : Bool := inRanges paramValueClass c
def isSpace (c : Char) : Bool := inRanges spaceClass c

/-- The pattern texts the recognisers below were written from (compared with go/ast's view of query.go). -/
def inputFullRegexSrc : Str :=
  ['^', '(', '[', 'a', '-', 'z', 'A', '-', 'Z', '0', '-', '9', '-', '_', ']', '+', ')',
   '(', '\\', '/', '[', 'A', '-', 'Z', '0', '-', '9', '-', '_', ']', '+', ')', '{', '1', '}',
   '(', '\\', '/', '[', 'a', '-', 'z', '-', 'A', '-', 'Z', '0', '-', '9', '-', '_', ']', '+', ')', '{', '1', '}',
   '(', '\\', '/', '[', 'a', '-', 'z', '-', 'A', '-', 'Z', '0', '-', '9', '-', '_', '/', ']', '+', ')', '{', '1', '}', '$']
def inputEntriesRegexSrc : Str :=
  ['^', '(', '[', 'a', '-', 'z', 'A', '-', 'Z', '0', '-', '9', '-', '_', ']', '+', ')',
   '(', '\\', '/', '[', 'A', '-', 'Z', '0', '-', '9', '-', '_', ']', '+', ')', '{', '1', '}',
   '(', '\\', '/', '[', 'a', '-', 'z', '-', 'A', '-', 'Z', '0', '-', '9', '-', '_', ']', '+', ')', '{', '1', '}', '$']
def inputParametersRegexSrc : Str :=
  ['^', '(', '[', 'a', '-', 'z', 'A', '-', 'Z', '0', '-', '9', '-', '_', ']', '+', '=',
   '[', 'a', '-', 'z', 'A', '-', 'Z', '0', '-', '9', '-', '_', ',', '"', '\\', '[', '\\', ']', ']', '+', ')',
   '(', '&', '[', 'a', '-', 'z', 'A', '-', 'Z', '0', '-', '9', '-', '_', ']', '+', '=',
   '[', 'a', '-', 'z', 'A', '-', 'Z', '0', '-', '9', '-', '_', ',', '"', '\\', '[', '\\', ']', ']', '+', ')', '*', '$']

/-! ## strings.TrimSpace -/

def trimLeft (s : Str) : Str := s.dropWhile isSpace
def trimRight (s : Str) : Str := (s.reverse.dropWhile isSpace).reverse
def trim (s : Str) : Str := trimRight (trimLeft s)

/-! ## run types (apricotpb.RunType_name / RunType_value) -/

def runTypes : List (Nat × Str) := [
  (0, ['N', 'U', 'L', 'L']),
  (1, ['P', 'H', 'Y', 'S', 'I', 'C', 'S']),
  (2, ['T', 'E', 'C', 'H', 'N', 'I', 'C', 'A', 'L']),
  (3, ['P', 'E', 'D', 'E', 'S', 'T', 'A', 'L']),
  (4, ['P', 'U', 'L', 'S', 'E', 'R']),
  (5, ['L', 'A', 'S', 'E', 'R']),
  (6, ['C', 'A', 'L', 'I', 'B', 'R', 'A', 'T', 'I', 'O', 'N', '_', 'I', 'T', 'H', 'R', '_', 'T', 'U', 'N', 'I', 'N', 'G']),
  (7, ['C', 'A', 'L', 'I', 'B', 'R', 'A', 'T', 'I', 'O', 'N', '_', 'V', 'C', 'A', 'S', 'N', '_', 'T', 'U', 'N', 'I', 'N', 'G']),
  (8, ['C', 'A', 'L', 'I', 'B', 'R', 'A', 'T', 'I', 'O', 'N', '_', 'T', 'H', 'R', '_', 'S', 'C', 'A', 'N']),
  (9, ['C', 'A', 'L', 'I', 'B', 'R', 'A', 'T', 'I', 'O', 'N', '_', 'D', 'I', 'G', 'I', 'T', 'A', 'L', '_', 'S', 'C', 'A', 'N']),
  (10, ['C', 'A', 'L', 'I', 'B', 'R', 'A', 'T', 'I', 'O', 'N', '_', 'A', 'N', 'A', 'L', 'O', 'G', '_', 'S', 'C', 'A', 'N']),
  (11, ['C', 'A', 'L', 'I', 'B', 'R', 'A', 'T', 'I', 'O', 'N', '_', 'F', 'H', 'R']),
  (12, ['C', 'A', 'L', 'I', 'B', 'R', 'A', 'T', 'I', 'O', 'N', '_', 'A', 'L', 'P', 'I', 'D', 'E', '_', 'S', 'C', 'A', 'N']),
  (13, ['C', 'A', 'L', 'I', 'B', 'R', 'A', 'T', 'I', 'O', 'N']),
  (14, ['C', 'O', 'S', 'M', 'I', 'C', 'S']),
  (15, ['S', 'Y', 'N', 'T', 'H', 'E', 'T', 'I', 'C']),
  (16, ['N', 'O', 'I', 'S', 'E']),
  (17, ['C', 'A', 'L', 'I', 'B', 'R', 'A', 'T', 'I', 'O', 'N', '_', 'P', 'U', 'L', 'S', 'E', '_', 'L', 'E', 'N', 'G', 'T', 'H']),
  (18, ['C', 'A', 'L', 'I', 'B', 'R', 'A', 'T', 'I', 'O', 'N', '_', 'V', 'R', 'E', 'S', 'E', 'T', 'D']),
  (300, ['A', 'N', 'Y'])
]

/-- `RunType_name[int32(n)]`; a missing key of a Go map reads as "". -/
def nameIn (t : List (Nat × Str)) (n : Nat) : Str :=
  match t.find? (fun e => e.1 == n) with
  | some e => e.2
  | none => []

/-- `RunType_value[name]`. -/
def valueIn (t : List (Nat × Str)) (name : Str) : Option Nat :=
  (t.find? (fun e => e.2 == name)).map (·.1)

def runTypeName (n : Nat) : Str := nameIn runTypes n
def runTypeValue (name : Str) : Option Nat := valueIn runTypes name

def fallbackRunType : Nat := 300
def fallbackRoleName : Str := ['a', 'n', 'y']
def configComponentsPath : Str := ['o', '2', '/', 'c', 'o', 'm', 'p', 'o', 'n', 'e', 'n', 't', 's', '/']

/-! ## queries -/

structure Query where
  component : Str
  runType : Nat
  role : Str
  entry : Str
  deriving DecidableEq, Repr

/-- `Query.Raw()` (= `Query.Path()`): fields joined by "/". -/
def print (q : Query) : Str :=
  q.component ++ '/' :: runTypeName q.runType ++ '/' :: q.role ++ '/' :: q.entry

/-- `Query.AbsoluteRaw()`. -/
def absRaw (q : Query) : Str := configComponentsPath ++ print q

def withFallbackRunType (q : Query) : Query := { q with runType := fallbackRunType }
def withFallbackRoleName (q : Query) : Query := { q with role := fallbackRoleName }

/-- Recogniser for `^(C+)(/R+)(/L+)(/E+)$`, returning the four captures without their leading "/".
    `C`, `R`, `L` do not contain "/", so every `+` takes the maximal run; `E+` must reach the end. -/
def matchFull (s : Str) : Option (Str × Str × Str × Str) :=
  let c := s.takeWhile isComp
  match s.dropWhile isComp with
  | '/' :: r1 =>
    let rt := r1.takeWhile isRT
    match r1.dropWhile isRT with
    | '/' :: r2 =>
      let role := r2.takeWhile isRole
      match r2.dropWhile isRole with
      | '/' :: e =>
        if !c.isEmpty && !rt.isEmpty && !role.isEmpty && !e.isEmpty && e.all isEntry then some (c, rt, role, e) else none
      | _ => none
    | _ => none
  | _ => none

/-- Recogniser for `^(C+)(/R+)(/L+)$`. -/
def matchEntries (s : Str) : Option (Str × Str × Str) :=
  let c := s.takeWhile isComp
  match s.dropWhile isComp with
  | '/' :: r1 =>
    let rt := r1.takeWhile isRT
    match r1.dropWhile isRT with
    | '/' :: role =>
      if !c.isEmpty && !rt.isEmpty && !role.isEmpty && role.all isRole then some (c, rt, role) else none
    | _ => none
  | _ => none

/-- `componentcfg.NewQuery`: `none` = E_BAD_KEY. -/
def parse (s : Str) : Option Query :=
  match matchFull (trim s) with
  | some (c, rt, role, e) =>
    match runTypeValue rt with
    | some n => some ⟨c, n, role, e⟩
    | none => none
  | none => none

/-- `componentcfg.NewEntriesQuery` (component, run type, role). -/
def parseEntries (s : Str) : Option (Str × Nat × Str) :=
  match matchEntries (trim s) with
  | some (c, rt, role) =>
    match runTypeValue rt with
    | some n => some (c, n, role)
    | none => none
  | none => none

/-- A query every field of which could have been spelled in a query string. -/
def wf (q : Query) : Bool :=
  !q.component.isEmpty && q.component.all isComp &&
  runTypes.any (fun e => e.1 == q.runType) &&
  !q.role.isEmpty && q.role.all isRole &&
  !q.entry.isEmpty && q.entry.all isEntry

/-! ## query parameters -/

/-- `strings.Split(s, string d)`. -/
def splitOn (d : Char) : Str → List Str
  | [] => [[]]
  | c :: cs =>
    if c = d then [] :: splitOn d cs
    else match splitOn d cs with
      | [] => [[c]]
      | h :: t => (c :: h) :: t

/-- one `K+=V+` piece -/
def matchPair (p : Str) : Option (Str × Str) :=
  let k := p.takeWhile isParamKey
  match p.dropWhile isParamKey with
  | '=' :: v => if !k.isEmpty && !v.isEmpty && v.all isParamValue then some (k, v) else none
  | _ => none

/-- Recogniser for `^(K+=V+)(&K+=V+)*$`: neither class contains `&` or `=`. -/
def matchParams (s : Str) : Option (List (Str × Str)) :=
  (splitOn '&' s).mapM? matchPair

/-- `strconv.ParseBool` -/
def parseBool (s : Str) : Option Bool :=
  if s = ['1'] || s = ['t'] || s = ['T'] || s = ['T', 'R', 'U', 'E'] || s = ['t', 'r', 'u', 'e'] || s = ['T', 'r', 'u', 'e'] then some true
  else if s = ['0'] || s = ['f'] || s = ['F'] || s = ['F', 'A', 'L', 'S', 'E'] || s = ['f', 'a', 'l', 's', 'e'] || s = ['F', 'a', 'l', 's', 'e'] then some false
  else none

def strLt : Str → Str → Bool
  | [], [] => false
  | [], _ :: _ => true
  | _ :: _, [] => false
  | a :: as, b :: bs => if a.toNat < b.toNat then true else if b.toNat < a.toNat then false else strLt as bs

def insertSorted (kv : Str × Str) : List (Str × Str) → List (Str × Str)
  | [] => [kv]
  | x :: xs => if strLt kv.1 x.1 then kv :: x :: xs else x :: insertSorted kv xs

def sortByKey (l : List (Str × Str)) : List (Str × Str) := l.foldr insertSorted []

def hasDupKey : List (Str × Str) → Bool
  | [] => false
  | kv :: rest => rest.any (fun x => x.1 == kv.1) || hasDupKey rest

def processKey : Str := ['p', 'r', 'o', 'c', 'e', 's', 's']

/-- `componentcfg.NewQueryParameters`: `none` = an error; otherwise (ProcessTemplates, VarStack sorted by key).
    (`url.ParseQuery` does no unescaping here: the value class has no `%`, `+` or `;`.) -/
def parseParams (s : Str) : Option (Bool × List (Str × Str)) :=
  match matchParams (trim s) with
  | none => none
  | some kvs =>
    if hasDupKey kvs then none
    else
      let vars := sortByKey (kvs.filter (fun kv => kv.1 != processKey))
      match kvs.find? (fun kv => kv.1 == processKey) with
      | none => some (true, vars)
      | some kv =>
        match parseBool kv.2 with
        | some b => some (b, vars)
        | none => none

/-! ## the fallback (serviceutil.go: resolveComponentQuery) -/

/-- The code's four steps, literally: exact; `query.WithFallbackRunType()`; `query.WithFallbackRoleName()`;
    `resolved.WithFallbackRunType()` of the third. `ex` is the backend's `Exists` on absolute keys. -/
def resolve (ex : Str → Bool) (q : Query) : Option Query :=
  if ex (absRaw q) then some q
  else
    let r1 := withFallbackRunType q
    if ex (absRaw r1) then some r1
    else
      let r2 := withFallbackRoleName q
      if ex (absRaw r2) then some r2
      else
        let r3 := withFallbackRunType r2
        if ex (absRaw r3) then some r3 else none

/-- The same walk, returning the keys it asked `Exists` for, in order. -/
def probes (ex : Str → Bool) (q : Query) : List Str :=
  let k0 := absRaw q
  if ex k0 then [k0]
  else
    let k1 := absRaw (withFallbackRunType q)
    if ex k1 then [k0, k1]
    else
      let k2 := absRaw (withFallbackRoleName q)
      if ex k2 then [k0, k1, k2]
      else [k0, k1, k2, absRaw (withFallbackRunType (withFallbackRoleName q))]

/-- The order the PROPERTY demands: exact, any run type with that role, that run type with any role, any/any. -/
def specCandidates (q : Query) : List Query :=
  [q, { q with runType := fallbackRunType }, { q with role := fallbackRoleName },
   { q with runType := fallbackRunType, role := fallbackRoleName }]

/-- Abstract walk over the four candidates for an existence pattern (bit i = candidate i exists), in candidate
    numbers — the shape `vh gen` tabulates from the real code on a recording backend. -/
def walkPattern (pat : Nat) : List Nat × Option Nat :=
  let ex (i : Nat) : Bool := pat.testBit i
  let q : Query := ⟨['c'], 1, ['r'], ['e']⟩
  let cands := specCandidates q
  let idx (k : Str) : Nat := (cands.map absRaw).idxOf k
  let e (k : Str) : Bool := ex (idx k)
  ((probes e q).map idx, (resolve e q).map (fun r => idx (absRaw r)))

/-! ## the YAML backend (yamlsource.go), flattened

  The tree is given by its leaves: a value (`content = some _`) or an empty map (`none`), each with the list of map
  keys leading to it. Leaves are prefix-free in a tree. `Exists(k)` walks maps along `strings.Split(strings.Trim(k,
  "/"), "/")` and is true iff it arrives at ANY item (value or map); `Get(k)` additionally wants a value. -/

structure Leaf where
  path : List Str
  content : Option Str
  deriving Repr

/-- `strings.Trim(key, "/")` -/
def trimSlashes (s : Str) : Str :=
  ((s.dropWhile (· == '/')).reverse.dropWhile (· == '/')).reverse

def keySegs (key : Str) : List Str := splitOn '/' (trimSlashes key)

def yamlExists (t : List Leaf) (key : Str) : Bool :=
  t.any fun l => (keySegs key).isPrefixOf l.path

/-- `some content` iff the key names a value. -/
def yamlGet (t : List Leaf) (key : Str) : Option Str :=
  match t.find? (fun l => l.path == keySegs key) with
  | some l => l.content
  | none => none

/-- no leaf lies below (or at) another one -/
def prefixFree : List Leaf → Bool
  | [] => true
  | l :: rest => rest.all (fun m => !(l.path.isPrefixOf m.path) && !(m.path.isPrefixOf l.path)) && prefixFree rest

/-- results of the payload getters, by error class -/
inductive Payload where
  | ok (s : Str)
  | err (cls : String)
  | dash              -- not attempted
  | unmodelled        -- the content is outside the modelled template fragment
  deriving Repr, DecidableEq

/-- `Service.GetComponentConfiguration` over the YAML backend: `queryToAbsPath` (Exists) then `Get`. -/
def getComponent (t : List Leaf) (q : Query) : Payload :=
  if yamlExists t (absRaw q) then
    match yamlGet t (absRaw q) with
    | some v => .ok v
    | none => .err "notstring"
  else .err "nopayload"

/-! ## templates: the plain `{{ name }}` fragment of pongo2 -/

inductive Seg where
  | text (s : Str)
  | var (name : Str)
  deriving Repr, DecidableEq

def isIdentStart (c : Char) : Bool := inRanges [(65, 90), (95, 95), (97, 122)] c
def isIdentChar (c : Char) : Bool := inRanges [(48, 57), (65, 90), (95, 95), (97, 122)] c
/-- blanks allowed inside a tag (a newline is a lexer error) -/
def isTagSpace (c : Char) : Bool := c == ' ' || c == '\t' || c == '\r'

/-- pongo2 keywords (and `nil`), which are not plain variable names -/
def keywords : List Str :=
  [['i', 'n'], ['a', 'n', 'd'], ['o', 'r'], ['n', 'o', 't'], ['t', 'r', 'u', 'e'], ['f', 'a', 'l', 's', 'e'], ['a', 's'],
   ['e', 'x', 'p', 'o', 'r', 't'], ['n', 'i', 'l']]

/-- names bound by the service or by pongo2 itself in every execution (template.MakeUtilFuncMap, "pongo2") -/
def reservedNames : List Str := [
  ['A', 't', 'o', 'i'], ['D', 'u', 'm', 'p'], ['F', 'r', 'o', 'm', 'J', 's', 'o', 'n'], ['I', 's', 'F', 'a', 'l', 's', 'y'],
  ['I', 's', 'T', 'r', 'u', 't', 'h', 'y'], ['I', 't', 'o', 'a'], ['N', 'e', 'w', 'I', 'D'], ['N', 'u', 'l', 'l', 'a', 'b', 'l', 'e'],
  ['P', 'r', 'e', 'f', 'i', 'x', 'e', 'd', 'O', 'v', 'e', 'r', 'r', 'i', 'd', 'e'],
  ['S', 'u', 'f', 'f', 'i', 'x', 'I', 'n', 'R', 'a', 'n', 'g', 'e'], ['T', 'o', 'J', 's', 'o', 'n'], ['T', 'o', 'L', 'o', 'w', 'e', 'r'],
  ['T', 'o', 'U', 'p', 'p', 'e', 'r'], ['T', 'r', 'i', 'm', 'Q', 'u', 'o', 't', 'e', 's'], ['T', 'r', 'i', 'm', 'S', 'p', 'a', 'c', 'e'],
  ['j', 's', 'o', 'n'], ['s', 't', 'r', 'i', 'n', 'g', 's'], ['u', 'i', 'd'], ['u', 't', 'i', 'l']]

def pongo2Name : Str := ['p', 'o', 'n', 'g', 'o', '2']

def plainName (n : Str) : Bool := !keywords.contains n && !reservedNames.contains n && n != pongo2Name

inductive Mode where
  | text                  -- outside tags
  | pre                   -- after "{{", before the name
  | name (acc : Str)      -- inside the name (acc reversed)
  | post (name : Str)     -- after the name, before "}}"

def consChar (c : Char) : List Seg → List Seg
  | .text t :: more => .text (c :: t) :: more
  | segs => .text [c] :: segs

/-- Lexer+parser for the fragment  text | "{{" blanks name blanks "}}"  where text contains none of `{{ {% {#`.
    `none` = outside the fragment (tags, comments, filters, expressions, syntax errors …): unmodelled. -/
def lex : Mode → Str → Option (List Seg)
  | .text, [] => some []
  | .text, '{' :: '{' :: rest => lex .pre rest
  | .text, '{' :: '%' :: _ => none
  | .text, '{' :: '#' :: _ => none
  | .text, c :: rest => (lex .text rest).map (consChar c)
  | .pre, [] => none
  | .pre, c :: rest =>
    if isTagSpace c then lex .pre rest
    else if isIdentStart c then lex (.name [c]) rest
    else none
  | .name _, [] => none
  | .name acc, c :: rest =>
    if isIdentChar c then lex (.name (c :: acc)) rest
    else if isTagSpace c then lex (.post acc.reverse) rest
    else if c == '}' then
      match rest with
      | '}' :: rest' => if plainName acc.reverse then (lex .text rest').map (Seg.var acc.reverse :: ·) else none
      | _ => none
    else none
  | .post _, [] => none
  | .post n, c :: rest =>
    if isTagSpace c then lex (.post n) rest
    else if c == '}' then
      match rest with
      | '}' :: rest' => if plainName n then (lex .text rest').map (Seg.var n :: ·) else none
      | _ => none
    else none

def lexTemplate (content : Str) : Option (List Seg) := lex .text content

/-- pongo2's `escape` filter: what autoescaping applies to every string value a template prints. -/
def escapeChar (c : Char) : Str :=
  if c == '&' then ['&', 'a', 'm', 'p', ';']
  else if c == '>' then ['&', 'g', 't', ';']
  else if c == '<' then ['&', 'l', 't', ';']
  else if c == '"' then ['&', 'q', 'u', 'o', 't', ';']
  else if c == '\'' then ['&', '#', '3', '9', ';']
  else [c]

def escape (s : Str) : Str := s.flatMap escapeChar

/-- How the service hands a value to the payload. pongo2 takes `ExecutionContext.Autoescape` from a process-wide
    switch (`pongo2.SetAutoescape`, initially on) every time a template is executed. -/
structure Cfg where
  /-- the switch is on when templates are executed -/
  autoescape : Bool
  deriving Repr, DecidableEq

/-- THE CODE AS IT IS: package apricot/local switches autoescaping off in its `init()` (tied to the linked code by
    `C20_substitution_is_code`). -/
def codeCfg : Cfg := ⟨false⟩

/-- the code as it was before that repair (pongo2's default; finding `autoescape_html`) -/
def legacyCfg : Cfg := ⟨true⟩

/-- what `{{ name }}` writes for the value bound to `name` -/
def Cfg.subst (c : Cfg) (v : Str) : Str := if c.autoescape then escape v else v

/-- the characters `escape` rewrites -/
def escapedChars : Str := ['&', '<', '>', '"', '\'']

/-- who touches pongo2's process-wide autoescape switch, in the whole repository: `init()` of apricot/local, with the
    literal `false` (package directory, enclosing function, argument) -/
def autoescapeSwitches : List (Str × Str × Str) :=
  [(['a', 'p', 'r', 'i', 'c', 'o', 't', '/', 'l', 'o', 'c', 'a', 'l'], ['i', 'n', 'i', 't'], ['f', 'a', 'l', 's', 'e'])]

/-- value bound to a name; an unbound name renders as "". -/
def lookup (vars : List (Str × Str)) (n : Str) : Str :=
  match vars.find? (fun kv => kv.1 == n) with
  | some kv => kv.2
  | none => []

def renderSeg (sub : Str → Str) : Seg → Str
  | .text t => t
  | .var n => sub n

def renderSegs (sub : Str → Str) (segs : List Seg) : Str := segs.flatMap (renderSeg sub)

/-- `bindings[strings.TrimSpace(k)] = v` -/
def bindings (vars : List (Str × Str)) : List (Str × Str) := vars.map fun kv => (trim kv.1, kv.2)

/-- pongo2 `reIdentifiers` `^[a-zA-Z0-9_]+$` on every context key -/
def validIdent (k : Str) : Bool := !k.isEmpty && k.all isIdentChar

/-- What the code does with a template in the fragment under configuration `c`. -/
def renderWith (c : Cfg) (content : Str) (vars : List (Str × Str)) : Option Str :=
  (lexTemplate content).map (renderSegs (fun n => c.subst (lookup (bindings vars) n)))

/-- What the CODE AS IT IS does with a template in the fragment. -/
def render (content : Str) (vars : List (Str × Str)) : Option Str := renderWith codeCfg content vars

/-- What the PROPERTY asks for: substitute the supplied value itself. -/
def renderVerbatim (content : Str) (vars : List (Str × Str)) : Option Str :=
  (lexTemplate content).map (renderSegs (fun n => lookup (bindings vars) n))

/-- `Service.GetAndProcessComponentConfiguration(q, vars)` on a fresh service over the YAML backend:
    the template loader re-parses the printed path (`NewQuery(q.Path())`), fetches that entry with
    `GetComponentConfiguration`, pongo2 parses it, the context keys are checked, the template is executed. -/
def processComponentWith (c : Cfg) (t : List Leaf) (q : Query) (vars : List (Str × Str)) : Payload :=
  match parse (print q) with
  | none => .err "load"
  | some q' =>
    match getComponent t q' with
    | .ok content =>
      match lexTemplate content with
      | none => .unmodelled
      | some segs =>
        if (bindings vars).all (fun kv => validIdent kv.1) then
          .ok (renderSegs (fun n => c.subst (lookup (bindings vars) n)) segs)
        else .err "badident"
    | _ => .err "load"

/-- …by the code as it is -/
def processComponent (t : List Leaf) (q : Query) (vars : List (Str × Str)) : Payload :=
  processComponentWith codeCfg t q vars


/-! ## templates with include / extends / block (pongo2 tags_include.go, tags_extends.go, tags_block.go)

  The fragment:  text | `{{ name }}` | `{% include "f" %}` | `{% extends "f" %}` | `{% block b %}` … `{% endblock [b] %}`
  with blocks at top level only and block bodies made of text, variables and includes. File names are string literals
  without `"`, `\` and newline. Everything else (filters, other tags, `with`/`only`/`if_exists`, nested blocks, a second
  `extends`, duplicate block names, `{%-`, comments, lazy includes …) is outside the fragment: `none` / `unmodelled`.

  pongo2 resolves a string-literal include/extends at PARSE time (`set.FromFile`, never through the set's cache), so a
  compiled template is a closed object: loading = parse + link. Block overriding along an `extends` chain is static
  too (`getBlockWrappers`: the most derived definition wins; blocks unknown to the root ancestor are dropped; only the
  root ancestor's document is executed), and an included template is executed with the includer's context (Public ∪
  Private) under the same autoescape setting (`NewChildExecutionContext` copies it). Hence a compiled template is modelled as the FLAT list of `Seg`s it
  executes. -/

/-- `ConsulTemplateLoader.Abs(_, name)`: the including template's own name is ignored, only the set's base path counts. -/
def absName (base name : Str) : Str :=
  if name.head? == some '/' then name
  else if base.isPrefixOf name then name
  else if base.isEmpty then name
  else base ++ '/' :: name

/-- `path[:strings.LastIndex(path, "/")]`, "" when there is no "/". -/
def basePathOf (path : Str) : Str := ((path.reverse.dropWhile (· != '/')).drop 1).reverse

inductive Tok where
  | seg (s : Seg)
  | incl (f : Str)
  | ext (f : Str)
  | blk (n : Str)
  | endblk (n : Option Str)
  deriving Repr, DecidableEq

def includeKw : Str := ['i', 'n', 'c', 'l', 'u', 'd', 'e']
def extendsKw : Str := ['e', 'x', 't', 'e', 'n', 'd', 's']
def blockKw : Str := ['b', 'l', 'o', 'c', 'k']
def endblockKw : Str := ['e', 'n', 'd', 'b', 'l', 'o', 'c', 'k']

/-- a plain variable name that is also not shadowed by pongo2's private `block` binding inside block bodies -/
def plainNameT (n : Str) : Bool := plainName n && n != blockKw

inductive TMode where
  | text
  | vpre | vname (acc : Str) | vpost (n : Str)   -- inside {{ }}
  | tpre | tname (acc : Str)                     -- after {% : blanks, the tag name
  | fpre (ext : Bool)                            -- include/extends: blanks before the opening quote
  | fname (ext : Bool) (acc : Str)               -- inside the quoted file name
  | bpre | bname (acc : Str)                     -- block: blanks, the block's name
  | epre | ename (acc : Str)                     -- endblock: blanks, optional name
  | close (tok : Tok)                            -- blanks, then %}

def consTok (c : Char) : List Tok → List Tok
  | .seg (.text t) :: more => .seg (.text (c :: t)) :: more
  | toks => .seg (.text [c]) :: toks

def fileTok (ext : Bool) (f : Str) : Tok := if ext then .ext f else .incl f

/-- Lexer + tag parser of the fragment, one state machine over the characters (pongo2 lexer.go `run`/`stateCode`/
    `stateIdentifier`/`stateString`, parser `parseTagElement` and the three tag parsers). -/
def scan : TMode → Str → Option (List Tok)
  | .text, [] => some []
  | .text, '{' :: '{' :: rest => scan .vpre rest
  | .text, '{' :: '%' :: rest => scan .tpre rest
  | .text, '{' :: '#' :: _ => none
  | .text, c :: rest => (scan .text rest).map (consTok c)
  | .vpre, [] => none
  | .vpre, c :: rest =>
    if isTagSpace c then scan .vpre rest
    else if isIdentStart c then scan (.vname [c]) rest
    else none
  | .vname _, [] => none
  | .vname acc, c :: rest =>
    if isIdentChar c then scan (.vname (c :: acc)) rest
    else if isTagSpace c then scan (.vpost acc.reverse) rest
    else if c == '}' then
      match rest with
      | '}' :: rest' => if plainNameT acc.reverse then (scan .text rest').map (Tok.seg (.var acc.reverse) :: ·) else none
      | _ => none
    else none
  | .vpost _, [] => none
  | .vpost n, c :: rest =>
    if isTagSpace c then scan (.vpost n) rest
    else if c == '}' then
      match rest with
      | '}' :: rest' => if plainNameT n then (scan .text rest').map (Tok.seg (.var n) :: ·) else none
      | _ => none
    else none
  | .tpre, [] => none
  | .tpre, c :: rest =>
    if isTagSpace c then scan .tpre rest
    else if isIdentStart c then scan (.tname [c]) rest
    else none
  | .tname _, [] => none
  | .tname acc, c :: rest =>
    if isIdentChar c then scan (.tname (c :: acc)) rest
    else if acc.reverse == includeKw || acc.reverse == extendsKw then
      if isTagSpace c then scan (.fpre (acc.reverse == extendsKw)) rest
      else if c == '"' then scan (.fname (acc.reverse == extendsKw) []) rest
      else none
    else if acc.reverse == blockKw then
      if isTagSpace c then scan .bpre rest else none
    else if acc.reverse == endblockKw then
      if isTagSpace c then scan .epre rest
      else if c == '%' then
        match rest with
        | '}' :: rest' => (scan .text rest').map (Tok.endblk none :: ·)
        | _ => none
      else none
    else none
  | .fpre _, [] => none
  | .fpre e, c :: rest =>
    if isTagSpace c then scan (.fpre e) rest
    else if c == '"' then scan (.fname e []) rest
    else none
  | .fname _ _, [] => none
  | .fname e acc, c :: rest =>
    if c == '"' then scan (.close (fileTok e acc.reverse)) rest
    else if c == '\\' || c == '\n' then none
    else scan (.fname e (c :: acc)) rest
  | .bpre, [] => none
  | .bpre, c :: rest =>
    if isTagSpace c then scan .bpre rest
    else if isIdentStart c then scan (.bname [c]) rest
    else none
  | .bname _, [] => none
  | .bname acc, c :: rest =>
    if isIdentChar c then scan (.bname (c :: acc)) rest
    else if keywords.contains acc.reverse then none
    else if isTagSpace c then scan (.close (.blk acc.reverse)) rest
    else if c == '%' then
      match rest with
      | '}' :: rest' => (scan .text rest').map (Tok.blk acc.reverse :: ·)
      | _ => none
    else none
  | .epre, [] => none
  | .epre, c :: rest =>
    if isTagSpace c then scan .epre rest
    else if isIdentStart c then scan (.ename [c]) rest
    else if c == '%' then
      match rest with
      | '}' :: rest' => (scan .text rest').map (Tok.endblk none :: ·)
      | _ => none
    else none
  | .ename _, [] => none
  | .ename acc, c :: rest =>
    if isIdentChar c then scan (.ename (c :: acc)) rest
    else if keywords.contains acc.reverse then none
    else if isTagSpace c then scan (.close (.endblk (some acc.reverse))) rest
    else if c == '%' then
      match rest with
      | '}' :: rest' => (scan .text rest').map (Tok.endblk (some acc.reverse) :: ·)
      | _ => none
    else none
  | .close _, [] => none
  | .close tok, c :: rest =>
    if isTagSpace c then scan (.close tok) rest
    else if c == '%' then
      match rest with
      | '}' :: rest' => (scan .text rest').map (tok :: ·)
      | _ => none
    else none

/-- what a block body may hold -/
inductive BItem where
  | seg (s : Seg)
  | incl (f : Str)
  deriving Repr, DecidableEq

/-- top-level items of one template file -/
inductive Item where
  | b (x : BItem)
  | ext (f : Str)
  | block (n : Str) (body : List BItem)
  deriving Repr

/-- `WrapUntilTag("endblock")`: group the tokens between `block` and `endblock`; `st` = the open block (name, body so
    far, reversed). A named `endblock` must repeat the block's name. -/
def group : Option (Str × List BItem) → List Tok → Option (List Item)
  | none, [] => some []
  | some _, [] => none
  | none, .seg s :: r => (group none r).map (Item.b (.seg s) :: ·)
  | none, .incl f :: r => (group none r).map (Item.b (.incl f) :: ·)
  | none, .ext f :: r => (group none r).map (Item.ext f :: ·)
  | none, .blk n :: r => group (some (n, [])) r
  | none, .endblk _ :: _ => none
  | some (n, acc), .seg s :: r => group (some (n, .seg s :: acc)) r
  | some (n, acc), .incl f :: r => group (some (n, .incl f :: acc)) r
  | some _, .ext _ :: _ => none
  | some _, .blk _ :: _ => none
  | some (n, acc), .endblk m :: r =>
    if m == none || m == some n then (group none r).map (Item.block n acc.reverse :: ·) else none

def extCount : List Item → Nat
  | [] => 0
  | .ext _ :: r => extCount r + 1
  | _ :: r => extCount r

def blockNames : List Item → List Str
  | [] => []
  | .block n _ :: r => n :: blockNames r
  | _ :: r => blockNames r

def distinct : List Str → Bool
  | [] => true
  | x :: r => !r.contains x && distinct r

/-- at most one `extends`, no block defined twice (pongo2 raises parser errors otherwise: not modelled) -/
def itemsOk (items : List Item) : Bool := decide (extCount items ≤ 1) && distinct (blockNames items)

def parseItems (content : Str) : Option (List Item) :=
  match scan .text content with
  | none => none
  | some toks =>
    match group none toks with
    | none => none
    | some items => if itemsOk items then some items else none

inductive LinkRes (α : Type) where
  | ok (a : α)
  | err (cls : String)
  | unmodelled
  deriving Repr, DecidableEq

def LinkRes.map {α β : Type} (f : α → β) : LinkRes α → LinkRes β
  | .ok a => .ok (f a)
  | .err c => .err c
  | .unmodelled => .unmodelled

/-- nodes of a linked template: blocks keep their names so that a template extending this one can still override them -/
inductive RNode where
  | seg (s : Seg)
  | block (n : Str) (body : List Seg)
  deriving Repr, DecidableEq

/-- what executing the document writes: a block executes its (effective) body in place -/
def flatten : List RNode → List Seg
  | [] => []
  | .seg s :: r => s :: flatten r
  | .block _ b :: r => b ++ flatten r

def ownBlocks : List RNode → List (Str × List Seg)
  | [] => []
  | .seg _ :: r => ownBlocks r
  | .block n b :: r => (n, b) :: ownBlocks r

/-- the parent's document with every block the child defines replaced by the child's body -/
def override (own : List (Str × List Seg)) : List RNode → List RNode
  | [] => []
  | .seg s :: r => .seg s :: override own r
  | .block n b :: r =>
    (match own.find? (fun d => d.1 == n) with
     | some d => RNode.block n d.2
     | none => RNode.block n b) :: override own r

/-- block bodies: an include is replaced by what the included template executes -/
def resolveB (rec : Str → LinkRes (List RNode)) (base : Str) : List BItem → LinkRes (List Seg)
  | [] => .ok []
  | .seg s :: r => (resolveB rec base r).map (s :: ·)
  | .incl f :: r =>
    match rec (absName base f) with
    | .ok nodes => (resolveB rec base r).map (flatten nodes ++ ·)
    | .err c => .err c
    | .unmodelled => .unmodelled

structure Linked where
  parent : Option (List RNode)
  own : List RNode

/-- the items of one file in document order (so that the first load error is the one reported) -/
def resolveItems (rec : Str → LinkRes (List RNode)) (base : Str) : List Item → LinkRes Linked
  | [] => .ok ⟨none, []⟩
  | .b (.seg s) :: r => (resolveItems rec base r).map fun l => { l with own := .seg s :: l.own }
  | .b (.incl f) :: r =>
    match rec (absName base f) with
    | .ok nodes => (resolveItems rec base r).map fun l => { l with own := (flatten nodes).map RNode.seg ++ l.own }
    | .err c => .err c
    | .unmodelled => .unmodelled
  | .ext f :: r =>
    match rec (absName base f) with
    | .ok nodes => (resolveItems rec base r).map fun l => { l with parent := some nodes }
    | .err c => .err c
    | .unmodelled => .unmodelled
  | .block n body :: r =>
    match resolveB rec base body with
    | .ok segs => (resolveItems rec base r).map fun l => { l with own := .block n segs :: l.own }
    | .err c => .err c
    | .unmodelled => .unmodelled

/-- parse + link one file's content; `rec` loads a referenced file -/
def linkContent (rec : Str → LinkRes (List RNode)) (base : Str) (content : Str) : LinkRes (List RNode) :=
  match parseItems content with
  | none => .unmodelled
  | some items =>
    match resolveItems rec base items with
    | .ok l =>
      .ok (match l.parent with
           | none => l.own
           | some p => override (ownBlocks l.own) p)
    | .err c => .err c
    | .unmodelled => .unmodelled

/-- `ConsulTemplateLoader.Get(path)`: NewQuery(path), then GetComponentConfiguration — no fallback for includes. -/
def readFile (t : List Leaf) (path : Str) : Option Str :=
  match parse path with
  | none => none
  | some q =>
    match getComponent t q with
    | .ok c => some c
    | _ => none

/-- `TemplateSet.FromFile(path)` with `fuel` levels of include/extends nesting (the code has no bound: a cyclic chain
    overflows the stack; with `fuel` > number of entries every acyclic chain is followed to its end). -/
def linkPath : Nat → List Leaf → Str → Str → LinkRes (List RNode)
  | 0, _, _, _ => .unmodelled
  | n + 1, t, base, path =>
    match readFile t path with
    | none => .err "load"
    | some content => linkContent (linkPath n t base) base content

/-- compile the template at `path` against the backend `t`: what `tplSet.FromCache(shortPath)` builds on a miss, for the
    set of `basePathOf path` -/
def compileP (t : List Leaf) (path : Str) : LinkRes (List Seg) :=
  (linkPath (t.length + 1) t (basePathOf path) path).map flatten

/-- `tpl.Execute(bindings)` under configuration `c`: context-key check, then substitution of the values -/
def execWith (c : Cfg) (segs : List Seg) (vars : List (Str × Str)) : Payload :=
  if (bindings vars).all (fun kv => validIdent kv.1) then
    .ok (renderSegs (fun n => c.subst (lookup (bindings vars) n)) segs)
  else .err "badident"

/-- `tpl.Execute(bindings)` in the code as it is (everything below — one service, many requests; requests in flight
    together — is the code as it is) -/
def execT (segs : List Seg) (vars : List (Str × Str)) : Payload := execWith codeCfg segs vars

/-! ## one service, many requests (apricot/local/service.go: `templateSets`, `templateSetForBasePath`,
       `InvalidateComponentTemplateCache`; pongo2 `TemplateSet.FromCache`)

  The only state a `Service` carries from one request to the next is `templateSets`: base path ↦ pongo2 TemplateSet,
  each with its `templateCache`: cleaned file name ↦ compiled template. For a printed query path `p` the base path is
  `basePathOf p` and the cleaned name is `Abs("", short) = p`, so both maps together are ONE map path ↦ compiled
  template. A template enters it when `FromCache` misses and `FromFile` succeeds (load, lex and parse errors are not
  cached), stays whatever the backend does afterwards, and leaves only with `InvalidateComponentTemplateCache` (which
  drops everything). The variables of a request are bound into a fresh map per request and never reach the set. -/

structure Svc where
  tree : List Leaf
  cache : List (Str × List Seg)

inductive Op where
  | proc (q : Query) (vars : List (Str × Str))     -- GetAndProcessComponentConfiguration
  | rproc (q : Query) (vars : List (Str × Str))    -- ResolveComponentQuery, then GetAndProcess… of the resolved query
  | get (q : Query)                                -- GetComponentConfiguration
  | inval                                          -- InvalidateComponentTemplateCache
  | put (key : Str) (content : Str)                -- the backend changes: `key` holds the value `content`
  | del (key : Str)                                -- the backend changes: `key` is gone
  deriving Repr

inductive Resp where
  | pay (p : Payload)
  | res (r : Option Query) (p : Payload)
  | dash
  deriving Repr, DecidableEq

def putLeaf (t : List Leaf) (key content : Str) : List Leaf :=
  ⟨splitOn '/' key, some content⟩ :: t.filter (fun l => l.path != splitOn '/' key)

def delLeaf (t : List Leaf) (key : Str) : List Leaf :=
  t.filter (fun l => l.path != splitOn '/' key)

/-- GetAndProcessComponentConfiguration(q, vars) on a service in state `s` -/
def procStep (s : Svc) (q : Query) (vars : List (Str × Str)) : Svc × Payload :=
  match s.cache.find? (fun e => e.1 == print q) with
  | some e => (s, execT e.2 vars)
  | none =>
    match compileP s.tree (print q) with
    | .ok segs => ({ s with cache := (print q, segs) :: s.cache }, execT segs vars)
    | .err c => (s, .err c)
    | .unmodelled => (s, .unmodelled)

def step (s : Svc) : Op → Svc × Resp
  | .proc q vars => let r := procStep s q vars; (r.1, .pay r.2)
  | .rproc q vars =>
    match resolve (yamlExists s.tree) q with
    | none => (s, .res none .dash)
    | some rq => let r := procStep s rq vars; (r.1, .res (some rq) r.2)
  | .get q => (s, .pay (getComponent s.tree q))
  | .inval => ({ s with cache := [] }, .dash)
  | .put key content => ({ s with tree := putLeaf s.tree key content }, .dash)
  | .del key => ({ s with tree := delLeaf s.tree key }, .dash)

/-- the responses of a whole history -/
def run (s : Svc) : List Op → List Resp
  | [] => []
  | op :: ops => (step s op).2 :: run (step s op).1 ops

/-- the state after a history -/
def after (s : Svc) : List Op → Svc
  | [] => s
  | op :: ops => after (step s op).1 ops

/-- the backend after a history: only `put` and `del` touch it -/
def treeAfter (t : List Leaf) : List Op → List Leaf
  | [] => t
  | .put key content :: r => treeAfter (putLeaf t key content) r
  | .del key :: r => treeAfter (delLeaf t key) r
  | _ :: r => treeAfter t r

/-- a service that has never answered a request -/
def freshSvc (t : List Leaf) : Svc := ⟨t, []⟩

/-- what a FRESH service answers: the reference the property's payload clause speaks about -/
def processT (t : List Leaf) (q : Query) (vars : List (Str × Str)) : Payload := (procStep (freshSvc t) q vars).2

/-- the history replayed with a fresh service for every request (the backend changes are kept) -/
def runFresh (t : List Leaf) : List Op → List Resp
  | [] => []
  | op :: ops => (step (freshSvc t) op).2 :: runFresh (step (freshSvc t) op).1.tree ops

/-- Hypothesis of the freshness theorem: no processed request between a backend change and the next invalidation
    (`seen`: something may be cached; `dirty`: the backend changed while something may have been cached). -/
def noStaleFrom (seen dirty : Bool) : List Op → Bool
  | [] => true
  | .proc _ _ :: r => !dirty && noStaleFrom true dirty r
  | .rproc _ _ :: r => !dirty && noStaleFrom true dirty r
  | .get _ :: r => noStaleFrom seen dirty r
  | .inval :: r => noStaleFrom false false r
  | .put _ _ :: r => noStaleFrom seen (dirty || seen) r
  | .del _ :: r => noStaleFrom seen (dirty || seen) r

def noStale (ops : List Op) : Bool := noStaleFrom false false ops

/-- two histories that differ at most in the variables of their requests -/
def sameButVars : List Op → List Op → Bool
  | [], [] => true
  | .proc q _ :: r, .proc q' _ :: r' => q == q' && sameButVars r r'
  | .rproc q _ :: r, .rproc q' _ :: r' => q == q' && sameButVars r r'
  | .get q :: r, .get q' :: r' => q == q' && sameButVars r r'
  | .inval :: r, .inval :: r' => sameButVars r r'
  | .put k c :: r, .put k' c' :: r' => k == k' && c == c' && sameButVars r r'
  | .del k :: r, .del k' :: r' => k == k' && sameButVars r r'
  | _, _ => false

/-! ## what the request path does with the shared template set (compared with go/ast's view of apricot/local) -/

/-- selectors applied to the cached `*pongo2.TemplateSet` inside GetAndProcessComponentConfiguration: it is only asked
    for the compiled template; in particular nothing of a request (variables, functions) is written into it. -/
def tplSetUses : List Str := [['F', 'r', 'o', 'm', 'C', 'a', 'c', 'h', 'e']]
/-- …and it is not passed on or assigned anywhere else -/
def tplSetOtherRefs : Nat := 0
/-- the functions of apricot/local that touch the map of template sets: the invalidation and the lookup-or-create -/
def templateSetsUsers : List Str := [
  ['I', 'n', 'v', 'a', 'l', 'i', 'd', 'a', 't', 'e', 'C', 'o', 'm', 'p', 'o', 'n', 'e', 'n', 't', 'T', 'e', 'm', 'p', 'l', 'a', 't', 'e', 'C', 'a', 'c', 'h', 'e'],
  ['t', 'e', 'm', 'p', 'l', 'a', 't', 'e', 'S', 'e', 't', 'F', 'o', 'r', 'B', 'a', 's', 'e', 'P', 'a', 't', 'h']]

end Query
