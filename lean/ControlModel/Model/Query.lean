/-
  Model/Query — component-configuration queries (C20).

  Anchors in /repo:
    configuration/componentcfg/query.go      NewQuery, NewEntriesQuery, NewQueryParameters, Raw/Path/AbsoluteRaw,
                                             WithFallbackRunType, WithFallbackRoleName, the three anchored regexps
    configuration/componentcfg/componentcfg.go  ConfigComponentsPath, SEPARATOR
    apricot/local/serviceutil.go             queryToAbsPath, resolveComponentQuery
    apricot/local/service.go                 GetComponentConfiguration, GetAndProcessComponentConfiguration
    configuration/cfgbackend/yamlsource.go   Exists, Get (map/value tree; array-indexed keys are NOT modelled)
    configuration/template/loader.go         ConsulTemplateLoader.Get (re-parses the printed path)

  Strings are `List Char` (Unicode scalar values; Go strings that are not valid UTF-8 are outside the model).
  Character classes are lists of inclusive code-point ranges so that they can be compared by `decide` with the
  tables `vh gen` obtains by evaluating the linked recognisers on every Unicode scalar value.

  Trusted / not modelled: Go's regexp engine (the recogniser below is hand-written from the pattern text; the pattern
  text and the per-position character classes are re-extracted on every run), pongo2 beyond the plain `{{ name }}`
  fragment (`lexTemplate` answers `none` = "outside the modelled fragment"), the per-base-path template cache.
  Core Lean only.
-/
import ControlModel.Basic

namespace Query

abbrev Str := List Char

/-! ## character classes -/

def inRanges (rs : List (Nat × Nat)) (c : Char) : Bool :=
  rs.any fun r => r.1 ≤ c.toNat && c.toNat ≤ r.2

/-- `[a-zA-Z0-9-_]` : `-`, digits, upper, `_`, lower. -/
def componentClass : List (Nat × Nat) := [(45, 45), (48, 57), (65, 90), (95, 95), (97, 122)]
/-- `[A-Z0-9-_]` -/
def runTypeClass : List (Nat × Nat) := [(45, 45), (48, 57), (65, 90), (95, 95)]
/-- `[a-z-A-Z0-9-_]` (same set as the component class). -/
def roleClass : List (Nat × Nat) := [(45, 45), (48, 57), (65, 90), (95, 95), (97, 122)]
/-- `[a-z-A-Z0-9-_/]` : the role class plus `/` (47). -/
def entryClass : List (Nat × Nat) := [(45, 45), (47, 57), (65, 90), (95, 95), (97, 122)]
/-- parameter key `[a-zA-Z0-9-_]` -/
def paramKeyClass : List (Nat × Nat) := [(45, 45), (48, 57), (65, 90), (95, 95), (97, 122)]
/-- parameter value `[a-zA-Z0-9-_,"\[\]]` : `"` `,` `-` digits upper `[` `]` `_` lower. -/
def paramValueClass : List (Nat × Nat) := [(34, 34), (44, 45), (48, 57), (65, 91), (93, 93), (95, 95), (97, 122)]
/-- what `strings.TrimSpace` removes (unicode.IsSpace). -/
def spaceClass : List (Nat × Nat) :=
  [(9, 13), (32, 32), (133, 133), (160, 160), (5760, 5760), (8192, 8202), (8232, 8233), (8239, 8239), (8287, 8287), (12288, 12288)]

def isComp (c : Char) : Bool := inRanges componentClass c
def isRT (c : Char) : Bool := inRanges runTypeClass c
def isRole (c : Char) : Bool := inRanges roleClass c
def isEntry (c : Char) : Bool := inRanges entryClass c
def isParamKey (c : Char) : Bool := inRanges paramKeyClass c
def isParamValue (c : Char) : Bool := inRanges paramValueClass c
def isSpace (c : Char) : Bool := inRanges spaceClass c

/-- The pattern texts the recognisers below were written from (compared with go/ast's view of query.go). -/
def inputFullRegexSrc : Str :=
  ['^', '(', '[', 'a', '-', 'z', 'A', '-', 'Z', '0', '-', '9', '-', '_', ']', '+', ')',
   '(', '\\', '/', '[', 'A', '-', 'Z', '0', '-', '9', '-', '_', ']', '+', ')', '{', '1', '}',
   '(', '\\', '/', '[', 'a', '-', 'z', '-', 'A', '-', 'Z', '0', '-', '9', '-', '_', ']', '+', ')', '{', '1', '}',
   '(', '\\', '/', '[', 'a', '-', 'z', '-', 'A', '-', 'Z', '0', '-', '9', '-', '_', '/', ']', '+', ')', '{', '1', '}', '$']
def inputEntriesRegexSrc : Str :=
  ['^', '(', '[', 'a', '-', 'z', 'A', '-', 'Z', '0', '-', '9', '-', '_', ']', '+', ')',
   '(', '\\', '/', '[', 'A', '-', 'Z', '0', '-', '9', '-', '_', ']', '+', ')', '{', '1', '}',
   '(', '\\', '/', '[', 'a', '-', 'z', '-', 'A', '-', 'Z', '0', '-', '9', '-', '_', ']', '+', ')', '{', '1', '}', '$']
def inputParametersRegexSrc : Str :=
  ['^', '(', '[', 'a', '-', 'z', 'A', '-', 'Z', '0', '-', '9', '-', '_', ']', '+', '=',
   '[', 'a', '-', 'z', 'A', '-', 'Z', '0', '-', '9', '-', '_', ',', '"', '\\', '[', '\\', ']', ']', '+', ')',
   '(', '&', '[', 'a', '-', 'z', 'A', '-', 'Z', '0', '-', '9', '-', '_', ']', '+', '=',
   '[', 'a', '-', 'z', 'A', '-', 'Z', '0', '-', '9', '-', '_', ',', '"', '\\', '[', '\\', ']', ']', '+', ')', '*', '$']

/-! ## strings.TrimSpace -/

def trimLeft (s : Str) : Str := s.dropWhile isSpace
def trimRight (s : Str) : Str := (s.reverse.dropWhile isSpace).reverse
def trim (s : Str) : Str := trimRight (trimLeft s)

/-! ## run types (apricotpb.RunType_name / RunType_value) -/

def runTypes : List (Nat × Str) := [
  (0, ['N', 'U', 'L', 'L']),
  (1, ['P', 'H', 'Y', 'S', 'I', 'C', 'S']),
  (2, ['T', 'E', 'C', 'H', 'N', 'I', 'C', 'A', 'L']),
  (3, ['P', 'E', 'D', 'E', 'S', 'T', 'A', 'L']),
  (4, ['P', 'U', 'L', 'S', 'E', 'R']),
  (5, ['L', 'A', 'S', 'E', 'R']),
  (6, ['C', 'A', 'L', 'I', 'B', 'R', 'A', 'T', 'I', 'O', 'N', '_', 'I', 'T', 'H', 'R', '_', 'T', 'U', 'N', 'I', 'N', 'G']),
  (7, ['C', 'A', 'L', 'I', 'B', 'R', 'A', 'T', 'I', 'O', 'N', '_', 'V', 'C', 'A', 'S', 'N', '_', 'T', 'U', 'N', 'I', 'N', 'G']),
  (8, ['C', 'A', 'L', 'I', 'B', 'R', 'A', 'T', 'I', 'O', 'N', '_', 'T', 'H', 'R', '_', 'S', 'C', 'A', 'N']),
  (9, ['C', 'A', 'L', 'I', 'B', 'R', 'A', 'T', 'I', 'O', 'N', '_', 'D', 'I', 'G', 'I', 'T', 'A', 'L', '_', 'S', 'C', 'A', 'N']),
  (10, ['C', 'A', 'L', 'I', 'B', 'R', 'A', 'T', 'I', 'O', 'N', '_', 'A', 'N', 'A', 'L', 'O', 'G', '_', 'S', 'C', 'A', 'N']),
  (11, ['C', 'A', 'L', 'I', 'B', 'R', 'A', 'T', 'I', 'O', 'N', '_', 'F', 'H', 'R']),
  (12, ['C', 'A', 'L', 'I', 'B', 'R', 'A', 'T', 'I', 'O', 'N', '_', 'A', 'L', 'P', 'I', 'D', 'E', '_', 'S', 'C', 'A', 'N']),
  (13, ['C', 'A', 'L', 'I', 'B', 'R', 'A', 'T', 'I', 'O', 'N']),
  (14, ['C', 'O', 'S', 'M', 'I', 'C', 'S']),
  (15, ['S', 'Y', 'N', 'T', 'H', 'E', 'T', 'I', 'C']),
  (16, ['N', 'O', 'I', 'S', 'E']),
  (17, ['C', 'A', 'L', 'I', 'B', 'R', 'A', 'T', 'I', 'O', 'N', '_', 'P', 'U', 'L', 'S', 'E', '_', 'L', 'E', 'N', 'G', 'T', 'H']),
  (18, ['C', 'A', 'L', 'I', 'B', 'R', 'A', 'T', 'I', 'O', 'N', '_', 'V', 'R', 'E', 'S', 'E', 'T', 'D']),
  (300, ['A', 'N', 'Y'])
]

/-- `RunType_name[int32(n)]`; a missing key of a Go map reads as "". -/
def nameIn (t : List (Nat × Str)) (n : Nat) : Str :=
  match t.find? (fun e => e.1 == n) with
  | some e => e.2
  | none => []

/-- `RunType_value[name]`. -/
def valueIn (t : List (Nat × Str)) (name : Str) : Option Nat :=
  (t.find? (fun e => e.2 == name)).map (·.1)

def runTypeName (n : Nat) : Str := nameIn runTypes n
def runTypeValue (name : Str) : Option Nat := valueIn runTypes name

def fallbackRunType : Nat := 300
def fallbackRoleName : Str := ['a', 'n', 'y']
def configComponentsPath : Str := ['o', '2', '/', 'c', 'o', 'm', 'p', 'o', 'n', 'e', 'n', 't', 's', '/']

/-! ## queries -/

structure Query where
  component : Str
  runType : Nat
  role : Str
  entry : Str
  deriving DecidableEq, Repr

/-- `Query.Raw()` (= `Query.Path()`): fields joined by "/". -/
def print (q : Query) : Str :=
  q.component ++ '/' :: runTypeName q.runType ++ '/' :: q.role ++ '/' :: q.entry

/-- `Query.AbsoluteRaw()`. -/
def absRaw (q : Query) : Str := configComponentsPath ++ print q

def withFallbackRunType (q : Query) : Query := { q with runType := fallbackRunType }
def withFallbackRoleName (q : Query) : Query := { q with role := fallbackRoleName }

/-- Recogniser for `^(C+)(/R+)(/L+)(/E+)$`, returning the four captures without their leading "/".
    `C`, `R`, `L` do not contain "/", so every `+` takes the maximal run; `E+` must reach the end. -/
def matchFull (s : Str) : Option (Str × Str × Str × Str) :=
  let c := s.takeWhile isComp
  match s.dropWhile isComp with
  | '/' :: r1 =>
    let rt := r1.takeWhile isRT
    match r1.dropWhile isRT with
    | '/' :: r2 =>
      let role := r2.takeWhile isRole
      match r2.dropWhile isRole with
      | '/' :: e =>
        if !c.isEmpty && !rt.isEmpty && !role.isEmpty && !e.isEmpty && e.all isEntry then some (c, rt, role, e) else none
      | _ => none
    | _ => none
  | _ => none

/-- Recogniser for `^(C+)(/R+)(/L+)$`. -/
def matchEntries (s : Str) : Option (Str × Str × Str) :=
  let c := s.takeWhile isComp
  match s.dropWhile isComp with
  | '/' :: r1 =>
    let rt := r1.takeWhile isRT
    match r1.dropWhile isRT with
    | '/' :: role =>
      if !c.isEmpty && !rt.isEmpty && !role.isEmpty && role.all isRole then some (c, rt, role) else none
    | _ => none
  | _ => none

/-- `componentcfg.NewQuery`: `none` = E_BAD_KEY. -/
def parse (s : Str) : Option Query :=
  match matchFull (trim s) with
  | some (c, rt, role, e) =>
    match runTypeValue rt with
    | some n => some ⟨c, n, role, e⟩
    | none => none
  | none => none

/-- `componentcfg.NewEntriesQuery` (component, run type, role). -/
def parseEntries (s : Str) : Option (Str × Nat × Str) :=
  match matchEntries (trim s) with
  | some (c, rt, role) =>
    match runTypeValue rt with
    | some n => some (c, n, role)
    | none => none
  | none => none

/-- A query every field of which could have been spelled in a query string. -/
def wf (q : Query) : Bool :=
  !q.component.isEmpty && q.component.all isComp &&
  runTypes.any (fun e => e.1 == q.runType) &&
  !q.role.isEmpty && q.role.all isRole &&
  !q.entry.isEmpty && q.entry.all isEntry

/-! ## query parameters -/

/-- `strings.Split(s, string d)`. -/
def splitOn (d : Char) : Str → List Str
  | [] => [[]]
  | c :: cs =>
    if c = d then [] :: splitOn d cs
    else match splitOn d cs with
      | [] => [[c]]
      | h :: t => (c :: h) :: t

/-- one `K+=V+` piece -/
def matchPair (p : Str) : Option (Str × Str) :=
  let k := p.takeWhile isParamKey
  match p.dropWhile isParamKey with
  | '=' :: v => if !k.isEmpty && !v.isEmpty && v.all isParamValue then some (k, v) else none
  | _ => none

/-- Recogniser for `^(K+=V+)(&K+=V+)*$`: neither class contains `&` or `=`. -/
def matchParams (s : Str) : Option (List (Str × Str)) :=
  (splitOn '&' s).mapM? matchPair

/-- `strconv.ParseBool` -/
def parseBool (s : Str) : Option Bool :=
  if s = ['1'] || s = ['t'] || s = ['T'] || s = ['T', 'R', 'U', 'E'] || s = ['t', 'r', 'u', 'e'] || s = ['T', 'r', 'u', 'e'] then some true
  else if s = ['0'] || s = ['f'] || s = ['F'] || s = ['F', 'A', 'L', 'S', 'E'] || s = ['f', 'a', 'l', 's', 'e'] || s = ['F', 'a', 'l', 's', 'e'] then some false
  else none

def strLt : Str → Str → Bool
  | [], [] => false
  | [], _ :: _ => true
  | _ :: _, [] => false
  | a :: as, b :: bs => if a.toNat < b.toNat then true else if b.toNat < a.toNat then false else strLt as bs

def insertSorted (kv : Str × Str) : List (Str × Str) → List (Str × Str)
  | [] => [kv]
  | x :: xs => if strLt kv.1 x.1 then kv :: x :: xs else x :: insertSorted kv xs

def sortByKey (l : List (Str × Str)) : List (Str × Str) := l.foldr insertSorted []

def hasDupKey : List (Str × Str) → Bool
  | [] => false
  | kv :: rest => rest.any (fun x => x.1 == kv.1) || hasDupKey rest

def processKey : Str := ['p', 'r', 'o', 'c', 'e', 's', 's']

/-- `componentcfg.NewQueryParameters`: `none` = an error; otherwise (ProcessTemplates, VarStack sorted by key).
    (`url.ParseQuery` does no unescaping here: the value class has no `%`, `+` or `;`.) -/
def parseParams (s : Str) : Option (Bool × List (Str × Str)) :=
  match matchParams (trim s) with
  | none => none
  | some kvs =>
    if hasDupKey kvs then none
    else
      let vars := sortByKey (kvs.filter (fun kv => kv.1 != processKey))
      match kvs.find? (fun kv => kv.1 == processKey) with
      | none => some (true, vars)
      | some kv =>
        match parseBool kv.2 with
        | some b => some (b, vars)
        | none => none

/-! ## the fallback (serviceutil.go: resolveComponentQuery) -/

/-- The code's four steps, literally: exact; `query.WithFallbackRunType()`; `query.WithFallbackRoleName()`;
    `resolved.WithFallbackRunType()` of the third. `ex` is the backend's `Exists` on absolute keys. -/
def resolve (ex : Str → Bool) (q : Query) : Option Query :=
  if ex (absRaw q) then some q
  else
    let r1 := withFallbackRunType q
    if ex (absRaw r1) then some r1
    else
      let r2 := withFallbackRoleName q
      if ex (absRaw r2) then some r2
      else
        let r3 := withFallbackRunType r2
        if ex (absRaw r3) then some r3 else none

/-- The same walk, returning the keys it asked `Exists` for, in order. -/
def probes (ex : Str → Bool) (q : Query) : List Str :=
  let k0 := absRaw q
  if ex k0 then [k0]
  else
    let k1 := absRaw (withFallbackRunType q)
    if ex k1 then [k0, k1]
    else
      let k2 := absRaw (withFallbackRoleName q)
      if ex k2 then [k0, k1, k2]
      else [k0, k1, k2, absRaw (withFallbackRunType (withFallbackRoleName q))]

/-- The order the PROPERTY demands: exact, any run type with that role, that run type with any role, any/any. -/
def specCandidates (q : Query) : List Query :=
  [q, { q with runType := fallbackRunType }, { q with role := fallbackRoleName },
   { q with runType := fallbackRunType, role := fallbackRoleName }]

/-- Abstract walk over the four candidates for an existence pattern (bit i = candidate i exists), in candidate
    numbers — the shape `vh gen` tabulates from the real code on a recording backend. -/
def walkPattern (pat : Nat) : List Nat × Option Nat :=
  let ex (i : Nat) : Bool := pat.testBit i
  let q : Query := ⟨['c'], 1, ['r'], ['e']⟩
  let cands := specCandidates q
  let idx (k : Str) : Nat := (cands.map absRaw).idxOf k
  let e (k : Str) : Bool := ex (idx k)
  ((probes e q).map idx, (resolve e q).map (fun r => idx (absRaw r)))

/-! ## the YAML backend (yamlsource.go), flattened

  The tree is given by its leaves: a value (`content = some _`) or an empty map (`none`), each with the list of map
  keys leading to it. Leaves are prefix-free in a tree. `Exists(k)` walks maps along `strings.Split(strings.Trim(k,
  "/"), "/")` and is true iff it arrives at ANY item (value or map); `Get(k)` additionally wants a value. -/

structure Leaf where
  path : List Str
  content : Option Str
  deriving Repr

/-- `strings.Trim(key, "/")` -/
def trimSlashes (s : Str) : Str :=
  ((s.dropWhile (· == '/')).reverse.dropWhile (· == '/')).reverse

def keySegs (key : Str) : List Str := splitOn '/' (trimSlashes key)

def yamlExists (t : List Leaf) (key : Str) : Bool :=
  t.any fun l => (keySegs key).isPrefixOf l.path

/-- `some content` iff the key names a value. -/
def yamlGet (t : List Leaf) (key : Str) : Option Str :=
  match t.find? (fun l => l.path == keySegs key) with
  | some l => l.content
  | none => none

/-- no leaf lies below (or at) another one -/
def prefixFree : List Leaf → Bool
  | [] => true
  | l :: rest => rest.all (fun m => !(l.path.isPrefixOf m.path) && !(m.path.isPrefixOf l.path)) && prefixFree rest

/-- results of the payload getters, by error class -/
inductive Payload where
  | ok (s : Str)
  | err (cls : String)
  | dash              -- not attempted
  | unmodelled        -- the content is outside the modelled template fragment
  deriving Repr, DecidableEq

/-- `Service.GetComponentConfiguration` over the YAML backend: `queryToAbsPath` (Exists) then `Get`. -/
def getComponent (t : List Leaf) (q : Query) : Payload :=
  if yamlExists t (absRaw q) then
    match yamlGet t (absRaw q) with
    | some v => .ok v
    | none => .err "notstring"
  else .err "nopayload"

/-! ## templates: the plain `{{ name }}` fragment of pongo2 -/

inductive Seg where
  | text (s : Str)
  | var (name : Str)
  deriving Repr, DecidableEq

def isIdentStart (c : Char) : Bool := inRanges [(65, 90), (95, 95), (97, 122)] c
def isIdentChar (c : Char) : Bool := inRanges [(48, 57), (65, 90), (95, 95), (97, 122)] c
/-- blanks allowed inside a tag (a newline is a lexer error) -/
def isTagSpace (c : Char) : Bool := c == ' ' || c == '\t' || c == '\r'

/-- pongo2 keywords (and `nil`), which are not plain variable names -/
def keywords : List Str :=
  [['i', 'n'], ['a', 'n', 'd'], ['o', 'r'], ['n', 'o', 't'], ['t', 'r', 'u', 'e'], ['f', 'a', 'l', 's', 'e'], ['a', 's'],
   ['e', 'x', 'p', 'o', 'r', 't'], ['n', 'i', 'l']]

/-- names bound by the service or by pongo2 itself in every execution (template.MakeUtilFuncMap, "pongo2") -/
def reservedNames : List Str := [
  ['A', 't', 'o', 'i'], ['D', 'u', 'm', 'p'], ['F', 'r', 'o', 'm', 'J', 's', 'o', 'n'], ['I', 's', 'F', 'a', 'l', 's', 'y'],
  ['I', 's', 'T', 'r', 'u', 't', 'h', 'y'], ['I', 't', 'o', 'a'], ['N', 'e', 'w', 'I', 'D'], ['N', 'u', 'l', 'l', 'a', 'b', 'l', 'e'],
  ['P', 'r', 'e', 'f', 'i', 'x', 'e', 'd', 'O', 'v', 'e', 'r', 'r', 'i', 'd', 'e'],
  ['S', 'u', 'f', 'f', 'i', 'x', 'I', 'n', 'R', 'a', 'n', 'g', 'e'], ['T', 'o', 'J', 's', 'o', 'n'], ['T', 'o', 'L', 'o', 'w', 'e', 'r'],
  ['T', 'o', 'U', 'p', 'p', 'e', 'r'], ['T', 'r', 'i', 'm', 'Q', 'u', 'o', 't', 'e', 's'], ['T', 'r', 'i', 'm', 'S', 'p', 'a', 'c', 'e'],
  ['j', 's', 'o', 'n'], ['s', 't', 'r', 'i', 'n', 'g', 's'], ['u', 'i', 'd'], ['u', 't', 'i', 'l']]

def pongo2Name : Str := ['p', 'o', 'n', 'g', 'o', '2']

def plainName (n : Str) : Bool := !keywords.contains n && !reservedNames.contains n && n != pongo2Name

inductive Mode where
  | text                  -- outside tags
  | pre                   -- after "{{", before the name
  | name (acc : Str)      -- inside the name (acc reversed)
  | post (name : Str)     -- after the name, before "}}"

def consChar (c : Char) : List Seg → List Seg
  | .text t :: more => .text (c :: t) :: more
  | segs => .text [c] :: segs

/-- Lexer+parser for the fragment  text | "{{" blanks name blanks "}}"  where text contains none of `{{ {% {#`.
    `none` = outside the fragment (tags, comments, filters, expressions, syntax errors …): unmodelled. -/
def lex : Mode → Str → Option (List Seg)
  | .text, [] => some []
  | .text, '{' :: '{' :: rest => lex .pre rest
  | .text, '{' :: '%' :: _ => none
  | .text, '{' :: '#' :: _ => none
  | .text, c :: rest => (lex .text rest).map (consChar c)
  | .pre, [] => none
  | .pre, c :: rest =>
    if isTagSpace c then lex .pre rest
    else if isIdentStart c then lex (.name [c]) rest
    else none
  | .name _, [] => none
  | .name acc, c :: rest =>
    if isIdentChar c then lex (.name (c :: acc)) rest
    else if isTagSpace c then lex (.post acc.reverse) rest
    else if c == '}' then
      match rest with
      | '}' :: rest' => if plainName acc.reverse then (lex .text rest').map (Seg.var acc.reverse :: ·) else none
      | _ => none
    else none
  | .post _, [] => none
  | .post n, c :: rest =>
    if isTagSpace c then lex (.post n) rest
    else if c == '}' then
      match rest with
      | '}' :: rest' => if plainName n then (lex .text rest').map (Seg.var n :: ·) else none
      | _ => none
    else none

def lexTemplate (content : Str) : Option (List Seg) := lex .text content

/-- pongo2's `escape` filter, applied to every string value under the default autoescape. -/
def escapeChar (c : Char) : Str :=
  if c == '&' then ['&', 'a', 'm', 'p', ';']
  else if c == '>' then ['&', 'g', 't', ';']
  else if c == '<' then ['&', 'l', 't', ';']
  else if c == '"' then ['&', 'q', 'u', 'o', 't', ';']
  else if c == '\'' then ['&', '#', '3', '9', ';']
  else [c]

def escape (s : Str) : Str := s.flatMap escapeChar

/-- value bound to a name; an unbound name renders as "". -/
def lookup (vars : List (Str × Str)) (n : Str) : Str :=
  match vars.find? (fun kv => kv.1 == n) with
  | some kv => kv.2
  | none => []

def renderSeg (sub : Str → Str) : Seg → Str
  | .text t => t
  | .var n => sub n

def renderSegs (sub : Str → Str) (segs : List Seg) : Str := segs.flatMap (renderSeg sub)

/-- `bindings[strings.TrimSpace(k)] = v` -/
def bindings (vars : List (Str × Str)) : List (Str × Str) := vars.map fun kv => (trim kv.1, kv.2)

/-- pongo2 `reIdentifiers` `^[a-zA-Z0-9_]+$` on every context key -/
def validIdent (k : Str) : Bool := !k.isEmpty && k.all isIdentChar

/-- What the CODE does with a template in the fragment: substitute the HTML-escaped value. -/
def render (content : Str) (vars : List (Str × Str)) : Option Str :=
  (lexTemplate content).map (renderSegs (fun n => escape (lookup (bindings vars) n)))

/-- What the PROPERTY asks for: substitute the supplied value itself. -/
def renderVerbatim (content : Str) (vars : List (Str × Str)) : Option Str :=
  (lexTemplate content).map (renderSegs (fun n => lookup (bindings vars) n))

/-- `Service.GetAndProcessComponentConfiguration(q, vars)` on a fresh service over the YAML backend:
    the template loader re-parses the printed path (`NewQuery(q.Path())`), fetches that entry with
    `GetComponentConfiguration`, pongo2 parses it, the context keys are checked, the template is executed. -/
def processComponent (t : List Leaf) (q : Query) (vars : List (Str × Str)) : Payload :=
  match parse (print q) with
  | none => .err "load"
  | some q' =>
    match getComponent t q' with
    | .ok content =>
      match lexTemplate content with
      | none => .unmodelled
      | some segs =>
        if (bindings vars).all (fun kv => validIdent kv.1) then
          .ok (renderSegs (fun n => escape (lookup (bindings vars) n)) segs)
        else .err "badident"
    | _ => .err "load"

end Query
