/-
  Model/QueryConc — CONCURRENT lookups on one apricot service over an unchanged configuration (C20).

  Anchors in /repo:
    apricot/local/serviceutil.go   queryToAbsPath (one `src.Exists`), resolveComponentQuery (up to four of them)
    apricot/local/service.go       GetComponentConfiguration (`src.Exists`, then `src.Get`), GetAndProcessComponentConfiguration
                                   (`templateSetForBasePath` under `templateSetsMu`, then `tplSet.FromCache`)
    pongo2 template_sets.go        FromCache: cache look-up, compile on a miss and insertion happen under the set's
                                   `templateCacheMutex` — ONE atomic step of the set
    configuration/cfgbackend/yamlsource.go  Exists / Get: `refresh()` (re-read and re-parse the file), take the snapshot
                                   `yc.data` once, walk it. One YamlSource is shared by all requests of a Service, without a lock.

  A request is a small program (`Prog`) whose atomic steps are the backend probes and the template-set step; the gRPC /
  HTTP front-ends run many of them at once on the same `Service`. `Conf.run` executes a pool of such programs under an
  arbitrary schedule (which thread takes its next step). The backend is a TREE THAT DOES NOT CHANGE: every probe reads
  the same `s.tree`. That is the model's assumption about the file backend when nobody modifies the file, and it is what
  `refreshDataWrites` / `readPathElemWrites` pin on the source: `refresh` assigns the shared snapshot exactly once on its
  success path, after the file has been read, parsed and converted completely (a probe therefore walks the previous
  complete tree or the new complete tree — the same tree for an unmodified file), clears it only on error exits (which
  an unmodified, well-formed file never takes), and no function of the lookup path writes into a published tree.
  (Trusted below that: a Go map value is one machine word, so the unsynchronised assignment/read of `yc.data` yields
  one of the two pointers; the race detector flags it, and on a weakly ordered machine the Go memory model promises
  nothing — noted in notes/C20.md.)

  Core Lean only.
-/
import ControlModel.Model.Query

namespace Query

/-! ## requests -/

/-- the requests of the concurrent class -/
inductive Req where
  | res (q : Query)                                 -- ResolveComponentQuery
  | get (q : Query)                                 -- GetComponentConfiguration
  | rget (q : Query)                                -- ResolveComponentQuery, then GetComponentConfiguration(resolved)
  | proc (q : Query) (vars : List (Str × Str))      -- GetAndProcessComponentConfiguration
  | rproc (q : Query) (vars : List (Str × Str))     -- ResolveComponentQuery, then GetAndProcess…(resolved, vars)
  deriving Repr

/-- THE SEQUENTIAL ANSWER: what the request is answered when it is issued alone on a fresh service over the tree `t`
    (the functions of Model/Query, which the lookup and history classes tie to the code). -/
def Req.answer (t : List Leaf) : Req → Resp
  | .res q => .res (resolve (yamlExists t) q) .dash
  | .get q => .pay (getComponent t q)
  | .rget q =>
    match resolve (yamlExists t) q with
    | none => .res none .dash
    | some rq => .res (some rq) (getComponent t rq)
  | .proc q vars => .pay (processT t q vars)
  | .rproc q vars =>
    match resolve (yamlExists t) q with
    | none => .res none .dash
    | some rq => .res (some rq) (processT t rq vars)

/-! ## requests as programs of atomic steps -/

/-- a request in flight: finished, or about to take one atomic step and continue with what the step returned -/
inductive Prog where
  | done (r : Resp)
  | ex (key : Str) (k : Bool → Prog)                       -- src.Exists(key)
  | get (key : Str) (k : Option Str → Prog)                -- src.Get(key): `some` = a value
  | tpl (path : Str) (k : LinkRes (List Seg) → Prog)       -- tplSet.FromCache (look-up, compile on a miss, insert)

/-- `resolveComponentQuery`: the four steps, one existence probe each -/
def resolveP (q : Query) (k : Option Query → Prog) : Prog :=
  .ex (absRaw q) fun b0 =>
    if b0 then k (some q)
    else .ex (absRaw (withFallbackRunType q)) fun b1 =>
      if b1 then k (some (withFallbackRunType q))
      else .ex (absRaw (withFallbackRoleName q)) fun b2 =>
        if b2 then k (some (withFallbackRoleName q))
        else .ex (absRaw (withFallbackRunType (withFallbackRoleName q))) fun b3 =>
          if b3 then k (some (withFallbackRunType (withFallbackRoleName q))) else k none

/-- `GetComponentConfiguration`: `queryToAbsPath` (Exists), then `Get` -/
def getP (q : Query) (k : Payload → Prog) : Prog :=
  .ex (absRaw q) fun b =>
    if b then .get (absRaw q) fun v =>
      k (match v with
         | some v => .ok v
         | none => .err "notstring")
    else k (.err "nopayload")

/-- `GetAndProcessComponentConfiguration`: the template-set step, then `tpl.Execute` with this request's bindings -/
def procP (q : Query) (vars : List (Str × Str)) (k : Payload → Prog) : Prog :=
  .tpl (print q) fun r =>
    k (match r with
       | .ok segs => execT segs vars
       | .err c => .err c
       | .unmodelled => .unmodelled)

def progOf : Req → Prog
  | .res q => resolveP q fun r => .done (.res r .dash)
  | .get q => getP q fun p => .done (.pay p)
  | .rget q => resolveP q fun r =>
      match r with
      | none => .done (.res none .dash)
      | some rq => getP rq fun p => .done (.res (some rq) p)
  | .proc q vars => procP q vars fun p => .done (.pay p)
  | .rproc q vars => resolveP q fun r =>
      match r with
      | none => .done (.res none .dash)
      | some rq => procP rq vars fun p => .done (.res (some rq) p)

/-- ONE ATOMIC STEP of a request on the shared service: a probe reads the (unchanging) tree, the template-set step may
    add a compiled template to the shared cache. -/
def Prog.step (s : Svc) : Prog → Svc × Prog
  | .done r => (s, .done r)
  | .ex key k => (s, k (yamlExists s.tree key))
  | .get key k => (s, k (yamlGet s.tree key))
  | .tpl path k =>
    match s.cache.find? (fun e => e.1 == path) with
    | some e => (s, k (.ok e.2))
    | none =>
      match compileP s.tree path with
      | .ok segs => ({ s with cache := (path, segs) :: s.cache }, k (.ok segs))
      | .err c => (s, k (.err c))
      | .unmodelled => (s, k .unmodelled)

/-- what a program computes when it runs to its end, alone, against the tree `t` with nothing cached -/
def Prog.eval (t : List Leaf) : Prog → Resp
  | .done r => r
  | .ex key k => Prog.eval t (k (yamlExists t key))
  | .get key k => Prog.eval t (k (yamlGet t key))
  | .tpl path k => Prog.eval t (k (compileP t path))

def Prog.result? : Prog → Option Resp
  | .done r => some r
  | _ => none

/-- `DoneWithin n p`: whatever the steps return, `p` is finished after at most `n` of them -/
inductive DoneWithin : Nat → Prog → Prop where
  | done (n : Nat) (r : Resp) : DoneWithin n (.done r)
  | ex (n : Nat) (key : Str) (k : Bool → Prog) (h : ∀ b, DoneWithin n (k b)) : DoneWithin (n + 1) (.ex key k)
  | get (n : Nat) (key : Str) (k : Option Str → Prog) (h : ∀ v, DoneWithin n (k v)) : DoneWithin (n + 1) (.get key k)
  | tpl (n : Nat) (path : Str) (k : LinkRes (List Seg) → Prog) (h : ∀ r, DoneWithin n (k r)) : DoneWithin (n + 1) (.tpl path k)

/-! ## many requests at once -/

/-- the shared service and the requests in flight (thread i runs `pool[i]`) -/
structure Conf where
  svc : Svc
  pool : List Prog

/-- thread `i` takes its next atomic step (nothing happens if there is no such thread or it has finished) -/
def Conf.stepAt (c : Conf) (i : Nat) : Conf :=
  match c.pool[i]? with
  | none => c
  | some p => ⟨(p.step c.svc).1, c.pool.set i (p.step c.svc).2⟩

/-- a schedule: which thread moves next, for as long as the list goes — ANY interleaving of the atomic steps -/
def Conf.run (c : Conf) : List Nat → Conf
  | [] => c
  | i :: rest => (c.stepAt i).run rest

/-- all requests are accepted at once by a service that has never answered anything -/
def startConf (t : List Leaf) (reqs : List Req) : Conf := ⟨freshSvc t, reqs.map progOf⟩

/-- the answer thread `i` has produced, if it has finished -/
def Conf.answer? (c : Conf) (i : Nat) : Option Resp := c.pool[i]?.bind Prog.result?

/-- every thread in turn, `n` times over -/
def roundRobin (threads n : Nat) : List Nat := (List.replicate n (List.range threads)).flatten

/-! ## what the model assumes about the backend (compared with go/ast's view of yamlsource.go) -/

/-- every assignment to the shared snapshot `yc.data` in `(*YamlSource).refresh`, in source order:
    (the value is nil, the statement sits in a block that ends in `return` — an error exit —, it comes after the call of
    `intfToItem`, i.e. after the file was read, parsed and converted). The three parse-error branches clear the snapshot;
    the success path assigns it once, at the very end. -/
def refreshDataWrites : List (Bool × Bool × Bool) :=
  [(true, true, false), (true, true, true), (true, true, true), (false, false, true)]

/-- statements that change an element of a map or slice in the lookup path of YamlSource (refresh, Exists, Get,
    GetRecursive, IsDir, GetKeysByPrefix): none — a published tree is never modified by a reader -/
def readPathElemWrites : Nat := 0

/-- what the concurrency theorems need of those facts: the snapshot is cleared only on error exits, and a tree is
    published only outside them, after it has been built completely, exactly once -/
def publishesOnlyCompleteTrees (ws : List (Bool × Bool × Bool)) : Bool :=
  ws.all (fun w => if w.1 then w.2.1 else !w.2.1 && w.2.2) && (ws.filter (fun w => !w.1)).length == 1

end Query
