/-
  Model/Reconcile — lives of the core, the persisted framework id, the master's task table and
  reconciliation (C18).  Core Lean only.

  Anchors (/repo):
    core/task/manager.go  NewManager
        fidStore := DecorateSingleton(InMemorySingleton, DoSet().AndThen(SetRuntimeEntry("aliecs","mesos_fid", v)))
        if v, err := GetRuntimeEntry("aliecs","mesos_fid"); err == nil { fidStore.Set(v) }      -- `coreStart`
        roster: newRoster()                                                                    -- empty in every life
    mesos-go extras/scheduler/controller  Run
        frameworkID := fidStore.Get(); if failover_timeout > 0 && frameworkID != "" { subscribe.With(SubscribeTo(id)) }
        caller.Call(subscribe) ; eventLoop                                                     -- `subscribe`
    core/task/scheduler.go  buildEventHandler, Event_SUBSCRIBED:
        controller.TrackSubscription(fidStore, failoverTimeout)   -- stored ≠ "" ∧ stored ≠ got ∧ failover>0 ⇒ StateError ⇒ shutdown
                                                                  -- stored ≠ got ⇒ fidStore.Set(got)  (⇒ mesos_fid written)
        reconciliationCall(): calls.Reconcile(calls.ReconcileTasks(nil))    -- implicit RECONCILE on EVERY SUBSCRIBED
      Event_UPDATE: statusUpdate() pushes NewTaskStatusMessage(s) into taskman.MessageChannel   -- `read` of an update
    core/task/manager.go  Start: one goroutine drains MessageChannel through handleMessage      -- `handle`
      handleMessage, taskop.TaskStatusMessage:
        if reason == "REASON_RECONCILIATION" && state ∈ {STAGING, STARTING, RUNNING, KILLING, UNKNOWN}
           { calls.Kill(taskID, agentID) }                -- NO roster test ("Reconcilation tasks are not part of the taskman.roster")
        else { go m.updateTaskStatus(&status) }           -- RUNNING ⇒ ACTIVE, terminal ⇒ INACTIVE (roster tasks only)
      releaseTasks / KillTasks / Cleanup / doKillTasks: unlock, drop non-ACTIVE tasks from the roster, KILL the ACTIVE ones.
        doKillTasks writes the roster TWICE, with the Mesos KILL calls (one HTTP round trip each, up to
        mesosApiTimeout) in between:
          m.roster.updateTasks(m.roster.filtered(not in `tasks`))     -- `releaseBegin`: the tasks are out of the roster
          for ACTIVE task: if doKillTask(task) fails { m.roster.append(task) } -- `releaseEnd`: only FAILED tasks go back,
                                                                               each by an append of that one task
        Nothing else writes the roster: acquireTasks `m.roster.append(taskPtr)` per deployed task (`launch`).
        No lock is shared between doKillTasks and acquireTasks: deployments of OTHER environments complete inside
        the window (any steps may come between `releaseBegin e` and `releaseEnd e`). An append commutes with a
        concurrent append; writing back a SNAPSHOT taken before the calls would not (`Cfg.snapshotRewrite`, the
        shape the go/ast fact `killTasksRosterWrites` excludes: a task appended inside the window would be lost from
        the roster although it runs and its environment holds it — `C18_stale_snapshot_kills_owned`).
        (Each `updateTasks(filtered(..))` is one expression — read lock, release, write lock — taken as atomic here:
        no call sits between its read and its write.)
    core/environment: a task role holds its task (role.SetTask / Task.parent) from the end of a successful
        acquireTasks until the environment is torn down — `St.held`, independent of the roster, observed through
        GetEnvironments(showTaskInfos)
    core/signals.go  SIGTERM: tear every environment down, Cleanup, EmergencyKillTasks(roster), exit   -- `coreTerm`

  The master side is Mesos as documented upstream (trusted, stood in for by harness/sim): SUBSCRIBE with a
  framework id keeps it, without one a fresh id is assigned; an implicit RECONCILE is answered with the latest
  state of every non-terminal task of the framework, reason REASON_RECONCILIATION (`World.answers` makes that
  assumption explicit: theorems that need it carry `∀ n t, W.answers n t = true`); a dropped stream loses what
  was in flight; status updates of a task go to its framework only.

  Two queues are modelled because two goroutines exist: `hello`/`queue` is the event stream (lost with the
  connection), `inbox` is taskman's MessageChannel (survives a re-subscription, dies with the process).
  A history is a `List Step`; a step that is not enabled leaves the state unchanged, so every list is a history.
-/

namespace Reconcile

/-- mesos.TaskState -/
inductive MState where
  | staging | starting | running | killing
  | finished | failed | killed | error | lost | dropped | gone | goneByOperator
  | unreachable | unknown
  deriving DecidableEq, Repr, Inhabited

/-- Mesos' `isTerminalState`. -/
def MState.terminal : MState → Bool
  | .finished | .failed | .killed | .error | .lost | .dropped | .gone | .goneByOperator => true
  | _ => false

/-- The states `updateTaskStatus` turns into INACTIVE. -/
def MState.inactivates : MState → Bool
  | .dropped | .lost | .killed | .failed | .error | .finished => true
  | _ => false

inductive Reason where
  | none | recon
  deriving DecidableEq, Repr, Inhabited

/-- What the code is, as far as this property is concerned. `Props/C18.lean` ties every field to a
    go/ast fact regenerated on each run. -/
structure Cfg where
  /-- NewManager seeds the in-memory framework-id store from the runtime entry `mesos_fid` -/
  seedFid : Bool
  /-- the store's Set hook writes the id back to `mesos_fid` -/
  persistFid : Bool
  /-- FrameworkInfo.failover_timeout > 0 (only then does SUBSCRIBE carry the stored id, and only then does
      TrackSubscription refuse a changed id) -/
  failover : Bool
  /-- an implicit RECONCILE call is issued on every SUBSCRIBED -/
  reconcileOnSubscribed : Bool
  /-- the KILL branch of handleMessage requires reason = REASON_RECONCILIATION -/
  reasonGuard : Bool
  /-- the task states listed in the KILL branch -/
  killStates : List MState
  /-- the KILL branch additionally requires the task to be unknown to the roster (notes/C18.fix.patch) -/
  rosterGuard : Bool
  /-- doKillTasks writes the roster snapshot it took BEFORE its KILL calls back AFTER them (plus the tasks whose
      KILL failed) instead of appending the failed tasks one by one. NOT what the code does (`false` in both
      configurations below, tied to the go/ast fact `killTasksRosterWrites`); modelled to show what the roster
      invariant `C18_roster_complete` — and with it `C18_owned_spared_fixed` — depends on. -/
  snapshotRewrite : Bool := false
  deriving DecidableEq, Repr

def Cfg.killable (c : Cfg) (s : MState) : Bool := c.killStates.contains s

/-- The code at the pinned commit. -/
def unguardedCfg : Cfg :=
  { seedFid := true, persistFid := true, failover := true, reconcileOnSubscribed := true, reasonGuard := true,
    killStates := [.staging, .starting, .running, .killing, .unknown], rosterGuard := false,
    snapshotRewrite := false }

/-- The same with the roster test of notes/C18.fix.patch. -/
def guardedCfg : Cfg := { unguardedCfg with rosterGuard := true }

/-- NOT the code: the guarded configuration with a doKillTasks that writes its roster snapshot back after the
    KILL calls. Only used to show what `C18_roster_complete` and `C18_owned_spared_fixed` depend on. -/
def staleCfg : Cfg := { guardedCfg with snapshotRewrite := true }

/-- The master's side of reconciliation: does the answer to the `n`-th RECONCILE include task `t`? -/
structure World where
  answers : Nat → Nat → Bool

/-- Mesos as documented: every non-terminal task of the framework is reported. -/
def World.complete : World := { answers := fun _ _ => true }

/-- A status update (task, state, reason) on the subscription stream / in taskman's channel. -/
abbrev Upd := Nat × MState × Reason

/-- A row of the master's task table. -/
structure MTask where
  id : Nat
  fid : Nat
  life : Nat
  env : Nat
  state : MState
  deriving DecidableEq, Repr

/-- A roster entry (core/task/task.go): locked = has a parent role, i.e. belongs to an environment. -/
structure RTask where
  id : Nat
  env : Nat
  locked : Bool
  active : Bool
  deriving DecidableEq, Repr

/-- A teardown whose KILL calls are in flight (doKillTasks between its two roster writes): the environment, the
    roster as written by the first write (only read back under `Cfg.snapshotRewrite`), the ACTIVE tasks being killed. -/
structure Teardown where
  env : Nat
  snap : List RTask
  act : List Nat
  deriving DecidableEq, Repr

/-- Why a KILL call was made. -/
inductive Why where
  | update (r : Reason)   -- handleMessage's KILL branch, with the reason of the update that triggered it
  | release               -- environment teardown (KillTasks)
  | term                  -- SIGTERM (EmergencyKillTasks)
  deriving DecidableEq, Repr

/-- What the core does that is visible outside (calls to the master, writes to the configuration store),
    plus `snap`: an observer's note "the system is quiescent; these tasks of earlier lives are still alive
    at the master". `owned` of a KILL = when the call was made the task was in the roster and locked, or a live
    environment held it (`St.held`; the two coincide in every reachable state of the code as it is:
    `C18_owned_is_held`). -/
inductive Out where
  | subscribe (life : Nat) (carry : Option Nat)
  | persist (life : Nat) (f : Nat)
  | reconcile (life : Nat)
  | kill (life : Nat) (t : Nat) (why : Why) (owned : Bool)
  | stateError (life : Nat)
  | snap (life : Nat) (orphans : List Nat)
  deriving DecidableEq, Repr

structure St where
  /-- runtime entry aliecs/mesos_fid -/
  kv : Option Nat
  -- the core process
  alive : Bool
  life : Nat
  fidMem : Option Nat
  roster : List RTask
  /-- what the live environments hold, (task, environment): role.SetTask at the end of a successful deployment,
      until the environment is torn down. The ground truth of "owned", independent of the roster. -/
  held : List (Nat × Nat) := []
  /-- teardowns between their two roster writes (KILL calls in flight), oldest first -/
  tearing : List Teardown := []
  /-- taskman.MessageChannel: status updates read off the stream, not yet handled -/
  inbox : List Upd
  -- the master
  /-- framework id of the connected subscription stream -/
  stream : Option Nat
  /-- SUBSCRIBED{framework id}: always the first event of a stream; `some` until the event loop has read it -/
  hello : Option Nat
  /-- the status updates on the stream behind it -/
  queue : List Upd
  tasks : List MTask
  nextFid : Nat
  recons : Nat
  /-- task ids that were ever mentioned (ids generated by the core are fresh) -/
  seen : List Nat
  /-- newest first -/
  log : List Out
  deriving Repr

/-- Before the first life; `kv0` is what an earlier installation may have left in `mesos_fid`. -/
def init (kv0 : Option Nat) : St :=
  { kv := kv0, alive := false, life := 0, fidMem := none, roster := [], held := [], tearing := [], inbox := [],
    stream := none, hello := none, queue := [], tasks := [], nextFid := (match kv0 with | some f => f + 1 | none => 0),
    recons := 0, seen := [],
    log := (match kv0 with | some f => [Out.persist 0 f] | none => []) }

inductive Step where
  /-- a core process is started (only if none is alive) -/
  | coreStart
  /-- SIGKILL / crash -/
  | coreKill
  /-- SIGTERM: the core's own shutdown path -/
  | coreTerm
  /-- the scheduler controller sends SUBSCRIBE; the master opens the stream and puts SUBSCRIBED on it -/
  | subscribe
  /-- the master (or the network) severs the subscription -/
  | drop
  /-- the event loop takes the next event off the stream -/
  | read
  /-- taskman handles the next message of its channel -/
  | handle
  /-- the core launches task `t` for environment `e` (ACCEPT) -/
  | launch (e t : Nat)
  /-- the task's executor/agent reports a new state: master table + UPDATE to the task's framework -/
  | status (t : Nat) (s : MState)
  /-- the master sends a reconciliation update of its own accord (explicit reconciliation, unknown task, …) -/
  | reconUpdate (t : Nat) (s : MState)
  /-- environment `e` is torn down (both roster writes and the KILL calls between them, nothing interleaved) -/
  | release (e : Nat)
  /-- teardown of environment `e`, first half: the environment lets go of its tasks, doKillTasks takes them out
      of the roster; the KILL calls for the ACTIVE ones are now in flight -/
  | releaseBegin (e : Nat)
  /-- … second half: the KILL calls of the oldest teardown of `e` in flight have returned — sent (stream up) or
      failed (then the tasks go back to the roster, unlocked, one append each) -/
  | releaseEnd (e : Nat)
  /-- observer: note which tasks of earlier lives are still alive (only when quiescent) -/
  | snapshot
  deriving DecidableEq, Repr

def inRoster (r : List RTask) (t : Nat) : Bool := r.any (fun x => x.id == t)
def lockedIn (r : List RTask) (t : Nat) : Bool := r.any (fun x => x.id == t && x.locked)
def heldBy (h : List (Nat × Nat)) (t : Nat) : Bool := h.any (fun p => p.1 == t)

/-- a task put back by doKillTasks after a failed KILL: unlocked (its environment is gone), still ACTIVE -/
def putBack (e t : Nat) : RTask := { id := t, env := e, locked := false, active := true }

/-- SUBSCRIBED of the current stream has been handled (offers, hence launches, can only come after it). -/
def St.connected (s : St) : Bool := s.stream.isSome && s.hello.isNone

/-- The process is gone: everything in memory and the connection with it. -/
def St.exit (s : St) : St :=
  { s with alive := false, roster := [], held := [], tearing := [], inbox := [], stream := none, hello := none, queue := [] }

/-- The master's answer to the `n`-th implicit RECONCILE of framework `f`. -/
def answerOf (W : World) (n f : Nat) (tasks : List MTask) : List Upd :=
  (tasks.filter (fun t => !t.state.terminal && t.fid == f && W.answers n t.id)).map
    (fun t => (t.id, t.state, Reason.recon))

/-- `updateTaskStatus` on the roster. -/
def setActive (r : List RTask) (t : Nat) (st : MState) : List RTask :=
  r.map (fun x => if x.id == t then
    (if st == .running then { x with active := true } else if st.inactivates then { x with active := false } else x)
    else x)

/-- Tasks of earlier lives the master still holds in a state the KILL branch lists. -/
def orphans (c : Cfg) (s : St) : List Nat :=
  (s.tasks.filter (fun t => decide (t.life < s.life) && c.killable t.state)).map (·.id)

def killsFor (life : Nat) (why : Why) (ts : List RTask) : List Out :=
  ts.map (fun x => Out.kill life x.id why x.locked)

def step (c : Cfg) (W : World) (s : St) : Step → St
  | .coreStart =>
    if s.alive then s else
    { s with alive := true, life := s.life + 1, fidMem := (if c.seedFid then s.kv else none),
             roster := [], held := [], tearing := [], inbox := [] }
  | .coreKill => if s.alive then s.exit else s
  | .coreTerm =>
    if !s.alive then s else
    let ks := if s.stream.isSome then killsFor s.life .term ((s.roster.filter (·.active)).reverse) else []
    { s.exit with log := ks ++ s.log }
  | .subscribe =>
    if !s.alive || s.stream.isSome then s else
    let carry := if c.failover then s.fidMem else none
    match carry with
    | some f => { s with stream := some f, hello := some f, queue := [],
                         log := .subscribe s.life carry :: s.log }
    | none => { s with stream := some s.nextFid, hello := some s.nextFid, queue := [], nextFid := s.nextFid + 1,
                       log := .subscribe s.life none :: s.log }
  | .drop => if s.stream.isSome then { s with stream := none, hello := none, queue := [] } else s
  | .read =>
    if !s.alive then s else
    match s.hello with
    | some f =>
      if s.fidMem.isSome && s.fidMem != some f && c.failover then
        { s.exit with log := .stateError s.life :: s.log }
      else
        let s1 : St := if s.fidMem != some f then
            { s with fidMem := some f, kv := (if c.persistFid then some f else s.kv),
                     log := (if c.persistFid then .persist s.life f :: s.log else s.log) }
          else s
        if c.reconcileOnSubscribed then
          { s1 with hello := none, queue := s.queue ++ answerOf W s.recons f s.tasks, recons := s.recons + 1,
                    log := .reconcile s.life :: s1.log }
        else { s1 with hello := none }
    | none =>
      match s.queue with
      | [] => s
      | u :: rest => { s with queue := rest, inbox := s.inbox ++ [u] }
  | .handle =>
    if !s.alive then s else
    match s.inbox with
    | [] => s
    | (t, st, r) :: rest =>
      if (!c.reasonGuard || r == .recon) && c.killable st && (!c.rosterGuard || !inRoster s.roster t) then
        { s with inbox := rest,
                 log := (if s.stream.isSome then .kill s.life t (.update r) (lockedIn s.roster t || heldBy s.held t) :: s.log
                         else s.log) }
      else { s with inbox := rest, roster := setActive s.roster t st }
  | .launch e t =>
    match s.stream with
    | none => s
    | some f =>
      if !s.alive || s.hello.isSome || s.seen.contains t then s else
      { s with roster := s.roster ++ [{ id := t, env := e, locked := true, active := false }],
               held := s.held ++ [(t, e)],
               tasks := s.tasks ++ [{ id := t, fid := f, life := s.life, env := e, state := .staging }],
               seen := t :: s.seen }
  | .status t st =>
    match s.tasks.find? (fun x => x.id == t) with
    | none => s
    | some x =>
      if x.state.terminal then s else
      { s with tasks := s.tasks.map (fun y => if y.id == t && !y.state.terminal then { y with state := st } else y),
               queue := (if s.stream == some x.fid then s.queue ++ [(t, st, .none)] else s.queue) }
  | .reconUpdate t st =>
    if s.stream.isSome then { s with queue := s.queue ++ [(t, st, .recon)], seen := t :: s.seen } else s
  | .release e =>
    if !s.alive then s else
    let mine := s.roster.filter (fun x => x.env == e)
    let rest := s.roster.filter (fun x => x.env != e)
    let held := s.held.filter (fun p => p.2 != e)
    if s.stream.isSome then
      { s with roster := rest, held := held,
               log := killsFor s.life .release (((mine.filter (·.active)).map (fun x => { x with locked := false })).reverse) ++ s.log }
    else
      -- the KILL calls fail: doKillTasks puts the ACTIVE ones back (unlocked), the others are forgotten
      { s with roster := rest ++ (mine.filter (·.active)).map (fun x => { x with locked := false }), held := held }
  | .releaseBegin e =>
    if !s.alive then s else
    let mine := s.roster.filter (fun x => x.env == e)
    let rest := s.roster.filter (fun x => x.env != e)
    { s with roster := rest, held := s.held.filter (fun p => p.2 != e),
             tearing := s.tearing ++ [{ env := e, snap := rest, act := (mine.filter (·.active)).map (·.id) }] }
  | .releaseEnd e =>
    if !s.alive then s else
    match s.tearing.find? (fun d => d.env == e) with
    | none => s
    | some d =>
      let tearing := s.tearing.eraseP (fun d => d.env == e)
      if s.stream.isSome then
        { s with tearing := tearing, roster := (if c.snapshotRewrite then d.snap else s.roster),
                 log := killsFor s.life .release ((d.act.map (putBack e)).reverse) ++ s.log }
      else
        { s with tearing := tearing,
                 roster := (if c.snapshotRewrite then d.snap else s.roster) ++ d.act.map (putBack e) }
  | .snapshot =>
    if s.alive && s.connected && s.queue.isEmpty && s.inbox.isEmpty then
      { s with log := .snap s.life (orphans c s) :: s.log }
    else s

def run (c : Cfg) (W : World) : List Step → St → St
  | [], s => s
  | x :: xs, s => run c W xs (step c W s x)

theorem run_append (c : Cfg) (W : World) (h1 h2 : List Step) (s : St) :
    run c W (h1 ++ h2) s = run c W h2 (run c W h1 s) := by
  induction h1 generalizing s with
  | nil => rfl
  | cons x xs ih => simp [run, ih]

/-! ## the hypothesis that excludes the finding -/

/-- Step `x` taken in state `s` is not a (re-)subscription while the roster holds a locked task, nor a
    reconciliation update volunteered by the master for a locked task. -/
def reconnOk (s : St) : Step → Bool
  | .subscribe => !(s.alive && !s.stream.isSome) || !s.roster.any (·.locked)
  | .reconUpdate t _ => !lockedIn s.roster t
  | _ => true

/-- "The connection to the master is never (re-)established while an environment is up":
    `reconnOk` holds at every step of the history. -/
def noReconnWhileOwning (c : Cfg) (W : World) : List Step → St → Bool
  | [], _ => true
  | x :: xs, s => reconnOk s x && noReconnWhileOwning c W xs (step c W s x)

end Reconcile
