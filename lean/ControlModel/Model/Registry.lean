/-
  Model/Registry — the writer registry of the core, core/the/eventwriter.go (core Lean only):

      var writers = make(map[topic.Topic]event.Writer);  var mu sync.Mutex

      func createOrGetWriter(topic) event.Writer {        EventWriter() / EventWriterWithTopic(t)
          mu.Lock(); defer mu.Unlock()                     → `enter c t`
          if writer, ok := writers[topic]; ok {            → `look c`
              return writer }                              → `ret c`
          writers[topic] = event.NewWriterWithTopic(topic) → `create c`  (creation AND registration)
          return writers[topic] }                          → `ret c`

      func ClearEventWriters() {                           shutdown
          mu.Lock(); defer mu.Unlock()                     → `enterClear k`
          for _, writer := range writers { writer.Close() }
          clear(writers) }                                 → `closeAll k` … `retClear k`

  Any number of callers (goroutines); a schedule is a `List Step`, a step that is not enabled
  when its turn comes is skipped (`run`).  The mutex is state: `holders` are the callers inside
  createOrGetWriter, `clearer` the one inside ClearEventWriters.  `Cfg.exclusive` says whether the
  section "lookup … registration" of createOrGetWriter excludes every other caller of it — true
  for the code as it is (one sync.Mutex, taken with Lock as the first statement, released by a
  deferred Unlock: go/ast, `C19_registry_is_code`); with `exclusive := false` several callers may
  be between their lookup and their registration at the same time (a read-locked or unlocked
  lookup), which is what the theorems need excluded (`C19_registry_needs_exclusive_section`).
  ClearEventWriters excludes everybody in both configurations.

  Writers are numbered in creation order (`next`).  `closeAll` stands for the whole loop: Close is
  called on every registered writer and has returned (that it returns, and what it has flushed by
  then, is the writer model: `C19_close_terminates_code`, `C19_flush_code`); the map is emptied and
  a new epoch begins.  Ghost fields: `handed` — what has been returned to whom since the last
  shutdown; `everHanded` — every writer ever returned to a caller; `closed` — writers closed so far.
-/
import ControlModel.Basic

namespace Registry

abbrev Topic := Nat
abbrev WId := Nat
abbrev Caller := Nat

structure Cfg where
  exclusive : Bool := true
  deriving Repr, DecidableEq

/-- The code as it is. -/
def codeCfg : Cfg := { exclusive := true }
/-- A registry whose lookup is not in one exclusive section with the registration. -/
def sharedCfg : Cfg := { exclusive := false }

/-- Where a caller is. -/
inductive Pc where
  | idle
  | locked (t : Topic)            -- inside createOrGetWriter, before the lookup
  | missed (t : Topic)            -- the lookup found nothing
  | found (t : Topic) (w : WId)   -- has the writer it is going to return
  | clearing                      -- inside ClearEventWriters, before the loop
  | cleared                       -- every registered writer closed, map emptied
  deriving Repr, DecidableEq, Inhabited

/-! ### the map -/

def find : List (Topic × WId) → Topic → Option WId
  | [], _ => none
  | (k, v) :: rest, t => if k = t then some v else find rest t

/-- `writers[t] = v` (insert or overwrite). -/
def put : List (Topic × WId) → Topic → WId → List (Topic × WId)
  | [], t, v => [(t, v)]
  | (k, v') :: rest, t, v => if k = t then (t, v) :: rest else (k, v') :: put rest t v

/-- The writers the map holds. -/
def vals (m : List (Topic × WId)) : List WId := m.map (·.2)

def upd (f : Caller → Pc) (c : Caller) (p : Pc) : Caller → Pc := fun x => if x = c then p else f x

structure State where
  reg : List (Topic × WId) := []            -- `writers`
  next : WId := 0                           -- writers created so far
  pc : Caller → Pc := fun _ => .idle
  holders : List Caller := []               -- callers inside createOrGetWriter (they hold `mu`)
  clearer : Option Caller := none           -- the caller inside ClearEventWriters (holds `mu`)
  handed : List (Caller × Topic × WId) := []   -- ghost: results returned since the last shutdown
  everHanded : List WId := []               -- ghost: every writer ever returned to a caller
  closed : List WId := []                   -- writers Close()d (by a shutdown), in that order

def init : State := {}

inductive Step where
  | enter (c : Caller) (t : Topic)
  | look (c : Caller)
  | create (c : Caller)
  | ret (c : Caller)
  | enterClear (c : Caller)
  | closeAll (c : Caller)
  | retClear (c : Caller)
  deriving Repr, DecidableEq

def enabled (cfg : Cfg) (s : State) : Step → Bool
  | .enter c _ => s.pc c == .idle && s.clearer.isNone && (!cfg.exclusive || s.holders.isEmpty)
  | .look c => match s.pc c with
      | .locked _ => true
      | _ => false
  | .create c => match s.pc c with
      | .missed _ => true
      | _ => false
  | .ret c => match s.pc c with
      | .found _ _ => true
      | _ => false
  | .enterClear c => s.pc c == .idle && s.clearer.isNone && s.holders.isEmpty
  | .closeAll c => s.pc c == .clearing
  | .retClear c => s.pc c == .cleared

def fire (s : State) : Step → State
  | .enter c t => { s with pc := upd s.pc c (.locked t), holders := c :: s.holders }
  | .look c => match s.pc c with
      | .locked t => match find s.reg t with
          | some w => { s with pc := upd s.pc c (.found t w) }
          | none => { s with pc := upd s.pc c (.missed t) }
      | _ => s
  | .create c => match s.pc c with
      | .missed t => { s with reg := put s.reg t s.next, next := s.next + 1, pc := upd s.pc c (.found t s.next) }
      | _ => s
  | .ret c => match s.pc c with
      | .found t w => { s with pc := upd s.pc c .idle, holders := s.holders.erase c,
                               handed := s.handed ++ [(c, t, w)], everHanded := s.everHanded ++ [w] }
      | _ => s
  | .enterClear c => { s with pc := upd s.pc c .clearing, clearer := some c }
  | .closeAll c => { s with pc := upd s.pc c .cleared, closed := s.closed ++ vals s.reg, reg := [], handed := [] }
  | .retClear c => { s with pc := upd s.pc c .idle, clearer := none }

def step (cfg : Cfg) (s : State) (st : Step) : State := if enabled cfg s st then fire s st else s

/-- Run a schedule; steps that are not enabled when their turn comes are skipped. -/
def run (cfg : Cfg) (s : State) : List Step → State
  | [] => s
  | st :: rest => run cfg (step cfg s st) rest

/-- The writers handed out for topic `t` since the last shutdown, in the order they were returned. -/
def handedFor (s : State) (t : Topic) : List WId := (s.handed.filter (fun h => h.2.1 == t)).map (·.2.2)

/-- The same without repetition: the pipelines topic `t`'s events of this epoch go through. -/
def writersOf (s : State) (t : Topic) : List WId := (handedFor s t).eraseDups

/-- All elements of a list equal its first one. -/
def allSame (ws : List WId) : Bool := ws.all (· == ws.headD 0)

/-- One complete call of createOrGetWriter(t) by caller `c` (`create` is skipped on a hit). -/
def getCall (c : Caller) (t : Topic) : List Step := [.enter c t, .look c, .create c, .ret c]

/-- One complete call of ClearEventWriters by caller `c`. -/
def clearCall (c : Caller) : List Step := [.enterClear c, .closeAll c, .retClear c]

end Registry
