/-
  Model/Resubscribe — SEVERAL subscriptions in one life of the core, against a master whose reconciliation
  answers are not always complete (C18).  Core Lean only.  A conservative layer over Model/Reconcile.lean:
  `Reconcile.step` is used unchanged, `Props/C18.lean: C18_resub_conservative` shows that a history without the
  new operations is a history of the old model.

  What Model/Reconcile.lean leaves to a fixed parameter — `World.answers`: does the answer to the n-th RECONCILE
  include task t — becomes STATE that the history itself changes, and two things that are not in the core's log
  are recorded next to it:

    hidden   tasks whose agent is not registered with the master at the moment (master fail-over: the agents
             re-register one by one; a partitioned agent). The master leaves them out of the answer to an implicit
             RECONCILE and does not report them alive to anybody: the observer's snapshot leaves them out too.
             Steps `hide t` / `unhide t` (anything may come in between, at any point of the history).
    muted    RECONCILE calls are lost on the way (accepted by a leader that steps down, never answered).
             Steps `mute` / `unmute`.
    missed   the tasks the answer to the RECONCILE of the CURRENT subscription left out (hidden or muted when
             the SUBSCRIBED was handled). The core asks once per subscription (scheduler.go reconciliationCall, on
             SUBSCRIBED, nowhere else): a task in `missed` is not looked for again before the next SUBSCRIBED.
    subs     every SUBSCRIBE call (newest first): the life that made it, the framework id it presented, the id the
             master answered with, and whether the core accepted that SUBSCRIBED (TrackSubscription did not
             refuse it). The log of Model/Reconcile.lean only carries the presented id; identity over
             reconnections is a statement about presented AND assigned ids.

  Anchors (/repo), in addition to those of Model/Reconcile.lean:
    core/task/scheduler.go  runSchedulerController: controller.WithFrameworkID(store.GetIgnoreErrors(fidStore)) —
        mesos-go's controller.Run calls it before EVERY subscription attempt, so a re-subscription presents what
        the store holds THEN (`fidMem`, written by TrackSubscription on the first SUBSCRIBED of a first life);
    core/task/scheduler.go  buildEventHandler, Event_SUBSCRIBED → reconciliationCall(): one implicit RECONCILE
        per SUBSCRIBED event, error ignored, no retry, no timer.
  Master side (trusted, stood in for by harness/sim + sim.HideFromReconcile / SetReconcileSilent): an implicit
  RECONCILE is answered with the tasks of the framework the master knows at that moment.
-/
import ControlModel.Model.Reconcile

namespace Reconcile

/-- One SUBSCRIBE call and what became of it. -/
structure Sub where
  life : Nat
  /-- the framework id the call presented (FrameworkInfo.id) -/
  carry : Option Nat
  /-- the id in the master's SUBSCRIBED -/
  assigned : Nat
  /-- the core handled that SUBSCRIBED without refusing it -/
  accepted : Bool
  deriving DecidableEq, Repr

structure RSt where
  base : St
  hidden : List Nat := []
  muted : Bool := false
  missed : List Nat := []
  /-- newest first -/
  subs : List Sub := []
  deriving Repr

inductive RStep where
  /-- a step of Model/Reconcile.lean -/
  | base (x : Step)
  /-- the agent of task `t` is no longer registered with the master -/
  | hide (t : Nat)
  /-- … has (re-)registered -/
  | unhide (t : Nat)
  /-- RECONCILE calls are lost from now on -/
  | mute
  | unmute
  deriving DecidableEq, Repr

def rinit (kv0 : Option Nat) : RSt := { base := init kv0 }

/-- What the master answers NOW. -/
def worldOf (hidden : List Nat) (muted : Bool) : World :=
  { answers := fun _ t => !muted && !hidden.contains t }

/-- connected, nothing in flight: the only states in which the observer takes a snapshot -/
def St.quiescent (s : St) : Bool := s.alive && s.connected && s.queue.isEmpty && s.inbox.isEmpty

/-- the next `read` handles a SUBSCRIBED and TrackSubscription lets it pass -/
def St.accepts (c : Cfg) (s : St) : Bool :=
  match s.hello with
  | some f => s.alive && !(s.fidMem.isSome && s.fidMem != some f && c.failover)
  | none => false

def acceptHead : List Sub → List Sub
  | [] => []
  | y :: ys => { y with accepted := true } :: ys

/-- Orphans the master REPORTS alive: tasks of earlier lives in a listed state whose agent is registered. -/
def visibleOrphans (c : Cfg) (r : RSt) : List Nat :=
  (orphans c r.base).filter (fun t => !r.hidden.contains t)

def rstep (c : Cfg) (r : RSt) : RStep → RSt
  | .hide t => { r with hidden := t :: r.hidden }
  | .unhide t => { r with hidden := r.hidden.filter (fun x => x != t) }
  | .mute => { r with muted := true }
  | .unmute => { r with muted := false }
  | .base .snapshot =>
    if r.base.quiescent then
      { r with base := { r.base with log := .snap r.base.life (visibleOrphans c r) :: r.base.log } }
    else r
  | .base .subscribe =>
    let s' := step c World.complete r.base .subscribe
    if r.base.alive && !r.base.stream.isSome then
      { r with base := s',
               subs := { life := r.base.life, carry := (if c.failover then r.base.fidMem else none),
                         assigned := s'.stream.getD 0, accepted := false } :: r.subs }
    else { r with base := s' }
  | .base .read =>
    let s' := step c (worldOf r.hidden r.muted) r.base .read
    if r.base.accepts c then
      { r with base := s',
               missed := (if r.muted || !c.reconcileOnSubscribed then r.base.tasks.map (·.id) else r.hidden),
               subs := acceptHead r.subs }
    else { r with base := s' }
  | .base x => { r with base := step c World.complete r.base x }

def rrun (c : Cfg) : List RStep → RSt → RSt
  | [], r => r
  | x :: xs, r => rrun c xs (rstep c r x)

theorem rrun_append (c : Cfg) (h1 h2 : List RStep) (r : RSt) :
    rrun c (h1 ++ h2) r = rrun c h2 (rrun c h1 r) := by
  induction h1 generalizing r with
  | nil => rfl
  | cons x xs ih => simp [rrun, ih]

/-! ## the hypothesis that excludes the finding `late_orphan_never_reconciled` -/

/-- Step `x` taken in state `r` is not a snapshot that finds an orphan the master reports alive NOW although
    the answer to the current subscription's RECONCILE left it out (it became reportable — its agent registered,
    or the request had been lost — after the core's one and only question). -/
def lateOk (c : Cfg) (r : RSt) : RStep → Bool
  | .base .snapshot => !r.base.quiescent || (visibleOrphans c r).all (fun t => !r.missed.contains t)
  | _ => true

/-- "Whatever the master reports alive at a quiet point, it could already report when the core last subscribed":
    `lateOk` holds at every step of the history. -/
def noLateOrphans (c : Cfg) : List RStep → RSt → Bool
  | [], _ => true
  | x :: xs, r => lateOk c r x && noLateOrphans c xs (rstep c r x)

end Reconcile
