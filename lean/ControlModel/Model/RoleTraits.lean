/-
  Model/RoleTraits — the role tree of Model/RoleTree WITH the traits of its task/call roles (C11).

  Mirrors  core/task/task.go (Traits{Trigger, Await, Timeout, Critical}),
           core/workflow/taskrole.go, callrole.go (UnmarshalYAML: a non-empty `trigger` makes the
           role a HOOK — it gets a 30 s timeout and `await := trigger`; `critical` defaults to true
           for hooks and basic tasks alike; updateState forwards to the parent `if t.Critical == true`,
           updateStatus always),
           core/workflow/safestate.go (aggregateState: the type switch over *taskRole / *callRole,
           each skipped `if !….Critical`; nothing else about the child is looked at).

  `Forest` (Model/RoleTree.lean, shared with C02/C03) keeps of a task/call role only `crit`.
  Here a leaf carries everything the YAML can say that MIGHT matter for aggregation — whether it is
  a task or a call, whether it is critical, whether it is a hook — and the functions below are
  written the way the Go code is written: they receive the whole leaf and decide what to look at.
  `forget` drops the hook flag; Proofs/RoleTraits.lean shows that every function here is the plain
  one after `forget`, which is how the theorems of Props/C11 extend to trees with hooks.
-/
import ControlModel.Model.RoleTree

namespace RoleTree

/-- `task.Traits` of a task/call role as far as an update can meet them.
    `hook` = `len(Traits.Trigger) > 0` (then Await and Timeout are set, too). -/
structure Traits where
  crit : Bool
  hook : Bool
  deriving DecidableEq, Repr, Inhabited

/-- Role forest, first-child / next-sibling, leaves with traits. `call = false`: `*taskRole`,
    `call = true`: `*callRole`. -/
inductive TForest where
  | nil : TForest
  | leaf (call : Bool) (tr : Traits) (st : TState) (su : TStatus) (next : TForest) : TForest
  | agg (st : TState) (su : TStatus) (kids next : TForest) : TForest
  deriving Repr, Inhabited

open TForest

/-- The `continue` conditions of `aggregateState`, in the order of its type switch:
    `if isTaskRole { if !taskR.Critical { continue } } else if isCallRole { if !callR.Critical { continue } }`.
    The trigger is not consulted: a hook is skipped exactly when it is not critical. -/
def skipped (call : Bool) (tr : Traits) : Bool :=
  if !call then !tr.crit
  else !tr.crit

/-- The guard of `t.parent.updateState(s)` at the end of taskRole/callRole.updateState:
    `if t.Critical == true`. -/
def forwards (_call : Bool) (tr : Traits) : Bool := tr.crit == true

/-- `aggregateState(roles)` on leaves with traits. -/
def aggStateFromT (acc : TState) : TForest → TState
  | .nil => acc
  | .leaf c tr st _ next => if skipped c tr then aggStateFromT acc next else aggStateFromT (acc.X st) next
  | .agg st _ _ next => aggStateFromT (acc.X st) next

def aggregateStateT (kids : TForest) : TState := aggStateFromT .INVARIANT kids

/-- `aggregateStatus(roles)`: no filter at all. -/
def aggStatusFromT (acc : TStatus) : TForest → TStatus
  | .nil => acc
  | .leaf _ _ _ su next => if acc = .UNDEFINED then acc else aggStatusFromT (acc.X su) next
  | .agg _ su _ next => if acc = .UNDEFINED then acc else aggStatusFromT (acc.X su) next

def aggregateStatusT : TForest → TStatus
  | .nil => .UNDEFINED
  | .leaf _ _ _ su next => aggStatusFromT su next
  | .agg _ su _ next => aggStatusFromT su next

/-- `SafeState.merge` of an aggregator (the three shortcuts, else the fold of the children). -/
def mergeStateT (cached s : TState) (kids : TForest) : TState :=
  if cached = s then cached
  else if s = .MIXED ∧ cached ≠ .ERROR then .MIXED
  else if s = .ERROR then .ERROR
  else aggregateStateT kids

def mergeStatusT (cached s : TStatus) (kids : TForest) : TStatus :=
  if cached = s then cached
  else if s = .UNDEFINED then .UNDEFINED
  else aggregateStatusT kids

/-- `UpdateState` on the leaf addressed by `path` (see `updState`). -/
def updStateT : TForest → List Nat → TState → TForest × Option TState
  | .nil, _, _ => (.nil, none)
  | f, [], _ => (f, none)
  | .leaf c tr _ su next, [0], s => (.leaf c tr s su next, if forwards c tr then some s else none)
  | .leaf c tr st su next, 0 :: _ :: _, _ => (.leaf c tr st su next, none)
  | .leaf c tr st su next, (i+1) :: rest, s =>
      let r := updStateT next (i :: rest) s
      (.leaf c tr st su r.1, r.2)
  | .agg st su kids next, 0 :: rest, s =>
      let r := updStateT kids rest s
      match r.2 with
      | none => (.agg st su r.1 next, none)
      | some v =>
        let st' := mergeStateT st v r.1
        (.agg st' su r.1 next, some st')
  | .agg st su kids next, (i+1) :: rest, s =>
      let r := updStateT next (i :: rest) s
      (.agg st su kids r.1, r.2)

/-- `UpdateStatus`: every leaf forwards, hook or not, critical or not. -/
def updStatusT : TForest → List Nat → TStatus → TForest × Option TStatus
  | .nil, _, _ => (.nil, none)
  | f, [], _ => (f, none)
  | .leaf c tr st _ next, [0], s => (.leaf c tr st s next, some s)
  | .leaf c tr st su next, 0 :: _ :: _, _ => (.leaf c tr st su next, none)
  | .leaf c tr st su next, (i+1) :: rest, s =>
      let r := updStatusT next (i :: rest) s
      (.leaf c tr st su r.1, r.2)
  | .agg st su kids next, 0 :: rest, s =>
      let r := updStatusT kids rest s
      match r.2 with
      | none => (.agg st su r.1 next, none)
      | some v =>
        let su' := mergeStatusT su v r.1
        (.agg st su' r.1 next, some su')
  | .agg st su kids next, (i+1) :: rest, s =>
      let r := updStatusT next (i :: rest) s
      (.agg st su kids r.1, r.2)

def applyUpdateT (f : TForest) : Update → TForest
  | .state p s => (updStateT f (0 :: p) s).1
  | .status p s => (updStatusT f (0 :: p) s).1

def runT (f : TForest) (us : List Update) : TForest := us.foldl applyUpdateT f

/-- All forests visited, oldest first. -/
def traceT (f : TForest) : List Update → List TForest
  | [] => [f]
  | u :: us => f :: traceT (applyUpdateT f u) us

/-- Pre-order dump of (state, status) of every role. -/
def dumpT : TForest → List (TState × TStatus)
  | .nil => []
  | .leaf _ _ st su next => (st, su) :: dumpT next
  | .agg st su kids next => (st, su) :: (dumpT kids ++ dumpT next)

/-- Drop what `Forest` does not keep: the hook flag. -/
def forget : TForest → Forest
  | .nil => .nil
  | .leaf c tr st su next => .leaf c tr.crit st su (forget next)
  | .agg st su kids next => .agg st su (forget kids) (forget next)

end RoleTree
