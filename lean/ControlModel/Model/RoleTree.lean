/-
  Model/RoleTree — role tree, state/status algebra, leaf updates (C11; reused by C02/C03).

  Mirrors  core/task/sm/state.go (State.X), core/task/status.go (Status.X),
           core/workflow/safestate.go, safestatus.go (aggregate*, merge),
           aggregatorrole.go / taskrole.go / callrole.go (updateState/updateStatus).

  A role tree is a `Forest` in first-child / next-sibling form, one plain
  inductive type, so every function below is structurally recursive and
  `induction` works (no nested `List`, no mutual block).
-/
import ControlModel.Basic

namespace RoleTree

inductive TState where
  | UNKNOWN | STANDBY | CONFIGURED | RUNNING | ERROR | DONE | MIXED | INVARIANT
  deriving DecidableEq, Repr, Inhabited

inductive TStatus where
  | UNDEFINED | INACTIVE | PARTIAL | ACTIVE | UNDEPLOYABLE
  deriving DecidableEq, Repr, Inhabited

open TState TStatus

def TState.idx : TState → Nat
  | .UNKNOWN => 0 | .STANDBY => 1 | .CONFIGURED => 2 | .RUNNING => 3
  | .ERROR => 4 | .DONE => 5 | .MIXED => 6 | .INVARIANT => 7

def TState.ofIdx : Nat → TState
  | 0 => .UNKNOWN | 1 => .STANDBY | 2 => .CONFIGURED | 3 => .RUNNING
  | 4 => .ERROR | 5 => .DONE | 6 => .MIXED | 7 => .INVARIANT | _ => .UNKNOWN

def TStatus.idx : TStatus → Nat
  | .UNDEFINED => 0 | .INACTIVE => 1 | .PARTIAL => 2 | .ACTIVE => 3 | .UNDEPLOYABLE => 4

def TStatus.ofIdx : Nat → TStatus
  | 0 => .UNDEFINED | 1 => .INACTIVE | 2 => .PARTIAL | 3 => .ACTIVE | 4 => .UNDEPLOYABLE | _ => .UNDEFINED

def TState.name : TState → String
  | .UNKNOWN => "UNKNOWN" | .STANDBY => "STANDBY" | .CONFIGURED => "CONFIGURED" | .RUNNING => "RUNNING"
  | .ERROR => "ERROR" | .DONE => "DONE" | .MIXED => "MIXED" | .INVARIANT => "INVARIANT"

def TState.parse? : String → Option TState
  | "UNKNOWN" => some .UNKNOWN | "STANDBY" => some .STANDBY | "CONFIGURED" => some .CONFIGURED
  | "RUNNING" => some .RUNNING | "ERROR" => some .ERROR | "DONE" => some .DONE
  | "MIXED" => some .MIXED | "INVARIANT" => some .INVARIANT | _ => none

def TStatus.name : TStatus → String
  | .UNDEFINED => "UNDEFINED" | .INACTIVE => "INACTIVE" | .PARTIAL => "PARTIAL"
  | .ACTIVE => "ACTIVE" | .UNDEPLOYABLE => "UNDEPLOYABLE"

def TStatus.parse? : String → Option TStatus
  | "UNDEFINED" => some .UNDEFINED | "INACTIVE" => some .INACTIVE | "PARTIAL" => some .PARTIAL
  | "ACTIVE" => some .ACTIVE | "UNDEPLOYABLE" => some .UNDEPLOYABLE | _ => none

/-- `sm.State.X` as written in state.go. -/
def TState.X (s other : TState) : TState :=
  if s = other then s
  else if s = .ERROR ∨ other = .ERROR then .ERROR
  else if s = .INVARIANT then other
  else if other = .INVARIANT then s
  else .MIXED

/-- `task.Status.X` = STATUS_PRODUCT as written in status.go. -/
def TStatus.X : TStatus → TStatus → TStatus
  | .UNDEFINED, _ => .UNDEFINED
  | _, .UNDEFINED => .UNDEFINED
  | .UNDEPLOYABLE, _ => .UNDEPLOYABLE
  | _, .UNDEPLOYABLE => .UNDEPLOYABLE
  | .INACTIVE, .INACTIVE => .INACTIVE
  | .ACTIVE, .ACTIVE => .ACTIVE
  | _, _ => .PARTIAL

/-- A forest of sibling roles. `leaf` = task role or call role (they behave
    identically for aggregation), `agg` = aggregator / iterator / include role
    after template processing (all are `aggregator`s with cached state/status). -/
inductive Forest where
  | nil : Forest
  | leaf (call crit : Bool) (st : TState) (su : TStatus) (next : Forest) : Forest
  | agg (st : TState) (su : TStatus) (kids next : Forest) : Forest
  deriving Repr, Inhabited

open Forest

/-- `aggregateState(roles)`: left fold from INVARIANT over the children's
    *reported* states, skipping non-critical task/call roles. -/
def aggStateFrom (acc : TState) : Forest → TState
  | .nil => acc
  | .leaf _ crit st _ next => if crit then aggStateFrom (acc.X st) next else aggStateFrom acc next
  | .agg st _ _ next => aggStateFrom (acc.X st) next

def aggregateState (kids : Forest) : TState := aggStateFrom .INVARIANT kids

/-- `aggregateStatus(roles)`: UNDEFINED for no children; otherwise the first
    child's status folded with the others, returning early on UNDEFINED. -/
def aggStatusFrom (acc : TStatus) : Forest → TStatus
  | .nil => acc
  | .leaf _ _ _ su next => if acc = .UNDEFINED then acc else aggStatusFrom (acc.X su) next
  | .agg _ su _ next => if acc = .UNDEFINED then acc else aggStatusFrom (acc.X su) next

def aggregateStatus : Forest → TStatus
  | .nil => .UNDEFINED
  | .leaf _ _ _ su next => aggStatusFrom su next
  | .agg _ su _ next => aggStatusFrom su next

/-- `SafeState.merge` for an aggregator whose children (after the child's own
    update) are `kids`. -/
def mergeState (cached s : TState) (kids : Forest) : TState :=
  if cached = s then cached
  else if s = .MIXED ∧ cached ≠ .ERROR then .MIXED
  else if s = .ERROR then .ERROR
  else aggregateState kids

/-- `SafeStatus.merge` for an aggregator. -/
def mergeStatus (cached s : TStatus) (kids : Forest) : TStatus :=
  if cached = s then cached
  else if s = .UNDEFINED then .UNDEFINED
  else aggregateStatus kids

/-- `UpdateState` on the leaf addressed by `path` (child indices from the
    owner of this forest downwards). Returns the new forest and the value the
    addressed top-level role passes to its parent's `updateState`, if any:
    a critical leaf forwards the raw input, a non-critical one nothing, an
    aggregator its merged state. -/
def updState : Forest → List Nat → TState → Forest × Option TState
  | .nil, _, _ => (.nil, none)
  | f, [], _ => (f, none)
  | .leaf c crit _ su next, [0], s => (.leaf c crit s su next, if crit then some s else none)
  | .leaf c crit st su next, 0 :: _ :: _, _ => (.leaf c crit st su next, none)
  | .leaf c crit st su next, (i+1) :: rest, s =>
      let r := updState next (i :: rest) s
      (.leaf c crit st su r.1, r.2)
  | .agg st su kids next, 0 :: rest, s =>
      let r := updState kids rest s
      match r.2 with
      | none => (.agg st su r.1 next, none)
      | some v =>
        let st' := mergeState st v r.1
        (.agg st' su r.1 next, some st')
  | .agg st su kids next, (i+1) :: rest, s =>
      let r := updState next (i :: rest) s
      (.agg st su kids r.1, r.2)

/-- `UpdateStatus`: every leaf forwards the raw input, every aggregator its merged status. -/
def updStatus : Forest → List Nat → TStatus → Forest × Option TStatus
  | .nil, _, _ => (.nil, none)
  | f, [], _ => (f, none)
  | .leaf c crit st _ next, [0], s => (.leaf c crit st s next, some s)
  | .leaf c crit st su next, 0 :: _ :: _, _ => (.leaf c crit st su next, none)
  | .leaf c crit st su next, (i+1) :: rest, s =>
      let r := updStatus next (i :: rest) s
      (.leaf c crit st su r.1, r.2)
  | .agg st su kids next, 0 :: rest, s =>
      let r := updStatus kids rest s
      match r.2 with
      | none => (.agg st su r.1 next, none)
      | some v =>
        let su' := mergeStatus su v r.1
        (.agg st su' r.1 next, some su')
  | .agg st su kids next, (i+1) :: rest, s =>
      let r := updStatus next (i :: rest) s
      (.agg st su kids r.1, r.2)

inductive Update where
  | state (path : List Nat) (s : TState)
  | status (path : List Nat) (s : TStatus)
  deriving Repr

/-- The harness addresses leaves by the path below the root aggregator; the
    root itself is the single top-level role of the forest (index 0). -/
def applyUpdate (f : Forest) : Update → Forest
  | .state p s => (updState f (0 :: p) s).1
  | .status p s => (updStatus f (0 :: p) s).1

def run (f : Forest) (us : List Update) : Forest := us.foldl applyUpdate f

/-- All forests visited, oldest first (the harness dumps the tree after every update). -/
def trace (f : Forest) : List Update → List Forest
  | [] => [f]
  | u :: us => f :: trace (applyUpdate f u) us

/-- Pre-order dump of (state, status) of every role. -/
def dump : Forest → List (TState × TStatus)
  | .nil => []
  | .leaf _ _ st su next => (st, su) :: dump next
  | .agg st su kids next => (st, su) :: (dump kids ++ dump next)

end RoleTree
