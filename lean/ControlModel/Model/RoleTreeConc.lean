/-
  Model/RoleTreeConc — CONCURRENT propagation of leaf state updates through a role tree (C11,
  the clause "an ERROR of a critical task is never lost nor invented at the root, also when
  updates arrive concurrently").

  Mirrors, statement by statement,

    taskRole/callRole.updateState    t.state.merge(s, t); t.SendEvent(..); if t.Critical { t.parent.updateState(s) }
    aggregatorRole.updateState       r.state.merge(s, r); r.SendEvent(..); r.parent.updateState(r.state.get())
    SafeState.merge                  t.mu.Lock(); defer t.mu.Unlock(); shortcuts | t.state = aggregateState(r.GetRoles())
    aggregateState                   for c in roles { skip non-critical task/call; s = s.X(c.GetState()) }   (c.GetState = RLock'ed read)
    SafeState.get                    t.mu.RLock(); return t.state

  Every update is a THREAD. Its atomic steps are exactly the accesses to shared memory that the Go
  code makes, each under the mutex the code takes for it:

    start          write the leaf (leaf's own lock); a critical leaf goes on with the RAW input value
    enter c v      the parent p of c: take p's write lock; the three shortcuts store at once and release;
                   otherwise the thread KEEPS p's lock and starts folding p's children
    fold p k.. acc read child k (k's read lock: blocks while another thread folds AT k), accumulate
    fold p [] acc  store the fold into p, release p's lock
    read c         `r.state.get()` of the aggregator just merged — a SEPARATE access after the lock was
                   released: the value handed to the grand-parent may already be another thread's

  A step whose lock is held by another thread does nothing (the thread is blocked). Schedules are
  arbitrary lists of thread numbers; nothing is assumed about fairness.

  The tree is FLAT here (pre-order numbering, parent pointers): small-step semantics and invariants
  ("for every child c of p …") are direct. `flatten` turns the `Forest` of Model/RoleTree into it;
  the numbering is the order of `RoleTree.dump`, which is what the harness compares.

  Core Lean only.
-/
import ControlModel.Model.RoleTree

namespace RoleTree.Conc
open RoleTree TState

/-- Static description of one role. `crit` is only read for leaves. -/
structure Node where
  parent : Option Nat
  agg : Bool
  crit : Bool
  deriving Repr, DecidableEq, Inhabited

/-- Where a thread is. -/
inductive PC where
  | start
  | read (c : Nat)
  | enter (c : Nat) (v : TState)
  | fold (p : Nat) (todo : List Nat) (acc : TState)
  | done
  deriving Repr, DecidableEq, Inhabited

/-- The static part: the roles and, per thread, (leaf to update, new state). -/
structure Topo where
  nodes : List Node
  thr : List (Nat × TState)
  deriving Repr

/-- The dynamic part: every role's cached state, every thread's position. -/
structure Cfg where
  st : Nat → TState
  pc : Nat → PC

def upd {α : Type} (f : Nat → α) (n : Nat) (v : α) : Nat → α := fun m => if m = n then v else f m

namespace Topo

def agg (T : Topo) (n : Nat) : Bool :=
  match T.nodes[n]? with
  | some nd => nd.agg
  | none => false

/-- critical task/call role -/
def crit (T : Topo) (n : Nat) : Bool :=
  match T.nodes[n]? with
  | some nd => !nd.agg && nd.crit
  | none => false

/-- does `aggregateState` of the parent look at this child? (non-critical task/call roles are skipped) -/
def contrib (T : Topo) (n : Nat) : Bool := T.agg n || T.crit n

/-- the role whose `updateState` is called next; only aggregators have children -/
def parent (T : Topo) (n : Nat) : Option Nat :=
  match T.nodes[n]? with
  | some nd =>
    match nd.parent with
    | some p => if T.agg p then some p else none
    | none => none
  | none => none

/-- the children `aggregateState` reads, in list order -/
def kids (T : Topo) (p : Nat) : List Nat :=
  (List.range T.nodes.length).filter (fun c => T.parent c == some p && T.contrib c)

def nT (T : Topo) : Nat := T.thr.length

/-- a loaded tree: role 0 is the root aggregator, every other role hangs below an EARLIER aggregator -/
def wf (T : Topo) : Bool :=
  T.agg 0 && (T.parent 0).isNone &&
  (List.range T.nodes.length).all (fun n => n == 0 ||
    match T.parent n with
    | some p => decide (p < n)
    | none => false)

end Topo

/-- some thread holds `n`'s write lock (it is folding n's children) -/
def locked (T : Topo) (c : Cfg) (n : Nat) : Bool :=
  (List.range T.nT).any (fun j => match c.pc j with | .fold p _ _ => p == n | _ => false)

/-- after `updateState` of role `p` has merged: hand p's state to p's parent, if there is one -/
def after (T : Topo) (p : Nat) : PC :=
  match T.parent p with
  | some _ => .read p
  | none => .done

/-- One atomic step of thread `i`. -/
def step (T : Topo) (c : Cfg) (i : Nat) : Cfg :=
  match T.thr[i]? with
  | none => c
  | some (leaf, s) =>
    match c.pc i with
    | .done => c
    | .start =>
      if T.agg leaf then ⟨c.st, upd c.pc i .done⟩
      else if T.crit leaf then
        match T.parent leaf with
        | some _ => ⟨upd c.st leaf s, upd c.pc i (.enter leaf s)⟩
        | none => ⟨upd c.st leaf s, upd c.pc i .done⟩
      else ⟨upd c.st leaf s, upd c.pc i .done⟩
    | .read n =>
      if locked T c n then c else ⟨c.st, upd c.pc i (.enter n (c.st n))⟩
    | .enter n v =>
      match T.parent n with
      | none => ⟨c.st, upd c.pc i .done⟩
      | some p =>
        if locked T c p then c
        else if c.st p = v then ⟨c.st, upd c.pc i (after T p)⟩
        else if v = .MIXED ∧ c.st p ≠ .ERROR then ⟨upd c.st p .MIXED, upd c.pc i (after T p)⟩
        else if v = .ERROR then ⟨upd c.st p .ERROR, upd c.pc i (after T p)⟩
        else ⟨c.st, upd c.pc i (.fold p (T.kids p) .INVARIANT)⟩
    | .fold p [] acc => ⟨upd c.st p acc, upd c.pc i (after T p)⟩
    | .fold p (k :: todo) acc =>
      if locked T c k then c else ⟨c.st, upd c.pc i (.fold p todo (acc.X (c.st k)))⟩

/-- Run a schedule (a list of thread numbers). -/
def exec (T : Topo) (c : Cfg) : List Nat → Cfg
  | [] => c
  | i :: is => exec T (step T c i) is

/-- all updates have been delivered completely -/
def quiescent (T : Topo) (c : Cfg) : Bool :=
  (List.range T.nT).all (fun j => c.pc j == .done)

/-- every thread is still to start -/
def allStart (T : Topo) (c : Cfg) : Bool :=
  (List.range T.nT).all (fun j => c.pc j == .start)

/-! ### what the property says about one configuration (decidable) -/

/-- local form of "never lost": an aggregator with an ERROR child it looks at reports ERROR -/
def errUp (T : Topo) (st : Nat → TState) : Bool :=
  (List.range T.nodes.length).all (fun p =>
    (T.kids p).all (fun c => !(st c == .ERROR) || st p == .ERROR))

/-- some critical task/call role is in ERROR -/
def critLeafErr (T : Topo) (st : Nat → TState) : Bool :=
  (List.range T.nodes.length).any (fun n => T.crit n && st n == .ERROR)

/-- some role that counts (aggregator or critical leaf) is in ERROR -/
def anyErr (T : Topo) (st : Nat → TState) : Bool :=
  (List.range T.nodes.length).any (fun n => T.contrib n && st n == .ERROR)

/-- some update puts a critical task/call role into ERROR -/
def errUpdate (T : Topo) : Bool :=
  T.thr.any (fun ls => T.crit ls.1 && ls.2 == .ERROR)

/-- `aggregateState` of p's children as they are now -/
def foldKids (T : Topo) (st : Nat → TState) (p : Nat) : TState :=
  (T.kids p).foldl (fun acc k => acc.X (st k)) .INVARIANT

/-- full-strength: every aggregator reports the fold of its children -/
def aggOk (T : Topo) (st : Nat → TState) : Bool :=
  (List.range T.nodes.length).all (fun p => !T.agg p || st p == foldKids T st p)

/-! ### from the Forest of Model/RoleTree -/

def size : Forest → Nat
  | .nil => 0
  | .leaf _ _ _ _ next => 1 + size next
  | .agg _ _ kids next => 1 + size kids + size next

/-- pre-order list of roles; `par` = parent of this sibling list, `off` = number of the first one -/
def flat : Forest → Option Nat → Nat → List Node
  | .nil, _, _ => []
  | .leaf _ crit _ _ next, par, off => ⟨par, false, crit⟩ :: flat next par (off + 1)
  | .agg _ _ kids next, par, off =>
      ⟨par, true, false⟩ :: (flat kids (some off) (off + 1) ++ flat next par (off + 1 + size kids))

def flatten (f : Forest) (thr : List (Nat × TState)) : Topo := ⟨flat f none 0, thr⟩

/-- the states of `dump f`, as a function of the pre-order number -/
def stOf (f : Forest) : Nat → TState :=
  let d := (dump f).map (·.1)
  fun n => d.getD n .UNKNOWN

def initCfg (f : Forest) : Cfg := ⟨stOf f, fun _ => .start⟩

/-! ### replaying a schedule of the harness

  The harness can stop a real goroutine (a) in the `SendEvent` each `updateState` makes after its merge
  and (b) in `GetState` of a child while the parent folds. Between two such points the real thread
  runs on; `macroStep` runs the same fine steps. A thread released towards a lock that a stopped
  thread holds really blocks (`B`); it is woken when the holder stores. To keep the replay
  deterministic at most one thread waits per lock and a thread is never sent towards the read of a
  locked aggregator (`-` = the entry of the schedule is skipped). The replay produces an ordinary
  fine schedule; the final configuration reported to the harness is `exec` of that schedule.
-/

structure RState where
  cfg : Cfg
  waiters : List (Nat × Nat)   -- (thread, role whose lock it waits for)
  fine : List Nat              -- the fine schedule so far

/-- positions at which the real thread cannot be held -/
def transient (T : Topo) : PC → Bool
  | .enter n _ => T.agg n
  | .fold _ [] _ => true
  | _ => false

def runToPark (T : Topo) (c : Cfg) (i : Nat) : Nat → Cfg × List Nat
  | 0 => (c, [])
  | fuel + 1 =>
    let c' := step T c i
    if transient T (c'.pc i) then
      let r := runToPark T c' i fuel
      (r.1, i :: r.2)
    else (c', [i])

/-- wake the waiters whose lock is free now, one after the other -/
def settle (T : Topo) : Nat → Cfg → List (Nat × Nat) → Cfg × List (Nat × Nat) × List Nat × List Nat
  | 0, c, ws => (c, ws, [], [])
  | fuel + 1, c, ws =>
    match ws.find? (fun w => !locked T c w.2) with
    | none => (c, ws, [], [])
    | some w =>
      let r := runToPark T c w.1 4
      let rest := settle T fuel r.1 (ws.filter (fun x => x.1 != w.1))
      (rest.1, rest.2.1, r.2 ++ rest.2.2.1, w.1 :: rest.2.2.2)

def insertSorted (x : Nat) : List Nat → List Nat
  | [] => [x]
  | y :: ys => if x ≤ y then x :: y :: ys else y :: insertSorted x ys

def sortNat (xs : List Nat) : List Nat := xs.foldr insertSorted []

/-- what a released thread runs into first: `none` = do not release it, `some none` = nothing,
    `some (some n)` = the lock of role n -/
def firstLock (T : Topo) (c : Cfg) : PC → Option (Option Nat)
  | .enter n _ =>
    match T.parent n with
    | some p => if locked T c p then some (some p) else some none
    | none => some none
  | .read n =>
    if locked T c n then none
    else match T.parent n with
      | some p => if locked T c p then some (some p) else some none
      | none => some none
  | .fold _ (k :: _) _ => if locked T c k then some (some k) else some none
  | _ => some none

/-- One entry of the harness schedule: outcome letter, the threads it woke (ascending). -/
def macroStep (T : Topo) (r : RState) (i : Nat) : RState × String × List Nat :=
  if i ≥ T.nT then (r, "-", [])
  else if r.cfg.pc i == .done then (r, "-", [])
  else if r.waiters.any (fun w => w.1 == i) then (r, "-", [])
  else
    match firstLock T r.cfg (r.cfg.pc i) with
    | none => (r, "-", [])
    | some (some n) =>
      if r.waiters.any (fun w => w.2 == n) then (r, "-", [])
      else
        match r.cfg.pc i with
        | .read _ => (⟨step T r.cfg i, r.waiters ++ [(i, n)], r.fine ++ [i]⟩, "B", [])
        | _ => (⟨r.cfg, r.waiters ++ [(i, n)], r.fine⟩, "B", [])
    | some none =>
      let a := runToPark T r.cfg i 4
      let s := settle T (r.waiters.length + 1) a.1 r.waiters
      (⟨s.1, s.2.1, r.fine ++ a.2 ++ s.2.2.1⟩, "P", sortNat s.2.2.2)

def macroRun (T : Topo) (r : RState) : List Nat → RState × List (String × List Nat)
  | [] => (r, [])
  | i :: is =>
    let a := macroStep T r i
    let b := macroRun T a.1 is
    (b.1, (a.2.1, a.2.2) :: b.2)

/-- after the given schedule: round robin until every thread has finished -/
def drain (T : Topo) : Nat → RState → RState × List (String × List Nat)
  | 0, r => (r, [])
  | fuel + 1, r =>
    if quiescent T r.cfg then (r, [])
    else
      let a := macroRun T r (List.range T.nT)
      let b := drain T fuel a.1
      (b.1, a.2 ++ b.2)

def drainRounds : Nat := 200

/-- The whole replay: (fine schedule, trace of outcomes). -/
def replay (T : Topo) (c0 : Cfg) (sched : List Nat) : List Nat × List (String × List Nat) :=
  let a := macroRun T ⟨c0, [], []⟩ sched
  let b := drain T drainRounds a.1
  (b.1.fine, a.2 ++ b.2)

end RoleTree.Conc
