/-
  Model/RunAttempts — the CONSUMER of the run-number protocol (C07, environment level).

  Anchor (/repo): core/environment/environment.go, fsm callback `before_event`:

      errHooks := env.handleHooksWithNegativeWeights(…, "before_<event>")
      if errHooks != nil { e.Cancel(errHooks); …; return }
      if e.Event == "START_ACTIVITY" {
          runNumber, rnErr := the.ConfSvc().NewRunNumber()        -- ONE call of the protocol, unconditional
          if rnErr != nil { e.Cancel(rnErr); return }             -- no number, START cancelled
          env.currentRunNumber = runNumber                         -- adopted …
          … Set("run_number", …) … Ev_RunEvent{RunNumber: runNumber, STARTED}   -- … and published

  The composition modelled here: the environment machine of Model/Env.lean (shared with
  C01/C08/C09/C10) decides WHICH requests of a history are START attempts that get as far as
  the call (`reaches`: the FSM accepts START_ACTIVITY, i.e. the state is CONFIGURED, and no
  critical negative-weight before_START_ACTIVITY hook fails); every such attempt performs one
  complete call `read ; cas` of the protocol of Model/RunNumber.lean by a fresh caller on the
  durable store the previous attempt left behind (the attempts of one environment are
  sequential: TryTransition holds the environment's transition mutex). Whatever happens to the
  attempt AFTERWARDS — cancelled by a later before_START_ACTIVITY or leave_CONFIGURED hook, a
  failing task-level body, STOP_ACTIVITY, GO_ERROR/RECOVER/CONFIGURE — does not matter for the
  next attempt: it calls again.

  `EnvCfg.fresh = false` is the variant in which the consumer keeps a number it still holds
  (currentRunNumber ≠ 0) instead of calling; it exists so that the necessity of the
  unconditional call is a theorem (`C07_needs_unconditional_call`) and so that the go/ast
  facts about the callback are tied to a model parameter (`C07_start_obtains_fresh_number_is_code`).

  Core Lean only.
-/
import ControlModel.Model.RunNumber
import ControlModel.Model.Env

namespace RunAttempts
open RunNumber

/-- What one request does with the configuration service. -/
inductive Call where
  | none     -- the request never gets to `NewRunNumber`
  | ok       -- one call of the protocol
  | fails    -- one call, and the service answers with an error before anything is read
  deriving DecidableEq, Repr, Inhabited

/-- One request of a history, as far as run numbers are concerned. -/
structure Att where
  call : Call
  /-- `currentRunNumber == 0` when the request arrives: the environment never had a number, or a
      STOP_ACTIVITY completed / a START_ACTIVITY body failed since it got the last one -/
  curZero : Bool
  deriving DecidableEq, Repr, Inhabited

/-- What the consumer is, as far as the protocol is concerned. -/
structure EnvCfg where
  /-- `before_event` calls `NewRunNumber` on EVERY START_ACTIVITY that gets past the
      negative-weight hooks (false: only when `currentRunNumber == 0`) -/
  fresh : Bool
  deriving DecidableEq, Repr

/-- The code as it stands (tied to go/ast facts by `C07_start_obtains_fresh_number_is_code`). -/
def codeEnvCfg : EnvCfg := { fresh := true }

/-- The protocol steps of one call by a fresh caller (caller 0 of a fresh `Sys` on the durable store). -/
def callSteps : Call → List Step
  | .none => []
  | .ok => [.read 0, .cas 0]
  | .fails => [.fail 0]

/-- One attempt on the durable store `st`; `prev` = the number the environment got last.
    Returns the number obtained (if any) and the store afterwards. -/
def attempt (cfg : EnvCfg) (p : Proto) (st : Store) (prev : Nat) (a : Att) : Option Nat × Store :=
  if !cfg.fresh && !a.curZero && a.call == .ok then (some prev, st)
  else
    let s := run p (callSteps a.call) (init st)
    (returned s 0, s.store)

/-- The numbers obtained by the successive requests of a history (`none`: no number). -/
def attempts (cfg : EnvCfg) (p : Proto) : Store → Nat → List Att → List (Option Nat)
  | _, _, [] => []
  | st, prev, a :: as =>
    let r := attempt cfg p st prev a
    r.1 :: attempts cfg p r.2 (r.1.getD prev) as

/-- The numbers obtained, in the order in which they were obtained. -/
def obtained (l : List (Option Nat)) : List Nat := l.filterMap id

/-! ### which requests are attempts: read off the environment machine -/

/-- `before_event` of this request gets as far as the `NewRunNumber` call. -/
def reaches (env : EnvM.Env) (hooks : List EnvM.Hook) (e : EnvM.Ev) : Bool :=
  e == .START_ACTIVITY && env.st == .CONFIGURED &&
    (EnvM.handleHooks env hooks (.before .START_ACTIVITY) EnvM.negW).2.2 == 0

def callOf (env : EnvM.Env) (hooks : List EnvM.Hook) (e : EnvM.Ev) (rnFail : Bool) : Call :=
  if reaches env hooks e then (if rnFail then .fails else .ok) else .none

def attOf (env : EnvM.Env) (hooks : List EnvM.Hook) : EnvM.Req → Att
  | .try_ e _ r => { call := callOf env hooks e r, curZero := env.rn == 0 }
  | .control e _ r => { call := if env.gone then .none else callOf env hooks e r, curZero := env.rn == 0 }
  | .teardown .. => { call := .none, curZero := env.rn == 0 }

/-- The attempts of a request history on one environment. -/
def atts (hooks : List EnvM.Hook) (nTasks : Nat) : EnvM.Env → List EnvM.Req → List Att
  | _, [] => []
  | env, q :: qs => attOf env hooks q :: atts hooks nTasks (EnvM.step hooks nTasks env q).1 qs

/-- The numbers the environment hands to the successive requests of a history, the shared
    counter starting from `st`. -/
def numbers (cfg : EnvCfg) (p : Proto) (st : Store) (hooks : List EnvM.Hook) (nTasks : Nat) (reqs : List EnvM.Req) :
    List (Option Nat) :=
  attempts cfg p st 0 (atts hooks nTasks {} reqs)

end RunAttempts
