/-
  Model/RunNumber — the run-number counter protocol (C07).

  Anchors (/repo):
    configuration/cfgbackend/consulsource.go  GetNextUInt32
        kvp := kv.Get(key, {RequireConsistent: true})        -- `read c`
        kvp == nil  ⇒ kvp := {Value "0", ModifyIndex 0}      -- cas=0 creates
        v := ParseUint(kvp.Value, 10, 32); value := uint32(v); value++   -- wraps at 2^32-1
        kvp.Value := FormatUint(value); ok := kv.CAS(kvp)    -- `cas c`
        !ok ⇒ err "cannot write back incremented CAS key"     (value is still the named result)
    apricot/local/service.go  NewRunNumber  = GetNextUInt32("o2/runtime/run_number") for consul://
    core/environment/environment.go  before_event START_ACTIVITY:
        runNumber, rnErr := NewRunNumber(); rnErr != nil ⇒ e.Cancel(rnErr); return   -- number dropped

  The Consul side (trusted, see notes/C07.md): one key with (raw bytes, ModifyIndex); every write
  gets a fresh, larger index (`raft`); `PUT ?cas=i` succeeds iff (i = 0 ∧ key absent) ∨ (i ≠ 0 ∧
  key present ∧ i = ModifyIndex); consistent reads are linearizable.

  The stored value is a `List Char` (the bytes; the harness only uses ASCII), so that everything
  here reduces in the kernel. Core Lean only.
-/

namespace RunNumber

/-- 2^32 − 1 -/
def maxU32 : Nat := 4294967295

/-- `strconv.ParseUint(s, 10, 32)`: non-empty, decimal digits only (no sign, no `_`, no blanks),
    value ≤ 2^32−1; anything else is an error (`ErrSyntax`/`ErrRange`, not distinguished). -/
def parseU32 (cs : List Char) : Option Nat :=
  if cs.isEmpty then none
  else if cs.all Char.isDigit then
    let n := Nat.ofDigitChars 10 cs 0
    if n ≤ maxU32 then some n else none
  else none

/-- `strconv.FormatUint(uint64(v), 10)` -/
def fmtU32 (n : Nat) : List Char := Nat.toDigits 10 n

/-- `value++` on a `uint32` -/
def incr32 (v : Nat) : Nat := if v ≥ maxU32 then 0 else v + 1

/-- The key as Consul holds it. -/
structure Entry where
  raw : List Char
  idx : Nat
  deriving DecidableEq, Repr

/-- The key plus the index of the last write the (simulated) Consul has applied. -/
structure Store where
  entry : Option Entry
  raft : Nat
  deriving DecidableEq, Repr

namespace Store

/-- The counter value the store stands for: 0 when absent or unparsable. -/
def level (st : Store) : Nat :=
  match st.entry with
  | none => 0
  | some e => (parseU32 e.raw).getD 0

/-- Unconditional write (also what a successful CAS does): fresh, larger ModifyIndex. -/
def write (st : Store) (raw : List Char) : Store :=
  { entry := some { raw := raw, idx := st.raft + 1 }, raft := st.raft + 1 }

def delete (st : Store) : Store := { entry := none, raft := st.raft + 1 }

/-- Consul's check for `PUT ?cas=i`. -/
def casOk (st : Store) (i : Nat) : Bool :=
  match st.entry with
  | none => i == 0
  | some e => i != 0 && i == e.idx

/-- Indices of existing keys are real raft indices: 1 ≤ ModifyIndex ≤ last applied index. -/
def WF (st : Store) : Prop := ∀ e, st.entry = some e → 1 ≤ e.idx ∧ e.idx ≤ st.raft

instance (st : Store) : Decidable st.WF := by
  unfold WF
  cases h : st.entry with
  | none => exact isTrue (by intro e he; cases he)
  | some e0 =>
    exact if h' : 1 ≤ e0.idx ∧ e0.idx ≤ st.raft then isTrue (by intro e he; cases he; exact h')
          else isFalse (fun k => h' (k e0 rfl))

end Store

/-- Error classes of `GetNextUInt32` (`ok` = `err == nil`). -/
inductive Err where
  | ok          -- nil
  | parse       -- ParseUint failed
  | cas         -- CAS answered false: "cannot write back incremented CAS key"
  | http        -- the KV request itself failed (non-2xx / transport)
  | exhausted   -- only with the proposed guard: counter at 2^32−1
  deriving DecidableEq, Repr

/-- What the code is, as far as the protocol is concerned. `codeProto` below is the code as it
    stands; the other settings exist so that the necessity of each ingredient is a theorem and
    the proposed fix (`guard`) is modelled next to the current behaviour. -/
structure Proto where
  /-- refuse to hand out a number when the counter reads 2^32−1 (notes/C07.fix.patch) -/
  guard : Bool
  /-- the write is `kv.CAS` (false: `kv.Put`, unconditional) -/
  useCas : Bool
  /-- the boolean answer of CAS is turned into an error -/
  checkOk : Bool
  deriving DecidableEq, Repr

/-- The protocol without the overflow guard: consistent read, CAS on the index read, answer checked. -/
def wrappingProto : Proto := { guard := false, useCas := true, checkOk := true }

/-- The same with the guard of notes/C07.fix.patch. -/
def guardedProto : Proto := { guard := true, useCas := true, checkOk := true }

/-- The code as it stands (tied to go/ast facts and an evaluation by the `C07_*_is_code`
    theorems): since the `fix:` commit "GetNextUInt32 refuses to wrap the counter around at
    2^32-1" in /repo this is `guardedProto`; before it, it was `wrappingProto`. -/
def codeProto : Proto := guardedProto

/-- One call of `GetNextUInt32` by caller `c`. -/
inductive CState where
  | idle
  /-- consistent read answered: holds the value read, the ModifyIndex read (0 = key absent),
      and the step at which the call started -/
  | holding (v idx started : Nat)
  /-- returned `(value, err)`; `put` = the `cas=` index of the write request Consul processed, if any -/
  | done (value : Nat) (err : Err) (started ended : Nat) (put : Option Nat)
  /-- the caller died (`started` = it had been answered its read) ; it never takes another step -/
  | dead (started : Option Nat)
  deriving DecidableEq, Repr

inductive Step where
  | read (c : Nat)            -- Consul answers c's consistent GET (the call starts here)
  | cas (c : Nat)             -- Consul processes c's write and c returns (the call completes here)
  | fail (c : Nat)            -- c's outstanding request is answered with an HTTP error, nothing applied
  | foreign (raw : List Char) -- somebody else PUTs the key
  | del                       -- somebody else DELETEs the key
  | crash (c : Nat)           -- c dies (before its read, or between read and write)
  deriving DecidableEq, Repr

/-- A number handed out: who, which, and the step indices at which the call started/completed. -/
structure Ret where
  caller : Nat
  num : Nat
  started : Nat
  ended : Nat
  deriving DecidableEq, Repr

structure Sys where
  store : Store
  callers : Nat → CState
  /-- numbers handed out with `err == nil`, in completion order -/
  log : List Ret
  /-- index of the next step -/
  clock : Nat

def setCaller (f : Nat → CState) (c : Nat) (x : CState) : Nat → CState :=
  fun i => if i = c then x else f i

def init (st : Store) : Sys := { store := st, callers := fun _ => .idle, log := [], clock := 0 }

/-- The effect of one step, clock aside. -/
def act (p : Proto) (st : Step) (s : Sys) : Sys :=
  match st with
  | .read c =>
    match s.callers c with
    | .idle =>
      match s.store.entry with
      | none => { s with callers := setCaller s.callers c (.holding 0 0 s.clock) }
      | some e =>
        match parseU32 e.raw with
        | none => { s with callers := setCaller s.callers c (.done 0 .parse s.clock s.clock none) }
        | some v =>
          if p.guard && v == maxU32 then
            { s with callers := setCaller s.callers c (.done 0 .exhausted s.clock s.clock none) }
          else
            { s with callers := setCaller s.callers c (.holding v e.idx s.clock) }
    | _ => s
  | .cas c =>
    match s.callers c with
    | .holding v i t =>
      let nv := incr32 v
      if !p.useCas || s.store.casOk i then
        { s with store := s.store.write (fmtU32 nv),
                 callers := setCaller s.callers c (.done nv .ok t s.clock (some i)),
                 log := s.log ++ [{ caller := c, num := nv, started := t, ended := s.clock }] }
      else if p.checkOk then
        { s with callers := setCaller s.callers c (.done nv .cas t s.clock (some i)) }
      else
        { s with callers := setCaller s.callers c (.done nv .ok t s.clock (some i)),
                 log := s.log ++ [{ caller := c, num := nv, started := t, ended := s.clock }] }
    | _ => s
  | .fail c =>
    match s.callers c with
    | .idle => { s with callers := setCaller s.callers c (.done 0 .http s.clock s.clock none) }
    | .holding v i t => { s with callers := setCaller s.callers c (.done (incr32 v) .http t s.clock (some i)) }
    | _ => s
  | .foreign raw => { s with store := s.store.write raw }
  | .del => { s with store := s.store.delete }
  | .crash c =>
    match s.callers c with
    | .idle => { s with callers := setCaller s.callers c (.dead none) }
    | .holding _ _ t => { s with callers := setCaller s.callers c (.dead (some t)) }
    | _ => s

def step (p : Proto) (st : Step) (s : Sys) : Sys :=
  { act p st s with clock := s.clock + 1 }

/-- A schedule is a list of steps. -/
def run (p : Proto) : List Step → Sys → Sys
  | [], s => s
  | st :: rest, s => run p rest (step p st s)

/-- The number the caller's environment adopts (environment.go: a non-nil error cancels
    START_ACTIVITY and the value is dropped). -/
def adopted : CState → Option Nat
  | .done v .ok _ _ _ => some v
  | _ => none

def returned (s : Sys) (c : Nat) : Option Nat := adopted (s.callers c)

/-! ### the hypotheses of the uniqueness theorems, as decidable checks along a schedule -/

/-- Foreign writes never lower the counter (absent/unparsable counts as 0). -/
def stepForeignOk (st : Step) (s : Sys) : Bool :=
  match st with
  | .foreign raw => decide (s.store.level ≤ (s.store.write raw).level)
  | .del => decide (s.store.level = 0)
  | _ => true

def ForeignMonotone (p : Proto) : List Step → Sys → Bool
  | [], _ => true
  | st :: rest, s => stepForeignOk st s && ForeignMonotone p rest (step p st s)

/-- This step is a write of the wrapped-around value: a caller that read 2^32−1 writes 0. -/
def stepWraps (p : Proto) (st : Step) (s : Sys) : Bool :=
  match st with
  | .cas c =>
    match s.callers c with
    | .holding v i _ => (!p.useCas || s.store.casOk i) && v == maxU32
    | _ => false
  | _ => false

/-- No step of the schedule wraps (`value < 2^32−1` whenever it is incremented and written). -/
def NoWrap (p : Proto) : List Step → Sys → Bool
  | [], _ => true
  | st :: rest, s => !stepWraps p st s && NoWrap p rest (step p st s)

/-- Does step `st` belong to caller `c`? -/
def Step.isOf (st : Step) (c : Nat) : Bool :=
  match st with
  | .read d | .cas d | .fail d | .crash d => d == c
  | _ => false

end RunNumber
