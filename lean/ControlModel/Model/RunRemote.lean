/-
  Model/RunRemote — the gRPC hop of a remote apricot in front of the run-number protocol (C07).

  Anchors (/repo):
    apricot/remote/server.go   func (m *RpcServer) NewRunNumber(ctx, *Empty) (*RunNumberResponse, error)
        rn, err := m.service.NewRunNumber()                       -- ONE call of the service it fronts
        return &RunNumberResponse{RunNumber: rn}, err             -- the error is handed on unchanged
    grpc-go (trusted): a handler error that is not a status becomes status(Unknown, err.Error());
        the response message of a failed unary RPC is dropped, the client stub returns (nil, err)
    apricot/remote/service.go  func (c *RemoteService) NewRunNumber() (uint32, error)
        response, err = c.cli.NewRunNumber(ctx, &Empty{})         -- ONE RPC
        if err != nil { return 0, err }                           -- error ⇒ NO number
        return response.GetRunNumber(), nil

  In the production layout (`configServiceUri: apricot://…`) this is what `the.ConfSvc()` is for
  the core: the caller of Model/RunNumber.lean still runs `read ; cas` — inside the apricot
  process, on the goroutine that serves its RPC — and what comes back to `before_event
  START_ACTIVITY` is the protocol call's `(value, err)` pair AFTER it crossed the hop.

  `GetNextUInt32` returns the incremented CANDIDATE next to an error when the write was refused or
  failed (`done nv .cas …`, `done (incr32 v) .http …`): a value that was never stored. The hop is
  the place where that pair is taken apart, so the hop decides whether the candidate can ever be
  taken for a number. `Hop` makes that a switch: `codeHop` is the code as it stands (tied to go/ast
  facts by `C07_remote_hop_is_code`); the other setting exists so that the necessity of the error
  crossing the boundary is a theorem (`C07_hop_must_forward_error`).

  Core Lean only.
-/
import ControlModel.Model.RunNumber

namespace RunNumber

/-- What the hop does with the service's `(value, err)`. -/
structure Hop where
  /-- the handler returns the service's error and the client returns the RPC's error (false: the
      boundary answers OK whatever the backend said — the response message then carries the
      service's value, i.e. the never-stored candidate) -/
  forwardsErr : Bool
  deriving DecidableEq, Repr

/-- The hop as the code has it: the error crosses, and no number comes with it. -/
def codeHop : Hop := { forwardsErr := true }

/-- A hop that swallows the backend's error. NOT the code — the counter-model of
    `C07_hop_must_forward_error`. -/
def swallowingHop : Hop := { forwardsErr := false }

/-- What the remote caller holds once the answer of its call has crossed the hop. A call that
    has not returned (idle, holding, dead) is untouched: the hop adds no step of its own — one RPC
    is one call of the service (`rpcServerSingleCall`, `rpcClientSingleCall`). -/
def viaHop (h : Hop) : CState → CState
  | .done v e t t' q =>
    if e = .ok then .done v .ok t t' q
    else if h.forwardsErr then .done 0 e t t' q      -- `return 0, err`
    else .done v .ok t t' q                          -- answered OK with the service's value
  | x => x

/-- Which callers sit behind a hop (the others hold a local.Service / ConsulSource themselves). -/
abbrev Routing := Nat → Bool

/-- Caller `c` as its own side sees it. -/
def seenBy (h : Hop) (remote : Routing) (s : Sys) (c : Nat) : CState :=
  if remote c then viaHop h (s.callers c) else s.callers c

/-- The number caller `c`'s environment adopts when some callers go through the hop. -/
def returnedVia (h : Hop) (remote : Routing) (s : Sys) (c : Nat) : Option Nat :=
  adopted (seenBy h remote s c)

end RunNumber
