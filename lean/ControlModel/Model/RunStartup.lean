/-
  Model/RunStartup — service START-UPS as steps of the schedule (C07).

  Anchors (/repo):
    apricot/local/service.go   func NewService(uri string) (svc *Service, err error)
        src, err = cfgbackend.NewSource(uri)            -- consul:// ⇒ NewConsulSource
        return &Service{src: src}, err
    configuration/cfgbackend/consulsource.go   func NewConsulSource(uri string)
        cfg := api.DefaultConfig(); cfg.Address = uri; cli, err := api.NewClient(cfg)
        cc = &ConsulSource{uri: uri, kv: cli.KV()}      -- a client object; NO request is sent
    apricot/instance.go        Instance(): the core (embedded apricot), the apricot daemon and
        coconut each construct ONE Service when they come up
    configuration/cfgbackend/consulsource.go   GetNextUInt32: `kvp == nil ⇒ {Value "0", ModifyIndex 0}`
        -- the counter key is created by the FIRST ALLOCATION, by `PUT ?cas=0` (create only if
        absent), never by a start-up

  So in the code as it stands a start-up touches nothing on the shared KV: the instance is simply
  "up" from then on, and an instance that is not up cannot be asked for a number. This file puts
  that LAYER on top of Model/RunNumber.lean without touching its `step`:

    * `SStep = base st | start j`; a schedule is any `List SStep` — start-ups of any number of
      instances interleave with the read/CAS steps of the callers, with foreign writes, deletes
      (the KV tree wiped), failures and crashes, exactly as those interleave with each other;
    * `home c` = the instance caller `c` asks (`none`: it holds a backend of its own). A step that
      would LAUNCH a call (`read c` / `fail c` of an idle caller) while `home c` is not up does
      nothing — only the clock advances;
    * `own` records, for every write of OUR OWN code that Consul applied (a caller's CAS — or, for
      a variant, a start-up's write), the counter's level before and after.

  `StartCfg` makes "the start-up writes nothing" a switch, so that its necessity is a theorem:
  `codeStart` is the code (tied by `C07_startup_is_code` to go/ast facts and to an evaluation of
  the linked constructor); `ensuringStart` — NOT the code — is a constructor that "makes sure the
  counter exists": `Exists(key)`, and if absent a plain `Put(key, "0")`: two requests, so two
  steps, and other steps may come in between.

  Core Lean only.
-/
import ControlModel.Model.RunNumber

namespace RunNumber

/-- What constructing a Service does on the shared KV. -/
structure StartCfg where
  /-- the constructor checks the counter key and creates it with an unconditional `Put "0"` when
      it saw it absent (false: it sends nothing at all — the code) -/
  ensuresCounter : Bool
  deriving DecidableEq, Repr

/-- The code as it stands: constructing a Service sends no request. -/
def codeStart : StartCfg := { ensuresCounter := false }

/-- NOT the code — the counter-model of `C07_startup_must_not_write`. -/
def ensuringStart : StartCfg := { ensuresCounter := true }

/-- One apricot instance (a core with an embedded apricot, the apricot daemon, a coconut run). -/
inductive IState where
  | down
  /-- only with `ensuresCounter`: its `Exists` was answered "absent" at step `started`; the plain
      `Put "0"` is still to come -/
  | probing (started : Nat)
  /-- constructed: the steps at which the construction began and ended -/
  | up (started ended : Nat)
  deriving DecidableEq, Repr

def IState.isUp : IState → Bool
  | .up _ _ => true
  | _ => false

inductive SStep where
  | base (st : Step)
  /-- the construction of instance `j` begins — or, when it is under way, its next request is
      processed; nothing for an instance that is up -/
  | start (j : Nat)
  deriving DecidableEq, Repr

/-- Which instance a caller asks; `none` = it holds a backend of its own. -/
abbrev Homes := Nat → Option Nat

structure SSys where
  base : Sys
  inst : Nat → IState
  /-- (level before, level after) of every write of our own code that Consul applied, in order -/
  own : List (Nat × Nat)

def sinit (st : Store) : SSys := { base := init st, inst := fun _ => .down, own := [] }

def setInst (f : Nat → IState) (j : Nat) (x : IState) : Nat → IState :=
  fun i => if i = j then x else f i

/-- Only time passes. -/
def tick (s : Sys) : Sys := { s with clock := s.clock + 1 }

/-- The caller whose call this step would LAUNCH. -/
def launches (st : Step) (s : Sys) : Option Nat :=
  match st with
  | .read c => match s.callers c with | .idle => some c | _ => none
  | .fail c => match s.callers c with | .idle => some c | _ => none
  | _ => none

/-- A call can only be launched on an instance that is up. -/
def enabled (home : Homes) (inst : Nat → IState) (st : Step) (s : Sys) : Bool :=
  match launches st s with
  | none => true
  | some c =>
    match home c with
    | none => true
    | some j => (inst j).isUp

def Step.isForeign : Step → Bool
  | .foreign _ => true
  | .del => true
  | _ => false

/-- The record of own writes after a base step: a step of our own code after which the store's
    index has moved applied a write. -/
def ownAfter (own : List (Nat × Nat)) (st : Step) (before after : Store) : List (Nat × Nat) :=
  if st.isForeign || after.raft == before.raft then own
  else own ++ [(before.level, after.level)]

def sstep (cfg : StartCfg) (p : Proto) (home : Homes) (x : SStep) (s : SSys) : SSys :=
  match x with
  | .base st =>
    if enabled home s.inst st s.base then
      { s with base := step p st s.base,
               own := ownAfter s.own st s.base.store (step p st s.base).store }
    else { s with base := tick s.base }
  | .start j =>
    match s.inst j with
    | .down =>
      if cfg.ensuresCounter then
        match s.base.store.entry with
        | some _ => { s with base := tick s.base, inst := setInst s.inst j (.up s.base.clock s.base.clock) }
        | none => { s with base := tick s.base, inst := setInst s.inst j (.probing s.base.clock) }
      else { s with base := tick s.base, inst := setInst s.inst j (.up s.base.clock s.base.clock) }
    | .probing t =>
      if cfg.ensuresCounter then
        { s with base := { tick s.base with store := s.base.store.write ['0'] },
                 inst := setInst s.inst j (.up t s.base.clock),
                 own := s.own ++ [(s.base.store.level, (s.base.store.write ['0']).level)] }
      else { s with base := tick s.base }
    | .up _ _ => { s with base := tick s.base }

def srun (cfg : StartCfg) (p : Proto) (home : Homes) : List SStep → SSys → SSys
  | [], s => s
  | x :: rest, s => srun cfg p home rest (sstep cfg p home x s)

/-- `ForeignMonotone` along a schedule with start-ups: foreign writers (the `base (.foreign _)` /
    `base .del` steps) never lower the counter. -/
def SForeignMonotone (cfg : StartCfg) (p : Proto) (home : Homes) : List SStep → SSys → Bool
  | [], _ => true
  | .base st :: rest, s => stepForeignOk st s.base && SForeignMonotone cfg p home rest (sstep cfg p home (.base st) s)
  | .start j :: rest, s => SForeignMonotone cfg p home rest (sstep cfg p home (.start j) s)

/-- No foreign writer at all: only our own instances touch the key. -/
def noForeign : List SStep → Bool
  | [] => true
  | .base st :: rest => !st.isForeign && noForeign rest
  | .start _ :: rest => noForeign rest

def sreturned (s : SSys) (c : Nat) : Option Nat := returned s.base c

end RunNumber
