/-
  Model/SparseStatus — status updates whose OPTIONAL fields are absent, over the reconnection model (C18).
  Core Lean only.  A conservative layer over Model/Resubscribe.lean (hence over Model/Reconcile.lean), whose steps are
  used unchanged.

  What the lower layers leave out: a status update is `(task, state, reason)` there — but mesos.TaskStatus also has the
  OPTIONAL fields agent_id and executor_id, and updateTaskStatus (where every update goes that the KILL branch of
  handleMessage does not take: since the roster test, every reconciliation answer about a task of the core's own live
  environments) copies them into the roster task in its TASK_RUNNING clause. Task.isLocked() needs both ids non-empty:
  "locked" — ownership as the whole core reads it (Cleanup at the start of every CreateEnvironment, the CleanupTasks RPC
  and the shutdown path kill what is not locked; KillTasks, releaseTask, the reuse loop of acquireTasks ask it too) —
  depends on what updateTaskStatus does with an update that LACKS a field. Every update the AliECS executor sends
  carries both; an answer the master builds to a reconciliation after a (re-)subscription need not.

  New step: `handleSparse noAgent noExec` = `handle` (taskman takes the next message off its channel) where THAT message
  lacks agent_id / executor_id. What a message carries is an input, like everything the master does, so it is part of the
  step: a history says for every handled message what it carried (`.r (.base .handle)` = a complete one), and the theorems
  quantify over all histories.

  `TaskIds.Guards` (Model/TaskIds.lean) = the two nil tests in front of the id copies. With the code's guards the new step
  IS `handle` (`sstep_code`: the layer is conservative, every theorem of the lower layers carries over to histories with any
  number of sparse updates — Props/C18 `C18_sparse_updates_conservative`); without them (NOT the code, the shape the go/ast
  facts Gen.TaskIds exclude) a sparse TASK_RUNNING update takes the lock off the roster entry while the environment still
  holds the task — `C18_unguarded_id_copy_unlocks_owned`.

  `heldView` is what an observer sees of ownership at a quiet point: every task a live environment holds, and whether
  the roster has it locked. `sviews` collects it along a history; `Spec.C18.heldLocked` says "always locked".
-/
import ControlModel.Model.Resubscribe
import ControlModel.Model.TaskIds

namespace Reconcile

inductive SStep where
  /-- a step of Model/Resubscribe.lean (a `handle` among them: the message carries both ids) -/
  | r (x : RStep)
  /-- taskman handles the next message of its channel; the message lacks agent_id (`noAgent`) / executor_id (`noExec`) -/
  | handleSparse (noAgent noExec : Bool)
  deriving DecidableEq, Repr

/-- The step of the lower layers that does the same to everything but the identity fields. -/
def SStep.erase : SStep → RStep
  | .r x => x
  | .handleSparse _ _ => .base .handle

/-- The roster entry of task `t` has lost one of its ids: not locked any more. Its parent role — what the
    environment holds (`St.held`) — is untouched. -/
def blankId (r : List RTask) (t : Nat) : List RTask :=
  r.map (fun x => if x.id == t then { x with locked := false } else x)

/-- updateTaskStatus' three kinds of state. -/
def kindOf (st : MState) : TaskIds.Kind :=
  if st == .running then .running else if st.inactivates then .inactivating else .other

/-- The message `handle` would take next goes to updateTaskStatus (not to the KILL branch): its task and state. -/
def St.headUpdates (c : Cfg) (s : St) : Option (Nat × MState) :=
  if !s.alive then none else
  match s.inbox with
  | [] => none
  | (t, st, r) :: _ =>
    if (!c.reasonGuard || r == .recon) && c.killable st && (!c.rosterGuard || !inRoster s.roster t) then none
    else some (t, st)

def sstep (g : TaskIds.Guards) (c : Cfg) (r : RSt) : SStep → RSt
  | .r x => rstep c r x
  | .handleSparse noAgent noExec =>
    let r' := rstep c r (.base .handle)
    match r.base.headUpdates c with
    | some (t, st) =>
      -- Model/TaskIds `locked_onStatus`: a locked task stays locked unless `unlocks`
      if TaskIds.unlocks g (kindOf st) { agent := !noAgent, executor := !noExec } then
        { r' with base := { r'.base with roster := blankId r'.base.roster t } }
      else r'
    | none => r'

def srun (g : TaskIds.Guards) (c : Cfg) : List SStep → RSt → RSt
  | [], r => r
  | x :: xs, r => srun g c xs (sstep g c r x)

/-- What an observer sees of ownership: every task a live environment holds, and whether the roster has it locked
    (GetEnvironments with task infos: the tasks the roles reference, and their `locked` flag). -/
def heldView (s : St) : List (Nat × Bool) := s.held.map (fun p => (p.1, lockedIn s.roster p.1))

def SStep.isSnapshot : SStep → Bool
  | .r (.base .snapshot) => true
  | _ => false

/-- The views at the quiet points of a history (oldest first). -/
def sviews (g : TaskIds.Guards) (c : Cfg) : List SStep → RSt → List (List (Nat × Bool))
  | [], _ => []
  | x :: xs, r =>
    (if x.isSnapshot && r.base.quiescent then [heldView (sstep g c r x).base] else []) ++ sviews g c xs (sstep g c r x)

end Reconcile
