/-
  Model/TaskIds — the identity fields of a roster task as STATE WRITTEN BY STATUS UPDATES (shared by C04 and
  C18; used by Model/Own.lean `Task.onStatus` and Model/SparseStatus.lean).  Core Lean only.

  Anchors (/repo):
    core/task/task.go  isLocked:
        len(hostname) > 0 && len(agentId) > 0 && len(offerId) > 0 && len(taskId) > 0 && len(executorId) > 0 && parent != nil
      — the one predicate every ownership guard reads (Cleanup, KillTasks, releaseTask, IsClaimable / the reuse loop of
      acquireTasks, BuildPropertyMaps, the KILL branch of handleMessage through the roster).
    core/task/manager.go  updateTaskStatus, `case mesos.TASK_RUNNING:`
        taskPtr.status = ACTIVE ; parent.UpdateStatus(ACTIVE)
        if status.GetAgentID() != nil    { taskPtr.agentId    = status.GetAgentID().GetValue() }
        if status.GetExecutorID() != nil { taskPtr.executorId = status.GetExecutorID().GetValue() }
      the inactivating states only touch the status, every other state touches nothing.
    The only other writers of the two ids: newTaskForMesosOffer (both from the offer, non-empty) and
    HandleExecutorFailed / HandleAgentFailed (blank one of them ON PURPOSE: "causes IsLocked() to become false for sure").

  mesos.TaskStatus.agent_id and .executor_id are OPTIONAL fields. Every update the AliECS executor sends carries
  both; an update BUILT BY THE MASTER (the answer to a reconciliation, a TASK_LOST / TASK_DROPPED it generates
  itself, an update it relays for an agent) need not: `Carried` says which of the two a given update has. A field
  that is present is taken to be non-empty (Mesos ids are never the empty string).

  `Guards` = which of the two nil tests stand in front of the copy. `codeGuards` is the code (tied to the go/ast
  facts Gen.TaskIds by `C04_status_id_copy_is_code` / `C18_status_id_copy_is_code`); every other value is NOT the
  code and only there to show what the theorems depend on: without its guard a copy writes the empty string the
  nil-safe getter chain returns for an absent field, and a task owned by a live environment stops being locked.
-/

namespace TaskIds

/-- Which of the two `if status.GetXID() != nil` tests guard the copy of the id into the task. -/
structure Guards where
  agent : Bool
  executor : Bool
  deriving DecidableEq, Repr, Inhabited

/-- The code: both copies are guarded. -/
def codeGuards : Guards := { agent := true, executor := true }

/-- NOT the code: both ids copied unconditionally ("the generated getters are nil-safe"). -/
def noGuards : Guards := { agent := false, executor := false }

/-- Which optional identity fields a status update carries. -/
structure Carried where
  agent : Bool
  executor : Bool
  deriving DecidableEq, Repr, Inhabited

/-- What the AliECS executor sends. -/
def Carried.full : Carried := { agent := true, executor := true }

def Carried.isFull (u : Carried) : Bool := u.agent && u.executor

/-- The three kinds of task state `updateTaskStatus` tells apart. -/
inductive Kind where
  | running        -- TASK_RUNNING
  | inactivating   -- TASK_DROPPED, TASK_LOST, TASK_KILLED, TASK_FAILED, TASK_ERROR, TASK_FINISHED
  | other          -- TASK_STAGING, TASK_STARTING, TASK_KILLING, TASK_UNREACHABLE, …: no case of the switch
  deriving DecidableEq, Repr, Inhabited

/-- What `isLocked` reads, as "non-empty" flags (`parent`: the parent role is not nil). -/
structure Fields where
  hostname : Bool
  agentId : Bool
  offerId : Bool
  taskId : Bool
  executorId : Bool
  parent : Bool
  deriving DecidableEq, Repr, Inhabited

/-- task.go `isLocked`. -/
def Fields.locked (f : Fields) : Bool :=
  f.hostname && f.agentId && f.offerId && f.taskId && f.executorId && f.parent

/-- One id after the TASK_RUNNING branch: is the stored string non-empty? `guard`: the nil test is there;
    `stored`: it was non-empty before; `carried`: the update has the field. -/
def copyId (guard stored carried : Bool) : Bool :=
  if carried then true else if guard then stored else false

/-- `updateTaskStatus` on the identity fields. -/
def onStatus (g : Guards) (k : Kind) (u : Carried) (f : Fields) : Fields :=
  match k with
  | .running => { f with agentId := copyId g.agent f.agentId u.agent, executorId := copyId g.executor f.executorId u.executor }
  | _ => f

/-- Does this update take the lock off a locked task under `g`? (`locked_onStatus`) -/
def unlocks (g : Guards) (k : Kind) (u : Carried) : Bool :=
  decide (k = .running) && ((!u.agent && !g.agent) || (!u.executor && !g.executor))

end TaskIds
