/-
  Model/Transition — the TASK-LEVEL half of an environment transition (C02).

  Model/Env.lean takes the outcome of each task-level transition body as an input
  (`bodyOk`). This file computes it from what every commanded task does, mirroring

    core/workflow/roleutils.go      GetActiveTasks            → `targets`
    core/controlcommands/mesoscommandservent.go  RunCommand   → `runCommand`
    core/controlcommands/commandqueue.go         commit       → `commit`
    core/controlcommands/multiresponse.go  consolidateResponses → `consolidate`
    core/task/manager.go   transitionTasks / configureTasks   → `transitionTasks`, `configureTasks`
    core/environment/transition_{configure,startactivity,stopactivity,reset}.go → `configureBody`, `commandBody`
    core/environment/transition_deploy.go  (WORKFLOW_ACTIVE_LOOP)  → `deployBody`
    core/environment/manager.go  CreateEnvironment (DEPLOY, CONFIGURE, teardown on failure) → `createEnvironment`
    core/server.go  ControlEnvironment (gRPC status included)  → `controlRpc`

  `Cfg` has one switch per repair that went into /repo as a `fix:` commit (notes/C02.fix-{1,2,3,5,6}.patch; fix-4 is
  `AcqCfg.outcomeCap` in Model/DeployAttempts.lean): `Cfg.code` (all on) is the code as it is, `Cfg.legacy` (all off) the
  code as it was before them — the former refutations stay true statements about `Cfg.legacy`. The switches are tied to
  the source by go/ast facts (Gen/C02Facts.lean, `C02_cfg_is_code`) and by the differential runs. What is still wrong in
  DEPLOY (a non-critical task that does not start; a TASK_RUNNING update that overtakes the roster) is modelled as it is.

  Time is logical: a task that does not answer makes `RunCommand` return its time-out error;
  the deploy loop either sees the root status ACTIVE or gives up.

  Executor / agent loss (Mesos FAILURE event) while a command is outstanding: `Loss`, and the roster-level model
  `RTask` / `handleExecutorFailed` / `handleAgentFailed` / `getTask` / `classifyR` further down
  (core/task/manager.go HandleExecutorFailed, HandleAgentFailed, GetTask). A loss does NOT enter the classification of the
  command's responses: the task behind a failed target is looked up by its task id alone, and the loss only blanks the
  task's executor id / agent id. What it does change: a reply that had not left never comes (`Outcome.under`), the tasks
  hit are no longer ACTIVE (`loseTasks`), and when a critical one is among them the environment's own watcher drives
  the environment to ERROR as soon as it gets the transition mutex (`critLost`).
-/
import ControlModel.Model.Env
import ControlModel.Model.RoleTree

namespace Trans
open EnvM
open RoleTree (TStatus)

/-- What a commanded task does with one transition command. -/
inductive Outcome where
  | ok                  -- reaches the destination, replies without error
  | errorReplyStaySrc   -- replies with an error, stays in the source state
  | errorReplyToError   -- replies with an error, reports state ERROR
  | undeliverable       -- the MESSAGE call itself fails (SendFunc returns an error)
  | silent              -- delivered, never answered
  | dies                -- no reply; a terminal status update instead (the role becomes INACTIVE)
  deriving DecidableEq, Repr, Inhabited

/-- What a task does when launched by DEPLOY. -/
inductive Launch where
  | ok        -- TASK_RUNNING: the role becomes ACTIVE
  | okEarly   -- the task runs, but its TASK_RUNNING update is handled before acquireTasks has put the task into the
              -- roster: updateTaskStatus drops it ("task not in roster") and the role stays INACTIVE
  | dies      -- terminal update
  | silent    -- stays TASK_STAGING
  | nohost    -- no agent satisfies its constraints
  deriving DecidableEq, Repr, Inhabited

/-- The repaired places (all `true` = the code as it is, all `false` = the code before the `fix:` commits). -/
structure Cfg where
  singleUsesCritical : Bool    -- fix-1: the single-response branch looks at the critical trait too (`isCriticalTarget`)
  emptyIsSuccess : Bool        -- fix-2: a command with no target succeeds; CONFIGURE with no active task does not wait
  keepTransitionError : Bool   -- fix-3: ControlEnvironment reports the transition's error, not GO_ERROR's (`goErr`)
  deployKeepsNotification : Bool  -- fix-5: DEPLOY's status channel holds one pending notification and the loop reads the
                                  -- workflow's status itself when woken: "the root is ACTIVE" cannot be missed
  deployEmptyIsSuccess : Bool  -- fix-6: DEPLOY waits for the root to become ACTIVE only if it asked something to (a task
                               -- descriptor handed to acquireTasks, a call role set ACTIVE)
  deriving DecidableEq, Repr

/-- The code as it is. -/
def Cfg.code : Cfg := ⟨true, true, true, true, true⟩
/-- The code as it was before the `fix:` commits. -/
def Cfg.legacy : Cfg := ⟨false, false, false, false, false⟩

structure Task where
  critical : Bool
  active : Bool     -- status of its role is ACTIVE
  deriving DecidableEq, Repr, Inhabited

/-- A commanded task: (critical, what it will do). -/
abbrev Target := Bool × Outcome

/-- The executor or the agent of a commanded task is lost (Mesos FAILURE event handled by `HandleExecutorFailed` /
    `HandleAgentFailed`) while the command is outstanding. -/
structure Loss where
  agent : Bool        -- false: the executor failed, true: the whole agent
  withUpdate : Bool   -- the task's terminal status update (TASK_FAILED / TASK_LOST) precedes the FAILURE event
  before : Bool       -- the loss precedes the task's reply: the reply never leaves
  deriving DecidableEq, Repr, Inhabited

/-- A reply is on its way (the three outcomes that answer). -/
def Outcome.replies : Outcome → Bool
  | .ok => true
  | .errorReplyStaySrc => true
  | .errorReplyToError => true
  | _ => false

/-- What the target does, given the loss: a reply that had not left is never sent. -/
def Outcome.under (o : Outcome) : Option Loss → Outcome
  | some l => if l.before && o.replies then .silent else o
  | none => o

/-- Per-task losses (parallel to the task list, missing = none) applied to the scripted outcomes. -/
def effOuts : List (Option Loss) → List Outcome → List Outcome
  | [], os => os
  | _ :: _, [] => []
  | l :: ls, o :: os => o.under l :: effOuts ls os

/-- `workflow.GetActiveTasks`: only tasks whose role is ACTIVE are commanded. -/
def targets (ps : List (Task × Outcome)) : List Target :=
  (ps.filter (fun p => p.1.active)).map (fun p => (p.1.critical, p.2))

/-! ### one command to one target: Servent.RunCommand -/

inductive Reply where
  | response (err : Bool)   -- (res, nil); err = `res.Err() != nil`
  | sendError               -- SendFunc failed: (nil, err)
  | timedOut                -- nothing within ResponseTimeout: (nil, err)
  deriving DecidableEq, Repr

def runCommand : Outcome → Reply
  | .ok => .response false
  | .errorReplyStaySrc => .response true
  | .errorReplyToError => .response true
  | .undeliverable => .sendError
  | .silent => .timedOut
  | .dies => .timedOut

/-- `commit`, collecting loop: "we treat a lack of response as a response with error". The Bool is
    whether the entry stored for the target carries an error. -/
def entryErr : Reply → Bool
  | .response e => e
  | .sendError => true
  | .timedOut => true

/-- `CommandQueue.commit`: one entry per target: (critical trait of the target, entry has an error). -/
def commit (ts : List Target) : List (Bool × Bool) :=
  ts.map (fun t => (t.1, entryErr (runCommand t.2)))

/-- `consolidateResponses`. -/
inductive Response where
  | nil
  | single (critical err : Bool)
  | multi (entries : List (Bool × Bool))
  deriving Repr

def consolidate : List (Bool × Bool) → Response
  | [] => .nil
  | [e] => .single e.1 e.2
  | e :: e' :: es => .multi (e :: e' :: es)

/-- The tail of `transitionTasks` / `configureTasks`: `true` = returns nil (no error).
    nil response ⇒ error; multi-response ⇒ error iff some entry of a CRITICAL task has an error;
    single response ⇒ error iff it has an error and the one target is critical (`isCriticalTarget`; legacy: the
    trait was not looked at). -/
def classify (cfg : Cfg) : Response → Bool
  | .nil => false
  | .single crit err => if cfg.singleUsesCritical then !(crit && err) else !err
  | .multi es => !(es.any (fun e => e.1 && e.2))

/-- `Manager.transitionTasks` (START / STOP / RESET): `if len(tasks) == 0 { return nil }` first (legacy: a command
    with zero targets was enqueued and came back as a nil response, i.e. an error). -/
def transitionTasks (cfg : Cfg) (ts : List Target) : Bool :=
  if cfg.emptyIsSuccess && ts.isEmpty then true
  else classify cfg (consolidate (commit ts))

/-- `Manager.configureTasks`: an empty task list is an error; otherwise the same classification
    (the code is a second copy). -/
def configureTasks (cfg : Cfg) (ts : List Target) : Bool :=
  if ts.isEmpty then false
  else classify cfg (consolidate (commit ts))

inductive BodyRes where
  | ok | error | hang
  deriving DecidableEq, Repr

/-- START_ACTIVITY / STOP_ACTIVITY / RESET: send to the active tasks (possibly none), wait for the
    TasksStateChangedEvent, return its error. -/
def commandBody (cfg : Cfg) (ts : List Target) : BodyRes :=
  if transitionTasks cfg ts then .ok else .error

/-- CONFIGURE: the message is sent, and the answer awaited, only `if len(activeTasks) != 0` (legacy: the wait on
    stateChangedCh was unconditional: with no active task nobody ever answered). -/
def configureBody (cfg : Cfg) (ts : List Target) : BodyRes :=
  if ts.isEmpty then (if cfg.emptyIsSuccess then .ok else .hang)
  else if configureTasks cfg ts then .ok else .error

/-! ### DEPLOY -/

/-- Status a task role ends up with. A critical task without a host is marked UNDEPLOYABLE by acquireTasks. -/
def leafStatus (critical : Bool) : Launch → TStatus
  | .ok => .ACTIVE
  | .okEarly => .INACTIVE
  | .dies => .INACTIVE
  | .silent => .INACTIVE
  | .nohost => if critical then .UNDEPLOYABLE else .INACTIVE

/-- `aggregateStatus` of the root over its children (see Model/RoleTree): ALL children count, critical or not. -/
def aggFrom (acc : TStatus) : List TStatus → TStatus
  | [] => acc
  | s :: r => if acc = .UNDEFINED then acc else aggFrom (acc.X s) r

def aggregateStatus : List TStatus → TStatus
  | [] => .UNDEFINED
  | s :: r => aggFrom s r

/-- Root status once every launch has had its effect: the task roles, then `calls` call roles (ACTIVE at once). -/
def rootStatus (ls : List (Bool × Launch)) (calls : Nat) : TStatus :=
  aggregateStatus (ls.map (fun l => leafStatus l.1 l.2) ++ List.replicate calls .ACTIVE)

/-- The hand-over of "the root is ACTIVE" from ParentAdapter.updateStatus (a NON-BLOCKING send:
    `select { case ch <- s: default: }`, made after the new status is stored) to WORKFLOW_ACTIVE_LOOP.
    `notListening`: when the send is made the loop is not at its receive (between `wf.GetStatus()` and the `select`, or
    handling an earlier notification) and whatever room the channel has is taken by an earlier notification.
    The code as it is: the channel holds one pending notification and the loop, once woken, reads the workflow's
    status itself — a send that finds the channel full leaves a notification in it that is taken AFTER the status was
    stored, so the loop reads ACTIVE whichever notification woke it. Legacy: unbuffered channel, the value sent is the
    value used: a send that finds no receiver is dropped, and the time-out branch does not act on the status. -/
def Cfg.deployHears (cfg : Cfg) (notListening : Bool) : Bool := !notListening || cfg.deployKeepsNotification

/-- Something was asked to become active: a task descriptor went to acquireTasks, or a call role was set ACTIVE. Only
    these ever report a status to the root. -/
def deployAwaits (ls : List (Bool × Launch)) (calls : Nat) : Bool := !ls.isEmpty || calls != 0

/-- WORKFLOW_ACTIVE_LOOP: entered `if wfStatus != ACTIVE && (len(taskDescriptors) != 0 || len(callHooks) != 0)` (legacy:
    whenever the status is not ACTIVE — a workflow without a role waited for a status nobody would ever report); left with
    success when the root status is seen ACTIVE; every other way out (UNDEPLOYABLE seen, root state ERROR notified,
    deploy_timeout) returns an error. `lost`: see `Cfg.deployHears`. -/
def deployBody (cfg : Cfg) (ls : List (Bool × Launch)) (calls : Nat) (lost : Bool) : BodyRes :=
  if cfg.deployEmptyIsSuccess && !deployAwaits ls calls then .ok
  else if rootStatus ls calls = .ACTIVE ∧ cfg.deployHears lost = true then .ok else .error

/-! ### the API: ControlEnvironment -/

/-- The environment's own watcher (subscribeToWfState): GO_ERROR, forcing ERROR if that fails elsewhere than in ERROR. -/
def watcher (env : Env) (hooks : List Hook) : Env :=
  let g := tryTransition env hooks .GO_ERROR true false
  if g.2.2.isOk then g.1 else if g.1.st = .ERROR then g.1 else { g.1 with st := .ERROR }

/-- `RpcServer.ControlEnvironment`: returns the environment and whether the gRPC status is OK.
    `err = TryTransition(trans); if err != nil { if goErr := TryTransition(GO_ERROR); goErr != nil { SetState(ERROR) } }`
    — the status is made from `err` (legacy: GO_ERROR's result was stored in `err` too, so the status was made from
    the LAST one). `watcherFirst`: the environment's watcher (a critical task went
    to ERROR more than 0.5 s before the transition gave up) got the transition mutex before this handler did. -/
def controlRpc (cfg : Cfg) (env : Env) (hooks : List Hook) (e : Ev) (bodyOk rnFail watcherFirst : Bool) : Env × Bool :=
  let r := tryTransition env hooks e bodyOk rnFail
  if r.2.2.isOk then (r.1, true)
  else
    let envW := if watcherFirst then watcher r.1 hooks else r.1
    let g := tryTransition envW hooks .GO_ERROR true false
    let envG := if g.2.2.isOk then g.1 else { g.1 with st := .ERROR }
    (envG, if cfg.keepTransitionError then false else g.2.2.isOk)

/-! ### scenarios (what the correspondence harness runs) -/

inductive Rpc where
  | ok | err | hang
  deriving DecidableEq, Repr

/-- One request as seen from outside. `state`: the state in the reply (none: no reply body);
    `after`: GetEnvironment afterwards (none: no longer listed); `cmd`: indices of the tasks commanded. -/
structure Obs where
  ev : Option Ev          -- none = NewEnvironment
  rpc : Rpc
  state : Option St
  after : Option St
  cmd : List Nat
  runningAcked : Bool := false   -- NewEnvironment failed in DEPLOY although every task was running (and the core had
                                 -- acknowledged every TASK_RUNNING update) well before the deadline, and by the core's
                                 -- own account (the time-out error lists the roles that are not ACTIVE) some role was
                                 -- not ACTIVE when it gave up
  activeUnseen : Bool := false   -- …and by the core's own account EVERY role was ACTIVE when it gave up
  lost : List Nat := []          -- indices of the live tasks whose executor / agent was lost during the request
  att : Option (List (List Nat)) := none   -- NewEnvironment of a scenario with scripted offers rounds: the tasks launched
                                 -- in each deployment attempt of DEPLOY (Model/DeployAttempts.lean)
  verdictLost : Bool := false    -- …and acquireTasks never heard the verdict of the last of them (it is still waiting)
  deriving DecidableEq, Repr

def indexed {α} (xs : List α) : List (Nat × α) := (List.range xs.length).zip xs

/-- Indices of the tasks a command goes to. -/
def cmdIdx (tasks : List Task) : List Nat :=
  ((indexed tasks).filter (fun p => p.2.active)).map (·.1)

/-- Tasks paired with their scripted outcomes (a missing script means `ok`). -/
def pair (tasks : List Task) (outs : List Outcome) : List (Task × Outcome) :=
  tasks.zip (outs ++ List.replicate (tasks.length - outs.length) .ok)

/-- A task that died is no longer ACTIVE. -/
def afterCommand (tasks : List Task) (outs : List Outcome) : List Task :=
  (pair tasks outs).map (fun p => if p.1.active && p.2 = .dies then { p.1 with active := false } else p.1)

/-- The tasks hit by a loss are no longer ACTIVE (status INACTIVE, state ERROR). -/
def loseTasks : List (Option Loss) → List Task → List Task
  | [], ts => ts
  | _ :: _, [] => []
  | l :: ls, t :: ts => (if l.isSome then { t with active := false } else t) :: loseTasks ls ts

/-- A critical ACTIVE task is among those hit: its role goes to ERROR, the environment's watcher reacts. -/
def critLost : List (Option Loss) → List Task → Bool
  | [], _ => false
  | _ :: _, [] => false
  | l :: ls, t :: ts => (l.isSome && t.critical && t.active) || critLost ls ts

/-- Indices of the live tasks hit. -/
def lostFrom (i : Nat) : List (Option Loss) → List Task → List Nat
  | [], _ => []
  | _ :: _, [] => []
  | l :: ls, t :: ts => (if l.isSome && t.active then [i] else []) ++ lostFrom (i + 1) ls ts

def lostIdx (ls : List (Option Loss)) (tasks : List Task) : List Nat := lostFrom 0 ls tasks

structure Workflow where
  calls : Nat
  tasks : List (Bool × Launch)      -- (critical, launch outcome)
  notifyLost : Bool := false        -- the notification "root is ACTIVE" finds the DEPLOY loop not listening (see
                                    -- `Cfg.deployHears`; for the code as it is nothing follows from it)
  deriving Repr

/-- `envs.CreateEnvironment` with no hooks: DEPLOY, then CONFIGURE; on failure GO_ERROR + teardown (the
    environment is gone). Returns the observation and, on success, the world to go on with. -/
def createEnvironment (cfg : Cfg) (wf : Workflow) (outs : List Outcome) : Obs × Option (Env × List Task) :=
  let env0 : Env := {}
  match deployBody cfg wf.tasks wf.calls wf.notifyLost with
  | .ok =>
    let d := tryTransition env0 [] .DEPLOY true false
    let tasks : List Task := wf.tasks.map (fun t => { critical := t.1, active := t.2 = .ok })
    let cmd := cmdIdx tasks
    match configureBody cfg (targets (pair tasks outs)) with
    | .hang => ({ ev := none, rpc := .hang, state := none, after := some d.1.st, cmd := [] }, none)
    | .error => ({ ev := none, rpc := .err, state := none, after := none, cmd := cmd }, none)
    | .ok =>
      let c := tryTransition d.1 [] .CONFIGURE true false
      ({ ev := none, rpc := .ok, state := some c.1.st, after := some c.1.st, cmd := cmd }, some (c.1, afterCommand tasks outs))
  | _ => ({ ev := none, rpc := .err, state := none, after := none, cmd := [],
            runningAcked := deployAwaits wf.tasks wf.calls && wf.tasks.all (fun t => t.2 = .ok || t.2 = .okEarly) &&
              decide (rootStatus wf.tasks wf.calls ≠ .ACTIVE),
            activeUnseen := decide (rootStatus wf.tasks wf.calls = .ACTIVE) }, none)

def bodyFor (cfg : Cfg) (e : Ev) (ts : List Target) : BodyRes :=
  match e with
  | .CONFIGURE => configureBody cfg ts
  | .START_ACTIVITY => commandBody cfg ts
  | .STOP_ACTIVITY => commandBody cfg ts
  | .RESET => commandBody cfg ts
  | _ => .ok      -- EXIT / GO_ERROR / RECOVER / DEPLOY (through the API: re-deploys nothing here) command no task

/-- One ControlEnvironment request; `ls`: executors / agents lost while its command is outstanding.
    When a critical live task is hit and the transition nevertheless succeeds (the task had acknowledged before), the
    environment's watcher performs GO_ERROR as soon as the transition mutex is free: the state afterwards is ERROR, and
    the state in the reply is ERROR too if the watcher got there before the handler read it (`watcherFirst`). -/
def controlStep (cfg : Cfg) (env : Env) (tasks : List Task) (e : Ev) (outs : List Outcome) (watcherFirst : Bool)
    (ls : List (Option Loss) := []) : Obs × Env × List Task :=
  let outs' := effOuts ls outs
  let ts := targets (pair tasks outs')
  -- a command is sent only if the event is possible in the current state (before_event / leave_state come first)
  let legal := (dst? e env.st).isSome
  let cmd := if legal then cmdIdx tasks else []
  let cl := legal && critLost ls tasks
  match (if legal then bodyFor cfg e ts else .error) with
  | .hang => ({ ev := some e, rpc := .hang, state := none, after := some env.st, cmd := [] }, env, tasks)
  | b =>
    let r := controlRpc cfg env [] e (b = .ok) false watcherFirst
    ({ ev := some e, rpc := if r.2 then .ok else .err,
       state := if r.2 then some (if cl && watcherFirst then .ERROR else r.1.st) else none,
       after := some (if cl then .ERROR else r.1.st), cmd := cmd, lost := if legal then lostIdx ls tasks else [] },
     r.1, if legal then loseTasks ls (afterCommand tasks outs') else tasks)

inductive SStep where
  | ctl (e : Ev) (outs : List Outcome) (watcherFirst : Bool) (ls : List (Option Loss))
  | die (outs : List Outcome)        -- tasks marked `dies` terminate while no transition is in progress
  deriving Repr

def SStep.hasUndeliverable : SStep → Bool
  | .ctl _ outs _ _ => outs.any (· = .undeliverable)
  | .die _ => false

/-- The harness stops after the first request that did not report its destination, after a request with an
    undeliverable command (the scheduler client of the core does not recover from a failed call), and after a request
    during which a critical live task was lost (the watcher has taken the environment to ERROR). -/
def runSteps (cfg : Cfg) (env : Env) (tasks : List Task) : List SStep → List Obs
  | [] => []
  | .die outs :: rest => runSteps cfg env (afterCommand tasks outs) rest
  | .ctl e outs w ls :: rest =>
    let r := controlStep cfg env tasks e outs w ls
    let reached := r.1.rpc = .ok ∧ r.1.state = dst? e env.st ∧ (dst? e env.st).isSome
    if reached ∧ !(SStep.hasUndeliverable (.ctl e outs w ls)) ∧ critLost ls tasks = false then r.1 :: runSteps cfg r.2.1 r.2.2 rest
    else [r.1]

structure Scenario where
  wf : Workflow
  configure : List Outcome      -- outcomes for the CONFIGURE inside NewEnvironment
  steps : List SStep
  deriving Repr

def run (cfg : Cfg) (sc : Scenario) : List Obs :=
  let c := createEnvironment cfg sc.wf sc.configure
  match c.2 with
  | some (env, tasks) =>
    if sc.configure.any (· = .undeliverable) then [c.1] else c.1 :: runSteps cfg env tasks sc.steps
  | none => [c.1]

/-! ### the roster: which task a failed target belongs to, and executor / agent loss

  `transitionTasks` / `configureTasks` classify the error entries of a multi-response by the task behind each entry:
  `task := m.GetTask(k.TaskId.Value)` — a scan of the roster by TASK ID, done when the responses are in. The entries are
  keyed by the `MesosCommandTarget {AgentId, ExecutorId, TaskId}` computed when the command was built. In between, Mesos
  may report the executor or the agent of a target lost: `HandleExecutorFailed` / `HandleAgentFailed` blank
  `task.executorId` / `task.agentId` of every roster task on it (the task stays in the roster, its id stays). -/

/-- A task as the task manager's roster holds it. -/
structure RTask where
  taskId : Nat
  agentId : Option Nat       -- none: blanked by HandleAgentFailed
  executorId : Option Nat    -- none: blanked by HandleExecutorFailed
  critical : Bool            -- own trait or the parent role's
  deriving DecidableEq, Repr

/-- `MesosCommandTarget`: the key of a response entry. -/
structure CmdTarget where
  agentId : Option Nat
  executorId : Option Nat
  taskId : Nat
  deriving DecidableEq, Repr

/-- `Task.GetMesosCommandTarget` (evaluated when the command is built). -/
def RTask.target (t : RTask) : CmdTarget := ⟨t.agentId, t.executorId, t.taskId⟩

/-- A Mesos FAILURE event. -/
inductive LossEv where
  | executor (x : Nat)
  | agent (a : Nat)
  deriving DecidableEq, Repr

/-- `Manager.HandleExecutorFailed`: `t.executorId = ""` for every roster task of that executor. -/
def handleExecutorFailed (x : Nat) (r : List RTask) : List RTask :=
  r.map (fun t => if t.executorId = some x then { t with executorId := none } else t)

/-- `Manager.HandleAgentFailed`: `t.agentId = ""` for every roster task of that agent. -/
def handleAgentFailed (a : Nat) (r : List RTask) : List RTask :=
  r.map (fun t => if t.agentId = some a then { t with agentId := none } else t)

def applyLoss : LossEv → List RTask → List RTask
  | .executor x, r => handleExecutorFailed x r
  | .agent a, r => handleAgentFailed a r

/-- Any number of FAILURE events, in the order they are handled. -/
def applyLosses (L : List LossEv) (r : List RTask) : List RTask := L.foldl (fun r l => applyLoss l r) r

/-- `Manager.GetTask(id)`: the first roster task with that task id. -/
def getTask (r : List RTask) (id : Nat) : Option RTask := r.find? (fun t => t.taskId == id)

/-- Multi-response branch: `task != nil && (task.GetTraits().Critical || parent…Critical)`; a task that is not found
    lands in the non-critical bucket. -/
def critOfFailed (r : List RTask) (k : CmdTarget) : Bool :=
  match getTask r k.taskId with
  | some t => t.critical
  | none => false

/-- `Manager.isCriticalTarget` (single-response branch): a task that is not found counts as critical. -/
def isCriticalTarget (r : List RTask) (k : CmdTarget) : Bool :=
  match getTask r k.taskId with
  | some t => t.critical
  | none => true

/-- The tail of `transitionTasks` / `configureTasks` on the response entries (key, carries an error), reading the
    roster `r` as it is WHEN THE RESPONSES ARE IN. -/
def classifyR (cfg : Cfg) (r : List RTask) : List (CmdTarget × Bool) → Bool
  | [] => false
  | [e] => if cfg.singleUsesCritical then !(isCriticalTarget r e.1 && e.2) else !e.2
  | e :: e' :: es => !((e :: e' :: es).any (fun x => critOfFailed r x.1 && x.2))

/-- `commit` with its keys: one entry per commanded task, keyed by the target computed BEFORE the command is sent. -/
def commitR (cs : List (RTask × Outcome)) : List (CmdTarget × Bool) :=
  cs.map (fun c => (c.1.target, entryErr (runCommand c.2)))

/-- `transitionTasks` on the roster: the tasks `cs` are commanded, the FAILURE events `L` are handled while the command
    is outstanding, then the responses are classified. -/
def transitionTasksR (cfg : Cfg) (r : List RTask) (cs : List (RTask × Outcome)) (L : List LossEv) : Bool :=
  if cfg.emptyIsSuccess && cs.isEmpty then true
  else classifyR cfg (applyLosses L r) (commitR cs)

def configureTasksR (cfg : Cfg) (r : List RTask) (cs : List (RTask × Outcome)) (L : List LossEv) : Bool :=
  if cs.isEmpty then false
  else classifyR cfg (applyLosses L r) (commitR cs)

/-- `bodyFor` on the roster, with losses. -/
def bodyForR (cfg : Cfg) (e : Ev) (r : List RTask) (cs : List (RTask × Outcome)) (L : List LossEv) : BodyRes :=
  match e with
  | .CONFIGURE =>
    if cs.isEmpty then (if cfg.emptyIsSuccess then .ok else .hang)
    else if configureTasksR cfg r cs L then .ok else .error
  | .START_ACTIVITY => if transitionTasksR cfg r cs L then .ok else .error
  | .STOP_ACTIVITY => if transitionTasksR cfg r cs L then .ok else .error
  | .RESET => if transitionTasksR cfg r cs L then .ok else .error
  | _ => .ok

/-- The commanded tasks as `bodyFor` sees them. -/
def plainTargets (cs : List (RTask × Outcome)) : List Target := cs.map (fun c => (c.1.critical, c.2))

/-- The commanded tasks are roster tasks, and task ids are unique in the roster. -/
def RosterOk (r : List RTask) (cs : List (RTask × Outcome)) : Prop :=
  (∀ t ∈ r, ∀ t' ∈ r, t.taskId = t'.taskId → t = t') ∧ (∀ c ∈ cs, c.1 ∈ r)

end Trans
