/-
  Model/TrigExpr — the TEXT of a trigger / await expression (C08).

  A workflow template writes the point at which a hook is started or awaited as a string:

      trigger: before_CONFIGURE+010        await: after_STOP_ACTIVITY-5        trigger: enter_RUNNING

  docs/handbook/configuration.md: "<trigger name>[+|-<weight>]", the weight an INTEGER ("hooks of one moment
  run in ascending order of their weight, default 0"). core/workflow/callable/utils.go
  `ParseTriggerExpression(expr) (name, weight)` reads it:

      if i := strings.LastIndexFunc(expr, '+' or '-'); i >= 0 { name, w = expr[:i], expr[i:] } else { name, w = expr, "+0" }
      n, err := strconv.Atoi(w); if err != nil { n = 0 }          -- (a warning is logged)

  `strconv.Atoi` is the DECIMAL reading: an optional sign, then one or more of the digits 0–9, nothing else —
  leading zeros are just zeros ("+010" is ten, not eight; "+08" is eight, not an error), no base prefix
  ("+0x10" is not a number), no digit separators ("+1_000"), no blanks; values outside int64 are an error.
  What is not a number is weight 0 (the code's fallback; Go's own 0 for the error value).

  The model works on `List Char` (`String` operations do not reduce in the kernel); the driver hands it
  `text.toList`. Tied to the code by tabulating the REAL function over a grid of texts
  (harness/props/c08/weights.go → Gen/C08Weights.lean, theorem `C08_trigger_text_is_code`).
-/
import ControlModel.Basic

namespace EnvM

def isSign (c : Char) : Bool := c == '+' || c == '-'

/-- the value of a decimal digit -/
def digitVal? (c : Char) : Option Nat :=
  if '0' ≤ c ∧ c ≤ '9' then some (c.toNat - 48) else none

def isDigit (c : Char) : Bool := (digitVal? c).isSome

/-- decimal value of a string of digits, most significant first (`acc` = value of the digits read so far);
    `none` as soon as a character is not a decimal digit -/
def decFrom (acc : Nat) : List Char → Option Nat
  | [] => some acc
  | c :: cs =>
    match digitVal? c with
    | some d => decFrom (10 * acc + d) cs
    | none => none

/-- one or more decimal digits -/
def decVal? : List Char → Option Nat
  | [] => none
  | cs => decFrom 0 cs

/-- `strconv.Atoi` on a 64-bit platform: optional sign, one or more decimal digits, within int64. -/
def atoi? : List Char → Option Int
  | '+' :: ds => (decVal? ds).bind fun n => if n ≤ 9223372036854775807 then some (Int.ofNat n) else none
  | '-' :: ds => (decVal? ds).bind fun n => if n ≤ 9223372036854775808 then some (- Int.ofNat n) else none
  | ds => (decVal? ds).bind fun n => if n ≤ 9223372036854775807 then some (Int.ofNat n) else none

/-- The weight a weight text (sign included, as cut off by `splitLastSign`) declares: its decimal reading,
    0 when it is not a number. -/
def weightOfText (w : List Char) : Int := (atoi? w).getD 0

/-- `strings.LastIndexFunc(expr, isSign)` and the cut there: (what stands before the LAST sign, the rest from
    that sign on); `none` when the expression holds no sign. -/
def splitLastSign : List Char → Option (List Char × List Char)
  | [] => none
  | c :: cs =>
    match splitLastSign cs with
    | some (n, w) => some (c :: n, w)
    | none => if isSign c then some ([], c :: cs) else none

/-- `callable.ParseTriggerExpression`. -/
def parseTriggerExpr (expr : List Char) : List Char × Int :=
  match splitLastSign expr with
  | some (n, w) => (n, weightOfText w)
  | none => (expr, 0)     -- the weight text defaults to "+0"

/-- A weight text in the documented form: a sign and one or more decimal digits (zero-padded or not). -/
def wellFormedWeight : List Char → Bool
  | c :: d :: ds => isSign c && (d :: ds).all isDigit
  | _ => false

/-- The integer a well-formed weight text stands for, as a reader of the template understands it. -/
def declaredWeight : List Char → Int
  | '-' :: ds => - Int.ofNat ((decVal? ds).getD 0)
  | _ :: ds => Int.ofNat ((decVal? ds).getD 0)
  | [] => 0

/-- …and fits the platform's int (the weights of a template are small; `strconv.Atoi` refuses what does not fit int64,
    and the reader then falls back to 0). -/
def weightInRange : List Char → Bool
  | _ :: ds => decide ((decVal? ds).getD 0 ≤ 9223372036854775807)
  | [] => true

/-- Does the model return, for every row (expression, name, weight) of a table made by evaluating the code's
    reader, the same name and weight? -/
def tableAgrees (t : List (List Char × List Char × Int)) : Bool :=
  t.all fun r => decide (parseTriggerExpr r.1 = r.2)

end EnvM
