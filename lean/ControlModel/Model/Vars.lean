/-
  Model/Vars — variable resolution in a role tree (property C14).

  Anchors in /repo:
    common/gera/map.go              WrapMap.Get / Flattened / FlattenedParent / WrappedAndFlattened
    dario.cat/mergo  (Merge)        the map branch of deepMerge for string values
    core/workflow/rolebase.go       ConsolidatedVarStack / ConsolidatedVarMaps, setParent wrapping
    configuration/template/fields.go  VarStack.consolidated(stage)
    core/task/task.go               BuildTaskCommand / BuildPropertyMap layering
    core/environment/environment.go GlobalDefaults / GlobalVars / UserVars behind the ParentAdapter

  A Go `map[string]string` is an association list in which the FIRST binding
  of a key is the map's value for it (`lookup`); all functions below respect
  that reading, so duplicate bindings never matter. A `gera` hierarchy
  (`w.parent.parent…`) is a `Chain`: the list of backing maps, nearest first.
  Core Lean only.
-/
import ControlModel.Basic

namespace Vars

abbrev KV := List (String × String)
abbrev Chain := List KV

/-- `m[k]` with the comma-ok flag: `none` = key absent, `some ""` = defined empty. -/
def lookup : KV → String → Option String
  | [], _ => none
  | (k', v) :: rest, k => if k' = k then some v else lookup rest k

/-- `m[k] = v`. -/
def set : KV → String → String → KV
  | [], k, v => [(k, v)]
  | (k', v') :: rest, k, v => if k' = k then (k, v) :: rest else (k', v') :: set rest k v

/-- One key of `mergo.Merge(&dst, src[, WithOverride])` for `map[string]string`
    (deepMerge, `case reflect.Map`, default branch): the source value is written
    when `overwrite` is on, or the destination has no such key, or the
    destination's value is the empty string (`isEmptyValue`). -/
def mergoKey (overwrite : Bool) (dst : KV) (k v : String) : KV :=
  match lookup dst k with
  | none => set dst k v
  | some old => if overwrite || old == "" then set dst k v else dst

/-- `mergo.Merge(&dst, src, …)`: every key of `src` in turn (Go iterates the
    source map in arbitrary order; keys are unique there, so the order is
    immaterial — `foldr` makes the first binding of an association list win). -/
def mergo (overwrite : Bool) (dst src : KV) : KV :=
  src.foldr (fun kv d => mergoKey overwrite d kv.1 kv.2) dst

/-- What the two call sites in gera/map.go pass: `mergo.WithOverride`. -/
def geraOverride : Bool := true

/-- `WrapMap.Get`: own map first, then the parent's `Get`. -/
def get : Chain → String → Option String
  | [], _ => none
  | m :: rest, k =>
    match lookup m k with
    | some v => some v
    | none => get rest k

/-- `WrapMap.Flattened`: copy of the own map merged (with override) onto the
    flattened parent. The empty chain is the nil map. -/
def flatten : Chain → KV
  | [] => []
  | m :: rest => mergo geraOverride (flatten rest) m

/-- `WrapMap.FlattenedParent`: the parent's `Flattened`, or an empty map. -/
def flattenParent (c : Chain) : KV := flatten c.tail

/-- `w.WrappedAndFlattened(m)`: `w`'s own map (its parent is ignored) over `m.Flattened()`. -/
def wrappedAndFlattened (own : KV) (m : Chain) : KV := mergo geraOverride (flatten m) own

/-- `gera.FlattenStack(maps...)`: each map flattened, later arguments wrapped
    over earlier ones, an empty map at the bottom, the whole flattened. -/
def flattenStack (cs : List Chain) : KV := flatten ((cs.map flatten).reverse ++ [[]])

/-! ## roles -/

/-- The three maps one level contributes. A role's view is determined by the
    list of levels from itself up to the root, then the environment
    (GlobalDefaults / GlobalVars / environment UserVars) as the last level. -/
structure Level where
  defaults : KV
  vars : KV
  userVars : KV
  deriving Repr, Inhabited

/-- nearest first: the role itself, its parent, …, the root, (the environment) -/
abbrev Path := List Level

def dChain (p : Path) : Chain := p.map (·.defaults)
def vChain (p : Path) : Chain := p.map (·.vars)
def uChain (p : Path) : Chain := p.map (·.userVars)

/-- `roleBase.ConsolidatedVarStack`:
    `MakeMapWithMap(userVars).Wrap(MakeMapWithMap(vars).Wrap(MakeMapWithMap(defaults))).Flattened()`
    over the three flattened hierarchies. -/
def consolidated (p : Path) : KV :=
  flatten [flatten (uChain p), flatten (vChain p), flatten (dChain p)]

/-- `roleBase.ConsolidatedVarMaps`. -/
def consolidatedMaps (p : Path) : KV × KV × KV :=
  (flatten (dChain p), flatten (vChain p), flatten (uChain p))

/-! ## template stages -/

/-- Which of the role's OWN maps a template stage can see (defaults, vars,
    user vars); the ancestors' maps are visible at every stage.
    fields.go `VarStack.consolidated`: stage 0,1 parent only; 2 + own defaults;
    3 + own vars; 4,5 + own user vars. -/
def stageVis : Nat → Bool × Bool × Bool
  | 0 => (false, false, false)
  | 1 => (false, false, false)
  | 2 => (true, false, false)
  | 3 => (true, true, false)
  | _ => (true, true, true)

/-- `Flattened()` or `FlattenedParent()` depending on visibility of the own map. -/
def flattenVis (own : Bool) (c : Chain) : KV := if own then flatten c else flattenParent c

/-- `VarStack.consolidated(stage)`: locals over user vars over vars over defaults. -/
def staged (locals : KV) (p : Path) (stage : Nat) : KV :=
  let (d, v, u) := stageVis stage
  flatten [locals, flattenVis u (uChain p), flattenVis v (vChain p), flattenVis d (dChain p)]

/-! ## task templates -/

/-- Overwrite loop `for k, v := range special { varStack[k] = v }`. -/
def overlay (base special : KV) : KV := special.foldr (fun kv d => set d kv.1 kv.2) base

/-- The order in which `BuildTaskCommand` layers the task template's two maps under the
    workflow stack — the one thing the repair of finding `task_template_defaults_over_vars`
    (notes/C14.fix-1.patch) changed. -/
structure TaskCfg where
  /-- the final command-line stack is workflow ▷ (template vars ▷ template defaults) -/
  cmdVarsOverDefaults : Bool
  deriving Repr, DecidableEq, Inhabited

/-- The code as it is: `workflowStack` is kept and wrapped over (vars over defaults). -/
def codeCfg : TaskCfg := { cmdVarsOverDefaults := true }

/-- The code before the repair: (workflow ▷ defaults) ▷ vars. -/
def legacyCfg : TaskCfg := { cmdVarsOverDefaults := false }

/-- The stack `BuildTaskCommand` hands to the command-line fields (value, user,
    env, arguments, stdout, stderr), as the code is: workflow stack + task
    specials (`workflowStack`), wrapped over (the template's vars wrapped over
    the template's defaults). (The intermediate stack `workflowStack ▷ defaults`
    still exists in the code: the template's vars are RESOLVED against it; with
    template-free values, the harness's assumption, that is not observable.) -/
def cmdStack (wf special tDefaults tVars : KV) : KV :=
  wrappedAndFlattened (overlay wf special) [tVars, tDefaults]

/-- `BuildTaskCommand` before notes/C14.fix-1.patch: workflow stack + task
    specials, wrapped over the template's defaults, the RESULT wrapped over the
    template's vars — the defaults beat the vars. -/
def legacyCmdStack (wf special tDefaults tVars : KV) : KV :=
  let s0 := overlay wf special
  let s1 := wrappedAndFlattened s0 [tDefaults]
  wrappedAndFlattened s1 [tVars]

def cmdStackOf (cfg : TaskCfg) (wf special tDefaults tVars : KV) : KV :=
  if cfg.cmdVarsOverDefaults then cmdStack wf special tDefaults tVars else legacyCmdStack wf special tDefaults tVars

/-- The stack `BuildPropertyMap` hands to the property fields: workflow stack
    wrapped over (template vars over template defaults), then the specials. -/
def propStack (wf special tDefaults tVars : KV) : KV :=
  overlay (wrappedAndFlattened wf [tVars, tDefaults]) special

/-! ## the documented rule (used by Spec and by the theorems) -/

/-- First source in the list that defines the key; an empty string is a definition. -/
def firstDefined (sources : List KV) (k : String) : Option String := get sources k

/-- Sources of a role in rank order: user vars nearest→farthest, then vars, then defaults. -/
def ranked (p : Path) : List KV := uChain p ++ vChain p ++ dChain p

/-- Sources visible at a template stage, in rank order. -/
def rankedAt (locals : KV) (p : Path) (stage : Nat) : List KV :=
  let (d, v, u) := stageVis stage
  [locals] ++ (if u then uChain p else (uChain p).tail)
           ++ (if v then vChain p else (vChain p).tail)
           ++ (if d then dChain p else (dChain p).tail)

/-- Tabulate a resolver over a key universe (canonical printed form of a map). -/
def tabulate (keys : List String) (f : String → Option String) : KV :=
  keys.filterMap fun k => (f k).map fun v => (k, v)

end Vars

/-! ## what the harness observes at one role -/

namespace Vars

/-- Names `Task.buildSpecialVarStack` writes over the workflow stack. -/
def specialKeys : List String :=
  ["task_name", "task_id", "task_class_name", "task_hostname", "environment_id", "task_parent_role"]

/-- One role as the harness describes it. -/
structure RoleIn where
  path : Path                      -- the role, its ancestors, (the environment)
  locals : KV                      -- iterator locals handed to the template stages
  tmpl : Option (KV × KV)          -- task template (defaults, vars) if the role runs a task
  deriving Repr, Inhabited

/-- One role as the harness observes it (every map tabulated over the key universe). -/
structure RoleObs where
  stack : KV                       -- ConsolidatedVarStack()
  fstack : KV                      -- gera.FlattenStack(defaults, vars, userVars) (iterator range expressions)
  maps : List KV                   -- ConsolidatedVarMaps(): defaults, vars, user vars
  gets : List KV                   -- GetDefaults/GetVars/GetUserVars().Get(k) for every key
  stages : List KV                 -- what a `{{ k }}` probe sees at stages 0..5
  task : Option (KV × KV)          -- what command-line / property fields of the task see
  deriving Repr, Inhabited, DecidableEq

/-- The model's observation: the code's mechanism (flatten / merge / wrap), for either
    configuration of `BuildTaskCommand`. -/
def modelObsOf (cfg : TaskCfg) (keys : List String) (special : KV) (r : RoleIn) : RoleObs :=
  let p := r.path
  let (d, v, u) := consolidatedMaps p
  { stack := tabulate keys (lookup (consolidated p))
    fstack := tabulate keys (lookup (flattenStack [dChain p, vChain p, uChain p]))
    maps := [tabulate keys (lookup d), tabulate keys (lookup v), tabulate keys (lookup u)]
    gets := [tabulate keys (get (dChain p)), tabulate keys (get (vChain p)), tabulate keys (get (uChain p))]
    stages := (List.range 6).map fun s => tabulate keys (lookup (staged r.locals p s))
    task := r.tmpl.map fun (td, tv) =>
      (tabulate keys (lookup (cmdStackOf cfg (consolidated p) special td tv)),
       tabulate keys (lookup (propStack (consolidated p) special td tv))) }

/-- The model of the code as it is (what the driver compares the implementation with). -/
abbrev modelObs (keys : List String) (special : KV) (r : RoleIn) : RoleObs := modelObsOf codeCfg keys special r

end Vars
