/-
  Model/VarsEnv — the variable writes an ENVIRONMENT performs on its own
  transitions (property C14, third part).

  Anchors in /repo (core/environment):
    environment.go  newEnvironment: GlobalDefaults / GlobalVars from the configuration store, UserVars from the
                    user's input, `__fmq_cleanup_count`, BaseConfigStack = GlobalVars over GlobalDefaults,
                    `enter_state_time_ms`; the four FSM callbacks before_event / leave_state / enter_state /
                    after_event: run_number, runNumber, the four run_*_time_ms, lhc_period, pdp_n_hbf_per_tf
                    (copies of BaseConfigStack entries), last_run_number, the cleanup counter
    manager.go      CreateEnvironment, TeardownEnvironment, handleDeviceEvent (listed, not interpreted)

  The environment writes through the same role API as everybody else:
  `env.workflow.SetRuntimeVar` = a user var of the ROOT role, `env.workflow.GetVars().Set` = a var of the
  root role, `env.GlobalVars.Set` = a var of the outermost level. So a write of the environment is a row
  `EnvWrite` = (where in the code, under which conditions, which map KIND of which level, set/del, key,
  where the value comes from); `envWriteTable` lists them all in source order and is identified with the
  go/ast enumeration `Gen.C14EnvWrites.table` by `C14_env_writes_are_code`. The model of a transition
  INTERPRETS that table (`fire`): nothing about kinds is written down a second time.
  Core Lean only.
-/
import ControlModel.Model.VarsTree
import ControlModel.Model.Env

namespace Vars

/-- Which of a level's three maps. -/
inductive MapKind where
  | defaults | vars | user
  deriving DecidableEq, Repr, Inhabited

/-- Whose maps: the workflow's root role, the environment-wide maps (the outermost level), some other role. -/
inductive Tgt where
  | root | env | role
  deriving DecidableEq, Repr, Inhabited

/-- Where the written value comes from. -/
inductive Src where
  | lit (v : String)        -- a string literal
  | store (k : String)      -- `env.BaseConfigStack[k]`: a copy of a configuration-store value
  | runNumber               -- the number just drawn by `the.ConfSvc().NewRunNumber()`
  | currentRun              -- `env.currentRunNumber`
  | count                   -- the cleanup counter as read back from GlobalVars
  | countInc                -- … incremented
  | stamp                   -- `time.Now()` in milliseconds
  | other
  | na                      -- a delete
  deriving DecidableEq, Repr, Inhabited

/-- One enclosing `if` of a write inside an FSM callback (`is = false`: the else branch). -/
inductive Guard where
  | event (is : Bool) (name : String)       -- `e.Event == name`
  | src (is : Bool) (name : String)         -- `e.Src == name`
  | emptyUser (is : Bool) (key : String)    -- `v, ok := env.workflow.GetUserVars().Get(key); ok && v == ""`
  | inStore (is : Bool) (key : String)      -- `_, ok := env.BaseConfigStack[key]; ok`
  | opaque (is : Bool) (text : String)      -- anything else (taken to hold)
  deriving DecidableEq, Repr, Inhabited

structure EnvWrite where
  file : String
  ctx : String
  guards : List Guard
  tgt : Tgt
  kind : MapKind
  del : Bool
  key : String
  src : Src
  deriving DecidableEq, Repr, Inhabited

/-- Every write of core/environment to the variable maps, in source order. -/
def envWriteTable : List EnvWrite := [
  ⟨"environment.go", "newEnvironment", [], .env, .vars, false, "__fmq_cleanup_count", .lit "0"⟩,
  ⟨"environment.go", "newEnvironment", [], .env, .user, false, "enter_state_time_ms", .stamp⟩,
  ⟨"environment.go", "before_event", [.event true "START_ACTIVITY"], .root, .vars, false, "run_number", .runNumber⟩,
  ⟨"environment.go", "before_event", [.event true "START_ACTIVITY"], .root, .vars, false, "runNumber", .runNumber⟩,
  ⟨"environment.go", "before_event", [.event true "START_ACTIVITY"], .root, .user, false, "run_start_time_ms", .stamp⟩,
  ⟨"environment.go", "before_event", [.event true "START_ACTIVITY"], .root, .user, false, "run_start_completion_time_ms", .lit ""⟩,
  ⟨"environment.go", "before_event", [.event true "START_ACTIVITY"], .root, .user, false, "run_end_time_ms", .lit ""⟩,
  ⟨"environment.go", "before_event", [.event true "START_ACTIVITY"], .root, .user, false, "run_end_completion_time_ms", .lit ""⟩,
  ⟨"environment.go", "before_event", [.event true "START_ACTIVITY"], .env, .vars, false, "__fmq_cleanup_count", .count⟩,
  ⟨"environment.go", "before_event", [.event true "START_ACTIVITY", .opaque true "err == nil", .inStore true "lhc_period"], .root, .vars, false, "lhc_period", .store "lhc_period"⟩,
  ⟨"environment.go", "before_event", [.event true "START_ACTIVITY", .opaque true "err == nil", .inStore true "pdp_n_hbf_per_tf"], .root, .vars, false, "pdp_n_hbf_per_tf", .store "pdp_n_hbf_per_tf"⟩,
  ⟨"environment.go", "before_event", [.event false "START_ACTIVITY", .event true "STOP_ACTIVITY", .emptyUser true "run_end_time_ms"], .root, .user, false, "run_end_time_ms", .stamp⟩,
  ⟨"environment.go", "before_event", [.event false "START_ACTIVITY", .event false "STOP_ACTIVITY", .event true "GO_ERROR", .emptyUser true "run_end_time_ms"], .root, .user, false, "run_end_time_ms", .stamp⟩,
  ⟨"environment.go", "leave_state", [.src true "RUNNING", .emptyUser true "run_end_time_ms"], .root, .user, false, "run_end_time_ms", .stamp⟩,
  ⟨"environment.go", "enter_state", [], .root, .user, false, "enter_state_time_ms", .stamp⟩,
  ⟨"environment.go", "after_event", [.event true "START_ACTIVITY"], .env, .vars, false, "__fmq_cleanup_count", .countInc⟩,
  ⟨"environment.go", "after_event", [.event true "START_ACTIVITY"], .root, .user, false, "run_start_completion_time_ms", .stamp⟩,
  ⟨"environment.go", "after_event", [.event false "START_ACTIVITY", .event true "STOP_ACTIVITY", .emptyUser true "run_end_completion_time_ms"], .root, .user, false, "run_end_completion_time_ms", .stamp⟩,
  ⟨"environment.go", "after_event", [.event false "START_ACTIVITY", .event false "STOP_ACTIVITY", .event true "GO_ERROR", .emptyUser true "run_end_completion_time_ms"], .root, .user, false, "run_end_completion_time_ms", .stamp⟩,
  ⟨"environment.go", "after_event", [.event true "STOP_ACTIVITY"], .root, .vars, false, "last_run_number", .currentRun⟩,
  ⟨"environment.go", "after_event", [.event true "STOP_ACTIVITY"], .root, .vars, true, "run_number", .na⟩,
  ⟨"environment.go", "after_event", [.event true "STOP_ACTIVITY"], .root, .vars, true, "runNumber", .na⟩,
  ⟨"environment.go", "SetLastRequestUser", [], .env, .user, false, "last_request_user", .other⟩,
  ⟨"manager.go", "CreateEnvironment", [], .env, .user, false, "environment_id", .other⟩,
  ⟨"manager.go", "CreateEnvironment", [], .env, .defaults, false, "detectors", .other⟩,
  ⟨"manager.go", "TeardownEnvironment", [], .root, .user, false, "run_end_time_ms", .stamp⟩,
  ⟨"manager.go", "TeardownEnvironment", [], .root, .user, false, "run_end_completion_time_ms", .stamp⟩,
  ⟨"manager.go", "handleDeviceEvent", [], .role, .user, false, "taskResult.exitCode", .other⟩,
  ⟨"manager.go", "handleDeviceEvent", [], .role, .user, false, "taskResult.stdout", .other⟩,
  ⟨"manager.go", "handleDeviceEvent", [], .role, .user, false, "taskResult.stderr", .other⟩,
  ⟨"manager.go", "handleDeviceEvent", [], .role, .user, false, "taskResult.finalStatus", .other⟩,
  ⟨"manager.go", "handleDeviceEvent", [], .role, .user, false, "taskResult.timestamp", .stamp⟩,
  ⟨"manager.go", "CreateAutoEnvironment", [], .env, .user, false, "environment_id", .other⟩
]

/-! ### the printed form of a row (what `vh gen` writes) -/

def MapKind.code : MapKind → String
  | .defaults => "defaults" | .vars => "vars" | .user => "user"

def Tgt.code : Tgt → String
  | .root => "root" | .env => "env" | .role => "role"

def Src.code : Src → String × String
  | .lit v => ("lit", v) | .store k => ("store", k) | .runNumber => ("runNumber", "") | .currentRun => ("currentRun", "")
  | .count => ("count", "") | .countInc => ("count+1", "") | .stamp => ("stamp", "") | .other => ("other", "") | .na => ("-", "")

def Guard.code : Guard → String × Bool × String
  | .event is n => ("event", is, n)
  | .src is n => ("src", is, n)
  | .emptyUser is k => ("emptyUser", is, k)
  | .inStore is k => ("inStore", is, k)
  | .opaque is t => ("opaque", is, t)

def EnvWrite.code (w : EnvWrite) :
    String × String × List (String × Bool × String) × String × String × String × String × (String × String) :=
  (w.file, w.ctx, w.guards.map Guard.code, w.tgt.code, w.kind.code, (if w.del then "del" else "set"), w.key, w.src.code)

/-! ### interpretation -/

def Level.upd (k : MapKind) (f : KV → KV) (l : Level) : Level :=
  match k with
  | .defaults => { l with defaults := f l.defaults }
  | .vars => { l with vars := f l.vars }
  | .user => { l with userVars := f l.userVars }

/-- Apply `h` to the root role (the first tree of the forest). -/
def Forest.updRoot (h : Node → Node) : Forest → Forest
  | .nil => .nil
  | .role n kids next => .role (h n) kids next

def Forest.rootLevel : Forest → Level
  | .nil => { defaults := [], vars := [], userVars := [] }
  | .role n _ _ => n.own

def Node.updOwn (g : Level → Level) (n : Node) : Node := { n with own := g n.own }

/-- An environment with its workflow. -/
structure EnvSt where
  st : EnvM.St
  t : Forest          -- the loaded workflow (its first tree is the root role)
  envLv : Level       -- GlobalDefaults, GlobalVars, UserVars
  base : KV           -- BaseConfigStack, frozen at creation
  curRn : Nat         -- currentRunNumber
  lastRn : Nat        -- the configuration service's run counter
  deriving Repr, Inhabited

def cleanupKey : String := "__fmq_cleanup_count"

/-- `strconv.Itoa` / `FormatUint`. (The first ten numerals are spelled out: the kernel cannot evaluate
    `toString` on numbers — a `String` is a byte array to it — and the `example`s run single-digit numbers.) -/
def numeral : Nat → String
  | 0 => "0" | 1 => "1" | 2 => "2" | 3 => "3" | 4 => "4" | 5 => "5" | 6 => "6" | 7 => "7" | 8 => "8" | 9 => "9"
  | n => toString n

/-- `strconv.Atoi`, 0 on failure. -/
def parseNumeral (s : String) : Nat :=
  if s = "0" then 0 else if s = "1" then 1 else if s = "2" then 2 else if s = "3" then 3 else if s = "4" then 4
  else if s = "5" then 5 else if s = "6" then 6 else if s = "7" then 7 else if s = "8" then 8 else if s = "9" then 9
  else s.toNat?.getD 0

/-- The counter GlobalVars holds (only the environment writes it: always a numeral). -/
def EnvSt.cleanupCount (s : EnvSt) : Nat := ((lookup s.envLv.vars cleanupKey).map parseNumeral).getD 0

def Guard.holds (ev : EnvM.Ev) (src : EnvM.St) (s : EnvSt) : Guard → Bool
  | .event is n => (ev.name == n) == is
  | .src is n => (src.name == n) == is
  | .emptyUser is k => (get [s.t.rootLevel.userVars, s.envLv.userVars] k == some "") == is
  | .inStore is k => (lookup s.base k).isSome == is
  | .opaque is _ => is

def Src.value (s : EnvSt) : Src → String
  | .lit v => v
  | .store k => (lookup s.base k).getD ""
  | .runNumber => numeral s.curRn
  | .currentRun => numeral s.curRn
  | .count => numeral s.cleanupCount
  | .countInc => numeral (s.cleanupCount + 1)
  | .stamp => "T"
  | .other => "?"
  | .na => ""

/-- The map transformation of a row. -/
def EnvWrite.fn (w : EnvWrite) (s : EnvSt) : KV → KV :=
  if w.del then fun m => erase m w.key else fun m => set m w.key (w.src.value s)

/-- One write: on the root role's own map of that kind, or on the environment-wide map of that kind. -/
def EnvWrite.exec (s : EnvSt) (w : EnvWrite) : EnvSt :=
  match w.tgt with
  | .root => { s with t := s.t.updRoot (Node.updOwn (Level.upd w.kind (w.fn s))) }
  | .env => { s with envLv := Level.upd w.kind (w.fn s) s.envLv }
  | .role => s

def EnvWrite.step (ev : EnvM.Ev) (src : EnvM.St) (s : EnvSt) (w : EnvWrite) : EnvSt :=
  if w.guards.all (Guard.holds ev src s) then w.exec s else s

/-- The rows of one context, in source order, each under its guards as they evaluate when the row is reached. -/
def runRows (table : List EnvWrite) (ctx : String) (ev : EnvM.Ev) (src : EnvM.St) (s : EnvSt) : EnvSt :=
  (table.filter (·.ctx == ctx)).foldl (EnvWrite.step ev src) s

/-- `TryTransition` of an event whose task-level body succeeds (`bodyOk`) or fails; no hooks.
    looplab/fsm: an event that is not allowed in the current state runs no callback; before_event,
    leave_state (+ body; a failure cancels), state change, enter_state, after_event. -/
def fire (table : List EnvWrite) (ev : EnvM.Ev) (bodyOk : Bool) (s : EnvSt) : EnvSt × String :=
  match EnvM.dst? ev s.st with
  | none => (s, "illegal")
  | some d =>
    let src := s.st
    let s1 := if ev = .START_ACTIVITY then { s with lastRn := s.lastRn + 1, curRn := s.lastRn + 1 } else s
    let s2 := runRows table "before_event" ev src s1
    let s3 := runRows table "leave_state" ev src s2
    if !bodyOk then (s3, "body") else
    let s4 := runRows table "enter_state" ev src { s3 with st := d }
    let s5 := runRows table "after_event" ev src s4
    (if ev = .STOP_ACTIVITY then { s5 with curRn := 0 } else s5, "ok")

/-- `newEnvironment`: the configuration store's defaults / vars, the user's variables, then the rows of
    newEnvironment; BaseConfigStack = GlobalVars wrapped over GlobalDefaults, flattened. -/
def create (table : List EnvWrite) (sd sv u : KV) (t : Forest) : EnvSt :=
  let s0 : EnvSt := { st := .STANDBY, t := t, envLv := { defaults := sd, vars := sv, userVars := u },
                      base := [], curRn := 0, lastRn := 0 }
  let s1 := runRows table "newEnvironment" .DEPLOY .STANDBY s0
  { s1 with base := wrappedAndFlattened s1.envLv.vars [s1.envLv.defaults] }

/-- What happens between creation and the end: transitions, and runtime writes by roles / calls / plugins. -/
inductive Item where
  | trans (ev : EnvM.Ev) (bodyOk : Bool)
  | write (w : Write)
  deriving Repr, Inhabited

def stepItem (table : List EnvWrite) (s : EnvSt) : Item → EnvSt × String
  | .trans ev ok => fire table ev ok s
  | .write w => ({ s with t := applyWrite s.t w }, "w")

/-- The states after each item. -/
def runSched (table : List EnvWrite) (s : EnvSt) : List Item → List (EnvSt × String)
  | [] => []
  | i :: rest => stepItem table s i :: runSched table (stepItem table s i).1 rest

/-- Every moment the harness looks at: after creation + load, and after every item. -/
def snapshots (table : List EnvWrite) (sd sv u : KV) (t : Forest) (items : List Item) : List (EnvSt × String) :=
  (create table sd sv u t, "new") :: runSched table (create table sd sv u t) items

/-- Every role of the environment's workflow, the environment-wide maps as the outermost level. -/
def EnvSt.roles (s : EnvSt) (tmpl : Option (KV × KV)) : List RoleIn := rolesOf s.t [s.envLv] tmpl

/-- Keys the environment writes where the workflow can see them (always part of the observed universe). -/
def envKeys : List String :=
  ["__fmq_cleanup_count", "enter_state_time_ms", "last_run_number", "lhc_period", "pdp_n_hbf_per_tf", "runNumber",
   "run_end_completion_time_ms", "run_end_time_ms", "run_number", "run_start_completion_time_ms", "run_start_time_ms"]

end Vars
