/-
  Model/VarsTree — the LOADED role tree of a workflow and runtime variable
  writes on it (property C14, history-dependent part).

  Anchors in /repo:
    core/workflow/iteratorrole.go     expandTemplate: one role per range value, each a copy() of the template
    core/workflow/*template.go        generateRole: copy + Locals[var] = value
    core/workflow/rolebase.go         copy() (own Defaults/Vars/UserVars are copied maps), SetRuntimeVar(s),
                                      DeleteRuntimeVar, SetGlobalRuntimeVar / DeleteGlobalRuntimeVar (= on GetRootRole()),
    core/workflow/{aggregator,task,call}role.go  ProcessTemplates: `for k, v := range Locals { Vars.Set(k, v) }`
    core/workflow/aggregator.go       GetRoles(): iterator roles are spliced out, their instances are siblings
    core/workflow/callable/call.go    Call: parentRole.SetRuntimeVar(returnVar, output)
    core/workflow/includerole.go      ProcessTemplates: own stages, Locals → Vars, loadSubworkflow(include, r) (the loaded
                                      root's three maps are wrapped around the include role's), then
                                      `r.aggregatorRole = *subWfRoot` (roleBase — Locals and the three maps included —
                                      replaced; only parent and Name are restored), then aggregatorRole.ProcessTemplates
    core/workflow/load.go             loadSubworkflow: fresh root, yaml.Unmarshal, root.setParent(parent)

  A role tree is a `Forest` in first-child / next-sibling form (one plain
  inductive type: structural recursion and `induction` work). A role is
  addressed by the child indices from the owner of the forest downwards
  (`[0]` = the root of a workflow, `[0, 2]` its third child …), exactly the
  positions `GetRoles()` yields.

  INCLUDE ROLES. `include: <workflow>` on a role loads that workflow's root and makes the
  include role BE that root: after `r.aggregatorRole = *subWfRoot` the role's Defaults / Vars /
  UserVars / Locals are the loaded root's; the maps written at the include SITE (the role's own
  `defaults:` / `vars:` in the including file, plus the iterator Locals published into its Vars
  just before) survive only as the parents of the loaded root's maps — one more LEVEL of the
  hierarchy between the role and its parent, which no role API reaches any more. In the forest a
  site is a node with `site := true` whose single child is the loaded root (the include role
  proper): `chainAt` / `pathOf` pass through it like through any level, `preorder` (the ROLES of
  the tree) skips it, and an address steps over it with index 0. Everything else — expansion,
  writes, replay — treats it like any other node. Core Lean only.
-/
import ControlModel.Model.Vars

namespace Vars

/-- `delete(m, k)`: no binding of `k` is left. -/
def erase : KV → String → KV
  | [], _ => []
  | (k', v) :: rest, k => if k' = k then erase rest k else (k', v) :: erase rest k

/-- One role: its own three maps plus what the harness needs to describe it
    (`locals` handed to the stage probes, `task` = the role runs a task). -/
structure Node where
  own : Level
  locals : KV
  task : Bool
  /-- the SITE of an include role: the maps written at `include:` in the including workflow. After the
      load it is a level between the include role (its single child here: the included workflow's root,
      with the include role's name and parent) and that role's parent — not a role of its own. -/
  site : Bool := false
  deriving Repr, Inhabited

/-- Sibling roles after load. -/
inductive Forest where
  | nil : Forest
  | role (n : Node) (kids next : Forest) : Forest
  deriving Repr, Inhabited

/-- Sibling roles as written in the workflow template: plain roles and
    iterators (`for: {var, range}` around a role template). -/
inductive TForest where
  | nil : TForest
  | role (n : Node) (kids next : TForest) : TForest
  | iter (var : String) (vals : List String) (n : Node) (kids next : TForest) : TForest
  deriving Repr, Inhabited

/-- What ProcessTemplates leaves in an instance generated for `var = val`:
    `Locals[var] = val`, then `Vars.Set(var, val)` — every other map is the
    template's (a private copy). For an include role the `Vars` written are the SITE's (the loop
    runs before the role's maps are replaced by the loaded root's): `n` is the site node then. -/
def withIter (n : Node) (var val : String) : Node :=
  { n with own := { n.own with vars := set n.own.vars var val } }

/-- `expandTemplate`: one sibling per range value, in range order, followed by `rest`. -/
def instances (var : String) (n : Node) (kids rest : Forest) : List String → Forest
  | [] => rest
  | v :: vs => .role (withIter n var v) kids (instances var n kids rest vs)

/-- Load: iterators are replaced by their instances (GetRoles splices them
    into the parent's children); the children of a template are expanded in
    every instance alike. -/
def expand : TForest → Forest
  | .nil => .nil
  | .role n kids next => .role n (expand kids) (expand next)
  | .iter var vals n kids next => instances var n (expand kids) (expand next) vals

/-! ## the load, step by step (what each kind of role does with its iterator Locals) -/

/-- Where `for k, v := range r.Locals { r.Vars.Set(k, v) }` stands in the four ProcessTemplates. -/
structure LoadCfg where
  /-- aggregator / task / call roles: after the role's own template stages (for an aggregator: before
      it descends into its children) -/
  plainPublishes : Bool
  /-- include roles: after the role's own template stages and BEFORE the composed aggregatorRole is
      replaced by the loaded root — i.e. into the SITE's Vars. (Afterwards `r.Locals` and `r.Vars` are
      the loaded root's: the loop in aggregatorRole.ProcessTemplates, which runs next, iterates the
      loaded root's empty Locals.) -/
  sitePublishesBeforeSwap : Bool
  deriving Repr, DecidableEq, Inhabited

/-- The code as it is (tied by `C14_load_is_code`). -/
def codeLoad : LoadCfg := { plainPublishes := true, sitePublishesBeforeSwap := true }

/-- NOT the code: the include role leaves the loop to aggregatorRole.ProcessTemplates. -/
def lateLoad : LoadCfg := { plainPublishes := true, sitePublishesBeforeSwap := false }

def LoadCfg.publishes (cfg : LoadCfg) (n : Node) : Bool :=
  if n.site then cfg.sitePublishesBeforeSwap else cfg.plainPublishes

/-- generateRole (copy + `Locals[var] = val`) followed by the role's ProcessTemplates: the Locals
    reach a map of the hierarchy only through the publishing loop. -/
def instantiate (cfg : LoadCfg) (n : Node) (var val : String) : Node :=
  if cfg.publishes n then withIter n var val else n

def instancesWith (cfg : LoadCfg) (var : String) (n : Node) (kids rest : Forest) : List String → Forest
  | [] => rest
  | v :: vs => .role (instantiate cfg n var v) kids (instancesWith cfg var n kids rest vs)

/-- MECHANISM of the load for either placement of the loop; `load codeLoad = expand`. -/
def load (cfg : LoadCfg) : TForest → Forest
  | .nil => .nil
  | .role n kids next => .role n (load cfg kids) (load cfg next)
  | .iter var vals n kids next => instancesWith cfg var n (load cfg kids) (load cfg next) vals

/-- No iterator of the template has an include role as its template. -/
def noIteratedSite : TForest → Bool
  | .nil => true
  | .role _ kids next => noIteratedSite kids && noIteratedSite next
  | .iter _ _ n kids next => !n.site && noIteratedSite kids && noIteratedSite next

abbrev Addr := List Nat

/-- `r` is `s` or an ancestor of `s` (address prefix). -/
def isAnc : Addr → Addr → Bool
  | [], _ => true
  | _ :: _, [] => false
  | a :: r, b :: s => a == b && isAnc r s

/-- The roles from the top of the forest down to the addressed one (root first, the role itself last). -/
def chainAt : Forest → Addr → Option (List Node)
  | .nil, _ => none
  | .role _ _ _, [] => none
  | .role n _ _, [0] => some [n]
  | .role n kids _, 0 :: j :: rest => (chainAt kids (j :: rest)).map (n :: ·)
  | .role _ _ next, (i + 1) :: rest => chainAt next (i :: rest)

def Node.updUser (f : KV → KV) (n : Node) : Node :=
  { n with own := { n.own with userVars := f n.own.userVars } }

/-- Apply `f` to the own user vars of the addressed role — the only thing
    `SetRuntimeVar` / `DeleteRuntimeVar` touch. Nothing happens when there is no such role. -/
def updAt (f : KV → KV) : Forest → Addr → Forest
  | .nil, _ => .nil
  | .role n kids next, [] => .role n kids next
  | .role n kids next, [0] => .role (n.updUser f) kids next
  | .role n kids next, 0 :: j :: rest => .role n (updAt f kids (j :: rest)) next
  | .role n kids next, (i + 1) :: rest => .role n kids (updAt f next (i :: rest))

/-- `SetRuntimeVar(k, v)` / `DeleteRuntimeVar(k)` on one gera map. -/
inductive Op where
  | set (k v : String)
  | del (k : String)
  deriving Repr, Inhabited, DecidableEq

def Op.apply : Op → KV → KV
  | .set k v, m => Vars.set m k v
  | .del k, m => erase m k

def Op.key : Op → String
  | .set k _ => k
  | .del k => k

/-- One runtime write: called ON the role `on`; the `Global` variants
    (`SetGlobalRuntimeVar`, `DeleteGlobalRuntimeVar`) act on `GetRootRole()`,
    the topmost role above `on` (or `on` itself when it has no parent role). -/
structure Write where
  on : Addr
  global : Bool
  op : Op
  deriving Repr, Inhabited

/-- The role whose own user vars the write changes. -/
def Write.target (w : Write) : Addr := if w.global then w.on.take 1 else w.on

def applyWrite (t : Forest) (w : Write) : Forest := updAt w.op.apply t w.target

/-- The history: writes in the order they happened. -/
def applyWrites (t : Forest) (ws : List Write) : Forest := ws.foldl applyWrite t

/-- Pre-order addresses of the ROLES of a forest whose first tree has index `idx` under `pre`: an
    include site is a step of an address but no role (what `GetRoles()` yields at the include role are
    the loaded root's children). -/
def preorder : Forest → Nat → Addr → List Addr
  | .nil, _, _ => []
  | .role n kids next, idx, pre =>
      (if n.site then [] else [pre ++ [idx]]) ++ (preorder kids 0 (pre ++ [idx]) ++ preorder next (idx + 1) pre)

/-- The role description the observation model (`modelObs`) takes, from the
    chain root→role: the path is the role, its ancestors, then the environment. -/
def roleInOf (env : Path) (tmpl : Option (KV × KV)) (c : List Node) : Option RoleIn :=
  match c.reverse with
  | [] => none
  | me :: anc => some { path := (me :: anc).map (·.own) ++ env, locals := me.locals, tmpl := if me.task then tmpl else none }

/-- Every role of a forest, in pre-order, as the harness walks it. -/
def rolesOf (t : Forest) (env : Path) (tmpl : Option (KV × KV)) : List RoleIn :=
  (preorder t 0 []).filterMap fun a => (chainAt t a).bind (roleInOf env tmpl)

/-- MECHANISM: what every role looks like after the writes were applied to the tree, one after the other. -/
def rolesAfter (t : Forest) (ws : List Write) (env : Path) (tmpl : Option (KV × KV)) : List RoleIn :=
  rolesOf (applyWrites t ws) env tmpl

/-! ## the documented rule for writes (used by Spec and by the theorems) -/

/-- Apply `f` to the own user vars of the `i`-th role of a chain. -/
def modUser (f : KV → KV) : List Node → Nat → List Node
  | [], _ => []
  | n :: rest, 0 => n.updUser f :: rest
  | n :: rest, i + 1 => n :: modUser f rest i

/-- RULE: a write counts at role `s` exactly when it was made on `s` itself or
    on one of the ancestors of `s`; it then is a write to THAT role's own user
    vars (its rank: user vars of that level). All other writes do not exist for `s`. -/
def replayWrite (s : Addr) (c : List Node) (w : Write) : List Node :=
  if w.target ≠ [] ∧ isAnc w.target s = true then modUser w.op.apply c (w.target.length - 1) else c

def replay (s : Addr) (c : List Node) (ws : List Write) : List Node := ws.foldl (replayWrite s) c

/-- RULE, whole tree: every role of the loaded tree, seeing its own chain with the writes that count for it. -/
def rolesReplayed (t : Forest) (ws : List Write) (env : Path) (tmpl : Option (KV × KV)) : List RoleIn :=
  (preorder t 0 []).filterMap fun a => ((chainAt t a).map (replay a · ws)).bind (roleInOf env tmpl)

end Vars
