/-
  Model/Writer — the Kafka event writer of common/event/writer.go + fifobuffer.go
  as an interleaving model (core Lean only).

  Goroutines of the code and their atomic steps:

    producers (any number)   WriteEventWithTimestamp: `toBatchMessagesChan <- message`      → `publish p`
    batchingLoop             `for message := range chan`                                     → `batchRecv`
                             `messageBuffer.Push(message)` (lock; append; Signal; unlock)    → `batchPush`
                             range ends (closed ∧ empty): `batchingLoopDoneCh <- {}`         → `batchDone`
                             `ReleaseGoroutines()` (lock; Broadcast; unlock); `Done()`       → `broadcast`
    writingLoop              `select { case <-done: Done(); return; default: … }`            → `writerSelect`
                             `PopMultiple(100)`: lock; empty ⇒ `cond.Wait()`                 → `writerPop` (→ waiting)
                                                 else pop min(100,len); `writeFunction(b)`   → `writerPop` (→ writing)
                             return from `cond.Wait()` (re-locks; empty ⇒ return nothing)    → `writerWake`
                             `writeFunction` returns (the broker's latency)                  → `writeDone`
    Close()                  `runningWorkers.Add(2); close(chan)` … `Wait()` returns                        → `close` … `closeReturn`
    Go scheduler             a worker goroutine spawned by the constructor runs for the first time → `writerStart`, `batchStart`

  Worker start-up.  `NewWriterWithTopic` only SPAWNS the two workers (`go writer.writingLoop()`,
  `go writer.batchingLoop()`): until the scheduler runs a worker for the first time it has executed
  nothing (`wStarted` / `bStarted` false, program counter at the top of its function), and producers
  and Close() need not wait for that — events can be accepted and Close() called while both workers
  are still unstarted.  `runningWorkers` (a sync.WaitGroup) is the counter `wg`: Close() does
  `Add(2)` BEFORE it closes the channel — the workers are counted by the goroutine that waits for
  them, whether they have run yet or not —, each worker does `Done()` as its last action, and
  `Wait()` returns (`closeReturn`) when the counter is 0.  `Cfg.selfRegister` describes the variant
  that is NOT the code: every worker counts itself at its own start (`Add(1)` as its first
  statement, `Done()` deferred) and Close() adds nothing — then a Close() that runs before a worker
  was scheduled finds the counter at 0 and returns with accepted events still in the channel.

  The hand-over is a plain blocking channel send (go/ast: one send statement, no select, no
  goroutine — `C19_handover_is_code`): `publish p` is enabled only while the channel has room, it
  makes the event accepted and puts it at the back of the channel in ONE step; a producer facing
  a full channel simply does not move.

  A schedule is a `List Step`; a step that is not enabled leaves the state
  unchanged (`run`), `runStrict` refuses it.  `sync.Cond` is modelled as in Go:
  Signal/Broadcast wake a goroutine only if it is ALREADY waiting, nothing is
  remembered otherwise; there are no spurious wake-ups.  The mutex makes every
  FIFO operation one atomic step.

  Two switches describe the two repairs (the `fix:` commits "KafkaWriter.Close writes out what
  is still buffered" and "FifoBuffer.ReleaseGoroutines also releases a consumer that starts
  waiting later" in /repo); both are `true` in `codeCfg`, the code as it is, and `false` in
  `legacyCfg`, the code before them:
    drainOnDone    the writing loop empties the buffer after the done signal before returning
    releaseSticky  ReleaseGoroutines leaves a flag that makes PopMultiple return instead of waiting
  A third switch, `selfRegister`, is `false` in both: it describes a variant that is not and was
  not the code (who counts the workers in `runningWorkers`, see "Worker start-up" above).  `Done()`
  is `wg - 1`; Go panics on a negative counter, and the model never gets there: a worker that
  finishes finds the counter at ≥ 1 (`Proofs/Writer.lean: InvW.counted`).
-/
import ControlModel.Basic

namespace Writer

/-- An event is tagged (producer, sequence number within that producer). -/
abbrev Ev := Nat × Nat

structure Cfg where
  cap : Nat                     -- capacity of toBatchMessagesChan (10000 in the code)
  batchMax : Nat                -- argument of PopMultiple (100 in the code)
  drainOnDone : Bool := false
  releaseSticky : Bool := false
  /-- false (the code): Close() counts both workers (`Add(2)`) before it closes the channel;
      true (NOT the code): each worker registers itself (`Add(1)`) when it starts running. -/
  selfRegister : Bool := false
  deriving Repr, DecidableEq

/-- The code before the two repairs. -/
def legacyCfg : Cfg := { cap := 10000, batchMax := 100 }
/-- The code as it is: constants and switches (identified with the extracted ones in Props/C19). -/
def codeCfg : Cfg := { cap := 10000, batchMax := 100, drainOnDone := true, releaseSticky := true }
/-- (kept name) the repaired configuration = the code as it is. -/
def fixedCfg : Cfg := codeCfg
/-- NOT the code: the workers register themselves in `runningWorkers` at their own start. -/
def selfRegisterCfg : Cfg := { codeCfg with selfRegister := true }

/-- Where the writing loop is. -/
inductive WPc where
  | select    -- at the top of the `for`, about to evaluate the `select`
  | wantPop   -- took `default`, about to lock the FIFO inside PopMultiple
  | waiting   -- inside `cond.Wait()`
  | woken     -- signalled, about to re-acquire the lock
  | writing   -- inside `writeFunction`
  | exited    -- `runningWorkers.Done(); return`
  deriving Repr, DecidableEq, Inhabited

/-- Where the batching loop is. -/
inductive BPc where
  | loop       -- ranging over the channel
  | signalled  -- sent the done token, about to ReleaseGoroutines
  | exited
  deriving Repr, DecidableEq, Inhabited

structure State where
  pubs : List Ev := []            -- ghost: every accepted event, in channel-send order
  chan : List Ev := []            -- toBatchMessagesChan
  hand : Option Ev := none        -- the message the batching loop has received but not pushed yet
  buf : List Ev := []             -- messageBuffer
  written : List (List Ev) := []  -- batches handed to writeFunction, in call order
  closed : Bool := false          -- Close() has closed the channel
  wpc : WPc := .select
  bpc : BPc := .loop
  doneTok : Bool := false         -- a token sits in batchingLoopDoneCh
  sawDone : Bool := false         -- the writing loop has taken the token
  released : Bool := false        -- ReleaseGoroutines has run (only read when releaseSticky)
  closeCompleted : Bool := false  -- Close() has returned
  wStarted : Bool := false        -- the writing loop's goroutine has been scheduled for the first time
  bStarted : Bool := false        -- the batching loop's goroutine has been scheduled for the first time
  wg : Nat := 0                   -- counter of the WaitGroup `runningWorkers`
  deriving Repr, DecidableEq

def init : State := {}

inductive Step where
  | publish (p : Nat)
  | batchRecv
  | batchPush
  | close
  | batchDone
  | broadcast
  | writerSelect
  | writerPop
  | writerWake
  | writeDone
  | closeReturn
  | writerStart   -- the scheduler runs the writing loop's goroutine for the first time
  | batchStart    -- the scheduler runs the batching loop's goroutine for the first time
  deriving Repr, DecidableEq

/-- Every step that is not a publication. -/
def Step.internal : List Step :=
  [.batchRecv, .batchPush, .close, .batchDone, .broadcast, .writerSelect, .writerPop, .writerWake, .writeDone, .closeReturn,
   .writerStart, .batchStart]

/-- Sequence number the next event of producer `p` gets. -/
def nextSeq (s : State) (p : Nat) : Nat := s.pubs.countP (fun e => e.1 == p)

def delivered (s : State) : List Ev := s.written.flatten

/-- The goroutine that takes the step has been scheduled at least once (producers and the caller
    of Close are running by assumption; the start steps are the scheduler's). -/
def started (s : State) : Step → Bool
  | .batchRecv | .batchPush | .batchDone | .broadcast => s.bStarted
  | .writerSelect | .writerPop | .writerWake | .writeDone => s.wStarted
  | _ => true

/-- Guards of the statements themselves. `publish` reads the channel and the closed flag only;
    `closeReturn` is `runningWorkers.Wait()` returning: the counter is 0. -/
def ready (c : Cfg) (s : State) : Step → Bool
  | .publish _ => !s.closed && decide (s.chan.length < c.cap)
  | .batchRecv => s.bpc == .loop && s.hand.isNone && !s.chan.isEmpty
  | .batchPush => s.bpc == .loop && s.hand.isSome
  | .close => !s.closed
  | .batchDone => s.bpc == .loop && s.hand.isNone && s.chan.isEmpty && s.closed
  | .broadcast => s.bpc == .signalled
  | .writerSelect => s.wpc == .select
  | .writerPop => s.wpc == .wantPop
  | .writerWake => s.wpc == .woken
  | .writeDone => s.wpc == .writing
  | .closeReturn => s.closed && s.wg == 0 && !s.closeCompleted
  | .writerStart => !s.wStarted
  | .batchStart => !s.bStarted

/-- A step can be taken: its goroutine runs and its guard holds. -/
def enabled (c : Cfg) (s : State) (st : Step) : Bool := started s st && ready c s st

/-- `cond.Signal()` / `cond.Broadcast()` with a single possible waiter. -/
def wake (w : WPc) : WPc := if w = .waiting then .woken else w

/-- The tail of PopMultiple on a non-waiting path: take min(batchMax, len) from the
    front; an empty result makes the loop `continue`, otherwise the batch goes to
    the write function. -/
def popBatch (c : Cfg) (s : State) : State :=
  if (s.buf.take c.batchMax).isEmpty then { s with wpc := .select }
  else { s with buf := s.buf.drop c.batchMax, written := s.written ++ [s.buf.take c.batchMax], wpc := .writing }

/-- Effect of an enabled step. -/
def fire (c : Cfg) (s : State) : Step → State
  | .publish p =>
      let e : Ev := (p, nextSeq s p)
      { s with pubs := s.pubs ++ [e], chan := s.chan ++ [e] }
  | .batchRecv => { s with hand := s.chan.head?, chan := s.chan.tail }
  | .batchPush => { s with buf := s.buf ++ s.hand.toList, hand := none, wpc := wake s.wpc }
  | .close => { s with closed := true, wg := if c.selfRegister then s.wg else s.wg + 2 }
  | .batchDone => { s with doneTok := true, bpc := .signalled }
  | .broadcast => { s with released := true, wpc := wake s.wpc, bpc := .exited, wg := s.wg - 1 }
  | .writerSelect =>
      if s.doneTok || s.sawDone then
        let s' := { s with doneTok := false, sawDone := true }
        if c.drainOnDone && !s'.buf.isEmpty then popBatch c s' else { s' with wpc := .exited, wg := s'.wg - 1 }
      else { s with wpc := .wantPop }
  | .writerPop =>
      if s.buf.isEmpty then
        if c.releaseSticky && s.released then { s with wpc := .select } else { s with wpc := .waiting }
      else popBatch c s
  | .writerWake => if s.buf.isEmpty then { s with wpc := .select } else popBatch c s
  | .writeDone => { s with wpc := .select }
  | .closeReturn => { s with closeCompleted := true }
  | .writerStart => { s with wStarted := true, wg := if c.selfRegister then s.wg + 1 else s.wg }
  | .batchStart => { s with bStarted := true, wg := if c.selfRegister then s.wg + 1 else s.wg }

def step (c : Cfg) (s : State) (st : Step) : State := if enabled c s st then fire c s st else s

/-- Run a schedule; steps that are not enabled when their turn comes are skipped. -/
def run (c : Cfg) (s : State) : List Step → State
  | [] => s
  | st :: rest => run c (step c s st) rest

/-- Run a schedule in which every step must be enabled when taken. -/
def runStrict (c : Cfg) (s : State) : List Step → Option State
  | [] => some s
  | st :: rest => if enabled c s st then runStrict c (fire c s st) rest else none

/-- Every step of the schedule is enabled when its turn comes. -/
def allEnabled (c : Cfg) (s : State) : List Step → Bool
  | [] => true
  | st :: rest => enabled c s st && allEnabled c (step c s st) rest

/-- Both workers have been scheduled: the prefix every schedule of a long-lived writer starts with. -/
def bothStarted : List Step := [.writerStart, .batchStart]

/-- Something other than a publication can still happen. -/
def canProgress (c : Cfg) (s : State) : Bool := Step.internal.any (enabled c s)

/-- The lost wake-up: the writing loop sits in `cond.Wait()` and the only goroutine
    that ever signals the condition variable has returned. -/
def lostWakeup (s : State) : Bool := s.wpc == .waiting && s.bpc == .exited

/-! ## partition key (internalEventToKafkaEvent) -/

/-- The payload types `internalEventToKafkaEvent` accepts, in the order of its type switch. -/
inductive Kind where
  | coreStart | mesosHeartbeat | frameworkEvent | taskEvent | roleEvent
  | environmentEvent | callEvent | integratedServiceEvent | runEvent
  deriving Repr, DecidableEq, Inhabited

def Kind.all : List Kind :=
  [.coreStart, .mesosHeartbeat, .frameworkEvent, .taskEvent, .roleEvent, .environmentEvent, .callEvent,
   .integratedServiceEvent, .runEvent]

def Kind.idx : Kind → Nat
  | .coreStart => 0 | .mesosHeartbeat => 1 | .frameworkEvent => 2 | .taskEvent => 3 | .roleEvent => 4
  | .environmentEvent => 5 | .callEvent => 6 | .integratedServiceEvent => 7 | .runEvent => 8

def Kind.ofIdx? (n : Nat) : Option Kind := Kind.all[n]?

/-- Which field the key is taken from. -/
inductive KeySel where | none | env | task
  deriving Repr, DecidableEq

def keySel : Kind → KeySel
  | .coreStart | .mesosHeartbeat | .frameworkEvent => .none
  | .taskEvent => .task
  | _ => .env

/-- Keys are coded: 0 = no key; environment id number `n ≥ 1` ↦ `n`; task id number
    `m ≥ 1` ↦ `1000 + m`. Id number 0 is the empty string (⇒ no key). -/
def keyOf (k : Kind) (env task : Nat) : Nat :=
  match keySel k with
  | .none => 0
  | .env => env
  | .task => if task = 0 then 0 else 1000 + task

/-- Events that concern an environment (carry an environment id that becomes the key). -/
def Kind.envScoped (k : Kind) : Bool := keySel k == .env

end Writer
