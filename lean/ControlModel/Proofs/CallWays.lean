/-
  Proofs/CallWays — lemmas about Model/CallWays: with the exit logic of the code (`codeCall`) every
  way of failing is a failure and nothing else is; hooks that differ only in the ways are the same
  hook for the environment machine.
-/
import ControlModel.Model.CallWays

namespace EnvM

theorem callReturnsErr_code (o : Outcome) : callReturnsErr codeCall o.eval = o.isFail := by
  cases o with
  | ok => rfl
  | fail w => cases w <;> rfl

theorem toHook_code_eq_forget (h : KHook) : h.toHook codeCall = h.forget := by
  unfold KHook.toHook KHook.forget
  congr 1
  exact List.map_congr_left (fun o _ => callReturnsErr_code o)

theorem toHook_eq_of_sameButWays {a b : KHook} (h : a.sameButWays b) : a.toHook codeCall = b.toHook codeCall := by
  obtain ⟨h1, h2, h3, h4, h5, h6, h7, h8⟩ := h
  rw [toHook_code_eq_forget, toHook_code_eq_forget]
  unfold KHook.forget
  rw [h1, h2, h3, h4, h5, h6, h7, h8]

theorem map_toHook_eq_of_sameButWays {ks ks' : List KHook} (h : SameButWays ks ks') :
    ks.map (KHook.toHook codeCall) = ks'.map (KHook.toHook codeCall) := by
  induction h with
  | nil => rfl
  | cons hab _ ih => simp only [List.map_cons, toHook_eq_of_sameButWays hab, ih]

theorem withWay_sameButWays (w : Way) (h : KHook) : (h.withWay w).sameButWays h := by
  refine ⟨rfl, rfl, rfl, rfl, rfl, rfl, rfl, ?_⟩
  simp only [KHook.withWay, List.map_map]
  apply List.map_congr_left
  intro o _
  cases o <;> rfl

theorem map_withWay_sameButWays (w : Way) (ks : List KHook) :
    SameButWays (ks.map (KHook.withWay w)) ks := by
  induction ks with
  | nil => exact .nil
  | cons k ks ih => exact .cons (withWay_sameButWays w k) ih

end EnvM
