/-
  Proofs/Channels — lemmas behind the C13 theorems (core Lean only).
-/
import ControlModel.Spec.C13

namespace Channels

/-! ## association lists -/

theorem get_set {β} (l : List (String × β)) (k k' : String) (v : β) :
    Assoc.get (Assoc.set l k v) k' = if k = k' then some v else Assoc.get l k' := by
  induction l with
  | nil => simp [Assoc.set, Assoc.get]
  | cons hd tl ih =>
    obtain ⟨a, b⟩ := hd
    by_cases h : a = k
    · subst h; simp only [Assoc.set, Assoc.get, beq_self_eq_true, if_true, beq_iff_eq]
      by_cases h2 : a = k' <;> simp [h2]
    · simp only [Assoc.set, beq_iff_eq, h, if_false, Assoc.get]
      by_cases h2 : a = k'
      · subst h2
        have : ¬ k = a := fun e => h e.symm
        simp [this]
      · simp [h2, ih]

theorem get_set_self {β} (l : List (String × β)) (k : String) (v : β) :
    Assoc.get (Assoc.set l k v) k = some v := by simp [get_set]

theorem get_set_ne {β} (l : List (String × β)) (k k' : String) (v : β) (h : k ≠ k') :
    Assoc.get (Assoc.set l k v) k' = Assoc.get l k' := by simp [get_set, h]

/-! ## endpoints -/

theorem toTarget_transport (e : Endpoint) (h : String) : (e.toTarget h).transport = e.transport := by
  cases e <;> rfl

theorem toBound_transport (e : Endpoint) : e.toBound.transport = e.transport := by
  cases e <;> rfl

/-- Raw local TCP endpoints are bound endpoints: host `*`. -/
def rawBound (e : Endpoint) : Bool :=
  match e with
  | .tcp h _ _ => h == "*"
  | .ipc _ _ => true

theorem freshFor_rawBound (c : Inbound) (e : Endpoint) (h : freshFor c e = true) : rawBound e = true := by
  unfold freshFor at h
  cases e with
  | tcp hh p tr =>
    cases ha : c.addressing <;> simp [ha] at h
    simp [rawBound, h.1]
  | ipc p tr => rfl

theorem freshFor_transport (c : Inbound) (e : Endpoint) (h : freshFor c e = true) : e.transport = c.transport := by
  unfold freshFor at h
  cases e with
  | tcp hh p tr =>
    cases ha : c.addressing <;> simp [ha] at h
    exact h.2
  | ipc p tr =>
    cases ha : c.addressing <;> simp [ha] at h
    exact h

/-- A target-form endpoint of a task on a valid host can equal a raw (bound)
    endpoint only if both are the same IPC endpoint. -/
theorem target_eq_raw {e r : Endpoint} {h : String} (hv : validHost h = true) (hr : rawBound r = true)
    (heq : e.toTarget h = r) : e.toTarget h = e ∧ r = e := by
  cases e with
  | tcp eh p tr =>
    cases r with
    | tcp rh rp rtr =>
      simp only [Endpoint.toTarget, Endpoint.tcp.injEq] at heq
      simp only [rawBound, beq_iff_eq] at hr
      simp only [validHost, Bool.and_eq_true, Bool.not_eq_true', bne_iff_ne, ne_eq] at hv
      exact absurd (heq.1.trans hr) hv.2
    | ipc rp rtr => simp [Endpoint.toTarget] at heq
  | ipc p tr =>
    simp only [Endpoint.toTarget] at heq
    exact ⟨rfl, heq.symm⟩

/-! ## claims -/

theorem claimOf_raw (p h : String) (kv : String × Endpoint) : (claimOf p h kv).raw = kv.2 := by
  unfold claimOf; split <;> rfl

theorem claimOf_host (p h : String) (kv : String × Endpoint) : (claimOf p h kv).host = h := by
  unfold claimOf; split <;> rfl

theorem claimOf_target (p h : String) (kv : String × Endpoint) :
    (claimOf p h kv).target = kv.2.toTarget h := by
  simp [Claim.target, claimOf_raw, claimOf_host]

theorem mem_claims {c : Claim} {tasks : List Task} :
    c ∈ claims tasks ↔ ∃ t ∈ tasks, ∃ kv ∈ t.loc, c = claimOf t.path t.host kv := by
  induction tasks with
  | nil => simp [claims]
  | cons t ts ih =>
    simp only [claims, List.mem_append, taskClaims, List.mem_map, ih, List.mem_cons]
    constructor
    · rintro (⟨kv, hkv, rfl⟩ | ⟨t', ht', kv, hkv, rfl⟩)
      · exact ⟨t, Or.inl rfl, kv, hkv, rfl⟩
      · exact ⟨t', Or.inr ht', kv, hkv, rfl⟩
    · rintro ⟨t', (rfl | ht'), kv, hkv, rfl⟩
      · exact Or.inl ⟨kv, hkv, rfl⟩
      · exact Or.inr ⟨t', ht', kv, hkv, rfl⟩

theorem isAlias_aliasKey (g : String) : isAlias (aliasKey g) = true := by
  simp [isAlias, aliasKey, hasPrefix, String.toList_append]

theorem mem_allDeclClaims {c : Claim} {tasks : List Task} :
    c ∈ allDeclClaims tasks ↔ ∃ t ∈ tasks, c ∈ declClaims t := by
  induction tasks with
  | nil => simp [allDeclClaims]
  | cons t ts ih => simp [allDeclClaims, ih]

theorem mem_declClaims {c : Claim} {t : Task} (h : c ∈ declClaims t) :
    ∃ ch ∈ t.inbound, ch.global.isEmpty = false ∧ Assoc.get t.loc ch.name = some c.raw ∧
      c.key = aliasKey ch.global ∧ c.host = t.host := by
  simp only [declClaims, List.mem_filterMap] at h
  obtain ⟨ch, hch, hc⟩ := h
  split at hc
  · cases hc
  · rename_i hg
    cases hget : Assoc.get t.loc ch.name with
    | none => simp [hget] at hc
    | some e =>
      simp only [hget, Option.map_some, Option.some.injEq] at hc
      subst hc
      exact ⟨ch, hch, by simpa using hg, hget, rfl, rfl⟩

/-- A claim is sane if its alias flag is what its key looks like. -/
def sane (c : Claim) : Bool := c.alias == isAlias c.key

/-! ## the environment bind map -/

theorem step_ok {bm bm' : BindMap} {c : Claim} (h : step bm c = .ok bm') :
    (c.alias = true ∧ Assoc.get bm c.key = some c.raw ∧ bm' = bm) ∨
    ((c.alias = false ∨ Assoc.get bm c.key = none) ∧ bm' = Assoc.set bm c.key c.target) := by
  unfold step at h
  split at h
  · rename_i ha
    split at h
    · rename_i ex hex
      split at h
      · rename_i heq
        cases h
        exact Or.inl ⟨ha, by rw [hex, heq], rfl⟩
      · cases h
    · rename_i hnone
      cases h
      exact Or.inr ⟨Or.inr hnone, rfl⟩
  · rename_i ha
    cases h
    exact Or.inr ⟨Or.inl (by simpa using ha), rfl⟩

theorem step_error {bm : BindMap} {c : Claim} {e : Err} (h : step bm c = .error e) : e = .aliasConflict := by
  unfold step at h
  split at h
  · split at h
    · split at h
      · cases h
      · cases h; rfl
    · cases h
  · cases h

theorem build_error {bm : BindMap} {cs : List Claim} {e : Err} (h : build bm cs = .error e) :
    e = .aliasConflict := by
  induction cs generalizing bm with
  | nil => cases h
  | cons c cs ih =>
    unfold build at h
    split at h
    · rename_i e' he
      cases h
      exact step_error he
    · exact ih h

/-- Provenance: whatever is in the bind map was put there by a claim. -/
theorem build_prov {bm bm' : BindMap} {cs : List Claim} (h : build bm cs = .ok bm') {k : String} {v : Endpoint}
    (hg : Assoc.get bm' k = some v) :
    Assoc.get bm k = some v ∨ ∃ c ∈ cs, c.key = k ∧ v = c.target := by
  induction cs generalizing bm with
  | nil => cases h; exact Or.inl hg
  | cons c cs ih =>
    unfold build at h
    split at h
    · cases h
    · rename_i bm1 hs
      rcases ih h with h1 | ⟨d, hd, hk, hv⟩
      · rcases step_ok hs with ⟨_, _, rfl⟩ | ⟨_, rfl⟩
        · exact Or.inl h1
        · rw [get_set] at h1
          by_cases hck : c.key = k
          · simp only [hck, if_true, Option.some.injEq] at h1
            exact Or.inr ⟨c, List.mem_cons_self, hck, h1.symm⟩
          · simp only [hck, if_false] at h1
            exact Or.inl h1
      · exact Or.inr ⟨d, List.mem_cons_of_mem _ hd, hk, hv⟩

/-- An alias entry, once present, is never overwritten. -/
theorem build_alias_stable {bm bm' : BindMap} {cs : List Claim} (h : build bm cs = .ok bm')
    (hs : ∀ c ∈ cs, sane c = true) {k : String} {v : Endpoint} (hk : isAlias k = true)
    (hg : Assoc.get bm k = some v) : Assoc.get bm' k = some v := by
  induction cs generalizing bm with
  | nil => cases h; exact hg
  | cons c cs ih =>
    unfold build at h
    split at h
    · cases h
    · rename_i bm1 hst
      apply ih h (fun d hd => hs d (List.mem_cons_of_mem _ hd))
      rcases step_ok hst with ⟨_, _, rfl⟩ | ⟨hc, rfl⟩
      · exact hg
      · have hne : c.key ≠ k := by
          intro heq
          rcases hc with hc | hc
          · have := hs c List.mem_cons_self
            simp only [sane, hc, heq, hk] at this
            exact absurd this (by decide)
          · rw [heq, hg] at hc; cases hc
        rw [get_set_ne _ _ _ _ hne]; exact hg

/-- Every alias claim that was accepted agrees with what the bind map holds
    under its key: the stored endpoint is the claim's own target form, or is
    equal to the claim's raw endpoint (the comparison the code makes). -/
theorem build_alias_agree {bm bm' : BindMap} {cs : List Claim} (h : build bm cs = .ok bm')
    (hs : ∀ c ∈ cs, sane c = true) {c : Claim} (hc : c ∈ cs) (ha : c.alias = true) :
    Assoc.get bm' c.key = some c.target ∨ Assoc.get bm' c.key = some c.raw := by
  induction cs generalizing bm with
  | nil => cases hc
  | cons d cs ih =>
    unfold build at h
    split at h
    · cases h
    · rename_i bm1 hst
      have hs' : ∀ x ∈ cs, sane x = true := fun x hx => hs x (List.mem_cons_of_mem _ hx)
      rcases List.mem_cons.mp hc with rfl | hc'
      · have hk : isAlias c.key = true := by
          have := hs c List.mem_cons_self
          simpa [sane, ha] using this.symm
        rcases step_ok hst with ⟨_, hg, rfl⟩ | ⟨_, rfl⟩
        · exact Or.inr (build_alias_stable h hs' hk hg)
        · exact Or.inl (build_alias_stable h hs' hk (get_set_self _ _ _))
      · exact ih h hs' hc'

/-- Every claim's key is present afterwards. -/
theorem build_present {bm bm' : BindMap} {cs : List Claim} (h : build bm cs = .ok bm') :
    (∀ k, (Assoc.get bm k).isSome = true → (Assoc.get bm' k).isSome = true) ∧
    ∀ c ∈ cs, (Assoc.get bm' c.key).isSome = true := by
  induction cs generalizing bm with
  | nil => cases h; exact ⟨fun _ hk => hk, fun c hc => by cases hc⟩
  | cons d cs ih =>
    unfold build at h
    split at h
    · cases h
    · rename_i bm1 hst
      obtain ⟨ih1, ih2⟩ := ih h
      have hmono : ∀ k, (Assoc.get bm k).isSome = true → (Assoc.get bm1 k).isSome = true := by
        intro k hk
        rcases step_ok hst with ⟨_, _, rfl⟩ | ⟨_, rfl⟩
        · exact hk
        · rw [get_set]; split <;> simp [hk]
      have hd : (Assoc.get bm1 d.key).isSome = true := by
        rcases step_ok hst with ⟨_, hg, rfl⟩ | ⟨_, rfl⟩
        · simp [hg]
        · simp [get_set_self]
      refine ⟨fun k hk => ih1 k (hmono k hk), fun c hc => ?_⟩
      rcases List.mem_cons.mp hc with rfl | hc'
      · exact ih1 _ hd
      · exact ih2 c hc'

/-- Two accepted claims on one alias hold the same (target-form) endpoint. -/
theorem build_alias_same {bm' : BindMap} {cs : List Claim} (h : build [] cs = .ok bm')
    (hs : ∀ c ∈ cs, sane c = true) (hv : ∀ c ∈ cs, validHost c.host = true)
    (hr : ∀ c ∈ cs, rawBound c.raw = true)
    {c1 c2 : Claim} (h1 : c1 ∈ cs) (h2 : c2 ∈ cs) (a1 : c1.alias = true) (a2 : c2.alias = true)
    (hk : c1.key = c2.key) : c1.target = c2.target := by
  have key : ∀ c ∈ cs, c.alias = true → Assoc.get bm' c.key = some c.target := by
    intro c hc ha
    rcases build_alias_agree h hs hc ha with h' | h'
    · exact h'
    · rcases build_prov h h' with h0 | ⟨f, hf, _, hfe⟩
      · simp [Assoc.get] at h0
      · have := target_eq_raw (e := f.raw) (h := f.host) (hv f hf) (hr c hc) hfe.symm
        -- c.raw is the IPC endpoint f.raw, so c.target = c.raw
        have hcr : c.raw = f.raw := this.2
        have hid : f.raw.toTarget f.host = f.raw := this.1
        have : c.target = c.raw := by
          unfold Claim.target
          rw [hcr]
          cases hfr : f.raw with
          | tcp eh p tr =>
            rw [hfr] at hid
            simp only [Endpoint.toTarget, Endpoint.tcp.injEq, and_true] at hid
            have hvf := hv f hf
            have hrc := hr c hc
            rw [hcr, hfr] at hrc
            simp only [rawBound, beq_iff_eq] at hrc
            simp only [validHost, Bool.and_eq_true, Bool.not_eq_true', bne_iff_ne, ne_eq] at hvf
            exact absurd (hid.trans hrc) hvf.2
          | ipc p tr => rfl
        rw [this]; exact h'
  have e1 := key c1 h1 a1
  have e2 := key c2 h2 a2
  rw [hk, e2] at e1
  exact (Option.some.inj e1).symm

/-- If an alias is never claimed twice, the bind map is always built. -/
theorem build_ok_of_not_shared {bm : BindMap} {cs : List Claim}
    (hsh : shared cs = false) (hs : ∀ c ∈ cs, sane c = true)
    (hbm : ∀ c ∈ cs, c.alias = true → Assoc.get bm c.key = none) :
    ∃ bm', build bm cs = .ok bm' := by
  induction cs generalizing bm with
  | nil => exact ⟨bm, rfl⟩
  | cons c cs ih =>
    simp only [shared, Bool.or_eq_false_iff, Bool.and_eq_false_iff] at hsh
    obtain ⟨hc, hrest⟩ := hsh
    have hs' : ∀ x ∈ cs, sane x = true := fun x hx => hs x (List.mem_cons_of_mem _ hx)
    have hstep : step bm c = .ok (Assoc.set bm c.key c.target) := by
      unfold step
      by_cases ha : c.alias = true
      · simp [ha, hbm c List.mem_cons_self ha]
      · simp [ha]
    unfold build
    rw [hstep]
    apply ih hrest hs'
    intro d hd hda
    by_cases hkk : c.key = d.key
    · exfalso
      rcases hc with hca | hany
      · -- c is not an alias claim but shares the key of an alias claim
        have h1 := hs c List.mem_cons_self
        have h2 := hs' d hd
        simp only [sane, hca, hda, hkk] at h1 h2
        cases hx : isAlias d.key <;> simp [hx] at h1 h2
      · have : (cs.any fun d => d.alias && d.key == c.key) = true := by
          rw [List.any_eq_true]
          exact ⟨d, hd, by simp [hda, hkk]⟩
        rw [this] at hany
        exact absurd hany (by decide)
    · rw [get_set_ne _ _ _ _ hkk]
      exact hbm d (List.mem_cons_of_mem _ hd) hda

/-- Claims on one alias that all hold the same IPC endpoint are accepted. -/
theorem build_ok_of_equal_ipc {bm : BindMap} {cs : List Claim}
    (hs : ∀ c ∈ cs, sane c = true)
    (heq : ∀ c ∈ cs, ∀ d ∈ cs, c.alias = true → d.alias = true → c.key = d.key →
      c.raw = d.raw ∧ ∃ p tr, c.raw = .ipc p tr)
    (hbm : ∀ c ∈ cs, c.alias = true → ∀ v, Assoc.get bm c.key = some v → v = c.raw) :
    ∃ bm', build bm cs = .ok bm' := by
  induction cs generalizing bm with
  | nil => exact ⟨bm, rfl⟩
  | cons c cs ih =>
    have hs' : ∀ x ∈ cs, sane x = true := fun x hx => hs x (List.mem_cons_of_mem _ hx)
    have heq' : ∀ x ∈ cs, ∀ d ∈ cs, x.alias = true → d.alias = true → x.key = d.key →
        x.raw = d.raw ∧ ∃ p tr, x.raw = .ipc p tr :=
      fun x hx d hd => heq x (List.mem_cons_of_mem _ hx) d (List.mem_cons_of_mem _ hd)
    unfold build
    by_cases ha : c.alias = true
    · cases hg : Assoc.get bm c.key with
      | some ex =>
        have : ex = c.raw := hbm c List.mem_cons_self ha ex hg
        have hstep : step bm c = .ok bm := by
          unfold step; simp [ha, hg, this]
        rw [hstep]
        exact ih hs' heq' (fun d hd hda => hbm d (List.mem_cons_of_mem _ hd) hda)
      | none =>
        have hstep : step bm c = .ok (Assoc.set bm c.key c.target) := by
          unfold step; simp [ha, hg]
        rw [hstep]
        apply ih hs' heq'
        intro d hd hda v hv
        rw [get_set] at hv
        by_cases hkk : c.key = d.key
        · simp only [hkk, if_true, Option.some.injEq] at hv
          obtain ⟨hraw, p, tr, hip⟩ := heq c List.mem_cons_self d (List.mem_cons_of_mem _ hd) ha hda hkk
          rw [← hv, ← hraw]
          simp [Claim.target, hip, Endpoint.toTarget]
        · simp only [hkk, if_false] at hv
          exact hbm d (List.mem_cons_of_mem _ hd) hda v hv
    · have hstep : step bm c = .ok (Assoc.set bm c.key c.target) := by
        unfold step; simp [ha]
      rw [hstep]
      apply ih hs' heq'
      intro d hd hda v hv
      have hkk : c.key ≠ d.key := by
        intro hkk
        have h1 := hs c List.mem_cons_self
        have h2 := hs' d hd
        simp at ha
        simp only [sane, hda, hkk, ha] at h1 h2
        cases hx : isAlias d.key <;> simp [hx] at h1 h2
      rw [get_set_ne _ _ _ _ hkk] at hv
      exact hbm d (List.mem_cons_of_mem _ hd) hda v hv

/-! ## property maps -/

theorem addIn_other (loc : BindMap) (pm : Props) (cs : List Inbound) (n : String)
    (hn : n ∉ cs.map Inbound.name) : Assoc.get (addIn loc pm cs) n = Assoc.get pm n := by
  induction cs generalizing pm with
  | nil => rfl
  | cons c cs ih =>
    simp only [List.map_cons, List.mem_cons, not_or] at hn
    unfold addIn
    split
    · rw [ih _ hn.2, get_set_ne _ _ _ _ (fun e => hn.1 e.symm)]
    · exact ih _ hn.2

theorem addIn_mem (loc : BindMap) (pm : Props) (cs : List Inbound) (hnd : (cs.map Inbound.name).Nodup)
    {c : Inbound} (hc : c ∈ cs) {e : Entry} (he : inboundFMQ loc c = some e) :
    Assoc.get (addIn loc pm cs) c.name = some e := by
  induction cs generalizing pm with
  | nil => cases hc
  | cons d cs ih =>
    simp only [List.map_cons, List.nodup_cons] at hnd
    rcases List.mem_cons.mp hc with rfl | hc'
    · unfold addIn
      rw [he]
      simp only
      rw [addIn_other _ _ _ _ hnd.1, get_set_self]
    · unfold addIn
      split
      · exact ih _ hnd.2 hc'
      · exact ih _ hnd.2 hc'

theorem addOut_other {bm : BindMap} {pm pm' : Props} {os : List Outbound} (h : addOut bm pm os = .ok pm')
    (n : String) (hn : n ∉ os.map Outbound.name) : Assoc.get pm' n = Assoc.get pm n := by
  induction os generalizing pm with
  | nil => cases h; rfl
  | cons o os ih =>
    simp only [List.map_cons, List.mem_cons, not_or] at hn
    unfold addOut at h
    split at h
    · cases h
    · rw [ih h hn.2, get_set_ne _ _ _ _ (fun e => hn.1 e.symm)]

theorem addOut_mem {bm : BindMap} {pm pm' : Props} {os : List Outbound} (h : addOut bm pm os = .ok pm')
    (hnd : (os.map Outbound.name).Nodup) {o : Outbound} (ho : o ∈ os) :
    ∃ e, outboundFMQ bm o = .ok e ∧ Assoc.get pm' o.name = some e := by
  induction os generalizing pm with
  | nil => cases ho
  | cons d os ih =>
    simp only [List.map_cons, List.nodup_cons] at hnd
    unfold addOut at h
    split at h
    · cases h
    · rename_i en hen
      rcases List.mem_cons.mp ho with rfl | ho'
      · exact ⟨en, hen, by rw [addOut_other h _ hnd.1, get_set_self]⟩
      · exact ih h hnd.2 ho'

theorem addOut_fails {bm : BindMap} {pm : Props} {os : List Outbound} {o : Outbound} (ho : o ∈ os)
    {e : Err} (he : outboundFMQ bm o = .error e) : ∃ e', addOut bm pm os = .error e' := by
  induction os generalizing pm with
  | nil => cases ho
  | cons d os ih =>
    unfold addOut
    split
    · exact ⟨_, rfl⟩
    · rename_i en hen
      rcases List.mem_cons.mp ho with rfl | ho'
      · rw [he] at hen; cases hen
      · exact ih ho'

theorem addOut_error {bm : BindMap} {pm : Props} {os : List Outbound} {e : Err}
    (h : addOut bm pm os = .error e) : ∃ o ∈ os, outboundFMQ bm o = .error e := by
  induction os generalizing pm with
  | nil => cases h
  | cons d os ih =>
    unfold addOut at h
    split at h
    · rename_i e' he'
      cases h
      exact ⟨d, List.mem_cons_self, he'⟩
    · obtain ⟨o, ho, hoe⟩ := ih h
      exact ⟨o, List.mem_cons_of_mem _ ho, hoe⟩

/-! ## mapE -/

theorem mapE_ok {α β ε} {f : α → Except ε β} {xs : List α} {ys : List β} (h : mapE f xs = .ok ys) :
    ys.length = xs.length ∧ (∀ p ∈ xs.zip ys, f p.1 = .ok p.2) ∧ ∀ x ∈ xs, ∃ y, (x, y) ∈ xs.zip ys := by
  induction xs generalizing ys with
  | nil => cases h; simp
  | cons x xs ih =>
    unfold mapE at h
    split at h
    · cases h
    · rename_i y hy
      split at h
      · cases h
      · rename_i ys' hys
        cases h
        obtain ⟨i1, i2, i3⟩ := ih hys
        refine ⟨by simp [i1], ?_, ?_⟩
        · intro p hp
          simp only [List.zip_cons_cons, List.mem_cons] at hp
          rcases hp with rfl | hp
          · exact hy
          · exact i2 p hp
        · intro x' hx'
          rcases List.mem_cons.mp hx' with rfl | hx''
          · exact ⟨y, by simp⟩
          · obtain ⟨y', hy'⟩ := i3 x' hx''
            exact ⟨y', by simp [hy']⟩

theorem mapE_fails {α β ε} {f : α → Except ε β} {xs : List α} {x : α} (hx : x ∈ xs) {e : ε}
    (he : f x = .error e) : ∃ e', mapE f xs = .error e' := by
  induction xs with
  | nil => cases hx
  | cons d xs ih =>
    unfold mapE
    split
    · exact ⟨_, rfl⟩
    · rename_i y hy
      rcases List.mem_cons.mp hx with rfl | hx'
      · rw [he] at hy; cases hy
      · obtain ⟨e', he'⟩ := ih hx'
        rw [he']
        exact ⟨_, rfl⟩

theorem mapE_error {α β ε} {f : α → Except ε β} {xs : List α} {e : ε} (h : mapE f xs = .error e) :
    ∃ x ∈ xs, f x = .error e := by
  induction xs with
  | nil => cases h
  | cons d xs ih =>
    unfold mapE at h
    split at h
    · rename_i e' he'
      cases h
      exact ⟨d, List.mem_cons_self, he'⟩
    · split at h
      · rename_i e' he'
        cases h
        obtain ⟨x, hx, hxe⟩ := ih he'
        exact ⟨x, List.mem_cons_of_mem _ hx, hxe⟩
      · cases h


/-! ## the allocation loop of the launch -/

theorem mem_set {β} {l : List (String × β)} {k : String} {v : β} {kv : String × β}
    (h : kv ∈ Assoc.set l k v) : kv = (k, v) ∨ kv ∈ l := by
  induction l with
  | nil => simp [Assoc.set] at h; exact Or.inl h
  | cons hd tl ih =>
    obtain ⟨a, b⟩ := hd
    unfold Assoc.set at h
    split at h
    · rcases List.mem_cons.mp h with h | h
      · exact Or.inl h
      · exact Or.inr (List.mem_cons_of_mem _ h)
    · rcases List.mem_cons.mp h with h | h
      · exact Or.inr (h ▸ List.mem_cons_self)
      · rcases ih h with h | h
        · exact Or.inl h
        · exact Or.inr (List.mem_cons_of_mem _ h)

theorem mem_of_get {β} {l : List (String × β)} {k : String} {v : β} (h : Assoc.get l k = some v) :
    (k, v) ∈ l := by
  induction l with
  | nil => simp [Assoc.get] at h
  | cons hd tl ih =>
    obtain ⟨a, b⟩ := hd
    unfold Assoc.get at h
    split at h
    · rename_i hk
      rw [beq_iff_eq] at hk
      cases h
      subst hk
      exact List.mem_cons_self
    · exact List.mem_cons_of_mem _ (ih h)

theorem exists_zip_of_mem {α β} {xs : List α} {ys : List β} (hlen : ys.length = xs.length) {x : α}
    (hx : x ∈ xs) : ∃ y, (x, y) ∈ xs.zip ys := by
  induction xs generalizing ys with
  | nil => cases hx
  | cons a xs ih =>
    cases ys with
    | nil => simp at hlen
    | cons b ys =>
      simp only [List.length_cons, Nat.add_right_cancel_iff] at hlen
      rcases List.mem_cons.mp hx with rfl | hx'
      · exact ⟨b, by simp⟩
      · obtain ⟨y, hy⟩ := ih hlen hx'
        exact ⟨y, by simp [hy]⟩

/-- The step of the loop for one channel. -/
def allocStep (bm : BindMap) (c : Inbound) (e : Endpoint) : BindMap :=
  if c.global.isEmpty then Assoc.set bm c.name e else Assoc.set (Assoc.set bm c.name e) (aliasKey c.global) e

theorem allocLocal_cons (bm : BindMap) (c : Inbound) (cs : List Inbound) (e : Endpoint) (es : List Endpoint) :
    allocLocal bm (c :: cs) (e :: es) = allocLocal (allocStep bm c e) cs es := by
  simp only [allocLocal, allocStep]

theorem alias_ne_name {c : Inbound} (h : isAlias c.name = false) (g : String) : aliasKey g ≠ c.name := by
  intro heq
  rw [← heq, isAlias_aliasKey] at h
  cases h

theorem alloc_untouched (bm : BindMap) (cs : List Inbound) (es : List Endpoint) (k : String)
    (h : ∀ c ∈ cs, c.name ≠ k ∧ (c.global.isEmpty = false → aliasKey c.global ≠ k)) :
    Assoc.get (allocLocal bm cs es) k = Assoc.get bm k := by
  induction cs generalizing bm es with
  | nil => simp [allocLocal]
  | cons c cs ih =>
    cases es with
    | nil => simp [allocLocal]
    | cons e es =>
      rw [allocLocal_cons, ih _ _ (fun c' hc' => h c' (List.mem_cons_of_mem _ hc'))]
      obtain ⟨h1, h2⟩ := h c List.mem_cons_self
      unfold allocStep
      split
      · exact get_set_ne _ _ _ _ h1
      · rename_i hg
        rw [get_set_ne _ _ _ _ (h2 (by simpa using hg)), get_set_ne _ _ _ _ h1]

theorem alloc_name {bm : BindMap} {cs : List Inbound} {es : List Endpoint}
    (hnd : (cs.map Inbound.name).Nodup) (hna : ∀ c ∈ cs, isAlias c.name = false)
    {c : Inbound} {e : Endpoint} (h : (c, e) ∈ cs.zip es) :
    Assoc.get (allocLocal bm cs es) c.name = some e := by
  induction cs generalizing bm es with
  | nil => simp at h
  | cons c0 cs ih =>
    cases es with
    | nil => simp at h
    | cons e0 es =>
      simp only [List.map_cons, List.nodup_cons] at hnd
      rw [allocLocal_cons]
      simp only [List.zip_cons_cons, List.mem_cons, Prod.mk.injEq] at h
      rcases h with ⟨rfl, rfl⟩ | h
      · rw [alloc_untouched]
        · unfold allocStep
          split
          · exact get_set_self _ _ _
          · rw [get_set_ne _ _ _ _ (alias_ne_name (hna c List.mem_cons_self) _), get_set_self]
        · intro c' hc'
          refine ⟨fun heq => hnd.1 (heq ▸ List.mem_map_of_mem hc'), fun _ => ?_⟩
          exact alias_ne_name (hna c List.mem_cons_self) _
      · exact ih hnd.2 (fun c' hc' => hna c' (List.mem_cons_of_mem _ hc')) h

theorem alloc_alias {bm : BindMap} {cs : List Inbound} {es : List Endpoint}
    (hnd : (cs.map Inbound.name).Nodup) (hna : ∀ c ∈ cs, isAlias c.name = false)
    (hal : ∀ c ∈ cs, ∀ c' ∈ cs, c.global.isEmpty = false → c'.global.isEmpty = false →
      aliasKey c.global = aliasKey c'.global → c.name = c'.name)
    {c : Inbound} {e : Endpoint} (h : (c, e) ∈ cs.zip es) (hg : c.global.isEmpty = false) :
    Assoc.get (allocLocal bm cs es) (aliasKey c.global) = some e := by
  induction cs generalizing bm es with
  | nil => simp at h
  | cons c0 cs ih =>
    cases es with
    | nil => simp at h
    | cons e0 es =>
      simp only [List.map_cons, List.nodup_cons] at hnd
      rw [allocLocal_cons]
      simp only [List.zip_cons_cons, List.mem_cons, Prod.mk.injEq] at h
      rcases h with ⟨rfl, rfl⟩ | h
      · rw [alloc_untouched]
        · unfold allocStep
          simp [hg, get_set_self]
        · intro c' hc'
          refine ⟨fun heq => ?_, fun hg' heq => ?_⟩
          · exact alias_ne_name (hna c' (List.mem_cons_of_mem _ hc')) _ heq.symm
          · have := hal c' (List.mem_cons_of_mem _ hc') c List.mem_cons_self hg' hg heq
            exact hnd.1 (this ▸ List.mem_map_of_mem hc')
      · exact ih hnd.2 (fun c' hc' => hna c' (List.mem_cons_of_mem _ hc'))
          (fun a ha b hb => hal a (List.mem_cons_of_mem _ ha) b (List.mem_cons_of_mem _ hb)) h

theorem alloc_mem {bm : BindMap} {cs : List Inbound} {es : List Endpoint} {kv : String × Endpoint}
    (h : kv ∈ allocLocal bm cs es) :
    kv ∈ bm ∨ ∃ p ∈ cs.zip es, kv = (p.1.name, p.2) ∨ (p.1.global.isEmpty = false ∧ kv = (aliasKey p.1.global, p.2)) := by
  induction cs generalizing bm es with
  | nil => simp [allocLocal] at h; exact Or.inl h
  | cons c cs ih =>
    cases es with
    | nil => simp [allocLocal] at h; exact Or.inl h
    | cons e es =>
      rw [allocLocal_cons] at h
      rcases ih h with h | ⟨p, hp, hpe⟩
      · unfold allocStep at h
        split at h
        · rcases mem_set h with h | h
          · exact Or.inr ⟨(c, e), by simp, Or.inl h⟩
          · exact Or.inl h
        · rename_i hg
          rcases mem_set h with h | h
          · exact Or.inr ⟨(c, e), by simp, Or.inr ⟨by simpa using hg, h⟩⟩
          · rcases mem_set h with h | h
            · exact Or.inr ⟨(c, e), by simp, Or.inl h⟩
            · exact Or.inl h
      · exact Or.inr ⟨p, by simp [hp], hpe⟩

theorem isSome_set {β} (l : List (String × β)) (k k' : String) (v : β) (h : (Assoc.get l k').isSome = true) :
    (Assoc.get (Assoc.set l k v) k').isSome = true := by
  by_cases hk : k = k'
  · subst hk; rw [get_set_self]; rfl
  · rw [get_set_ne _ _ _ _ hk]; exact h

/-- The loop never removes a key. -/
theorem alloc_keeps (bm : BindMap) (cs : List Inbound) (es : List Endpoint) (k : String)
    (h : (Assoc.get bm k).isSome = true) : (Assoc.get (allocLocal bm cs es) k).isSome = true := by
  induction cs generalizing bm es with
  | nil => simpa [allocLocal] using h
  | cons c cs ih =>
    cases es with
    | nil => simpa [allocLocal] using h
    | cons e es =>
      rw [allocLocal_cons]
      apply ih
      unfold allocStep
      split
      · exact isSome_set _ _ _ _ h
      · exact isSome_set _ _ _ _ (isSome_set _ _ _ _ h)

/-- Every declared alias has an entry (of whichever channel named it last). -/
theorem alloc_alias_present {bm : BindMap} {cs : List Inbound} {es : List Endpoint}
    {c : Inbound} {e : Endpoint} (h : (c, e) ∈ cs.zip es) (hg : c.global.isEmpty = false) :
    (Assoc.get (allocLocal bm cs es) (aliasKey c.global)).isSome = true := by
  induction cs generalizing bm es with
  | nil => simp at h
  | cons c0 cs ih =>
    cases es with
    | nil => simp at h
    | cons e0 es =>
      rw [allocLocal_cons]
      simp only [List.zip_cons_cons, List.mem_cons, Prod.mk.injEq] at h
      rcases h with ⟨rfl, rfl⟩ | h
      · apply alloc_keeps
        unfold allocStep
        simp [hg, get_set_self]
      · exact ih h

/-! ## plumbing for the property theorems -/

theorem wire_ok {tasks : List Task} {res : List Props} (h : wire tasks = .ok res) :
    ∃ bm, build [] (claims tasks) = .ok bm ∧ mapE (taskProps bm) tasks = .ok res := by
  unfold wire at h
  split at h
  · cases h
  · rename_i bm hb
    exact ⟨bm, hb, h⟩

/-- `configureWith` is `wire` unless the per-task check is on and some task is rejected by it. -/
theorem configureWith_cases (cfg : Cfg) (tasks : List Task) :
    (cfg.aliasPerTask = true ∧ tasks.any redefines = true ∧ configureWith cfg tasks = .error .aliasConflict) ∨
    ((cfg.aliasPerTask = false ∨ tasks.any redefines = false) ∧ configureWith cfg tasks = wire tasks) := by
  unfold configureWith
  cases h1 : cfg.aliasPerTask <;> cases h2 : tasks.any redefines <;> simp

theorem configureWith_ok_wire {cfg : Cfg} {tasks : List Task} {res : List Props}
    (h : configureWith cfg tasks = .ok res) : wire tasks = .ok res := by
  rcases configureWith_cases cfg tasks with ⟨_, _, he⟩ | ⟨_, he⟩
  · rw [he] at h; cases h
  · rw [← he]; exact h

theorem configureWith_ok {cfg : Cfg} {tasks : List Task} {res : List Props} (h : configureWith cfg tasks = .ok res) :
    ∃ bm, build [] (claims tasks) = .ok bm ∧ mapE (taskProps bm) tasks = .ok res :=
  wire_ok (configureWith_ok_wire h)

theorem configure_ok {tasks : List Task} {res : List Props} (h : configure tasks = .ok res) :
    ∃ bm, build [] (claims tasks) = .ok bm ∧ mapE (taskProps bm) tasks = .ok res :=
  configureWith_ok h

theorem legacy_eq_wire (tasks : List Task) : configureWith legacyCfg tasks = wire tasks := by
  simp [configureWith, legacyCfg]

/-! ## the per-task scan of the declarations -/

/-- The scan rejects only if some channel's alias is owned under another name — by the owners
    it started with, or by a channel of the list. -/
theorem aliasScan_true {owners : List (String × String)} {cs : List Inbound} (h : aliasScan owners cs = true) :
    ∃ d ∈ cs, d.global.isEmpty = false ∧
      ((∃ n, Assoc.get owners d.global = some n ∧ n ≠ d.name) ∨ ∃ c ∈ cs, c.global = d.global ∧ c.name ≠ d.name) := by
  induction cs generalizing owners with
  | nil => simp [aliasScan] at h
  | cons c cs ih =>
    unfold aliasScan at h
    by_cases hg : c.global.isEmpty = true
    · rw [if_pos hg] at h
      obtain ⟨d, hd, hne, hor⟩ := ih h
      refine ⟨d, List.mem_cons_of_mem _ hd, hne, ?_⟩
      rcases hor with hl | ⟨c', hc', r⟩
      · exact Or.inl hl
      · exact Or.inr ⟨c', List.mem_cons_of_mem _ hc', r⟩
    · rw [if_neg hg] at h
      have hgf : c.global.isEmpty = false := by simpa using hg
      -- what the recursive call yields, whatever the branch
      have hrec0 : aliasScan (Assoc.set owners c.global c.name) cs = true →
          ∃ d ∈ c :: cs, d.global.isEmpty = false ∧
            ((∃ n, Assoc.get owners d.global = some n ∧ n ≠ d.name) ∨
              ∃ c' ∈ c :: cs, c'.global = d.global ∧ c'.name ≠ d.name) := by
        intro h'
        obtain ⟨d, hd, hne, hor⟩ := ih h'
        refine ⟨d, List.mem_cons_of_mem _ hd, hne, ?_⟩
        rcases hor with ⟨n, hn, hnn⟩ | ⟨c', hc', r⟩
        · by_cases hk : c.global = d.global
          · rw [← hk, get_set_self] at hn
            cases hn
            exact Or.inr ⟨c, List.mem_cons_self, hk, hnn⟩
          · rw [get_set_ne _ _ _ _ hk] at hn
            exact Or.inl ⟨n, hn, hnn⟩
        · exact Or.inr ⟨c', List.mem_cons_of_mem _ hc', r⟩
      split at h
      · rename_i o ho
        by_cases hon : o = c.name
        · simp only [hon, bne_self_eq_false, Bool.false_eq_true, if_false] at h
          exact hrec0 h
        · exact ⟨c, List.mem_cons_self, hgf, Or.inl ⟨o, ho, hon⟩⟩
      · exact hrec0 h

/-- The scan accepts only if every channel's alias is owned under the channel's own name —
    by the owners it started with and by every other channel of the list. -/
theorem aliasScan_false {owners : List (String × String)} {cs : List Inbound} (h : aliasScan owners cs = false) :
    ∀ d ∈ cs, d.global.isEmpty = false →
      (∀ n, Assoc.get owners d.global = some n → n = d.name) ∧ ∀ c ∈ cs, c.global = d.global → c.name = d.name := by
  induction cs generalizing owners with
  | nil => intro d hd; cases hd
  | cons c cs ih =>
    unfold aliasScan at h
    by_cases hg : c.global.isEmpty = true
    · rw [if_pos hg] at h
      intro d hd hne
      rcases List.mem_cons.mp hd with rfl | hd
      · rw [hg] at hne; cases hne
      · obtain ⟨h1, h2⟩ := ih h d hd hne
        refine ⟨h1, ?_⟩
        intro c' hc' hk
        rcases List.mem_cons.mp hc' with rfl | hc'
        · rw [hk, hne] at hg; cases hg
        · exact h2 c' hc' hk
    · rw [if_neg hg] at h
      -- in both surviving branches: the owner found (if any) is c's own name, and the rest is scanned
      -- with c as owner of its alias
      have key : (∀ n, Assoc.get owners c.global = some n → n = c.name) ∧
          aliasScan (Assoc.set owners c.global c.name) cs = false := by
        split at h
        · rename_i o ho
          by_cases hon : o = c.name
          · simp only [hon, bne_self_eq_false, Bool.false_eq_true, if_false] at h
            refine ⟨?_, h⟩
            intro n hn; rw [ho] at hn; cases hn; exact hon
          · have : (o != c.name) = true := by simpa using hon
            rw [this] at h; simp at h
        · rename_i ho
          refine ⟨?_, h⟩
          intro n hn; rw [ho] at hn; cases hn
      obtain ⟨hown, hrec⟩ := key
      have ihr := ih hrec
      -- every later channel with c's alias has c's name
      have later : ∀ c' ∈ cs, c'.global = c.global → c'.name = c.name := by
        intro c' hc' hk
        have hne' : c'.global.isEmpty = false := by rw [hk]; simpa using hg
        have := (ihr c' hc' hne').1 c.name (by rw [hk, get_set_self])
        exact this.symm
      intro d hd hne
      rcases List.mem_cons.mp hd with rfl | hd
      · refine ⟨hown, ?_⟩
        intro c' hc' hk
        rcases List.mem_cons.mp hc' with rfl | hc'
        · rfl
        · exact later c' hc' hk
      · obtain ⟨h1, h2⟩ := ihr d hd hne
        by_cases hk : c.global = d.global
        · have hdn : d.name = c.name := later d hd hk.symm
          refine ⟨?_, ?_⟩
          · intro n hn
            rw [← hk] at hn
            rw [hown n hn, hdn]
          · intro c' hc' hk'
            rcases List.mem_cons.mp hc' with rfl | hc'
            · exact hdn.symm
            · exact h2 c' hc' hk'
        · refine ⟨?_, ?_⟩
          · intro n hn
            exact h1 n (by rw [get_set_ne _ _ _ _ hk]; exact hn)
          · intro c' hc' hk'
            rcases List.mem_cons.mp hc' with rfl | hc'
            · exact absurd hk' hk
            · exact h2 c' hc' hk'

/-- The scan of a task's declarations rejects exactly the tasks in which two channels of
    different names share an alias. -/
theorem redefines_iff (t : Task) : redefines t = true ↔ AliasTwice t := by
  unfold redefines AliasTwice
  constructor
  · intro h
    obtain ⟨d, hd, hne, hor⟩ := aliasScan_true h
    rcases hor with ⟨n, hn, _⟩ | ⟨c, hc, hk, hn⟩
    · simp [Assoc.get] at hn
    · exact ⟨d, hd, c, hc, hne, hk.symm, fun e => hn e.symm⟩
  · intro ⟨c, hc, d, hd, hne, hk, hn⟩
    cases hs : aliasScan [] t.inbound with
    | true => rfl
    | false =>
      exfalso
      exact hn (((aliasScan_false hs) c hc hne).2 d hd hk.symm).symm

theorem any_redefines_iff (tasks : List Task) : tasks.any redefines = true ↔ ∃ t ∈ tasks, AliasTwice t := by
  simp only [List.any_eq_true, redefines_iff]

theorem claims_sane {tasks : List Task} (hk : keysSane (claims tasks) = true) :
    ∀ c ∈ claims tasks, sane c = true := by
  intro c hc
  have h1 := (List.all_eq_true.mp hk) c hc
  obtain ⟨t, _, kv, _, rfl⟩ := mem_claims.mp hc
  unfold claimOf at h1 ⊢
  split
  · rename_i ha; simp [sane, ha]
  · rename_i ha
    simp only [ha] at h1
    simp only [sane]
    simpa using h1

theorem explicit_empty {s : String} (h : s.isEmpty = true) : explicit s = false := by
  have : s = "" := by simpa using h
  subst this
  decide

/-- From `launchOk`: the inbound channel behind an entry of the local bind map. -/
theorem launch_entry {t : Task} (hl : launchOk t = true) {kv : String × Endpoint} (hkv : kv ∈ t.loc) :
    ∃ c ∈ t.inbound, entryOf kv c ∧ Assoc.get t.loc c.name = some kv.2 ∧ freshFor c kv.2 = true := by
  simp only [launchOk, Bool.and_eq_true, List.all_eq_true, List.any_eq_true, decide_eq_true_eq] at hl
  obtain ⟨c, hc, he, hg⟩ := hl.1.1.2 kv hkv
  refine ⟨c, hc, he, hg, ?_⟩
  have := hl.1.1.1 c hc
  rw [hg] at this
  exact this

/-- From `launchOk`: a task in which no alias is named by two channels advertises every declared
    alias with the declaring channel's own endpoint. -/
theorem advertised_of_not_twice {t : Task} (hl : launchOk t = true) (hn : ¬ AliasTwice t) : aliasesAdvertised t := by
  intro c hc hg e he
  have hl' := hl
  simp only [launchOk, Bool.and_eq_true, List.all_eq_true, List.any_eq_true, decide_eq_true_eq,
    Bool.or_eq_true, Bool.not_eq_true'] at hl'
  have hpres := hl'.1.2 c hc
  rw [hg] at hpres
  simp only [Bool.false_eq_true, false_or] at hpres
  obtain ⟨e', he'⟩ := Option.isSome_iff_exists.mp hpres
  have hmem : (aliasKey c.global, e') ∈ t.loc := mem_of_get he'
  obtain ⟨c', hc', hent, hloc, _⟩ := launch_entry hl hmem
  have hsame : c'.name = c.name := by
    rcases hent with hnm | ⟨hg', hk⟩
    · have := hl'.2 c' hc'
      rw [← show aliasKey c.global = c'.name from hnm, isAlias_aliasKey] at this
      cases this
    · have hgg : c.global = c'.global := (String.append_right_inj _).mp hk
      apply Classical.byContradiction
      intro hne
      exact hn ⟨c, hc, c', hc', hg, hgg, fun e => hne e.symm⟩
  refine ⟨(aliasKey c.global, e'), hmem, rfl, ?_⟩
  show e' = e
  have h1 : Assoc.get t.loc c.name = some e' := by rw [← hsame]; exact hloc
  rw [he] at h1
  exact (Option.some.inj h1).symm

theorem wf_claims {tasks : List Task} (hwf : WF tasks) :
    (∀ c ∈ claims tasks, sane c = true) ∧ (∀ c ∈ claims tasks, validHost c.host = true) ∧
    (∀ c ∈ claims tasks, rawBound c.raw = true) := by
  refine ⟨claims_sane hwf.2, ?_, ?_⟩
  · intro c hc
    obtain ⟨t, ht, kv, _, rfl⟩ := mem_claims.mp hc
    rw [claimOf_host]
    exact (hwf.1 t ht).2.1
  · intro c hc
    obtain ⟨t, ht, kv, hkv, rfl⟩ := mem_claims.mp hc
    rw [claimOf_raw]
    obtain ⟨c', _, _, _, hf⟩ := launch_entry (hwf.1 t ht).1 hkv
    exact freshFor_rawBound c' kv.2 hf

/-- `clash` finds two alias claims with one key and different target-form endpoints. -/
theorem clash_mem {cs : List Claim} (h : clash cs = true) :
    ∃ c ∈ cs, ∃ d ∈ cs, c.alias = true ∧ d.alias = true ∧ d.key = c.key ∧ d.target ≠ c.target := by
  induction cs with
  | nil => cases h
  | cons c cs ih =>
    simp only [clash, Bool.or_eq_true, Bool.and_eq_true, List.any_eq_true, beq_iff_eq,
      decide_eq_true_eq] at h
    rcases h with ⟨hc, d, hd, ⟨hda, hdk⟩, hdt⟩ | h
    · exact ⟨c, List.mem_cons_self, d, List.mem_cons_of_mem _ hd, hc, hda, hdk, hdt⟩
    · obtain ⟨x, hx, y, hy, r⟩ := ih h
      exact ⟨x, List.mem_cons_of_mem _ hx, y, List.mem_cons_of_mem _ hy, r⟩

/-! ## merge -/

theorem mergeBy_find {α} (name : α → String) (n : String) (hp lp : List α) :
    findName name n (mergeBy name hp lp) = (findName name n hp).or (findName name n lp) := by
  unfold mergeBy
  induction lp generalizing hp with
  | nil => simp [findName]
  | cons v lp ih =>
    simp only [List.foldl_cons]
    split
    · rename_i hany
      rw [ih]
      cases hf : findName name n hp with
      | some x => simp
      | none =>
        simp only [Option.none_or]
        -- v's name is taken in hp but n is not found there, so v is not named n
        have hvn : (name v == n) = false := by
          cases hvn : name v == n with
          | false => rfl
          | true =>
            exfalso
            obtain ⟨c, hc, hcn⟩ := List.any_eq_true.mp hany
            have : name c = n := by
              rw [beq_iff_eq] at hcn hvn; rw [hcn, hvn]
            have hnone := List.find?_eq_none.mp hf c hc
            simp [this] at hnone
        simp [findName, hvn]
    · rename_i hany
      rw [ih]
      simp only [findName, List.find?_append]
      cases hf : List.find? (fun c => name c == n) hp with
      | some x => simp
      | none => cases hvn : name v == n <;> simp [hvn]

/-! ## templates, iterators, per-instance resolution -/

theorem flatten_append (pfx : String) (b : List Inbound) (c : List Outbound) (f g : Forest) :
    flatten pfx b c (f.append g) = flatten pfx b c f ++ flatten pfx b c g := by
  induction f generalizing pfx b c with
  | nil => simp [Forest.append, flatten]
  | agg n bb cc kids next _ ih => simp [Forest.append, flatten, ih]
  | task n cls h bb cc next ih => simp [Forest.append, flatten, ih]

theorem ownDecls_append (f g : Forest) : ownDecls (f.append g) = ownDecls f ++ ownDecls g := by
  induction f with
  | nil => simp [Forest.append, ownDecls]
  | agg n bb cc kids next _ ih => simp [Forest.append, ownDecls, ih]
  | task n cls h bb cc next ih => simp [Forest.append, ownDecls, ih]

theorem flatten_foldr_append (pfx : String) (b : List Inbound) (c : List Outbound) (F : String → Forest)
    (vals : List String) :
    flatten pfx b c (vals.foldr (fun x acc => (F x).append acc) .nil) =
      vals.flatMap (fun x => flatten pfx b c (F x)) := by
  induction vals with
  | nil => simp [flatten]
  | cons x xs ih => simp [flatten_append, ih]

theorem ownDecls_foldr_append (F : String → Forest) (vals : List String) :
    ownDecls (vals.foldr (fun x acc => (F x).append acc) .nil) = vals.flatMap (fun x => ownDecls (F x)) := by
  induction vals with
  | nil => simp [ownDecls]
  | cons x xs ih => simp [ownDecls_append, ih]

theorem foldr_append_flatMap {α β} (F : α → List β) (vals : List α) :
    vals.foldr (fun x acc => F x ++ acc) [] = vals.flatMap F := by
  induction vals with
  | nil => rfl
  | cons x xs ih => simp [ih]

theorem inst_lit (c : Ctx) (s : String) : Tmpl.inst c [.lit s] = s := by
  simp [Tmpl.inst, Seg.inst]

theorem OutT_resolve_inst (c c' : Ctx) (o : OutT) : (o.resolve c).inst c' = o.inst c := by
  simp [OutT.resolve, OutT.inst, inst_lit]

theorem InT_resolve_inst (c c' : Ctx) (b : InT) : (b.resolve c).inst c' = b.inst c := by
  simp [InT.resolve, InT.inst, inst_lit]

theorem OutT_resolve_idem (c c' : Ctx) (o : OutT) : (o.resolve c).resolve c' = o.resolve c := by
  simp [OutT.resolve, inst_lit]

theorem InT_resolve_idem (c c' : Ctx) (b : InT) : (b.resolve c).resolve c' = b.resolve c := by
  simp [InT.resolve, inst_lit]

theorem Cell.resolve_read (x : Cell) : x.resolve.read = x.read := by
  simp [Cell.resolve, Cell.read, List.map_map, Function.comp_def, OutT_resolve_inst, InT_resolve_inst]

theorem Cell.resolve_idem (x : Cell) : x.resolve.resolve = x.resolve := by
  simp [Cell.resolve, List.map_map, Function.comp_def, OutT_resolve_idem, InT_resolve_idem]

theorem toT_inst_out (c : Ctx) (o : Outbound) : o.toT.inst c = o := by
  simp [Outbound.toT, OutT.inst, inst_lit]

theorem toT_inst_in (c : Ctx) (b : Inbound) : b.toT.inst c = b := by
  simp [Inbound.toT, InT.inst, inst_lit]

theorem expand_toT (c : Ctx) (f : Forest) : expand c f.toT = f := by
  induction f generalizing c with
  | nil => rfl
  | agg n bb cc kids next ih1 ih2 =>
    simp [Forest.toT, expand, inst_lit, ih1, ih2, List.map_map, Function.comp_def, toT_inst_out, toT_inst_in]
  | task n cls h bb cc next ih =>
    simp [Forest.toT, expand, inst_lit, ih, List.map_map, Function.comp_def, toT_inst_out, toT_inst_in]

/-- The loaded tree's own declarations are the cells' contents, each resolved by its own pass. -/
theorem ownDecls_expand (c : Ctx) (f : TForest) :
    ownDecls (expand c f) = (cells c f).map Cell.read := by
  induction f generalizing c with
  | nil => rfl
  | agg n bb cc kids next ih1 ih2 => simp [expand, cells, ownDecls, ih1, ih2, Cell.read]
  | task n cls h bb cc next ih => simp [expand, cells, ownDecls, ih, Cell.read]
  | iter v vals body next ih1 ih2 =>
    simp only [expand, cells, ownDecls_append, ownDecls_foldr_append, foldr_append_flatMap, ih1, ih2,
      List.map_append, List.map_flatMap]

theorem getElem?_modAt {α} (f : α → α) (l : List α) (i j : Nat) :
    (modAt f l i)[j]? = if j = i then l[j]?.map f else l[j]? := by
  induction l generalizing i j with
  | nil => simp [modAt]
  | cons x xs ih =>
    cases i with
    | zero => cases j <;> simp [modAt]
    | succ i => cases j <;> simp [modAt, ih]

theorem processOrder_get (st : List Cell) (ord : List Nat) (j : Nat) :
    (processOrder st ord)[j]? = if j ∈ ord then st[j]?.map Cell.resolve else st[j]? := by
  unfold processOrder
  induction ord generalizing st with
  | nil => simp
  | cons i ord ih =>
    simp only [List.foldl_cons, ih, getElem?_modAt, List.mem_cons]
    by_cases hji : j = i
    · subst hji
      by_cases hjo : j ∈ ord
      · simp only [hjo, or_true, if_true]
        cases st[j]? <;> simp [Cell.resolve_idem]
      · simp [hjo]
    · by_cases hjo : j ∈ ord <;> simp [hji, hjo]

theorem processOrder_all (st : List Cell) (ord : List Nat) (hall : ∀ j, j < st.length → j ∈ ord) :
    processOrder st ord = st.map Cell.resolve := by
  apply List.ext_getElem?
  intro j
  rw [processOrder_get, List.getElem?_map]
  by_cases hj : j < st.length
  · simp [hall j hj]
  · have : st[j]? = none := by simp; omega
    simp [this]

theorem Forest.append_nil (f : Forest) : f.append .nil = f := by
  induction f with
  | nil => rfl
  | agg n bb cc kids next _ ih => simp [Forest.append, ih]
  | task n cls h bb cc next ih => simp [Forest.append, ih]

theorem flatMap_single {α β} (g : α → β) (l : List α) : l.flatMap (fun x => [g x]) = l.map g := by
  induction l with
  | nil => rfl
  | cons x xs ih => simp [ih]

end Channels
