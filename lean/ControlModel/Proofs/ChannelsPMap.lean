/-
  Proofs/ChannelsPMap — lemmas about the WHOLE property map of a task (C13): the loops of
  BuildPropertyMap as one `setAll` of the generated keys over the declared ones, what the map says
  about a channel (`readEntry`) against the channel-level model (`taskProps`), and monotonicity of
  the Spec in the channel entries. Core Lean only.
-/
import ControlModel.Proofs.Channels

namespace Channels

/-! ## association lists keyed by `Key` -/

theorem pget_set (l : PMap) (k k' : Key) (v : String) :
    Assoc.get (Assoc.set l k v) k' = if k = k' then some v else Assoc.get l k' := by
  induction l with
  | nil => simp [Assoc.set, Assoc.get]
  | cons hd tl ih =>
    obtain ⟨a, b⟩ := hd
    by_cases h : a = k
    · subst h; simp only [Assoc.set, Assoc.get, beq_self_eq_true, if_true, beq_iff_eq]
      by_cases h2 : a = k' <;> simp [h2]
    · simp only [Assoc.set, beq_iff_eq, h, if_false, Assoc.get]
      by_cases h2 : a = k'
      · subst h2
        have : ¬ k = a := fun e => h e.symm
        simp [this]
      · simp [h2, ih]

theorem setAll_nil (pm : PMap) : setAll pm [] = pm := rfl

theorem setAll_cons (pm : PMap) (kv : Key × String) (r : PMap) :
    setAll pm (kv :: r) = setAll (Assoc.set pm kv.1 kv.2) r := rfl

theorem setAll_append (pm a b : PMap) : setAll pm (a ++ b) = setAll (setAll pm a) b := by
  simp [setAll, List.foldl_append]

/-- A key nobody writes keeps its value. -/
theorem get_setAll_not_mem (pm kvs : PMap) (k : Key) (h : k ∉ kvs.map (·.1)) :
    Assoc.get (setAll pm kvs) k = Assoc.get pm k := by
  induction kvs generalizing pm with
  | nil => rfl
  | cons kv r ih =>
    simp only [List.map_cons, List.mem_cons, not_or] at h
    rw [setAll_cons, ih _ h.2, pget_set, if_neg (fun e => h.1 e.symm)]

/-- Later writes win: the value of `k` after `setAll` is the one the writes alone produce, and
    only if they do not mention `k`, the one the map had. -/
theorem get_setAll_or (pm kvs : PMap) (k : Key) :
    Assoc.get (setAll pm kvs) k = (Assoc.get (setAll [] kvs) k).or (Assoc.get pm k) := by
  induction kvs generalizing pm with
  | nil => simp [setAll_nil, Assoc.get]
  | cons kv r ih =>
    rw [setAll_cons, setAll_cons, ih (Assoc.set pm kv.1 kv.2), ih (Assoc.set [] kv.1 kv.2), pget_set, pget_set]
    by_cases h : kv.1 = k
    · simp [h]
    · simp [h, Assoc.get]

/-- If all writes to `k` carry the same value, that is the value afterwards. -/
theorem get_setAll_consistent (pm kvs : PMap) (k : Key) (v : String) (hm : (k, v) ∈ kvs)
    (hc : ∀ v', (k, v') ∈ kvs → v' = v) : Assoc.get (setAll pm kvs) k = some v := by
  induction kvs generalizing pm with
  | nil => cases hm
  | cons kv r ih =>
    rw [setAll_cons]
    by_cases hr : (k, v) ∈ r
    · exact ih _ hr (fun v' h' => hc v' (List.mem_cons_of_mem _ h'))
    · have hkv : kv = (k, v) := by
        rcases List.mem_cons.mp hm with h | h
        · exact h.symm
        · exact absurd h hr
      have hnot : k ∉ r.map (·.1) := by
        intro hin
        obtain ⟨x, hx, hxk⟩ := List.mem_map.mp hin
        have : x.2 = v := hc x.2 (List.mem_cons_of_mem _ (by rw [← hxk]; exact hx))
        apply hr
        rw [← this, ← hxk]
        exact hx
      rw [get_setAll_not_mem _ _ _ hnot, hkv, pget_set]
      simp

/-- A key somebody writes has a value afterwards. -/
theorem get_setAll_mem (pm kvs : PMap) (k : Key) (h : k ∈ kvs.map (·.1)) :
    ∃ v, Assoc.get (setAll pm kvs) k = some v := by
  induction kvs generalizing pm with
  | nil => cases h
  | cons kv r ih =>
    rw [setAll_cons]
    by_cases hr : k ∈ r.map (·.1)
    · exact ih _ hr
    · simp only [List.map_cons, List.mem_cons] at h
      rcases h with h | h
      · refine ⟨kv.2, ?_⟩
        rw [get_setAll_not_mem _ _ _ hr, pget_set, if_pos h.symm]
      · exact absurd h hr

theorem mem_keys_of_get_setAll {kvs : PMap} {k : Key} {v : String} (h : Assoc.get (setAll [] kvs) k = some v) :
    k ∈ kvs.map (·.1) := by
  apply Classical.byContradiction
  intro hn
  rw [get_setAll_not_mem _ _ _ hn] at h
  simp [Assoc.get] at h

theorem nodup_fst_unique {l : PMap} (h : (l.map (·.1)).Nodup) {k : Key} {v v' : String} (h1 : (k, v) ∈ l)
    (h2 : (k, v') ∈ l) : v = v' := by
  induction l with
  | nil => cases h1
  | cons x xs ih =>
    simp only [List.map_cons, List.nodup_cons] at h
    rcases List.mem_cons.mp h1 with rfl | h1' <;> rcases List.mem_cons.mp h2 with h2' | h2'
    · cases h2'; rfl
    · exact absurd (List.mem_map_of_mem (f := (·.1)) h2') h.1
    · subst h2'; exact absurd (List.mem_map_of_mem (f := (·.1)) h1') h.1
    · exact ih h.2 h1' h2'

/-! ## the loops of BuildPropertyMap as one `setAll` -/

theorem addInP_eq (loc : BindMap) (pm : PMap) (cs : List Inbound) :
    addInP loc pm cs = setAll pm (inKVs loc cs) := by
  induction cs generalizing pm with
  | nil => rfl
  | cons c cs ih =>
    unfold addInP inKVs
    split
    · rw [ih, setAll_append]
    · exact ih pm

theorem addOutP_eq (bm : BindMap) (pm : PMap) (os : List Outbound) :
    addOutP bm pm os = match outKVs bm os with
      | .error e => .error e
      | .ok r => .ok (setAll pm r) := by
  induction os generalizing pm with
  | nil => rfl
  | cons o os ih =>
    unfold addOutP outKVs
    split
    · rfl
    · rw [ih]
      cases outKVs bm os <;> simp [setAll_append]

/-- BuildPropertyMap: the generated keys (which do not depend on the declared properties) laid
    over / under the declared ones, by configuration. -/
theorem buildPMap_eq (cfg : Cfg) (bm : BindMap) (t : Task) :
    buildPMap cfg bm t = match genKVs bm t.loc t.inbound t.outbound with
      | .error e => .error e
      | .ok g => .ok (if cfg.generatedLast then setAll (setAll baseProps t.props) g
                      else setAll (setAll baseProps g) t.props) := by
  unfold buildPMap genKVs
  simp only [addOutP_eq, addInP_eq]
  cases outKVs bm t.outbound with
  | error e => rfl
  | ok r =>
    cases cfg.generatedLast <;> simp [setAll_append]

/-! ## membership in the generated keys -/

theorem mem_fmqMap {n : String} {m : Misc} {e : Entry} {kv : Key × String} :
    kv ∈ fmqMap n m e ↔ kv = (.sockets n, "1") ∨ ∃ f ∈ fieldsOf e.method, kv = (.chan n f, fieldVal m e f) := by
  simp [fmqMap, eq_comm]

/-- The channel a generated key belongs to. -/
def Key.owner : Key → Option String
  | .chan n _ => some n
  | .sockets n => some n
  | .other _ => none

theorem fmqMap_owner {n : String} {m : Misc} {e : Entry} {kv : Key × String} (h : kv ∈ fmqMap n m e) :
    kv.1.owner = some n := by
  rcases mem_fmqMap.mp h with rfl | ⟨f, _, rfl⟩ <;> rfl

/-- Within one channel's block every key is written once. -/
theorem fmqMap_functional {n : String} {m : Misc} {e : Entry} {k : Key} {v v' : String}
    (h : (k, v) ∈ fmqMap n m e) (h' : (k, v') ∈ fmqMap n m e) : v = v' := by
  rcases mem_fmqMap.mp h with h1 | ⟨f, _, h1⟩ <;> rcases mem_fmqMap.mp h' with h2 | ⟨f', _, h2⟩
  · cases h1; cases h2; rfl
  · cases h1; cases h2
  · cases h1; cases h2
  · cases h1; cases h2; rfl

theorem mem_inKVs {loc : BindMap} {cs : List Inbound} {kv : Key × String} :
    kv ∈ inKVs loc cs ↔ ∃ c ∈ cs, ∃ e, inboundFMQ loc c = some e ∧ kv ∈ fmqMap c.name c.misc e := by
  induction cs with
  | nil => simp [inKVs]
  | cons c cs ih =>
    unfold inKVs
    split
    · rename_i e he
      rw [List.mem_append, ih]
      constructor
      · rintro (h | ⟨d, hd, e', he', hkv⟩)
        · exact ⟨c, List.mem_cons_self, e, he, h⟩
        · exact ⟨d, List.mem_cons_of_mem _ hd, e', he', hkv⟩
      · rintro ⟨d, hd, e', he', hkv⟩
        rcases List.mem_cons.mp hd with rfl | hd
        · rw [he] at he'; cases he'; exact Or.inl hkv
        · exact Or.inr ⟨d, hd, e', he', hkv⟩
    · rename_i he
      rw [ih]
      constructor
      · rintro ⟨d, hd, e', he', hkv⟩
        exact ⟨d, List.mem_cons_of_mem _ hd, e', he', hkv⟩
      · rintro ⟨d, hd, e', he', hkv⟩
        rcases List.mem_cons.mp hd with rfl | hd
        · rw [he] at he'; cases he'
        · exact ⟨d, hd, e', he', hkv⟩

theorem mem_outKVs {bm : BindMap} {os : List Outbound} {r : PMap} (h : outKVs bm os = .ok r) {kv : Key × String} :
    kv ∈ r ↔ ∃ o ∈ os, ∃ e, outboundFMQ bm o = .ok e ∧ kv ∈ fmqMap o.name o.misc e := by
  induction os generalizing r with
  | nil => cases h; simp
  | cons o os ih =>
    unfold outKVs at h
    split at h
    · cases h
    · rename_i en hen
      split at h
      · cases h
      · rename_i r' hr'
        cases h
        rw [List.mem_append, ih hr']
        constructor
        · rintro (h | ⟨d, hd, e', he', hkv⟩)
          · exact ⟨o, List.mem_cons_self, en, hen, h⟩
          · exact ⟨d, List.mem_cons_of_mem _ hd, e', he', hkv⟩
        · rintro ⟨d, hd, e', he', hkv⟩
          rcases List.mem_cons.mp hd with rfl | hd
          · rw [hen] at he'; cases he'; exact Or.inl hkv
          · exact Or.inr ⟨d, hd, e', he', hkv⟩

/-- When the outbound loop succeeds every outbound channel was configured. -/
theorem outKVs_all {bm : BindMap} {os : List Outbound} {r : PMap} (h : outKVs bm os = .ok r) {o : Outbound}
    (ho : o ∈ os) : ∃ e, outboundFMQ bm o = .ok e := by
  induction os generalizing r with
  | nil => cases ho
  | cons d os ih =>
    unfold outKVs at h
    split at h
    · cases h
    · rename_i en hen
      split at h
      · cases h
      · rename_i r' hr'
        rcases List.mem_cons.mp ho with rfl | ho
        · exact ⟨en, hen⟩
        · exact ih hr' ho

theorem inboundFMQ_method {loc : BindMap} {c : Inbound} {e : Entry} (h : inboundFMQ loc c = some e) :
    e.method = .bind := by
  unfold inboundFMQ at h
  split at h
  · cases h; rfl
  · split at h
    · cases h
    · split at h
      · cases h
      · cases h; rfl

theorem outboundFMQ_method {bm : BindMap} {o : Outbound} {e : Entry} (h : outboundFMQ bm o = .ok e) :
    e.method = .connect := by
  unfold outboundFMQ at h
  split at h
  · cases h; rfl
  · split at h
    · cases h; rfl
    · cases h

/-- Every generated key is a key of one of the task's own channels. -/
theorem genKVs_owned {bm : BindMap} {t : Task} {g : PMap} (h : genKVs bm t.loc t.inbound t.outbound = .ok g)
    {kv : Key × String} (hkv : kv ∈ g) : ownsKey t kv.1 = true := by
  unfold genKVs at h
  split at h
  · cases h
  · rename_i r hr
    cases h
    have hown : ∃ n ∈ chanNames t, kv.1.owner = some n := by
      rcases List.mem_append.mp hkv with h1 | h1
      · obtain ⟨c, hc, e, _, hm⟩ := mem_inKVs.mp h1
        exact ⟨c.name, List.mem_append_left _ (List.mem_map_of_mem hc), fmqMap_owner hm⟩
      · obtain ⟨o, ho, e, _, hm⟩ := (mem_outKVs hr).mp h1
        exact ⟨o.name, List.mem_append_right _ (List.mem_map_of_mem ho), fmqMap_owner hm⟩
    obtain ⟨n, hn, ho⟩ := hown
    cases hk : kv.1 with
    | chan n' f => rw [hk] at ho; cases ho; simpa [ownsKey] using hn
    | sockets n' => rw [hk] at ho; cases ho; simpa [ownsKey] using hn
    | other s => rw [hk] at ho; cases ho

theorem nodup_map_inj {α} {f : α → String} {l : List α} (h : (l.map f).Nodup) {a b : α} (ha : a ∈ l) (hb : b ∈ l)
    (hf : f a = f b) : a = b := by
  induction l with
  | nil => cases ha
  | cons x xs ih =>
    simp only [List.map_cons, List.nodup_cons] at h
    rcases List.mem_cons.mp ha with rfl | ha' <;> rcases List.mem_cons.mp hb with rfl | hb'
    · rfl
    · exact absurd (hf ▸ List.mem_map_of_mem hb') h.1
    · exact absurd (hf ▸ List.mem_map_of_mem ha') h.1
    · exact ih h.2 ha' hb'

/-- With distinct channel names, the block of one channel is the only writer of its keys. -/
theorem genKVs_block {bm : BindMap} {t : Task} {g : PMap} (h : genKVs bm t.loc t.inbound t.outbound = .ok g)
    (hnd : namesDistinct t) {n : String} {m : Misc} {e : Entry}
    (hsrc : (∃ c ∈ t.inbound, c.name = n ∧ c.misc = m ∧ inboundFMQ t.loc c = some e) ∨
            (∃ o ∈ t.outbound, o.name = n ∧ o.misc = m ∧ outboundFMQ bm o = .ok e))
    {k : Key} {v : String} (hkv : (k, v) ∈ fmqMap n m e) (pm : PMap) :
    Assoc.get (setAll pm g) k = some v := by
  unfold genKVs at h
  split at h
  · cases h
  · rename_i r hr
    cases h
    unfold namesDistinct at hnd
    obtain ⟨hndi, hndo, hdisj⟩ := List.nodup_append.mp hnd
    have hown : k.owner = some n := fmqMap_owner hkv
    apply get_setAll_consistent
    · rcases hsrc with ⟨c, hc, rfl, rfl, he⟩ | ⟨o, ho, rfl, rfl, he⟩
      · exact List.mem_append_left _ (mem_inKVs.mpr ⟨c, hc, e, he, hkv⟩)
      · exact List.mem_append_right _ ((mem_outKVs hr).mpr ⟨o, ho, e, he, hkv⟩)
    · intro v' hv'
      -- whoever wrote `k` is a channel called `n`; there is only one
      have hsame : (k, v') ∈ fmqMap n m e := by
        rcases List.mem_append.mp hv' with h1 | h1
        · obtain ⟨d, hd, e', he', hm⟩ := mem_inKVs.mp h1
          have hdn : d.name = n := by
            have := fmqMap_owner hm
            simp only at this
            rw [hown] at this
            exact (Option.some.inj this).symm
          rcases hsrc with ⟨c, hc, hcn, hcm, he⟩ | ⟨o, ho, hon, _, _⟩
          · have : d = c := nodup_map_inj hndi hd hc (by rw [hdn, hcn])
            subst this
            rw [he] at he'; cases he'
            rw [← hcn, ← hcm]; exact hm
          · exact (hdisj d.name (List.mem_map_of_mem hd) o.name (List.mem_map_of_mem ho) (by rw [hdn, hon])).elim
        · obtain ⟨d, hd, e', he', hm⟩ := (mem_outKVs hr).mp h1
          have hdn : d.name = n := by
            have := fmqMap_owner hm
            simp only at this
            rw [hown] at this
            exact (Option.some.inj this).symm
          rcases hsrc with ⟨c, hc, hcn, _, _⟩ | ⟨o, ho, hon, hom, he⟩
          · exact (hdisj c.name (List.mem_map_of_mem hc) d.name (List.mem_map_of_mem hd) (by rw [hdn, hcn])).elim
          · have : d = o := nodup_map_inj hndo hd ho (by rw [hdn, hon])
            subst this
            rw [he] at he'; cases he'
            rw [← hon, ← hom]; exact hm
      exact fmqMap_functional hsame hkv

/-! ## what the map says about a channel, against the channel-level model -/

theorem Method.parse_name (m : Method) : Method.parse? m.name = some m := by cases m <;> rfl

theorem Transport.parse_name (t : Transport) : Transport.parse? t.name = some t := by cases t <;> rfl

/-- `pm` tells every channel that `props` configures exactly that entry. -/
def Rel (pm : PMap) (props : Props) : Prop :=
  ∀ n e, Assoc.get props n = some e → readEntry pm n = some e

theorem get_setAll_fmq_field (pm : PMap) (n : String) (m : Misc) (e : Entry) (f : Field)
    (hf : f ∈ fieldsOf e.method) :
    Assoc.get (setAll pm (fmqMap n m e)) (.chan n f) = some (fieldVal m e f) := by
  apply get_setAll_consistent
  · exact mem_fmqMap.mpr (Or.inr ⟨f, hf, rfl⟩)
  · intro v' hv'
    exact fmqMap_functional hv' (mem_fmqMap.mpr (Or.inr ⟨f, hf, rfl⟩))

theorem readEntry_setAll_fmq_self (pm : PMap) (n : String) (m : Misc) (e : Entry) :
    readEntry (setAll pm (fmqMap n m e)) n = some e := by
  have ha : Field.address ∈ fieldsOf e.method := by cases e.method <;> simp [fieldsOf]
  have hm : Field.method ∈ fieldsOf e.method := by cases e.method <;> simp [fieldsOf]
  have ht : Field.transport ∈ fieldsOf e.method := by cases e.method <;> simp [fieldsOf]
  unfold readEntry
  rw [get_setAll_fmq_field _ _ _ _ _ ha, get_setAll_fmq_field _ _ _ _ _ hm, get_setAll_fmq_field _ _ _ _ _ ht]
  simp [fieldVal, Method.parse_name, Transport.parse_name]

theorem readEntry_setAll_fmq_ne (pm : PMap) (n n' : String) (m : Misc) (e : Entry) (h : n' ≠ n) :
    readEntry (setAll pm (fmqMap n m e)) n' = readEntry pm n' := by
  have hk : ∀ f, Key.chan n' f ∉ (fmqMap n m e).map (·.1) := by
    intro f hin
    obtain ⟨x, hx, hxk⟩ := List.mem_map.mp hin
    have := fmqMap_owner hx
    rw [hxk] at this
    exact h (Option.some.inj this)
  unfold readEntry
  rw [get_setAll_not_mem _ _ _ (hk _), get_setAll_not_mem _ _ _ (hk _), get_setAll_not_mem _ _ _ (hk _)]

theorem Rel_step {pm : PMap} {props : Props} (h : Rel pm props) (n : String) (m : Misc) (e : Entry) :
    Rel (setAll pm (fmqMap n m e)) (Assoc.set props n e) := by
  intro n' e' hg
  rw [get_set] at hg
  by_cases hn : n = n'
  · subst hn
    simp only [if_true] at hg
    cases hg
    exact readEntry_setAll_fmq_self _ _ _ _
  · simp only [hn, if_false] at hg
    rw [readEntry_setAll_fmq_ne _ _ _ _ _ (fun e => hn e.symm)]
    exact h n' e' hg

theorem addIn_rel (loc : BindMap) {pm : PMap} {props : Props} (h : Rel pm props) (cs : List Inbound) :
    Rel (addInP loc pm cs) (addIn loc props cs) := by
  induction cs generalizing pm props with
  | nil => exact h
  | cons c cs ih =>
    unfold addInP addIn
    split
    · exact ih (Rel_step h _ _ _)
    · exact ih h

/-- Same outcome at both levels: both fail with the same error, or both succeed and are related. -/
def RelE : Except Err PMap → Except Err Props → Prop
  | .ok a, .ok b => Rel a b
  | .error e, .error e' => e = e'
  | _, _ => False

theorem addOut_rel (bm : BindMap) {pm : PMap} {props : Props} (h : Rel pm props) (os : List Outbound) :
    RelE (addOutP bm pm os) (addOut bm props os) := by
  induction os generalizing pm props with
  | nil => exact h
  | cons o os ih =>
    unfold addOutP addOut
    split
    · rfl
    · exact ih (Rel_step h _ _ _)

/-- In the code as it is (generated keys written last) the property map of a task tells each of
    its channels what the channel-level model says. -/
theorem buildPMap_rel (cfg : Cfg) (hc : cfg.generatedLast = true) (bm : BindMap) (t : Task) :
    RelE (buildPMap cfg bm t) (taskProps bm t) := by
  unfold buildPMap taskProps
  simp only [hc, if_true]
  have h0 : Rel (setAll baseProps t.props) [] := by
    intro n e hg; simp [Assoc.get] at hg
  have := addOut_rel bm (addIn_rel t.loc h0 t.inbound) t.outbound
  revert this
  cases addOutP bm (addInP t.loc (setAll baseProps t.props) t.inbound) t.outbound <;>
    cases addOut bm (addIn t.loc [] t.inbound) t.outbound <;> exact id

/-- Pointwise relation of two result lists. -/
def RelL : List PMap → List Props → Prop
  | [], [] => True
  | a :: as, b :: bs => Rel a b ∧ RelL as bs
  | _, _ => False

def RelLE : Except Err (List PMap) → Except Err (List Props) → Prop
  | .ok a, .ok b => RelL a b
  | .error e, .error e' => e = e'
  | _, _ => False

theorem mapE_rel {f : Task → Except Err PMap} {g : Task → Except Err Props} (xs : List Task)
    (h : ∀ x, RelE (f x) (g x)) : RelLE (mapE f xs) (mapE g xs) := by
  induction xs with
  | nil => trivial
  | cons x xs ih =>
    unfold mapE
    have hx := h x
    revert hx
    cases f x <;> cases g x <;> intro hx
    · exact hx
    · exact hx.elim
    · exact hx.elim
    · simp only
      revert ih
      cases mapE f xs <;> cases mapE g xs <;> intro ih
      · exact ih
      · exact ih.elim
      · exact ih.elim
      · exact ⟨hx, ih⟩

theorem configureP_rel (cfg : Cfg) (hc : cfg.generatedLast = true) (tasks : List Task) :
    RelLE (configurePWith cfg tasks) (configureWith cfg tasks) := by
  unfold configurePWith configureWith
  split
  · rfl
  · unfold wireP wire
    cases build [] (claims tasks) with
    | error e => rfl
    | ok bm => exact mapE_rel tasks (buildPMap_rel cfg hc bm)

theorem RelL_length {a : List PMap} {b : List Props} (h : RelL a b) : a.length = b.length := by
  induction a generalizing b with
  | nil => cases b <;> first | rfl | exact h.elim
  | cons x xs ih =>
    cases b with
    | nil => exact h.elim
    | cons y ys => simp [ih h.2]

theorem wireP_ok {cfg : Cfg} {tasks : List Task} {pms : List PMap} (h : configurePWith cfg tasks = .ok pms) :
    ∃ bm, build [] (claims tasks) = .ok bm ∧ mapE (buildPMap cfg bm) tasks = .ok pms := by
  unfold configurePWith at h
  split at h
  · cases h
  · unfold wireP at h
    split at h
    · cases h
    · rename_i bm hb
      exact ⟨bm, hb, h⟩

/-- The launch gives every inbound channel an endpoint, so `Inbound.ToFMQMap` succeeds unless the
    channel's target is neither empty nor explicit. -/
theorem inboundFMQ_of_configurable {t : Task} (hl : launchOk t = true) {c : Inbound} (hc : c ∈ t.inbound)
    (hcf : configurable c = true) : ∃ e, inboundFMQ t.loc c = some e := by
  simp only [launchOk, Bool.and_eq_true, List.all_eq_true] at hl
  have h1 := hl.1.1.1 c hc
  by_cases hex : explicit c.target = true
  · exact ⟨_, by unfold inboundFMQ; simp [hex]; rfl⟩
  · have hex' : explicit c.target = false := by simpa using hex
    have hemp : c.target.isEmpty = true := by
      simpa [configurable, hex'] using hcf
    split at h1
    · rename_i e he
      exact ⟨⟨.bind, e.toBound.address, e.transport⟩, by unfold inboundFMQ; simp [hex', hemp, he]⟩
    · cases h1

theorem fieldVal_misc (m : Misc) (e : Entry) (f : Field) (hf1 : f ≠ .address) (hf2 : f ≠ .transport) :
    fieldVal m e f = fieldVal m ⟨e.method, "", .default⟩ f := by
  cases f <;> first | rfl | exact absurd rfl hf1 | exact absurd rfl hf2

/-! ## the Spec is monotone in the channel entries -/

theorem view_get (t : Task) (pm : PMap) (n : String) :
    Assoc.get (view t pm) n = if n ∈ chanNames t then readEntry pm n else none := by
  unfold view
  induction chanNames t with
  | nil => simp [Assoc.get]
  | cons x xs ih =>
    simp only [List.filterMap_cons]
    by_cases hx : x = n
    · subst hx
      cases hr : readEntry pm x with
      | none =>
        simp only [Option.map_none, List.mem_cons, true_or, if_true]
        rw [ih]
        split
        · exact hr
        · rfl
      | some e => simp [Assoc.get]
    · cases hr : readEntry pm x with
      | none =>
        simp only [Option.map_none, List.mem_cons]
        rw [ih]
        have hnx : ¬ n = x := fun e => hx e.symm
        simp only [hnx, false_or]
      | some e =>
        simp only [Option.map_some, Assoc.get, beq_iff_eq, hx, if_false, List.mem_cons]
        rw [ih]
        have hnx : ¬ n = x := fun e => hx e.symm
        simp only [hnx, false_or]

/-- `v` has every entry `props` has, for the channels of `t`. -/
def Sub (t : Task) (props v : Props) : Prop :=
  ∀ n ∈ chanNames t, ∀ e, Assoc.get props n = some e → Assoc.get v n = some e

theorem Rel_sub (t : Task) {pm : PMap} {props : Props} (h : Rel pm props) : Sub t props (view t pm) := by
  intro n hn e hg
  rw [view_get, if_pos hn]
  exact h n e hg

theorem zip_corr {tasks : List Task} {pms : List PMap} {res : List Props} (h : RelL pms res) :
    (∀ p' ∈ tasks.zip (viewAll tasks pms), ∃ p ∈ tasks.zip res, p.1 = p'.1 ∧ Sub p.1 p.2 p'.2) ∧
    (∀ p ∈ tasks.zip res, ∃ p' ∈ tasks.zip (viewAll tasks pms), p'.1 = p.1 ∧ Sub p.1 p.2 p'.2) := by
  induction tasks generalizing pms res with
  | nil => simp
  | cons t ts ih =>
    cases pms with
    | nil => cases res with
      | nil => simp [viewAll]
      | cons y ys => exact h.elim
    | cons x xs =>
      cases res with
      | nil => exact h.elim
      | cons y ys =>
        obtain ⟨hxy, hrest⟩ := h
        obtain ⟨ih1, ih2⟩ := ih (pms := xs) (res := ys) hrest
        have hv : viewAll (t :: ts) (x :: xs) = view t x :: viewAll ts xs := rfl
        rw [hv]
        simp only [List.zip_cons_cons, List.mem_cons]
        constructor
        · rintro p' (rfl | hp')
          · exact ⟨(t, y), Or.inl rfl, rfl, Rel_sub t hxy⟩
          · obtain ⟨p, hp, h1, h2⟩ := ih1 p' hp'
            exact ⟨p, Or.inr hp, h1, h2⟩
        · rintro p (rfl | hp)
          · exact ⟨(t, view t x), Or.inl rfl, rfl, Rel_sub t hxy⟩
          · obtain ⟨p', hp', h1, h2⟩ := ih2 p hp
            exact ⟨p', Or.inr hp', h1, h2⟩

theorem mem_chanNames_in {t : Task} {c : Inbound} (h : c ∈ t.inbound) : c.name ∈ chanNames t :=
  List.mem_append_left _ (List.mem_map_of_mem h)

theorem mem_chanNames_out {t : Task} {o : Outbound} (h : o ∈ t.outbound) : o.name ∈ chanNames t :=
  List.mem_append_right _ (List.mem_map_of_mem h)

theorem matchedVia_mono {w : Bool} {t tq : Task} {pp pq vp vq : Props} {o : Outbound} {kv : String × Endpoint}
    (ho : o ∈ t.outbound) (hp : Sub t pp vp) (hq : Sub tq pq vq)
    (h : matchedVia w (t, pp) (tq, pq) o kv) : matchedVia w (t, vp) (tq, vq) o kv := by
  obtain ⟨h1, h2, c, hc, h3, h4, h5, h6⟩ := h
  exact ⟨h1, hp _ (mem_chanNames_out ho) _ h2, c, hc, h3, h4, h5,
    fun hw => hq _ (mem_chanNames_in hc) _ (h6 hw)⟩

theorem Matched_mono {w : Bool} {tasks : List Task} {pms : List PMap} {res : List Props} (h : RelL pms res)
    (hm : Matched w tasks res) : Matched w tasks (viewAll tasks pms) := by
  obtain ⟨c1, c2⟩ := zip_corr (tasks := tasks) h
  intro p' hp' o ho hne
  obtain ⟨p, hp, hp1, hps⟩ := c1 p' hp'
  obtain ⟨q, hq, kv, hkv, hvia⟩ := hm p hp o (hp1 ▸ ho) hne
  obtain ⟨q', hq', hq1, hqs⟩ := c2 q hq
  refine ⟨q', hq', kv, hq1 ▸ hkv, ?_⟩
  obtain ⟨t, pp⟩ := p
  obtain ⟨t', vp⟩ := p'
  obtain ⟨tq, pq⟩ := q
  obtain ⟨tq', vq⟩ := q'
  simp only at hp1 hq1
  subst hp1 hq1
  exact matchedVia_mono ho hps hqs hvia

theorem Passthrough_mono {tasks : List Task} {pms : List PMap} {res : List Props} (h : RelL pms res)
    (hm : Passthrough tasks res) : Passthrough tasks (viewAll tasks pms) := by
  obtain ⟨c1, _⟩ := zip_corr (tasks := tasks) h
  intro p' hp'
  obtain ⟨p, hp, hp1, hps⟩ := c1 p' hp'
  obtain ⟨ho, hi⟩ := hm p hp
  obtain ⟨t, pp⟩ := p
  obtain ⟨t', vp⟩ := p'
  simp only at hp1
  subst hp1
  exact ⟨fun o hoo hex => hps _ (mem_chanNames_out hoo) _ (ho o hoo hex),
         fun c hcc hex => hps _ (mem_chanNames_in hcc) _ (hi c hcc hex)⟩

theorem viewAll_length {tasks : List Task} {pms : List PMap} (h : pms.length = tasks.length) :
    (viewAll tasks pms).length = tasks.length := by
  simp [viewAll, h]

/-- The Spec of the channel entries carries over to the maps that contain them. -/
theorem SpecW_mono {a b : Bool} {tasks : List Task} {pms : List PMap} {res : List Props} (h : RelL pms res)
    (hs : SpecW a b tasks (.ok res)) : SpecW a b tasks (.ok (viewAll tasks pms)) := by
  obtain ⟨hl, hm, hp, hu, hc⟩ := hs
  exact ⟨viewAll_length ((RelL_length h).trans hl), Matched_mono h hm, Passthrough_mono h hp, hu, hc⟩

end Channels
