/-
  Proofs/CmdHandover — the queue layer (Model/CmdHandover) on top of the
  servent / commit layer: the hand-over of an answer is a rendezvous that waits
  for the caller, and a queue works on one command at a time.
  Core Lean only.
-/
import ControlModel.Proofs.CmdQueue

set_option linter.unusedSimpArgs false
set_option linter.unusedVariables false

namespace CmdQueue

/-! ## bookkeeping of `started` in the base layer -/

/-- * `A`: a caller that has left `idle` belongs to a dequeued command;
    * `C`: a completed command was dequeued;
    * `L`: only commands of the configuration are dequeued. -/
structure StartedInv (cmds : List Cmd) (s : State) : Prop where
  A : ∀ i : Ref, (s.call i).pc ≠ .idle → s.started i.1 = true
  C : ∀ c, s.completed c = true → s.started c = true
  L : ∀ c, s.started c = true → c < cmds.length

theorem startedInv_init (cmds : List Cmd) : StartedInv cmds init := by
  refine ⟨?_, ?_, ?_⟩ <;> intros <;> simp_all [init]

theorem startedInv_step {cmds : List Cmd} {s : State} (k : StartedInv cmds s) (st : Step) :
    StartedInv cmds (step cmds s st) := by
  obtain ⟨A, C, L⟩ := k
  cases st <;> simp only [step] <;> (repeat' split) <;>
    (refine ⟨?_, ?_, ?_⟩ <;> intros <;> (try simp only [finish, upd] at *) <;> grind)

/-- Only `start` touches `started`. -/
theorem started_other {cmds : List Cmd} (s : State) (st : Step) (h : ∀ c, st ≠ .start c) :
    (step cmds s st).started = s.started := by
  cases st <;> simp only [step] <;> (repeat' split) <;> (try simp only [finish]) <;> first | rfl | (exact absurd rfl (h _))

theorem started_start {cmds : List Cmd} (s : State) (c x : Nat) :
    (step cmds s (.start c)).started x = true → s.started x = true ∨ (x = c ∧ s.started c = false) := by
  simp only [step]
  split
  · simp only [upd]; split <;> grind
  · exact fun h => .inl h

theorem mem_callbacks_step {cmds : List Cmd} (s : State) (st : Step) {e : Nat × Result}
    (h : e ∈ s.callbacks) : e ∈ (step cmds s st).callbacks := by
  obtain ⟨extra, he⟩ := callbacks_step (cmds := cmds) s st
  rw [he]; exact List.mem_append_left _ h

/-- Every target of the command has an entry in a well-shaped result. -/
theorem shapeOk_entry {cmd : Cmd} {res : Result} (h : shapeOk cmd res = true) {t : Nat} (ht : t ∈ cmd.targets) :
    ∃ e, entryOf cmd res t = some e := by
  cases res with
  | nil =>
    simp only [shapeOk, List.isEmpty_iff] at h
    rw [h] at ht; cases ht
  | single v =>
    simp only [shapeOk] at h
    split at h
    · rename_i t' ht'
      rw [ht'] at ht
      have : t = t' := by simpa using ht
      subst this
      exact ⟨v, by simp [entryOf, ht']⟩
    · cases h
  | multi id m =>
    simp only [shapeOk, Bool.and_eq_true, List.all_eq_true] at h
    have := h.2 t ht
    cases hm : mget m t with
    | none => simp [hm] at this
    | some v => exact ⟨v, by simp [entryOf, hm]⟩

/-- A command whose answer exists has no caller left between register and return. -/
theorem no_caller_left {cmds : List Cmd} (h : wfCfg cmds = true) {s : State} (inv : Inv cmds s) (inv2 : Inv2 cmds s)
    {c : Nat} {res : Result} (hcb : (c, res) ∈ s.callbacks) (p : Nat) :
    (s.call (c, p)).pc ≠ .registered ∧ (s.call (c, p)).pc ≠ .waiting := by
  obtain ⟨_, cmd, hc, hshape, hent⟩ := inv2.CB c res hcb
  cases hk : keyOf? cmds (c, p) with
  | none => rw [inv.V _ hk]; exact ⟨(by intro e; cases e), (by intro e; cases e)⟩
  | some k =>
    obtain ⟨cmd', hc', ht, _⟩ := keyOf_some hk
    have : cmd' = cmd := by simp only at hc'; rw [hc] at hc'; exact (Option.some.inj hc').symm
    subst this
    simp only at ht
    obtain ⟨e, he⟩ := shapeOk_entry hshape (List.mem_of_getElem? ht)
    obtain ⟨o, ho, _⟩ := hent _ e he
    obtain ⟨cmd'', p', e1, e2, e3⟩ := inv2.S1 c _ o ho
    have : cmd'' = cmd' := by rw [hc] at e1; exact (Option.some.inj e1).symm
    subst this
    have hp : p = p' := distinctTargets_inj _ p p' _ (wf_targets h hc) ht e2
    subst hp
    rw [e3]; exact ⟨(by intro e; cases e), (by intro e; cases e)⟩

/-! ## the queue layer -/

theorem qstep_base_other {cmds : List Cmd} {qof : Nat → Nat} (s : QState) (b : Step) (h : ∀ c, b ≠ .start c) :
    qstep cmds qof s (.base b) = { s with base := step cmds s.base b } := by
  cases b <;> first | rfl | exact absurd rfl (h _)

/-- What a base step of the queue layer is: nothing (a `start` while the consumer is
    occupied) or the base layer's step; the caller side is untouched. -/
theorem qstep_base {cmds : List Cmd} {qof : Nat → Nat} (s : QState) (b : Step) :
    qstep cmds qof s (.base b) = s ∨ qstep cmds qof s (.base b) = { s with base := step cmds s.base b } := by
  cases b with
  | start c => simp only [qstep]; split <;> simp
  | _ => exact .inr rfl

theorem qstep_base_caller {cmds : List Cmd} {qof : Nat → Nat} (s : QState) (b : Step) :
    (qstep cmds qof s (.base b)).listening = s.listening ∧ (qstep cmds qof s (.base b)).taken = s.taken ∧
      (qstep cmds qof s (.base b)).received = s.received := by
  rcases qstep_base (cmds := cmds) (qof := qof) s b with h | h <;> rw [h] <;> simp

/-- Reachable states of the queue layer. -/
structure QInv (cmds : List Cmd) (qof : Nat → Nat) (s : QState) : Prop where
  I1 : Inv cmds s.base
  I2 : Inv2 cmds s.base
  K : StartedInv cmds s.base
  TL : ∀ c, s.taken c = true → s.listening c = true
  TR : ∀ c, s.taken c = true → ∃ res, (c, res) ∈ s.received
  RC : ∀ c res, (c, res) ∈ s.received → s.taken c = true ∧ (c, res) ∈ s.base.callbacks
  RN : (s.received.map (·.1)).Nodup
  MX : ∀ c c', c ≠ c' → qof c = qof c' → s.base.started c = true → s.taken c = false →
        s.base.started c' = true → s.taken c' = true

theorem qinv_init (cmds : List Cmd) (qof : Nat → Nat) : QInv cmds qof qinit := by
  refine ⟨inv_init cmds, inv2_init cmds, startedInv_init cmds, ?_, ?_, ?_, ?_, ?_⟩ <;> intros <;>
    simp_all [qinit, init]

theorem holds_false {qof : Nat → Nat} {n : Nat} {s : QState} {c : Nat} (h : ¬ holds qof n s c = true)
    {c' : Nat} (hlt : c' < n) (hne : c' ≠ c) (hq : qof c' = qof c) (hst : s.base.started c' = true) :
    s.taken c' = true := by
  cases ht : s.taken c' with
  | true => rfl
  | false =>
    exfalso; apply h
    simp only [holds, List.any_eq_true, List.mem_range]
    exact ⟨c', hlt, by simp [hne, hq, hst, ht]⟩

theorem offered_mem {s : QState} {c : Nat} {res : Result} (h : offered s c = some res) :
    (c, res) ∈ s.base.callbacks := by
  simp only [offered, Option.map_eq_some_iff] at h
  obtain ⟨⟨c', r⟩, hf, hr⟩ := h
  have h1 := List.mem_of_find?_eq_some hf
  have h2 := List.find?_some hf
  simp only at hr h2
  have : c' = c := by simpa using h2
  subst this; subst hr; exact h1

theorem qinv_step {cmds : List Cmd} (h : wfCfg cmds = true) {qof : Nat → Nat} {s : QState}
    (inv : QInv cmds qof s) (st : QStep) : QInv cmds qof (qstep cmds qof s st) := by
  obtain ⟨I1, I2, K, TL, TR, RC, RN, MX⟩ := inv
  cases st with
  | base b =>
    by_cases hb : ∃ c, b = .start c
    · obtain ⟨c, rfl⟩ := hb
      simp only [qstep]
      split
      · exact ⟨I1, I2, K, TL, TR, RC, RN, MX⟩
      · rename_i hh
        refine ⟨inv_step h I1 (.start c), inv2_step h I1 I2 (.start c), startedInv_step K (.start c), TL, TR, ?_, RN, ?_⟩
        · intro x res hm
          exact ⟨(RC x res hm).1, mem_callbacks_step _ _ (RC x res hm).2⟩
        · intro a b hab hq ha hta hb'
          simp only at ha hb' hta ⊢
          rcases started_start s.base c a ha with ha0 | ⟨rfl, hnew⟩
          · rcases started_start s.base c b hb' with hb0 | ⟨rfl, hnew⟩
            · exact MX a b hab hq ha0 hta hb0
            · -- `b` is the newly dequeued command: `a` must have been served
              have := holds_false hh (K.L a ha0) hab hq ha0
              rw [this] at hta; cases hta
          · rcases started_start s.base a b hb' with hb0 | ⟨rfl, _⟩
            · exact holds_false hh (K.L b hb0) (Ne.symm hab) hq.symm hb0
            · exact absurd rfl hab
    · have hb' : ∀ c, b ≠ .start c := fun c e => hb ⟨c, e⟩
      rw [qstep_base_other s b hb']
      refine ⟨inv_step h I1 b, inv2_step h I1 I2 b, startedInv_step K b, TL, TR, ?_, RN, ?_⟩
      · intro x res hm
        exact ⟨(RC x res hm).1, mem_callbacks_step _ _ (RC x res hm).2⟩
      · simp only [started_other s.base b hb']; exact MX
  | listen c =>
    simp only [qstep]
    refine ⟨I1, I2, K, ?_, TR, RC, RN, MX⟩
    intro x hx
    simp only [upd]; split
    · rfl
    · exact TL x hx
  | take c =>
    simp only [qstep]
    split
    · rename_i hen
      split
      · rename_i res hoff
        have hmem := offered_mem hoff
        refine ⟨I1, I2, K, ?_, ?_, ?_, ?_, ?_⟩
        · intro x hx
          simp only [upd] at hx
          split at hx
          · rename_i e; subst e; exact hen.1
          · exact TL x hx
        · intro x hx
          simp only [upd] at hx
          split at hx
          · rename_i e; subst e; exact ⟨res, List.mem_append_right _ (List.mem_singleton.mpr rfl)⟩
          · obtain ⟨r, hr⟩ := TR x hx; exact ⟨r, List.mem_append_left _ hr⟩
        · intro x r hm
          simp only [List.mem_append, List.mem_singleton] at hm
          rcases hm with hm | hm
          · refine ⟨?_, (RC x r hm).2⟩
            simp only [upd]; split
            · rfl
            · exact (RC x r hm).1
          · cases hm; exact ⟨by simp [upd], hmem⟩
        · simp only [List.map_append, List.map_cons, List.map_nil]
          rw [List.nodup_append]
          refine ⟨RN, by simp, ?_⟩
          intro a ha b hb
          simp only [List.mem_singleton] at hb
          subst hb
          intro e; subst e
          simp only [List.mem_map] at ha
          obtain ⟨⟨x, r⟩, hm, hx⟩ := ha
          simp only at hx; subst hx
          have := (RC _ r hm).1
          rw [hen.2] at this; cases this
        · intro a b hab hq ha hta hb
          simp only [upd] at hta ⊢
          split at hta
          · cases hta
          · split
            · rfl
            · exact MX a b hab hq ha hta hb
      · exact ⟨I1, I2, K, TL, TR, RC, RN, MX⟩
    · exact ⟨I1, I2, K, TL, TR, RC, RN, MX⟩
  | probe c => exact ⟨I1, I2, K, TL, TR, RC, RN, MX⟩

theorem qinv_run {cmds : List Cmd} (h : wfCfg cmds = true) {qof : Nat → Nat} : ∀ (sched : List QStep) (s : QState),
    QInv cmds qof s → QInv cmds qof (qrun cmds qof s sched) := by
  intro sched
  induction sched with
  | nil => intro s a; exact a
  | cons st rest ih => intro s a; exact ih _ (qinv_step h a st)

theorem qrun_append (cmds : List Cmd) (qof : Nat → Nat) : ∀ (a b : List QStep) (s : QState),
    qrun cmds qof s (a ++ b) = qrun cmds qof (qrun cmds qof s a) b := by
  intro a
  induction a with
  | nil => intro b s; rfl
  | cons st rest ih => intro b s; simp only [List.cons_append, qrun]; exact ih b _

/-- Every state of the queue layer projects to a state of the base layer that is
    reachable there: the queue discipline only REMOVES behaviours. -/
theorem base_reachable (cmds : List Cmd) (qof : Nat → Nat) : ∀ (sched : List QStep) (s : QState),
    ∃ bs, (qrun cmds qof s sched).base = run cmds s.base bs := by
  intro sched
  induction sched with
  | nil => intro s; exact ⟨[], rfl⟩
  | cons st rest ih =>
    intro s
    obtain ⟨bs, hbs⟩ := ih (qstep cmds qof s st)
    simp only [qrun]
    have hcase : (qstep cmds qof s st).base = s.base ∨ ∃ b, (qstep cmds qof s st).base = step cmds s.base b := by
      cases st with
      | base b =>
        rcases qstep_base (cmds := cmds) (qof := qof) s b with h | h
        · exact .inl (by rw [h])
        · exact .inr ⟨b, by rw [h]⟩
      | listen c => exact .inl rfl
      | take c =>
        left; simp only [qstep]; split
        · split <;> rfl
        · rfl
      | probe c => exact .inl rfl
    rcases hcase with h | ⟨b, h⟩
    · exact ⟨bs, by rw [hbs, h]⟩
    · exact ⟨b :: bs, by rw [hbs, h]; rfl⟩

/-! ## an answer on offer stays on offer until its caller takes it -/

theorem offered_of_mem {l : List (Nat × Result)} (hnd : (l.map (·.1)).Nodup) {c : Nat} {res : Result}
    (hm : (c, res) ∈ l) : (l.find? (fun e => e.1 == c)).map (·.2) = some res := by
  induction l with
  | nil => cases hm
  | cons x rest ih =>
    simp only [List.map_cons, List.nodup_cons] at hnd
    rcases List.mem_cons.mp hm with e | hm'
    · subst e; simp [List.find?_cons]
    · have hne : x.1 ≠ c := by
        intro e
        apply hnd.1
        rw [e]
        exact List.mem_map.mpr ⟨(c, res), hm', rfl⟩
      have hb : (x.1 == c) = false := by simp [hne]
      simp only [List.find?_cons, hb]
      exact ih hnd.2 hm'

theorem offered_step {cmds : List Cmd} {qof : Nat → Nat} (s : QState) (st : QStep) {c : Nat} {res : Result}
    (h : offered s c = some res) : offered (qstep cmds qof s st) c = some res := by
  have key : ∀ b, offered ({ s with base := step cmds s.base b } : QState) c = some res := by
    intro b
    obtain ⟨extra, he⟩ := callbacks_step (cmds := cmds) s.base b
    simp only [offered, he, List.find?_append] at h ⊢
    cases hf : s.base.callbacks.find? (fun e => e.1 == c) with
    | none => simp [hf] at h
    | some x => simpa [hf] using h
  cases st with
  | base b =>
    rcases qstep_base (cmds := cmds) (qof := qof) s b with e | e <;> rw [e]
    · exact h
    · exact key b
  | listen c' => exact h
  | take c' =>
    simp only [qstep]; split
    · split <;> exact h
    · exact h
  | probe c' => exact h

theorem taken_step {cmds : List Cmd} {qof : Nat → Nat} (s : QState) (st : QStep) {c : Nat} (hne : st ≠ .take c) :
    (qstep cmds qof s st).taken c = s.taken c := by
  cases st with
  | base b => rw [(qstep_base_caller s b).2.1]
  | listen c' => rfl
  | take c' =>
    have : c ≠ c' := fun e => hne (by rw [e])
    simp only [qstep]; split
    · split
      · simp [upd, this]
      · rfl
    · rfl
  | probe c' => rfl

/-- The rendezvous, when it is enabled. -/
theorem take_enabled {cmds : List Cmd} {qof : Nat → Nat} {s : QState} {c : Nat} {res : Result}
    (hl : s.listening c = true) (ht : s.taken c = false) (ho : offered s c = some res) :
    qstep cmds qof s (.take c) =
      { s with taken := upd s.taken c true, received := s.received ++ [(c, res)] } := by
  simp only [qstep, if_pos (And.intro hl ht), ho]

theorem offered_waits {cmds : List Cmd} {qof : Nat → Nat} {c : Nat} {res : Result} : ∀ (later : List QStep) (s : QState),
    offered s c = some res → s.taken c = false → QStep.take c ∉ later →
    offered (qrun cmds qof s later) c = some res ∧ (qrun cmds qof s later).taken c = false := by
  intro later
  induction later with
  | nil => intro s h1 h2 _; exact ⟨h1, h2⟩
  | cons st rest ih =>
    intro s h1 h2 hn
    simp only [qrun]
    have hne : st ≠ .take c := fun e => hn (by rw [e]; exact List.mem_cons_self)
    exact ih _ (offered_step s st h1) (by rw [taken_step s st hne]; exact h2)
      (fun hm => hn (List.mem_cons_of_mem _ hm))

/-! ## what an observer of a model execution records satisfies `handoverOk` -/

/-- The record so far and the state agree. -/
structure TraceInv (before : List Ev) (s : QState) : Prop where
  LA : ∀ c, s.listening c = true → before.any (isListen c) = true
  DQ : ∀ c, before.any (dequeues c) = true → s.base.started c = true
  DN : ∀ c, s.taken c = true → before.any (isDone c) = true

theorem traceInv_init : TraceInv [] qinit := by
  refine ⟨?_, ?_, ?_⟩ <;> intros <;> simp_all [qinit]

theorem started_qstep {cmds : List Cmd} {qof : Nat → Nat} (s : QState) (st : QStep) (c : Nat)
    (h : s.base.started c = true) : (qstep cmds qof s st).base.started c = true := by
  cases st with
  | base b =>
    rcases qstep_base (cmds := cmds) (qof := qof) s b with e | e <;> rw [e]
    · exact h
    · exact started_step _ _ _ h
  | listen c' => exact h
  | take c' =>
    simp only [qstep]; split
    · split <;> exact h
    · exact h
  | probe c' => exact h

/-- A send event of the model is a send of that caller's command. -/
theorem sendView_cmd {cmds : List Cmd} {i : Ref} {ok : Bool} {e : Ev} (h : sendView cmds i ok = some e) :
    ∃ t tmo arg, e = .send i.1 t ok tmo arg := by
  simp only [sendView, Option.map_eq_some_iff] at h
  obtain ⟨x, _, hx⟩ := h
  exact ⟨_, _, _, hx.symm⟩

/-- While a dequeued command waits for its caller, no caller of another command of
    the same queue is at its send. -/
theorem send_waits {cmds : List Cmd} (h : wfCfg cmds = true) {qs : List Nat} {s : QState}
    (inv : QInv cmds (queueOf qs) s) {before : List Ev} (tr : TraceInv before s) (late : List Nat)
    {i : Ref} (hreg : (s.base.call i).pc = .registered) (t : Nat) (ok : Bool) (tmo arg : Nat) :
    handoverStep qs late before (.send i.1 t ok tmo arg) = true := by
  simp only [handoverStep, List.all_eq_true, List.mem_range, Bool.or_eq_true, Bool.not_eq_true', bne_iff_ne, ne_eq,
    beq_iff_eq]
  intro c _
  by_cases h1 : c = i.1
  · exact .inl (.inl (.inl (.inl h1)))
  by_cases h2 : queueOf qs c = queueOf qs i.1
  · by_cases h3 : before.any (isListen c) = true
    · exact .inl (.inr h3)
    · by_cases h4 : before.any (dequeues c) = true
      · exfalso
        have hst : s.base.started c = true := tr.DQ c h4
        have hnl : s.listening c = false := by
          cases hl : s.listening c with
          | false => rfl
          | true => exact absurd (tr.LA c hl) h3
        have hnt : s.taken c = false := by
          cases ht : s.taken c with
          | false => rfl
          | true => rw [inv.TL c ht] at hnl; cases hnl
        have hst' : s.base.started i.1 = true := inv.K.A i (by rw [hreg]; intro e; cases e)
        have htk : s.taken i.1 = true := inv.MX c i.1 h1 h2 hst hnt hst'
        obtain ⟨res, hres⟩ := inv.TR _ htk
        have hcb := (inv.RC _ res hres).2
        exact (no_caller_left h inv.I1 inv.I2 hcb i.2).1 hreg
      · exact .inr (by simpa using h4)
  · exact .inl (.inl (.inl (.inr h2)))

theorem trace_step {cmds : List Cmd} (h : wfCfg cmds = true) {qs : List Nat} {s : QState}
    (inv : QInv cmds (queueOf qs) s) {before : List Ev} (tr : TraceInv before s) (late : List Nat) (st : QStep) :
    match emitQ cmds s st with
    | none => TraceInv before (qstep cmds (queueOf qs) s st)
    | some e => handoverStep qs late before e = true ∧ TraceInv (before ++ [e]) (qstep cmds (queueOf qs) s st) := by
  -- a step that leaves the caller side alone and records nothing, or something that is neither listen nor done
  have quiet : ∀ (s' : QState), s'.listening = s.listening → s'.taken = s.taken →
      (∀ c, s.base.started c = true → s'.base.started c = true) → TraceInv before s' := by
    intro s' hl ht hs
    exact ⟨fun c hc => tr.LA c (by rw [← hl]; exact hc), fun c hc => hs c (tr.DQ c hc),
      fun c hc => tr.DN c (by rw [← ht]; exact hc)⟩
  cases st with
  | base b =>
    have hcaller := qstep_base_caller (cmds := cmds) (qof := queueOf qs) s b
    have hquiet := quiet _ hcaller.1 hcaller.2.1 (fun c hc => started_qstep s (.base b) c hc)
    have sendCase : ∀ (i : Ref) (ok : Bool), (s.base.call i).pc = .registered →
        match sendView cmds i ok with
        | none => TraceInv before (qstep cmds (queueOf qs) s (.base b))
        | some e => handoverStep qs late before e = true ∧
            TraceInv (before ++ [e]) (qstep cmds (queueOf qs) s (.base b)) := by
      intro i ok hreg
      cases hv : sendView cmds i ok with
      | none => exact hquiet
      | some e =>
        obtain ⟨t, tmo, arg, rfl⟩ := sendView_cmd hv
        refine ⟨send_waits h inv tr late hreg t ok tmo arg, ?_, ?_, ?_⟩
        · intro c hc
          rw [List.any_append, hquiet.LA c hc]; rfl
        · intro c hc
          simp only [List.any_append, List.any_cons, List.any_nil, Bool.or_false, Bool.or_eq_true, dequeues,
            beq_iff_eq] at hc
          rcases hc with hc | hc
          · exact hquiet.DQ c hc
          · subst hc
            exact started_qstep s (.base b) _ (inv.K.A i (by rw [hreg]; intro e; cases e))
        · intro c hc
          rw [List.any_append, hquiet.DN c hc]; rfl
    cases b with
    | sendOk i =>
      by_cases hreg : (s.base.call i).pc = .registered
      · simpa only [emitQ, emitSend, if_pos hreg] using sendCase i true hreg
      · simp only [emitQ, emitSend, if_neg hreg]; exact hquiet
    | sendFail i =>
      by_cases hreg : (s.base.call i).pc = .registered
      · simpa only [emitQ, emitSend, if_pos hreg] using sendCase i false hreg
      · simp only [emitQ, emitSend, if_neg hreg]; exact hquiet
    | _ => exact hquiet
  | listen c =>
    simp only [emitQ, qstep]
    refine ⟨by simp [handoverStep], ?_, ?_, ?_⟩
    · intro x hx
      simp only [upd] at hx
      rw [List.any_append]
      split at hx
      · rename_i e; subst e; simp [isListen]
      · rw [tr.LA x hx]; rfl
    · intro x hx
      simp only [List.any_append, List.any_cons, List.any_nil, dequeues, Bool.or_false] at hx
      exact tr.DQ x hx
    · intro x hx
      rw [List.any_append, tr.DN x hx]; rfl
  | take c =>
    by_cases hen : s.listening c = true ∧ s.taken c = false
    · cases hoff : offered s c with
      | none => simp only [emitQ, qstep, if_pos hen, hoff, Option.map_none]; exact tr
      | some res =>
        simp only [emitQ, qstep, if_pos hen, hoff, Option.map_some]
        refine ⟨?_, ?_, ?_, ?_⟩
        · simp only [handoverStep, Bool.or_eq_true]
          exact .inr (tr.LA c hen.1)
        · intro x hx
          rw [List.any_append, tr.LA x hx]; rfl
        · intro x hx
          simp only [List.any_append, List.any_cons, List.any_nil, dequeues, Bool.or_false] at hx
          exact tr.DQ x hx
        · intro x hx
          simp only [upd] at hx
          rw [List.any_append]
          split at hx
          · rename_i e; subst e; simp [isDone]
          · rw [tr.DN x hx]; rfl
    · simp only [emitQ, qstep, if_neg hen]; exact tr
  | probe c =>
    by_cases hco : s.base.completed c = true
    · simp only [emitQ, qstep, if_pos hco]
      refine ⟨?_, ?_, ?_, ?_⟩
      · simp only [handoverStep, Bool.or_eq_true, beq_iff_eq]
        cases ht : s.taken c with
        | false => left; simp
        | true => right; exact tr.DN c ht
      · intro x hx
        rw [List.any_append, tr.LA x hx]; rfl
      · intro x hx
        simp only [List.any_append, List.any_cons, List.any_nil, Bool.or_false, Bool.or_eq_true, dequeues,
          beq_iff_eq] at hx
        rcases hx with hx | hx
        · exact tr.DQ x hx
        · subst hx; exact inv.K.C _ hco
      · intro x hx
        rw [List.any_append, tr.DN x hx]; rfl
    · simp only [emitQ, qstep, if_neg hco]; exact tr

theorem handover_trace {cmds : List Cmd} (h : wfCfg cmds = true) (qs : List Nat) (late : List Nat) :
    ∀ (sched : List QStep) (s : QState) (before : List Ev), QInv cmds (queueOf qs) s → TraceInv before s →
      handoverFrom qs late before (qtrace cmds (queueOf qs) s sched) = true := by
  intro sched
  induction sched with
  | nil => intro s before _ _; rfl
  | cons st rest ih =>
    intro s before inv tr
    have hs := trace_step h inv tr late st
    have inv' := qinv_step h inv st
    simp only [qtrace]
    cases he : emitQ cmds s st with
    | none =>
      rw [he] at hs
      simp only [Option.toList, List.nil_append]
      exact ih _ _ inv' hs
    | some e =>
      rw [he] at hs
      simp only [Option.toList, List.singleton_append, handoverFrom, Bool.and_eq_true]
      exact ⟨hs.1, ih _ _ inv' hs.2⟩

end CmdQueue
