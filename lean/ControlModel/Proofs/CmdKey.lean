/- Proofs/CmdKey — with the code's key (the whole target) the assignment of
   targets to executors does not enter the Servent model: `runK codeKey ex = run`. -/
import ControlModel.Model.CmdKey

namespace CmdQueue

theorem projKey_code (ex : Nat → Nat) (k : CallId) : projKey codeKey ex k = k := by
  simp [projKey, codeKey]

theorem finishK_code (s : State) (i : Ref) (k : CallId) (o : Outcome) (u : Bool) :
    finishK s i k k.target o u = finish s i k o u := rfl

/-- With the code's key the executor assignment does not enter: one step … -/
theorem stepK_code (ex : Nat → Nat) (cmds : List Cmd) (s : State) (st : Step) :
    stepK codeKey ex cmds s st = step cmds s st := by
  cases st <;> simp only [stepK, step, projKey_code, finishK_code] <;> rfl

/-- … and every schedule. -/
theorem runK_code (ex : Nat → Nat) (cmds : List Cmd) (s : State) (sched : List Step) :
    runK codeKey ex cmds s sched = run cmds s sched := by
  induction sched generalizing s with
  | nil => rfl
  | cons st rest ih => simp only [runK, run, stepK_code, ih]

end CmdQueue
