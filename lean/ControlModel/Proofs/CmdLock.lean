/-
  Proofs/CmdLock — lemmas about the lock layer (Model/CmdLock): projection to the
  queue and base layers, the mutex is free at rest under `codeLock`, liveness over
  the refined steps, the reply that arrives in a leave window, and the wedge under
  `deferLock`. Core Lean only.
-/
import ControlModel.Spec.C12
import ControlModel.Proofs.CmdQueue
import ControlModel.Proofs.CmdHandover

namespace CmdQueue

/-! ## projection -/

theorem lrun_append (cfg : LockCfg) (cmds : List Cmd) (qof : Nat → Nat) : ∀ (a b : List LStep) (s : LState),
    lrun cfg cmds qof s (a ++ b) = lrun cfg cmds qof (lrun cfg cmds qof s a) b := by
  intro a
  induction a with
  | nil => intro b s; rfl
  | cons st rest ih => intro b s; simp only [List.cons_append, lrun]; exact ih b _

/-- A step of the lock layer is nothing or one step of the queue layer. -/
theorem lstep_q (cfg : LockCfg) (cmds : List Cmd) (qof : Nat → Nat) (s : LState) (st : LStep) :
    (lstep cfg cmds qof s st).q = s.q ∨ ∃ qst, lproj s st = some qst ∧ (lstep cfg cmds qof s st).q = qstep cmds qof s.q qst := by
  simp only [lstep]
  cases h : lproj s st with
  | none => exact .inl rfl
  | some qst => exact .inr ⟨qst, rfl, rfl⟩

/-- Every state of the lock layer projects to a state of the queue layer that is reachable there. -/
theorem lrun_refines (cfg : LockCfg) (cmds : List Cmd) (qof : Nat → Nat) : ∀ (ls : List LStep) (s : LState),
    ∃ qs, (lrun cfg cmds qof s ls).q = qrun cmds qof s.q qs := by
  intro ls
  induction ls with
  | nil => intro s; exact ⟨[], rfl⟩
  | cons st rest ih =>
    intro s
    obtain ⟨qs, hqs⟩ := ih (lstep cfg cmds qof s st)
    simp only [lrun]
    rcases lstep_q cfg cmds qof s st with h | ⟨qst, _, h⟩
    · exact ⟨qs, by rw [hqs, h]⟩
    · exact ⟨qst :: qs, by rw [hqs, h]; rfl⟩

theorem qstep_base_cases {cmds : List Cmd} {qof : Nat → Nat} (s : QState) (st : QStep) :
    (qstep cmds qof s st).base = s.base ∨
      ∃ b, st = .base b ∧ (qstep cmds qof s st).base = step cmds s.base b := by
  cases st with
  | base b =>
    rcases qstep_base (cmds := cmds) (qof := qof) s b with h | h
    · exact .inl (by rw [h])
    · exact .inr ⟨b, rfl, by rw [h]⟩
  | listen c => exact .inl rfl
  | take c =>
    left; simp only [qstep]; split
    · split <;> rfl
    · rfl
  | probe c => exact .inl rfl

/-- The base-layer step behind a step of the lock layer. -/
theorem lstep_base (cfg : LockCfg) (cmds : List Cmd) (qof : Nat → Nat) (s : LState) (st : LStep) :
    (lstep cfg cmds qof s st).q.base = s.q.base ∨
      ∃ b, lproj s st = some (.base b) ∧ (lstep cfg cmds qof s st).q.base = step cmds s.q.base b := by
  rcases lstep_q cfg cmds qof s st with h | ⟨qst, hp, h⟩
  · exact .inl (by rw [h])
  · rcases qstep_base_cases (cmds := cmds) (qof := qof) s.q qst with h' | ⟨b, hb, h'⟩
    · exact .inl (by rw [h, h'])
    · exact .inr ⟨b, by rw [hp, hb], by rw [h, h']⟩

/-- Only `complete c` of this layer performs a `complete` of the base layer. -/
theorem lproj_complete {s : LState} {st : LStep} {b : Step} (h : lproj s st = some (.base b))
    (hc : isComplete b = true) : ∃ c, st = .q (.base (.complete c)) := by
  cases b <;> simp only [isComplete, Bool.false_eq_true] at hc
  rename_i c
  cases st with
  | q qst =>
    cases qst with
    | base b' =>
      cases b' <;> simp only [lproj, lprojB, Option.map] at h <;> (try split at h) <;> simp_all
    | listen _ => simp [lproj] at h
    | take _ => simp [lproj] at h
    | probe _ => simp [lproj] at h
  | expire _ => simp [lproj] at h
  | unregister i =>
    simp only [lproj] at h
    split at h
    · split at h <;> simp at h
    · simp at h
  | look _ => simp [lproj] at h

/-! ## reachable states -/

/-- Reachable states of the lock layer: the queue layer's invariant, and — when the
    mutex is released before the hand-over — a mutex that is free between steps. -/
structure LInv (cfg : LockCfg) (cmds : List Cmd) (qof : Nat → Nat) (s : LState) : Prop where
  Q : QInv cmds qof s.q
  MU : cfg.lockSpansSend = false → s.mu = none

theorem linv_init (cfg : LockCfg) (cmds : List Cmd) (qof : Nat → Nat) : LInv cfg cmds qof linit :=
  ⟨qinv_init cmds qof, fun _ => rfl⟩

theorem lmu_none {cfg : LockCfg} (hc : cfg.lockSpansSend = false) {s : LState} (hm : s.mu = none) (st : LStep) :
    lmu cfg s st = none := by
  cases st with
  | q qst =>
    cases qst with
    | base b =>
      cases b <;> simp only [lmu, hm, hc] <;> (repeat' split) <;> simp_all
    | listen _ => simpa [lmu] using hm
    | take _ => simpa [lmu] using hm
    | probe _ => simpa [lmu] using hm
  | expire _ => simpa [lmu] using hm
  | unregister _ => simpa [lmu] using hm
  | look _ => simpa [lmu] using hm

theorem lmu_run_none {cfg : LockCfg} (hc : cfg.lockSpansSend = false) {cmds : List Cmd} {qof : Nat → Nat} :
    ∀ (ls : List LStep) (s : LState), s.mu = none → (lrun cfg cmds qof s ls).mu = none := by
  intro ls
  induction ls with
  | nil => intro s h; exact h
  | cons st rest ih => intro s h; exact ih _ (lmu_none hc h st)

theorem linv_step {cfg : LockCfg} {cmds : List Cmd} (h : wfCfg cmds = true) {qof : Nat → Nat} {s : LState}
    (inv : LInv cfg cmds qof s) (st : LStep) : LInv cfg cmds qof (lstep cfg cmds qof s st) := by
  refine ⟨?_, ?_⟩
  · rcases lstep_q cfg cmds qof s st with e | ⟨qst, _, e⟩
    · rw [e]; exact inv.Q
    · rw [e]; exact qinv_step h inv.Q qst
  · intro hc
    exact lmu_none hc (inv.MU hc) st

theorem linv_run {cfg : LockCfg} {cmds : List Cmd} (h : wfCfg cmds = true) {qof : Nat → Nat} :
    ∀ (ls : List LStep) (s : LState), LInv cfg cmds qof s → LInv cfg cmds qof (lrun cfg cmds qof s ls) := by
  intro ls
  induction ls with
  | nil => intro s a; exact a
  | cons st rest ih => intro s a; exact ih _ (linv_step h a st)

/-! ## liveness over the refined steps -/

/-- register; send; leave; unregister — whatever state caller `i` is in, these four
    steps (each a no-op when it does not apply) make it return, provided the mutex is free. -/
def lfour (i : Ref) : List LStep := [.q (.base (.register i)), .q (.base (.sendOk i)), .expire i, .unregister i]

theorem lfour_finishes {cfg : LockCfg} {cmds : List Cmd} {qof : Nat → Nat} {s : LState} {i : Ref} {k : CallId}
    (hk : keyOf? cmds i = some k) (hst : s.q.base.started i.1 = true) (hmu : s.mu = none) :
    ∃ o, ((lrun cfg cmds qof s (lfour i)).q.base.call i).pc = .finished o := by
  cases hpc : (s.q.base.call i).pc <;> cases hl : s.left i <;>
    simp [lfour, lrun, lstep, lproj, lprojB, lmu, lleft, lleaked, canExpire, qstep, step, hk, hst, hmu, hpc, hl, upd, finish]

/-- A caller that has returned never moves again (lock layer). -/
theorem lfinished_step {cfg : LockCfg} {cmds : List Cmd} {qof : Nat → Nat} {s : LState} (inv : Inv cmds s.q.base)
    (st : LStep) (i : Ref) (o : Outcome) (hf : (s.q.base.call i).pc = .finished o) :
    (lstep cfg cmds qof s st).q.base.call i = s.q.base.call i := by
  rcases lstep_base cfg cmds qof s st with e | ⟨b, _, e⟩
  · rw [e]
  · rw [e]; exact finished_step inv b i o hf

theorem lfinished_run {cfg : LockCfg} {cmds : List Cmd} (h : wfCfg cmds = true) {qof : Nat → Nat} :
    ∀ (ls : List LStep) (s : LState), LInv cfg cmds qof s → ∀ i o, (s.q.base.call i).pc = .finished o →
      (lrun cfg cmds qof s ls).q.base.call i = s.q.base.call i := by
  intro ls
  induction ls with
  | nil => intro s _ i o _; rfl
  | cons st rest ih =>
    intro s inv i o hf
    have h1 := lfinished_step (cfg := cfg) (qof := qof) inv.Q.I1 st i o hf
    simp only [lrun]
    rw [ih _ (linv_step h inv st) i o (by rw [h1]; exact hf), h1]

theorem lstarted_step {cfg : LockCfg} {cmds : List Cmd} {qof : Nat → Nat} (s : LState) (st : LStep) (c : Nat)
    (hs : s.q.base.started c = true) : (lstep cfg cmds qof s st).q.base.started c = true := by
  rcases lstep_base cfg cmds qof s st with e | ⟨b, _, e⟩
  · rw [e]; exact hs
  · rw [e]; exact started_step _ b c hs

theorem lstarted_run {cfg : LockCfg} {cmds : List Cmd} {qof : Nat → Nat} : ∀ (ls : List LStep) (s : LState) (c : Nat),
    s.q.base.started c = true → (lrun cfg cmds qof s ls).q.base.started c = true := by
  intro ls
  induction ls with
  | nil => intro s c h; exact h
  | cons st rest ih => intro s c h; exact ih _ c (lstarted_step s st c h)

def isLComplete : LStep → Bool
  | .q (.base (.complete _)) => true
  | _ => false

theorem lcompleted_step {cfg : LockCfg} {cmds : List Cmd} {qof : Nat → Nat} (s : LState) (st : LStep)
    (hn : isLComplete st = false) : (lstep cfg cmds qof s st).q.base.completed = s.q.base.completed := by
  rcases lstep_base cfg cmds qof s st with e | ⟨b, hp, e⟩
  · rw [e]
  · rw [e]
    apply completed_step
    cases hb : isComplete b with
    | false => rfl
    | true =>
      obtain ⟨c, hc⟩ := lproj_complete hp hb
      subst hc
      simp [isLComplete] at hn

theorem lcompleted_run {cfg : LockCfg} {cmds : List Cmd} {qof : Nat → Nat} : ∀ (ls : List LStep) (s : LState),
    (∀ st ∈ ls, isLComplete st = false) → (lrun cfg cmds qof s ls).q.base.completed = s.q.base.completed := by
  intro ls
  induction ls with
  | nil => intro s _; rfl
  | cons st rest ih =>
    intro s h
    simp only [lrun]
    rw [ih _ (fun x hx => h x (List.mem_cons_of_mem _ hx)), lcompleted_step s st (h st List.mem_cons_self)]

/-- The schedule that drives every caller of command `c` (positions `ps`) home. -/
def ldriveHome (c : Nat) : List Nat → List LStep
  | [] => []
  | p :: ps => lfour (c, p) ++ ldriveHome c ps

theorem ldriveHome_noComplete (c : Nat) : ∀ ps, ∀ st ∈ ldriveHome c ps, isLComplete st = false := by
  intro ps
  induction ps with
  | nil => intro st h; simp [ldriveHome] at h
  | cons p ps ih =>
    intro st h
    simp only [ldriveHome, lfour, List.cons_append, List.nil_append, List.mem_cons] at h
    rcases h with h | h | h | h | h
    · subst h; rfl
    · subst h; rfl
    · subst h; rfl
    · subst h; rfl
    · exact ih st h

theorem ldriveHome_finishes {cfg : LockCfg} {cmds : List Cmd} (h : wfCfg cmds = true) {qof : Nat → Nat}
    (hc : cfg.lockSpansSend = false) (c : Nat) : ∀ (ps : List Nat) (s : LState),
    LInv cfg cmds qof s → s.q.base.started c = true →
    ∀ p, (p ∈ ps ∨ ∃ o, (s.q.base.call (c, p)).pc = .finished o) → (∃ k, keyOf? cmds (c, p) = some k) →
      ∃ o, ((lrun cfg cmds qof s (ldriveHome c ps)).q.base.call (c, p)).pc = .finished o := by
  intro ps
  induction ps with
  | nil =>
    intro s _ _ p hp _
    rcases hp with hp | hp
    · simp at hp
    · exact hp
  | cons q ps ih =>
    intro s inv hst p hp hk
    simp only [ldriveHome, lrun_append]
    have invr : LInv cfg cmds qof (lrun cfg cmds qof s (lfour (c, q))) := linv_run h _ _ inv
    apply ih _ invr (lstarted_run _ _ _ hst) p _ hk
    by_cases hpq : p = q
    · subst hpq
      obtain ⟨k, hk'⟩ := hk
      exact .inr (lfour_finishes hk' hst (inv.MU hc))
    · rcases hp with hp | ⟨o, ho⟩
      · simp only [List.mem_cons] at hp
        rcases hp with hp | hp
        · exact absurd hp hpq
        · exact .inl hp
      · exact .inr ⟨o, by rw [lfinished_run h _ _ inv _ o ho]; exact ho⟩

/-- From ANY reachable state of the lock layer — callers in their leave windows, replies
    parked for ever in their hand-over included — in which command `c` has been dequeued and
    not yet answered, the schedule "every caller: register, send, leave, unregister; then
    complete" delivers its callback: under `codeLock` nothing can hold the mutex. -/
theorem lcan_complete {cfg : LockCfg} {cmds : List Cmd} (h : wfCfg cmds = true) {qof : Nat → Nat}
    (hcfg : cfg.lockSpansSend = false) {s : LState} (inv : LInv cfg cmds qof s)
    {c : Nat} {cmd : Cmd} (hc : cmds[c]? = some cmd) (hst : s.q.base.started c = true)
    (hnc : s.q.base.completed c = false) :
    ∃ res, (c, res) ∈ (lrun cfg cmds qof s
      (ldriveHome c (List.range cmd.targets.length) ++ [.q (.base (.complete c))])).q.base.callbacks := by
  rw [lrun_append]
  generalize hs1 : lrun cfg cmds qof s (ldriveHome c (List.range cmd.targets.length)) = s1
  have i1 : LInv cfg cmds qof s1 := by rw [← hs1]; exact linv_run h _ _ inv
  have st1 : s1.q.base.started c = true := by rw [← hs1]; exact lstarted_run _ _ _ hst
  have nc1 : s1.q.base.completed c = false := by
    rw [← hs1, lcompleted_run _ _ (ldriveHome_noComplete c _)]; exact hnc
  have hall : ∀ p t, cmd.targets[p]? = some t → ∃ o, (s1.q.base.call (c, p)).pc = .finished o := by
    intro p t hp
    rw [← hs1]
    apply ldriveHome_finishes h hcfg c _ s inv hst p
    · left
      have : p < cmd.targets.length := by
        cases Nat.lt_or_ge p cmd.targets.length with
        | inl h => exact h
        | inr h => rw [List.getElem?_eq_none h] at hp; cases hp
      exact List.mem_range.mpr this
    · exact ⟨_, keyOf_of hc hp⟩
  have hlen := sem_full h i1.Q.I2 hc hall
  refine ⟨commit cmd (s1.q.base.sem c), ?_⟩
  simp [lrun, lstep, lproj, lprojB, qstep, step, hc, st1, nc1, hlen]

/-! ## a reply that arrives in a leave window -/

/-- Caller `i` has stopped listening (`left`), its entry is still pending, the mutex is
    free and is released before the hand-over: `deliver r` for its key takes the entry, puts
    `r` into the `Call` object nobody will read, and its `ProcessResponse` is parked for ever
    (`leaked`) — holding nothing. The caller's state is untouched, and `unregister` then makes
    it return exactly what it returns without the reply: its send error / "timed out". -/
theorem window_reply {cfg : LockCfg} {cmds : List Cmd} {qof : Nat → Nat} (hcfg : cfg.lockSpansSend = false)
    {s : LState} (inv : Inv cmds s.q.base) (hmu : s.mu = none) {i : Ref} {r : Resp}
    (hl : s.left i = true) (hp : s.q.base.pending r.key = some i) :
    let s1 := lstep cfg cmds qof s (.q (.base (.deliver r)))
    r ∈ s1.leaked ∧ s1.mu = none ∧ s1.left i = true ∧ (s1.q.base.call i).pc = (s.q.base.call i).pc ∧
      (s1.q.base.call i).mailbox = some r ∧ s1.q.base.pending r.key = none ∧
      ∃ o, (o = .sendErr ∨ o = .timeoutErr) ∧
        ((lstep cfg cmds qof s1 (.unregister i)).q.base.call i).pc = .finished o ∧
        ((lstep cfg cmds qof s (.unregister i)).q.base.call i).pc = .finished o := by
  obtain ⟨hk, hpc, _⟩ := inv.P _ _ hp
  rcases hpc with hpc | hpc
  · refine ⟨?_, ?_, ?_, ?_, ?_, ?_, .sendErr, .inl rfl, ?_, ?_⟩ <;>
      simp [lstep, lproj, lprojB, lmu, lleft, lleaked, qstep, step, hmu, hp, hl, hcfg, hpc, hk, upd, finish]
  · refine ⟨?_, ?_, ?_, ?_, ?_, ?_, .timeoutErr, .inr rfl, ?_, ?_⟩ <;>
      simp [lstep, lproj, lprojB, lmu, lleft, lleaked, qstep, step, hmu, hp, hl, hcfg, hpc, hk, upd, finish]

/-- Parked replies stay parked: `leaked` only grows. -/
theorem leaked_step {cfg : LockCfg} {cmds : List Cmd} {qof : Nat → Nat} (s : LState) (st : LStep) (r : Resp)
    (hr : r ∈ s.leaked) : r ∈ (lstep cfg cmds qof s st).leaked := by
  simp only [lstep]
  cases st with
  | q qst =>
    cases qst with
    | base b => cases b <;> simp only [lleaked] <;> (repeat' split) <;> simp_all
    | listen _ => simpa [lleaked] using hr
    | take _ => simpa [lleaked] using hr
    | probe _ => simpa [lleaked] using hr
  | expire _ => simp only [lleaked]; (repeat' split) <;> simp_all
  | unregister _ => simpa [lleaked] using hr
  | look _ => simpa [lleaked] using hr

theorem leaked_run {cfg : LockCfg} {cmds : List Cmd} {qof : Nat → Nat} : ∀ (ls : List LStep) (s : LState) (r : Resp),
    r ∈ s.leaked → r ∈ (lrun cfg cmds qof s ls).leaked := by
  intro ls
  induction ls with
  | nil => intro s r h; exact h
  | cons st rest ih => intro s r h; exact ih _ r (leaked_step s st r h)

/-! ## no command is ever found wedged -/

theorem wedgedFor_free {cmds : List Cmd} {s : LState} (hm : s.mu = none) (c : Nat) : wedgedFor cmds s c = false := by
  simp [wedgedFor, hm]

theorem stuckTrace_nil {cfg : LockCfg} {cmds : List Cmd} (h : wfCfg cmds = true) {qof : Nat → Nat}
    (hcfg : cfg.lockSpansSend = false) : ∀ (ls : List LStep) (s : LState), LInv cfg cmds qof s →
    stuckTrace cfg cmds qof s ls = [] := by
  intro ls
  induction ls with
  | nil => intro s _; rfl
  | cons st rest ih =>
    intro s inv
    simp only [stuckTrace, ih _ (linv_step h inv st), List.append_nil]
    cases st <;> simp [emitStuck, wedgedFor_free (inv.MU hcfg)]

/-! ## `defer s.mu.Unlock()` wedges the servent -/

/-- Two commands on two queues; command 0's only target answers (`wedgeReply`) although the
    send to it is reported as failed. -/
def wedgeCmds : List Cmd := [{ id := 7, targets := [1] }, { id := 9, targets := [2] }]

def wedgeReply : Resp := ⟨7, 1, 5, false⟩

/-- dequeue 0; its caller registers; the send returns an error (the caller stops listening,
    the entry is still pending); the reply arrives; command 1 is dequeued on its own queue. -/
def wedgeSched : List LStep :=
  [.q (.base (.start 0)), .q (.base (.register (0, 0))), .expire (0, 0), .q (.base (.deliver wedgeReply)),
   .q (.base (.start 1))]

structure Wedged (s : LState) : Prop where
  MU : s.mu = some (wedgeReply, (0, 0))
  L : s.left (0, 0) = true
  PC : (s.q.base.call (0, 0)).pc = .registered
  ID : ∀ i, i ≠ (0, 0) → (s.q.base.call i).pc = .idle
  SEM : ∀ c, s.q.base.sem c = []
  CB : s.q.base.callbacks = []

theorem wedged_pc {s : LState} (w : Wedged s) (i : Ref) (hne : i ≠ (0, 0)) : (s.q.base.call i).pc = .idle := w.ID i hne

/-- In a wedged state the only base-layer steps that are still performed are dequeues,
    sends / receives of OTHER callers (none of which exists beyond `idle`) and completions. -/
theorem wedged_proj {s : LState} (w : Wedged s) {st : LStep} {b : Step} (h : lproj s st = some (.base b)) :
    (∃ c, b = .start c) ∨ (∃ i, b = .sendOk i ∧ i ≠ (0, 0)) ∨ (∃ i, b = .recv i ∧ i ≠ (0, 0)) ∨ (∃ c, b = .complete c) := by
  have hmu : s.mu.isSome = true := by rw [w.MU]; rfl
  have hmu' : s.mu ≠ none := by rw [w.MU]; simp
  cases st with
  | q qst =>
    cases qst with
    | base b' =>
      cases b' with
      | start c => simp [lproj, lprojB] at h; exact .inl ⟨c, h.symm⟩
      | register i => simp [lproj, lprojB, hmu] at h
      | sendOk i =>
        simp only [lproj, lprojB] at h
        split at h
        · simp at h
        · rename_i hl
          simp at h
          refine .inr (.inl ⟨i, h.symm, ?_⟩)
          intro e; subst e; exact hl w.L
      | sendFail i => simp [lproj, lprojB] at h
      | deliver r => simp [lproj, lprojB, hmu] at h
      | recv i =>
        simp only [lproj, lprojB] at h
        split at h
        · simp at h
        · rename_i hl
          simp at h
          refine .inr (.inr (.inl ⟨i, h.symm, ?_⟩))
          intro e; subst e; exact hl w.L
      | timeout i => simp [lproj, lprojB] at h
      | complete c => simp [lproj, lprojB] at h; exact .inr (.inr (.inr ⟨c, h.symm⟩))
    | listen c => simp [lproj] at h
    | take c => simp [lproj] at h
    | probe c => simp [lproj] at h
  | expire i => simp [lproj] at h
  | unregister i => simp [lproj, hmu'] at h
  | look c => simp [lproj] at h

theorem wedged_base_same {s : LState} (w : Wedged s) {b : Step}
    (h : (∃ c, b = .start c) ∨ (∃ i, b = .sendOk i ∧ i ≠ (0, 0)) ∨ (∃ i, b = .recv i ∧ i ≠ (0, 0)) ∨ (∃ c, b = .complete c)) :
    (step wedgeCmds s.q.base b).call = s.q.base.call ∧ (step wedgeCmds s.q.base b).sem = s.q.base.sem ∧
      (step wedgeCmds s.q.base b).callbacks = s.q.base.callbacks := by
  rcases h with ⟨c, rfl⟩ | ⟨i, rfl, hi⟩ | ⟨i, rfl, hi⟩ | ⟨c, rfl⟩
  · simp only [step]; split <;> simp
  · simp [step, w.ID i hi]
  · simp only [step]; split
    · simp
    · simp [w.ID i hi]
  · simp only [step]
    split
    · simp
    · rename_i cmd hcmd
      have hlen : ¬ (0 = cmd.targets.length) := by
        match c, hcmd with
        | 0, hcmd => simp [wedgeCmds] at hcmd; subst hcmd; simp
        | 1, hcmd => simp [wedgeCmds] at hcmd; subst hcmd; simp
        | c + 2, hcmd => simp [wedgeCmds] at hcmd
      simp [w.SEM c, hlen]

theorem wedged_mu {s : LState} (w : Wedged s) (st : LStep) : lmu deferLock s st = s.mu := by
  have hmu : s.mu.isSome = true := by rw [w.MU]; rfl
  have nw : ∀ i, (s.q.base.call i).pc ≠ .waiting := by
    intro i hi
    by_cases e : i = (0, 0)
    · subst e; rw [w.PC] at hi; cases hi
    · rw [w.ID i e] at hi; cases hi
  cases st with
  | q qst =>
    cases qst with
    | base b =>
      cases b with
      | deliver r => simp [lmu, hmu]
      | recv i => simp [lmu, nw i]
      | _ => rfl
    | _ => rfl
  | _ => rfl

theorem wedged_left {s : LState} (w : Wedged s) (st : LStep) : lleft s st = s.left := by
  cases st with
  | expire i =>
    have hx : canExpire s i = false := by
      by_cases e : i = (0, 0)
      · subst e; simp [canExpire, w.L]
      · simp [canExpire, w.ID i e]
    simp [lleft, hx]
  | _ => rfl

/-- Nothing that anybody does gets a wedged servent going again. -/
theorem wedged_step {s : LState} (w : Wedged s) (st : LStep) : Wedged (lstep deferLock wedgeCmds id s st) := by
  have hb : (lstep deferLock wedgeCmds id s st).q.base.call = s.q.base.call ∧
      (lstep deferLock wedgeCmds id s st).q.base.sem = s.q.base.sem ∧
      (lstep deferLock wedgeCmds id s st).q.base.callbacks = s.q.base.callbacks := by
    rcases lstep_base deferLock wedgeCmds id s st with e | ⟨b, hp, e⟩
    · rw [e]; exact ⟨rfl, rfl, rfl⟩
    · rw [e]; exact wedged_base_same w (wedged_proj w hp)
  have hm : (lstep deferLock wedgeCmds id s st).mu = s.mu := wedged_mu w st
  have hl : (lstep deferLock wedgeCmds id s st).left = s.left := wedged_left w st
  refine ⟨?_, ?_, ?_, ?_, ?_, ?_⟩
  · rw [hm]; exact w.MU
  · rw [hl]; exact w.L
  · rw [hb.1]; exact w.PC
  · intro i hi; rw [hb.1]; exact w.ID i hi
  · intro c; rw [hb.2.1]; exact w.SEM c
  · rw [hb.2.2]; exact w.CB

theorem wedged_run : ∀ (ls : List LStep) (s : LState), Wedged s → Wedged (lrun deferLock wedgeCmds id s ls) := by
  intro ls
  induction ls with
  | nil => intro s w; exact w
  | cons st rest ih => intro s w; exact ih _ (wedged_step w st)

theorem wedged_witness : Wedged (lrun deferLock wedgeCmds id linit wedgeSched) := by
  refine ⟨by decide, by decide, by decide, ?_, ?_, by decide⟩
  · intro i hi
    simp [wedgeSched, lrun, lstep, lproj, lprojB, lmu, lleft, lleaked, canExpire, qstep, step, linit, qinit, init, holds,
      keyOf?, callCmd, singleTarget, wedgeCmds, wedgeReply, Resp.key, upd, hi]
  · intro c
    simp [wedgeSched, lrun, lstep, lproj, lprojB, lmu, lleft, lleaked, canExpire, qstep, step, linit, qinit, init, holds,
      keyOf?, callCmd, singleTarget, wedgeCmds, wedgeReply, Resp.key, upd]

end CmdQueue
