/-
  Proofs/CmdQueue — invariants of the Servent / CommandQueue model.
  Core Lean only.
-/
import ControlModel.Spec.C12

set_option linter.unusedSimpArgs false

namespace CmdQueue

/-! ## point updates -/

@[simp] theorem upd_same {α β} [DecidableEq α] (f : α → β) (a : α) (b : β) : upd f a b a = b := by
  simp [upd]

theorem upd_other {α β} [DecidableEq α] (f : α → β) (a : α) (b : β) (x : α) (h : x ≠ a) :
    upd f a b x = f x := by
  simp [upd, h]

/-! ## distinct ids / targets make keys distinct -/

theorem distinctTargets_inj : ∀ (l : List Nat) (p q t : Nat), distinctTargets l = true →
    l[p]? = some t → l[q]? = some t → p = q := by
  intro l
  induction l with
  | nil => intro p q t _ h; simp at h
  | cons a rest ih =>
    intro p q t hd hp hq
    simp only [distinctTargets, Bool.and_eq_true, List.all_eq_true] at hd
    cases p with
    | zero =>
      cases q with
      | zero => rfl
      | succ q' =>
        simp at hp hq
        have := hd.1 t (List.mem_of_getElem? hq)
        simp [hp] at this
    | succ p' =>
      cases q with
      | zero =>
        simp at hp hq
        have := hd.1 t (List.mem_of_getElem? hp)
        simp [hq] at this
      | succ q' =>
        simp at hp hq
        rw [ih p' q' t hd.2 hp hq]

theorem distinctIds_inj : ∀ (cmds : List Cmd) (a b : Nat) (c d : Cmd), distinctIds cmds = true →
    cmds[a]? = some c → cmds[b]? = some d → c.id = d.id → a = b := by
  intro cmds
  induction cmds with
  | nil => intro a b c d _ h; simp at h
  | cons x rest ih =>
    intro a b c d hd ha hb hid
    simp only [distinctIds, Bool.and_eq_true, List.all_eq_true] at hd
    cases a with
    | zero =>
      cases b with
      | zero => rfl
      | succ b' =>
        simp at ha hb
        have := hd.1 d (List.mem_of_getElem? hb)
        simp [← hid, ← ha] at this
    | succ a' =>
      cases b with
      | zero =>
        simp at ha hb
        have := hd.1 c (List.mem_of_getElem? ha)
        simp [hid, ← hb] at this
      | succ b' =>
        simp at ha hb
        rw [ih a' b' c d hd.2 ha hb hid]

theorem wf_ids {cmds : List Cmd} (h : wfCfg cmds = true) : distinctIds cmds = true := by
  simp only [wfCfg, Bool.and_eq_true] at h; exact h.1

theorem wf_targets {cmds : List Cmd} (h : wfCfg cmds = true) {c : Nat} {cmd : Cmd}
    (hc : cmds[c]? = some cmd) : distinctTargets cmd.targets = true := by
  simp only [wfCfg, Bool.and_eq_true, List.all_eq_true] at h
  exact h.2 cmd (List.mem_of_getElem? hc)

/-! ## the single-target command -/

theorem singleTarget_of_mem {c : Cmd} {t : Nat} (h : t ∈ c.targets) :
    singleTarget c t = some { id := c.id, targets := [t], tmo := c.tmo, args := [(t, argOf c t)] } := by
  simp [singleTarget, h]

theorem singleTarget_some {c sc : Cmd} {t : Nat} (h : singleTarget c t = some sc) :
    t ∈ c.targets ∧ sc = { id := c.id, targets := [t], tmo := c.tmo, args := [(t, argOf c t)] } := by
  unfold singleTarget at h
  split at h
  · rename_i hc
    exact ⟨by simpa using hc, (Option.some.inj h).symm⟩
  · cases h

theorem argOf_single (t a : Nat) (id tmo : Nat) :
    argOf { id := id, targets := [t], tmo := tmo, args := [(t, a)] } t = a := by
  simp [argOf, List.find?]

/-- The command a caller runs with, spelled out. -/
theorem callCmd_of {cmds : List Cmd} {c p t : Nat} {cmd : Cmd} (hc : cmds[c]? = some cmd)
    (ht : cmd.targets[p]? = some t) :
    callCmd cmds (c, p) =
      some ({ id := cmd.id, targets := [t], tmo := cmd.tmo, args := [(t, argOf cmd t)] }, t) := by
  simp [callCmd, hc, ht, singleTarget_of_mem (List.mem_of_getElem? ht)]

/-- Unfolding of `keyOf?`. -/
theorem keyOf_some {cmds : List Cmd} {i : Ref} {k : CallId} (h : keyOf? cmds i = some k) :
    ∃ cmd, cmds[i.1]? = some cmd ∧ cmd.targets[i.2]? = some k.target ∧ k.id = cmd.id := by
  unfold keyOf? callCmd at h
  cases hc : cmds[i.1]? with
  | none => simp [hc] at h
  | some cmd =>
    cases ht : cmd.targets[i.2]? with
    | none => simp [hc, ht] at h
    | some t =>
      simp [hc, ht, singleTarget_of_mem (List.mem_of_getElem? ht)] at h
      subst h
      exact ⟨cmd, rfl, ht, rfl⟩

theorem keyOf_of {cmds : List Cmd} {c p t : Nat} {cmd : Cmd} (hc : cmds[c]? = some cmd)
    (ht : cmd.targets[p]? = some t) : keyOf? cmds (c, p) = some ⟨cmd.id, t⟩ := by
  simp [keyOf?, callCmd_of hc ht]

/-- Distinct command ids and distinct targets make the keys of different callers different. -/
theorem keyOf_inj {cmds : List Cmd} (h : wfCfg cmds = true) {i j : Ref} {k : CallId}
    (hi : keyOf? cmds i = some k) (hj : keyOf? cmds j = some k) : i = j := by
  obtain ⟨ci, hci, hti, hidi⟩ := keyOf_some hi
  obtain ⟨cj, hcj, htj, hidj⟩ := keyOf_some hj
  have h1 : i.1 = j.1 := distinctIds_inj cmds i.1 j.1 ci cj (wf_ids h) hci hcj (by rw [← hidi, ← hidj])
  have hcc : ci = cj := by rw [h1] at hci; rw [hci] at hcj; exact Option.some.inj hcj
  subst hcc
  have h2 : i.2 = j.2 := distinctTargets_inj ci.targets i.2 j.2 k.target (wf_targets h hci) hti htj
  exact Prod.ext h1 h2

/-! ## the Servent invariant -/

/-- * `P`: an entry of `pending` points to the one caller that owns the key, and
      that caller is between register and unregister with no response yet;
    * `O`: a caller between register and unregister that has no response yet
      owns exactly the entry at its own key;
    * `M`: a response sitting in a caller's `Call` object is addressed to that caller;
    * `F`: a reply returned by `RunCommand` is addressed to that caller;
    * `V`: references that name no goroutine never move. -/
structure Inv (cmds : List Cmd) (s : State) : Prop where
  P : ∀ k j, s.pending k = some j → keyOf? cmds j = some k ∧
        ((s.call j).pc = .registered ∨ (s.call j).pc = .waiting) ∧ (s.call j).mailbox = none
  O : ∀ i k, keyOf? cmds i = some k → ((s.call i).pc = .registered ∨ (s.call i).pc = .waiting) →
        (s.call i).mailbox = none → s.pending k = some i
  M : ∀ i r, (s.call i).mailbox = some r → keyOf? cmds i = some r.key ∧ (s.call i).pc ≠ .idle
  F : ∀ i r, (s.call i).pc = .finished (.reply r) → keyOf? cmds i = some r.key
  V : ∀ i, keyOf? cmds i = none → s.call i = ⟨.idle, none⟩

theorem inv_init (cmds : List Cmd) : Inv cmds init := by
  refine ⟨?_, ?_, ?_, ?_, ?_⟩ <;> intros <;> simp_all [init]

theorem inv_step {cmds : List Cmd} (h : wfCfg cmds = true) {s : State} (inv : Inv cmds s) (st : Step) :
    Inv cmds (step cmds s st) := by
  have inj := @keyOf_inj cmds h
  obtain ⟨P, O, M, F, V⟩ := inv
  have I : ∀ i, (s.call i).pc = .idle → (s.call i).mailbox = none := by
    intro i hi
    cases hm : (s.call i).mailbox with
    | none => rfl
    | some r => exact absurd hi (M i r hm).2
  cases st with
  | start c =>
    simp only [step]; split <;> exact ⟨P, O, M, F, V⟩
  | register i =>
    simp only [step]
    split
    · exact ⟨P, O, M, F, V⟩
    · split
      · refine ⟨?_, ?_, ?_, ?_, ?_⟩ <;> intros <;> simp only [upd] at * <;> grind
      · exact ⟨P, O, M, F, V⟩
  | sendOk i =>
    simp only [step]
    split
    · refine ⟨?_, ?_, ?_, ?_, ?_⟩ <;> intros <;> simp only [upd] at * <;> grind
    · exact ⟨P, O, M, F, V⟩
  | sendFail i =>
    simp only [step]
    split
    · exact ⟨P, O, M, F, V⟩
    · split
      · refine ⟨?_, ?_, ?_, ?_, ?_⟩ <;> intros <;> simp only [finish, upd, ↓reduceIte, Bool.false_eq_true] at * <;> grind
      · exact ⟨P, O, M, F, V⟩
  | deliver r =>
    simp only [step]
    split
    · exact ⟨P, O, M, F, V⟩
    · refine ⟨?_, ?_, ?_, ?_, ?_⟩ <;> intros <;> simp only [upd] at * <;> grind
  | recv i =>
    simp only [step]
    split
    · exact ⟨P, O, M, F, V⟩
    · split
      · split
        · refine ⟨?_, ?_, ?_, ?_, ?_⟩ <;> intros <;> simp only [finish, upd, ↓reduceIte, Bool.false_eq_true] at * <;> grind
        · exact ⟨P, O, M, F, V⟩
      · exact ⟨P, O, M, F, V⟩
  | timeout i =>
    simp only [step]
    split
    · exact ⟨P, O, M, F, V⟩
    · split
      · refine ⟨?_, ?_, ?_, ?_, ?_⟩ <;> intros <;> simp only [finish, upd, ↓reduceIte, Bool.false_eq_true] at * <;> grind
      · exact ⟨P, O, M, F, V⟩
  | complete c =>
    simp only [step]
    split
    · exact ⟨P, O, M, F, V⟩
    · split <;> exact ⟨P, O, M, F, V⟩

/-! ## what a step can do to the commit layer -/

/-- Every step is (A) invisible to the commit layer and to finished callers,
    (B) the return of one caller that was between register and unregister, or
    (C) the completion of one command. -/
theorem step_cases {cmds : List Cmd} {s : State} (inv : Inv cmds s) (st : Step) :
    ((step cmds s st).sem = s.sem ∧ (step cmds s st).callbacks = s.callbacks ∧
      (step cmds s st).completed = s.completed ∧
      (∀ i o, (s.call i).pc = .finished o → (step cmds s st).call i = s.call i) ∧
      (∀ i o, ((step cmds s st).call i).pc = .finished o → (s.call i).pc = .finished o))
    ∨ (∃ i k o u, keyOf? cmds i = some k ∧ ((s.call i).pc = .registered ∨ (s.call i).pc = .waiting) ∧
        step cmds s st = finish s i k o u ∧ (∀ r, o = .reply r → keyOf? cmds i = some r.key))
    ∨ (∃ c cmd, cmds[c]? = some cmd ∧ s.completed c = false ∧ (s.sem c).length = cmd.targets.length ∧
        step cmds s st = { s with completed := upd s.completed c true
                                  callbacks := s.callbacks ++ [(c, commit cmd (s.sem c))] }) := by
  obtain ⟨P, O, M, F, V⟩ := inv
  have A0 : (s.sem = s.sem ∧ s.callbacks = s.callbacks ∧ s.completed = s.completed ∧
      (∀ i o, (s.call i).pc = .finished o → s.call i = s.call i) ∧
      (∀ i o, (s.call i).pc = .finished o → (s.call i).pc = .finished o)) :=
    ⟨rfl, rfl, rfl, fun _ _ _ => rfl, fun _ _ h => h⟩
  cases st with
  | start c => simp only [step]; split <;> exact .inl A0
  | register i =>
    simp only [step]
    split
    · exact .inl A0
    · split
      · refine .inl ⟨rfl, rfl, rfl, ?_, ?_⟩ <;> intros <;> simp only [upd] at * <;> grind
      · exact .inl A0
  | sendOk i =>
    simp only [step]
    split
    · refine .inl ⟨rfl, rfl, rfl, ?_, ?_⟩ <;> intros <;> simp only [upd] at * <;> grind
    · exact .inl A0
  | sendFail i =>
    simp only [step]
    split
    · exact .inl A0
    · rename_i k hk
      split
      · rename_i hpc
        exact .inr (.inl ⟨i, k, .sendErr, true, hk, .inl hpc, rfl, by intro r hr; cases hr⟩)
      · exact .inl A0
  | deliver r =>
    simp only [step]
    split
    · exact .inl A0
    · refine .inl ⟨rfl, rfl, rfl, ?_, ?_⟩ <;> intros <;> simp only [upd] at * <;> grind
  | recv i =>
    simp only [step]
    split
    · exact .inl A0
    · rename_i k hk
      split
      · rename_i hpc
        split
        · rename_i r hr
          refine .inr (.inl ⟨i, k, .reply r, false, hk, .inr hpc, rfl, ?_⟩)
          intro r' hr'
          cases hr'
          exact (M i r hr).1
        · exact .inl A0
      · exact .inl A0
  | timeout i =>
    simp only [step]
    split
    · exact .inl A0
    · rename_i k hk
      split
      · rename_i hpc
        exact .inr (.inl ⟨i, k, .timeoutErr, true, hk, .inr hpc, rfl, by intro r hr; cases hr⟩)
      · exact .inl A0
  | complete c =>
    simp only [step]
    split
    · exact .inl A0
    · rename_i cmd hc
      split
      · rename_i hg
        exact .inr (.inr ⟨c, cmd, hc, hg.2.1, hg.2.2, rfl⟩)
      · exact .inl A0

/-! ## commit / consolidate -/

/-- Pigeonhole: a duplicate-free list contained in a list that is not longer covers it. -/
theorem covers_of_nodup : ∀ (l m : List Nat), l.Nodup → (∀ x ∈ l, x ∈ m) → m.length ≤ l.length →
    ∀ x ∈ m, x ∈ l := by
  intro l
  induction l with
  | nil =>
    intro m _ _ hlen x hx
    have : m = [] := List.eq_nil_of_length_eq_zero (Nat.le_zero.mp hlen)
    subst this; exact hx
  | cons a l' ih =>
    intro m hnd hsub hlen x hx
    have ham : a ∈ m := hsub a (List.mem_cons_self)
    have hnd' := List.nodup_cons.mp hnd
    have hsub' : ∀ y ∈ l', y ∈ m.erase a := by
      intro y hy
      have hya : y ≠ a := by intro e; subst e; exact hnd'.1 hy
      exact (List.mem_erase_of_ne hya).mpr (hsub y (List.mem_cons_of_mem _ hy))
    have hlen' : (m.erase a).length ≤ l'.length := by
      rw [List.length_erase_of_mem ham]
      simp at hlen; omega
    by_cases hxa : x = a
    · subst hxa; exact List.mem_cons_self
    · exact List.mem_cons_of_mem _ (ih (m.erase a) hnd'.2 hsub' hlen' x ((List.mem_erase_of_ne hxa).mpr hx))

theorem distinctTargets_nodup : ∀ (l : List Nat), distinctTargets l = true → l.Nodup := by
  intro l
  induction l with
  | nil => intro _; exact List.nodup_nil
  | cons a rest ih =>
    intro hd
    simp only [distinctTargets, Bool.and_eq_true, List.all_eq_true] at hd
    refine List.nodup_cons.mpr ⟨?_, ih hd.2⟩
    intro ha
    have := hd.1 a ha
    simp at this

def entryMap (c : Cmd) (sem : List (Nat × Outcome)) : List (Nat × TResp) :=
  sem.map (fun e => (e.1, tresp c e.2))

theorem mset_fresh : ∀ (m : List (Nat × TResp)) (k : Nat) (v : TResp), k ∉ m.map (·.1) → mset m k v = m ++ [(k, v)] := by
  intro m
  induction m with
  | nil => intro k v _; rfl
  | cons e rest ih =>
    intro k v hk
    obtain ⟨k', v'⟩ := e
    simp only [List.map_cons, List.mem_cons, not_or] at hk
    have hne : ¬ k' = k := fun e => hk.1 e.symm
    simp only [mset, hne, ↓reduceIte, List.cons_append]
    rw [ih k v hk.2]

/-- With one semaphore entry per target (no duplicates) the `responses` map is
    just the entries, none overwritten. -/
theorem collect_nodup (c : Cmd) : ∀ (sem : List (Nat × Outcome)) (m : List (Nat × TResp)),
    (m.map (·.1) ++ sem.map (·.1)).Nodup → collect c sem m = m ++ entryMap c sem := by
  intro sem
  induction sem with
  | nil => intro m _; simp [collect, entryMap]
  | cons e rest ih =>
    intro m hnd
    obtain ⟨t, o⟩ := e
    have hfresh : t ∉ m.map (·.1) := by
      intro hm
      have := (List.nodup_append.mp hnd).2.2 t hm t (by simp)
      exact this rfl
    simp only [collect]
    rw [mset_fresh m t _ hfresh, ih]
    · simp [entryMap]
    · simpa [List.map_append, List.append_assoc] using hnd

theorem mget_entryMap (c : Cmd) : ∀ (sem : List (Nat × Outcome)) (t : Nat) (e : TResp),
    mget (entryMap c sem) t = some e → ∃ o, (t, o) ∈ sem ∧ e = tresp c o := by
  intro sem
  induction sem with
  | nil => intro t e h; simp [entryMap, mget] at h
  | cons x rest ih =>
    intro t e h
    obtain ⟨t', o'⟩ := x
    simp only [entryMap, List.map_cons, mget] at h
    by_cases htt : t' = t
    · simp only [htt, ↓reduceIte, Option.some.injEq] at h
      exact ⟨o', by simp [htt], h.symm⟩
    · simp only [htt, ↓reduceIte] at h
      obtain ⟨o, ho, he⟩ := ih t e h
      exact ⟨o, List.mem_cons_of_mem _ ho, he⟩

theorem mget_entryMap_mem (c : Cmd) : ∀ (sem : List (Nat × Outcome)) (t : Nat),
    t ∈ sem.map (·.1) → ∃ e, mget (entryMap c sem) t = some e := by
  intro sem
  induction sem with
  | nil => intro t h; simp at h
  | cons x rest ih =>
    intro t h
    obtain ⟨t', o'⟩ := x
    simp only [entryMap, List.map_cons, mget]
    by_cases htt : t' = t
    · simp [htt]
    · simp only [htt, ↓reduceIte]
      simp only [List.map_cons, List.mem_cons] at h
      cases h with
      | inl h => exact absurd h.symm htt
      | inr h => exact ih t h

theorem commit_eq (c : Cmd) (sem : List (Nat × Outcome)) (hnd : (sem.map (·.1)).Nodup) :
    commit c sem = consolidate c (entryMap c sem) := by
  unfold commit
  rw [collect_nodup c sem [] (by simpa using hnd)]
  simp

/-- `commit` on one semaphore entry per target yields a well-shaped result whose
    entries are exactly the callers' outcomes. -/
theorem commit_ok (c : Cmd) (sem : List (Nat × Outcome))
    (hnd : (sem.map (·.1)).Nodup)
    (hin : ∀ t o, (t, o) ∈ sem → t ∈ c.targets ∧ ownOrError c t (tresp c o) = true)
    (hlen : sem.length = c.targets.length) :
    shapeOk c (commit c sem) = true ∧
      ∀ t e, entryOf c (commit c sem) t = some e → ∃ o, (t, o) ∈ sem ∧ e = tresp c o := by
  rw [commit_eq c sem hnd]
  match sem, hnd, hin, hlen with
  | [], _, _, hlen =>
    have : c.targets = [] := List.eq_nil_of_length_eq_zero hlen.symm
    simp [entryMap, consolidate, shapeOk, entryOf, this]
  | [(t, o)], _, hin, hlen =>
    have h1 := hin t o (by simp)
    match hc : c.targets, hlen with
    | [t'], _ =>
      have htt : t = t' := by simpa [hc] using h1.1
      subst htt
      refine ⟨by simp [entryMap, consolidate, shapeOk, hc, h1.2], ?_⟩
      intro t'' e he
      simp only [entryMap, List.map_cons, List.map_nil, consolidate, entryOf, hc] at he
      split at he
      · rename_i heq
        simp at heq; subst heq
        simp at he
        exact ⟨o, by simp, he.symm⟩
      · simp at he
  | (t1, o1) :: (t2, o2) :: rest, hnd, hin, hlen =>
    have hcons : consolidate c (entryMap c ((t1, o1) :: (t2, o2) :: rest)) =
        .multi c.id (entryMap c ((t1, o1) :: (t2, o2) :: rest)) := by
      simp [entryMap, consolidate]
    rw [hcons]
    refine ⟨?_, ?_⟩
    · simp only [shapeOk, Bool.and_eq_true, beq_self_eq_true, true_and, decide_eq_true_eq, List.all_eq_true]
      refine ⟨⟨by rw [← hlen]; simp, by simp [entryMap, ← hlen]⟩, ?_⟩
      intro t ht
      have hcov := covers_of_nodup _ c.targets hnd
        (by intro x hx; simp only [List.mem_map] at hx; obtain ⟨⟨a, b⟩, hab, rfl⟩ := hx; exact (hin a b hab).1)
        (by simp [← hlen]) t ht
      obtain ⟨e, he⟩ := mget_entryMap_mem c _ t hcov
      rw [he]
      obtain ⟨o, ho, heo⟩ := mget_entryMap c _ t e he
      rw [heo]; exact (hin t o ho).2
    · intro t e he
      exact mget_entryMap c _ t e he

/-! ## the commit-layer invariant -/

/-- * `S1`/`S3`: the semaphore entries of a command are exactly the returns of its callers;
    * `S2`: at most one entry per target;
    * `CB`: every delivered callback is well-shaped and its entries are its callers' outcomes;
    * `CB2`/`CB3`: at most one callback per command, none before completion. -/
structure Inv2 (cmds : List Cmd) (s : State) : Prop where
  S1 : ∀ c t o, (t, o) ∈ s.sem c → ∃ cmd p, cmds[c]? = some cmd ∧ cmd.targets[p]? = some t ∧
        (s.call (c, p)).pc = .finished o
  S2 : ∀ c, ((s.sem c).map (·.1)).Nodup
  S3 : ∀ c p o, (s.call (c, p)).pc = .finished o → ∃ cmd t, cmds[c]? = some cmd ∧
        cmd.targets[p]? = some t ∧ (t, o) ∈ s.sem c
  CB : ∀ c res, (c, res) ∈ s.callbacks → s.completed c = true ∧ ∃ cmd, cmds[c]? = some cmd ∧
        shapeOk cmd res = true ∧
        ∀ t e, entryOf cmd res t = some e → ∃ o, (t, o) ∈ s.sem c ∧ e = tresp cmd o
  CB2 : (s.callbacks.map (·.1)).Nodup
  CB3 : ∀ c, s.completed c = false → c ∉ s.callbacks.map (·.1)

theorem inv2_init (cmds : List Cmd) : Inv2 cmds init := by
  refine ⟨?_, ?_, ?_, ?_, ?_, ?_⟩ <;> intros <;> simp_all [init]

theorem inv2_step {cmds : List Cmd} (h : wfCfg cmds = true) {s : State} (inv : Inv cmds s)
    (inv2 : Inv2 cmds s) (st : Step) : Inv2 cmds (step cmds s st) := by
  obtain ⟨S1, S2, S3, CB, CB2, CB3⟩ := inv2
  rcases step_cases inv st with ⟨hs, hcb, hco, hfin, hfin'⟩ | ⟨i, k, o, u, hk, hpc, heq, hrep⟩ | ⟨c, cmd, hc, hnc, hlen, heq⟩
  · -- (A) invisible
    refine ⟨?_, ?_, ?_, ?_, ?_, ?_⟩
    · intro c t o hm
      rw [hs] at hm
      obtain ⟨cmd, p, h1, h2, h3⟩ := S1 c t o hm
      exact ⟨cmd, p, h1, h2, by rw [hfin _ o h3]; exact h3⟩
    · intro c; rw [hs]; exact S2 c
    · intro c p o hp
      rw [hs]; exact S3 c p o (hfin' _ o hp)
    · intro c res hm
      rw [hcb] at hm; rw [hco, hs]; exact CB c res hm
    · rw [hcb]; exact CB2
    · intro c; rw [hco, hcb]; exact CB3 c
  · -- (B) caller i returns o
    obtain ⟨cmd, hcmd, htgt, hid⟩ := keyOf_some hk
    have hnotfin : ∀ o', (s.call i).pc ≠ .finished o' := by
      intro o' e; rw [e] at hpc; cases hpc <;> rename_i x <;> cases x
    rw [heq]
    refine ⟨?_, ?_, ?_, ?_, ?_, ?_⟩
    · intro c t o' hm
      simp only [finish] at hm ⊢
      by_cases hci : c = i.1
      · subst hci
        simp only [upd_same, List.mem_append, List.mem_singleton, Prod.mk.injEq] at hm
        cases hm with
        | inl hm =>
          obtain ⟨cmd', p, h1, h2, h3⟩ := S1 _ t o' hm
          refine ⟨cmd', p, h1, h2, ?_⟩
          have : (i.1, p) ≠ i := by intro e; rw [e] at h3; exact hnotfin o' h3
          rw [upd_other _ _ _ _ this]; exact h3
        | inr hm =>
          obtain ⟨rfl, rfl⟩ := hm
          exact ⟨cmd, i.2, hcmd, htgt, by simp⟩
      · rw [upd_other _ _ _ _ hci] at hm
        obtain ⟨cmd', p, h1, h2, h3⟩ := S1 c t o' hm
        refine ⟨cmd', p, h1, h2, ?_⟩
        have : (c, p) ≠ i := by intro e; apply hci; rw [← e]
        rw [upd_other _ _ _ _ this]; exact h3
    · intro c
      simp only [finish]
      by_cases hci : c = i.1
      · subst hci
        simp only [upd_same, List.map_append, List.map_cons, List.map_nil]
        refine List.nodup_append.mpr ⟨S2 _, by simp, ?_⟩
        intro a ha b hb
        simp only [List.mem_singleton] at hb
        subst hb
        intro hab
        simp only [List.mem_map] at ha
        obtain ⟨⟨t, o'⟩, hm, hta⟩ := ha
        simp only at hta
        obtain ⟨cmd', p, h1, h2, h3⟩ := S1 _ t o' hm
        have hcc : cmd' = cmd := by rw [hcmd] at h1; exact (Option.some.inj h1).symm
        subst hcc
        have hp : p = i.2 := distinctTargets_inj _ _ _ _ (wf_targets h hcmd) h2 (by rw [hta, hab]; exact htgt)
        subst hp
        exact hnotfin o' h3
      · rw [upd_other _ _ _ _ hci]; exact S2 c
    · intro c p o' hp
      simp only [finish] at hp ⊢
      by_cases hi : (c, p) = i
      · subst hi
        simp only [upd_same] at hp
        cases hp
        exact ⟨cmd, k.target, hcmd, htgt, by simp⟩
      · rw [upd_other _ _ _ _ hi] at hp
        obtain ⟨cmd', t, h1, h2, h3⟩ := S3 c p o' hp
        refine ⟨cmd', t, h1, h2, ?_⟩
        by_cases hci : c = i.1
        · subst hci; simp [h3]
        · rw [upd_other _ _ _ _ hci]; exact h3
    · intro c res hm
      simp only [finish] at hm ⊢
      obtain ⟨h1, cmd', h2, h3, h4⟩ := CB c res hm
      refine ⟨h1, cmd', h2, h3, ?_⟩
      intro t e he
      obtain ⟨o', ho', heo⟩ := h4 t e he
      refine ⟨o', ?_, heo⟩
      by_cases hci : c = i.1
      · subst hci; simp [ho']
      · rw [upd_other _ _ _ _ hci]; exact ho'
    · exact CB2
    · exact CB3
  · -- (C) command c completes
    rw [heq]
    have hnd := S2 c
    have hin : ∀ t o, (t, o) ∈ s.sem c → t ∈ cmd.targets ∧ ownOrError cmd t (tresp cmd o) = true := by
      intro t o hm
      obtain ⟨cmd', p, h1, h2, h3⟩ := S1 c t o hm
      have hcc : cmd' = cmd := by rw [hc] at h1; exact (Option.some.inj h1).symm
      subst hcc
      refine ⟨List.mem_of_getElem? h2, ?_⟩
      cases o with
      | reply r =>
        have hk1 := inv.F (c, p) r h3
        have hk2 := keyOf_of h1 h2
        rw [hk1] at hk2
        have := Option.some.inj hk2
        simp only [Resp.key, CallId.mk.injEq] at this
        simp [tresp, ownOrError, this.1, this.2]
      | sendErr => simp [tresp, ownOrError]
      | timeoutErr => simp [tresp, ownOrError]
    obtain ⟨hshape, hent⟩ := commit_ok cmd (s.sem c) hnd hin hlen
    refine ⟨S1, S2, S3, ?_, ?_, ?_⟩
    · intro c' res hm
      simp only [List.mem_append, List.mem_singleton, Prod.mk.injEq] at hm
      cases hm with
      | inl hm =>
        obtain ⟨h1, rest⟩ := CB c' res hm
        refine ⟨?_, rest⟩
        by_cases hcc : c' = c
        · subst hcc; simp
        · simp only; rw [upd_other _ _ _ _ hcc]; exact h1
      | inr hm =>
        obtain ⟨rfl, rfl⟩ := hm
        exact ⟨by simp, cmd, hc, hshape, hent⟩
    · simp only [List.map_append, List.map_cons, List.map_nil]
      refine List.nodup_append.mpr ⟨CB2, by simp, ?_⟩
      intro a ha b hb
      simp only [List.mem_singleton] at hb
      subst hb
      intro hab; subst hab
      exact CB3 a hnc ha
    · intro c' hc'
      simp only at hc' ⊢
      by_cases hcc : c' = c
      · subst hcc; simp at hc'
      · rw [upd_other _ _ _ _ hcc] at hc'
        simp only [List.map_append, List.map_cons, List.map_nil, List.mem_append, List.mem_singleton, not_or]
        exact ⟨CB3 c' hc', hcc⟩

/-! ## reachable states -/

theorem inv_run {cmds : List Cmd} (h : wfCfg cmds = true) : ∀ (sched : List Step) (s : State),
    Inv cmds s → Inv2 cmds s → Inv cmds (run cmds s sched) ∧ Inv2 cmds (run cmds s sched) := by
  intro sched
  induction sched with
  | nil => intro s a b; exact ⟨a, b⟩
  | cons st rest ih => intro s a b; exact ih _ (inv_step h a st) (inv2_step h a b st)

theorem inv_run1 {cmds : List Cmd} (h : wfCfg cmds = true) : ∀ (sched : List Step) (s : State),
    Inv cmds s → Inv cmds (run cmds s sched) := by
  intro sched
  induction sched with
  | nil => intro s a; exact a
  | cons st rest ih => intro s a; exact ih _ (inv_step h a st)

theorem run_append (cmds : List Cmd) : ∀ (a b : List Step) (s : State),
    run cmds s (a ++ b) = run cmds (run cmds s a) b := by
  intro a
  induction a with
  | nil => intro b s; rfl
  | cons st rest ih => intro b s; simp only [List.cons_append, run]; exact ih b _

/-- A caller that has returned never moves again. -/
theorem finished_step {cmds : List Cmd} {s : State} (inv : Inv cmds s) (st : Step) (i : Ref) (o : Outcome)
    (hf : (s.call i).pc = .finished o) : (step cmds s st).call i = s.call i := by
  rcases step_cases inv st with ⟨_, _, _, hfin, _⟩ | ⟨i', k, o', u, hk, hpc, heq, _⟩ | ⟨c, cmd, _, _, _, heq⟩
  · exact hfin i o hf
  · rw [heq]; simp only [finish]
    have : i ≠ i' := by
      intro e; subst e; rw [hf] at hpc; cases hpc <;> rename_i x <;> cases x
    exact upd_other _ _ _ _ this
  · rw [heq]

theorem finished_run {cmds : List Cmd} (h : wfCfg cmds = true) : ∀ (sched : List Step) (s : State),
    Inv cmds s → ∀ i o, (s.call i).pc = .finished o → (run cmds s sched).call i = s.call i := by
  intro sched
  induction sched with
  | nil => intro s _ i o _; rfl
  | cons st rest ih =>
    intro s inv i o hf
    have h1 := finished_step inv st i o hf
    simp only [run]
    rw [ih _ (inv_step h inv st) i o (by rw [h1]; exact hf), h1]

/-- Callbacks are only ever appended. -/
theorem callbacks_step {cmds : List Cmd} (s : State) (st : Step) :
    ∃ extra, (step cmds s st).callbacks = s.callbacks ++ extra := by
  cases st <;> simp only [step] <;> (repeat' split) <;> first | (refine ⟨[], ?_⟩; simp [finish]; done) | exact ⟨_, rfl⟩

theorem callbacks_run {cmds : List Cmd} : ∀ (sched : List Step) (s : State),
    ∃ extra, (run cmds s sched).callbacks = s.callbacks ++ extra := by
  intro sched
  induction sched with
  | nil => intro s; exact ⟨[], by simp [run]⟩
  | cons st rest ih =>
    intro s
    obtain ⟨e1, h1⟩ := callbacks_step (cmds := cmds) s st
    obtain ⟨e2, h2⟩ := ih (step cmds s st)
    exact ⟨e1 ++ e2, by simp only [run]; rw [h2, h1, List.append_assoc]⟩

/-! ## causes -/

/-- The step that makes caller `i` return `o`. -/
def causeStep (i : Ref) : Outcome → Step
  | .reply _ => .recv i
  | .sendErr => .sendFail i
  | .timeoutErr => .timeout i

theorem pc_step_cause {cmds : List Cmd} (s : State) (st : Step) (i : Ref) (o : Outcome)
    (hf : ((step cmds s st).call i).pc = .finished o) :
    (s.call i).pc = .finished o ∨
      (st = causeStep i o ∧ ∀ r, o = .reply r → (s.call i).mailbox = some r) := by
  cases st <;> simp only [step] at hf <;> (repeat' split at hf) <;>
    (try simp only [finish, upd] at hf) <;> grind [causeStep]

theorem mailbox_step_cause {cmds : List Cmd} (s : State) (st : Step) (i : Ref) (r : Resp)
    (hm : ((step cmds s st).call i).mailbox = some r) :
    (s.call i).mailbox = some r ∨ st = .deliver r := by
  cases st <;> simp only [step] at hm <;> (repeat' split at hm) <;>
    (try simp only [finish, upd] at hm) <;> grind

theorem mailbox_run_cause {cmds : List Cmd} : ∀ (sched : List Step) (s : State) (i : Ref) (r : Resp),
    ((run cmds s sched).call i).mailbox = some r → (s.call i).mailbox = some r ∨ .deliver r ∈ sched := by
  intro sched
  induction sched with
  | nil => intro s i r h; exact .inl h
  | cons st rest ih =>
    intro s i r h
    rcases ih _ i r h with h1 | h1
    · rcases mailbox_step_cause s st i r h1 with h2 | h2
      · exact .inl h2
      · exact .inr (by simp [h2])
    · exact .inr (List.mem_cons_of_mem _ h1)

theorem outcome_run_cause {cmds : List Cmd} : ∀ (sched : List Step) (s : State) (i : Ref) (o : Outcome),
    ((run cmds s sched).call i).pc = .finished o →
    (s.call i).pc = .finished o ∨
      (causeStep i o ∈ sched ∧ ∀ r, o = .reply r → ((s.call i).mailbox = some r ∨ .deliver r ∈ sched)) := by
  intro sched
  induction sched with
  | nil => intro s i o h; exact .inl h
  | cons st rest ih =>
    intro s i o h
    rcases ih _ i o h with h1 | ⟨h1, h2⟩
    · rcases pc_step_cause s st i o h1 with h3 | ⟨h3, h4⟩
      · exact .inl h3
      · exact .inr ⟨by simp [h3], fun r hr => .inl (h4 r hr)⟩
    · refine .inr ⟨List.mem_cons_of_mem _ h1, ?_⟩
      intro r hr
      rcases h2 r hr with h5 | h5
      · rcases mailbox_step_cause s st i r h5 with h6 | h6
        · exact .inl h6
        · exact .inr (by simp [h6])
      · exact .inr (List.mem_cons_of_mem _ h5)

/-! ## non-interference -/

/-- The steps that concern caller `i`: its own, the dequeue of its command, and
    the arrival of a response addressed to ITS key. -/
def concerns (cmds : List Cmd) (i : Ref) : Step → Bool
  | .start c => decide (c = i.1)
  | .register j => decide (j = i)
  | .sendOk j => decide (j = i)
  | .sendFail j => decide (j = i)
  | .recv j => decide (j = i)
  | .timeout j => decide (j = i)
  | .deliver r => decide (keyOf? cmds i = some r.key)
  | .complete _ => false

/-- What caller `i` can see of a state. -/
def View (i : Ref) (k : CallId) (s s' : State) : Prop :=
  s.call i = s'.call i ∧ s.pending k = s'.pending k ∧ s.started i.1 = s'.started i.1

theorem view_step_same {cmds : List Cmd} (h : wfCfg cmds = true) {s s' : State} {i : Ref} {k : CallId}
    (hk : keyOf? cmds i = some k) (inv : Inv cmds s) (v : View i k s s') (st : Step)
    (hc : concerns cmds i st = true) : View i k (step cmds s st) (step cmds s' st) := by
  have inj := @keyOf_inj cmds h
  obtain ⟨P, O, M, F, V⟩ := inv
  obtain ⟨v1, v2, v3⟩ := v
  cases st <;> simp only [concerns, decide_eq_true_eq, Bool.false_eq_true] at hc <;>
    simp only [View, step] <;> (try subst hc) <;> (try simp only [hk]) <;>
    (repeat' split) <;> (try simp only [finish, upd, ↓reduceIte]) <;> grind [Resp.key]

theorem view_step_other {cmds : List Cmd} (h : wfCfg cmds = true) {s s' : State} {i : Ref} {k : CallId}
    (hk : keyOf? cmds i = some k) (inv : Inv cmds s) (v : View i k s s') (st : Step)
    (hc : concerns cmds i st = false) : View i k (step cmds s st) s' := by
  have inj := @keyOf_inj cmds h
  obtain ⟨P, O, M, F, V⟩ := inv
  obtain ⟨v1, v2, v3⟩ := v
  cases st <;> simp only [concerns, decide_eq_false_iff_not] at hc <;>
    simp only [View, step] <;>
    (repeat' split) <;> (try simp only [finish, upd, ↓reduceIte]) <;> grind [Resp.key]

theorem view_run {cmds : List Cmd} (h : wfCfg cmds = true) {i : Ref} {k : CallId}
    (hk : keyOf? cmds i = some k) : ∀ (sched : List Step) (s s' : State), Inv cmds s → View i k s s' →
    View i k (run cmds s sched) (run cmds s' (sched.filter (concerns cmds i))) := by
  intro sched
  induction sched with
  | nil => intro s s' _ v; exact v
  | cons st rest ih =>
    intro s s' inv v
    cases hc : concerns cmds i st with
    | true =>
      simp only [List.filter_cons, hc, ↓reduceIte, run]
      exact ih _ _ (inv_step h inv st) (view_step_same h hk inv v st hc)
    | false =>
      simp only [List.filter_cons, hc, Bool.false_eq_true, ↓reduceIte, run]
      exact ih _ _ (inv_step h inv st) (view_step_other h hk inv v st hc)

/-! ## liveness: nothing can block a command for ever -/

theorem key_of_active {cmds : List Cmd} {s : State} (inv : Inv cmds s) (i : Ref)
    (hpc : (s.call i).pc ≠ .idle) : ∃ k, keyOf? cmds i = some k := by
  cases hk : keyOf? cmds i with
  | some k => exact ⟨k, rfl⟩
  | none => have := inv.V i hk; rw [this] at hpc; exact absurd rfl hpc

/-- register; send; time out — whatever state caller `i` is in, these three
    steps (each a no-op when it does not apply) make it return. -/
def three (i : Ref) : List Step := [.register i, .sendOk i, .timeout i]

theorem three_finishes {cmds : List Cmd} {s : State} {i : Ref} {k : CallId}
    (hk : keyOf? cmds i = some k) (hst : s.started i.1 = true) :
    ∃ o, ((run cmds s (three i)).call i).pc = .finished o := by
  simp only [three, run, step, hk, hst, true_and]
  cases hpc : (s.call i).pc <;> simp [hpc, upd, finish]

theorem started_step {cmds : List Cmd} (s : State) (st : Step) (c : Nat) (h : s.started c = true) :
    (step cmds s st).started c = true := by
  cases st <;> simp only [step] <;> (repeat' split) <;> (try simp only [finish, upd]) <;> grind

theorem started_run {cmds : List Cmd} : ∀ (sched : List Step) (s : State) (c : Nat),
    s.started c = true → (run cmds s sched).started c = true := by
  intro sched
  induction sched with
  | nil => intro s c h; exact h
  | cons st rest ih => intro s c h; exact ih _ c (started_step s st c h)

def isComplete : Step → Bool
  | .complete _ => true
  | _ => false

theorem completed_step {cmds : List Cmd} (s : State) (st : Step) (h : isComplete st = false) :
    (step cmds s st).completed = s.completed := by
  cases st <;> simp only [isComplete, Bool.true_eq_false] at h <;> simp only [step] <;>
    (repeat' split) <;> simp [finish]

theorem completed_run {cmds : List Cmd} : ∀ (sched : List Step) (s : State),
    (∀ st ∈ sched, isComplete st = false) → (run cmds s sched).completed = s.completed := by
  intro sched
  induction sched with
  | nil => intro s _; rfl
  | cons st rest ih =>
    intro s h
    simp only [run]
    rw [ih _ (fun x hx => h x (List.mem_cons_of_mem _ hx)), completed_step s st (h st List.mem_cons_self)]

/-- The schedule that drives every caller of command `c` (positions `ps`) home. -/
def driveHome (c : Nat) : List Nat → List Step
  | [] => []
  | p :: ps => three (c, p) ++ driveHome c ps

theorem driveHome_noComplete (c : Nat) : ∀ ps, ∀ st ∈ driveHome c ps, isComplete st = false := by
  intro ps
  induction ps with
  | nil => intro st h; simp [driveHome] at h
  | cons p ps ih =>
    intro st h
    simp only [driveHome, three, List.cons_append, List.nil_append, List.mem_cons] at h
    rcases h with h | h | h | h
    · subst h; rfl
    · subst h; rfl
    · subst h; rfl
    · exact ih st h

theorem driveHome_finishes {cmds : List Cmd} (h : wfCfg cmds = true) (c : Nat) : ∀ (ps : List Nat) (s : State),
    Inv cmds s → s.started c = true →
    ∀ p, (p ∈ ps ∨ ∃ o, (s.call (c, p)).pc = .finished o) → (∃ k, keyOf? cmds (c, p) = some k) →
      ∃ o, ((run cmds s (driveHome c ps)).call (c, p)).pc = .finished o := by
  intro ps
  induction ps with
  | nil =>
    intro s _ _ p hp _
    rcases hp with hp | hp
    · simp at hp
    · exact hp
  | cons q ps ih =>
    intro s inv hst p hp hk
    simp only [driveHome, run_append]
    have invr : Inv cmds (run cmds s (three (c, q))) := inv_run1 h _ _ inv
    apply ih _ invr (started_run _ _ _ hst) p _ hk
    by_cases hpq : p = q
    · subst hpq
      obtain ⟨k, hk'⟩ := hk
      exact .inr (three_finishes hk' hst)
    · rcases hp with hp | ⟨o, ho⟩
      · simp only [List.mem_cons] at hp
        rcases hp with hp | hp
        · exact absurd hp hpq
        · exact .inl hp
      · exact .inr ⟨o, by rw [finished_run h _ _ inv _ o ho]; exact ho⟩

theorem nodup_subset_length : ∀ (l m : List Nat), l.Nodup → (∀ x ∈ l, x ∈ m) → l.length ≤ m.length := by
  intro l
  induction l with
  | nil => intro m _ _; simp
  | cons a l' ih =>
    intro m hnd hsub
    have ham : a ∈ m := hsub a List.mem_cons_self
    have hnd' := List.nodup_cons.mp hnd
    have hsub' : ∀ y ∈ l', y ∈ m.erase a := by
      intro y hy
      have hya : y ≠ a := by intro e; subst e; exact hnd'.1 hy
      exact (List.mem_erase_of_ne hya).mpr (hsub y (List.mem_cons_of_mem _ hy))
    have := ih (m.erase a) hnd'.2 hsub'
    rw [List.length_erase_of_mem ham] at this
    have hpos : 0 < m.length := List.length_pos_of_mem ham
    simp only [List.length_cons]; omega

/-- Once every caller of command `c` has returned, `commit` has its
    len(targets) semaphore entries. -/
theorem sem_full {cmds : List Cmd} (h : wfCfg cmds = true) {s : State} (inv2 : Inv2 cmds s) {c : Nat} {cmd : Cmd}
    (hc : cmds[c]? = some cmd)
    (hall : ∀ p t, cmd.targets[p]? = some t → ∃ o, (s.call (c, p)).pc = .finished o) :
    (s.sem c).length = cmd.targets.length := by
  have h1 : ((s.sem c).map (·.1)).length ≤ cmd.targets.length := by
    apply nodup_subset_length _ _ (inv2.S2 c)
    intro x hx
    simp only [List.mem_map] at hx
    obtain ⟨⟨t, o⟩, hm, hxt⟩ := hx
    obtain ⟨cmd', p, e1, e2, _⟩ := inv2.S1 c t o hm
    have : cmd' = cmd := by rw [hc] at e1; exact (Option.some.inj e1).symm
    subst this
    simp only at hxt; rw [← hxt]; exact List.mem_of_getElem? e2
  have h2 : cmd.targets.length ≤ ((s.sem c).map (·.1)).length := by
    apply nodup_subset_length _ _ (distinctTargets_nodup _ (wf_targets h hc))
    intro t ht
    obtain ⟨p, hp⟩ := List.mem_iff_getElem?.mp ht
    obtain ⟨o, ho⟩ := hall p t hp
    obtain ⟨cmd', t', e1, e2, e3⟩ := inv2.S3 c p o ho
    have : cmd' = cmd := by rw [hc] at e1; exact (Option.some.inj e1).symm
    subst this
    have : t' = t := by rw [hp] at e2; exact (Option.some.inj e2).symm
    subst this
    exact List.mem_map.mpr ⟨(t', o), e3, rfl⟩
  simp only [List.length_map] at h1 h2
  omega

/-- From ANY reachable state in which command `c` has been dequeued and not yet
    answered, the schedule "every caller: register, send, time out; then
    complete" — all steps the environment cannot disable — delivers its callback. -/
theorem can_complete {cmds : List Cmd} (h : wfCfg cmds = true) {s : State} (inv : Inv cmds s) (inv2 : Inv2 cmds s)
    {c : Nat} {cmd : Cmd} (hc : cmds[c]? = some cmd) (hst : s.started c = true) (hnc : s.completed c = false) :
    ∃ res, (c, res) ∈ (run cmds s (driveHome c (List.range cmd.targets.length) ++ [.complete c])).callbacks := by
  rw [run_append]
  generalize hs1 : run cmds s (driveHome c (List.range cmd.targets.length)) = s1
  have ⟨i1, i2⟩ := inv_run h (driveHome c (List.range cmd.targets.length)) s inv inv2
  rw [hs1] at i1 i2
  have st1 : s1.started c = true := by rw [← hs1]; exact started_run _ _ _ hst
  have nc1 : s1.completed c = false := by
    rw [← hs1, completed_run _ _ (driveHome_noComplete c _)]; exact hnc
  have hall : ∀ p t, cmd.targets[p]? = some t → ∃ o, (s1.call (c, p)).pc = .finished o := by
    intro p t hp
    rw [← hs1]
    apply driveHome_finishes h c _ s inv hst p
    · left
      have : p < cmd.targets.length := by
        cases Nat.lt_or_ge p cmd.targets.length with
        | inl h => exact h
        | inr h => rw [List.getElem?_eq_none h] at hp; cases hp
      exact List.mem_range.mpr this
    · exact ⟨_, keyOf_of hc hp⟩
  have hlen := sem_full h i2 hc hall
  refine ⟨commit cmd (s1.sem c), ?_⟩
  simp [run, step, hc, st1, nc1, hlen]

/-! ## the per-target command: own timeout, own arguments -/

theorem sendView_ok {cmds : List Cmd} {i : Ref} {ok : Bool} {e : Ev} (h : sendView cmds i ok = some e) :
    sendOk1 cmds e = true := by
  unfold sendView callCmd at h
  cases hc : cmds[i.1]? with
  | none => simp [hc] at h
  | some cmd =>
    cases ht : cmd.targets[i.2]? with
    | none => simp [hc, ht] at h
    | some t =>
      have hm := List.mem_of_getElem? ht
      simp [hc, ht, singleTarget_of_mem hm] at h
      subst h
      simp [sendOk1, hc, hm, argOf_single]

theorem sendTrace_ok (cmds : List Cmd) : ∀ (sched : List Step) (s : State),
    sendsOk cmds (sendTrace cmds s sched) = true := by
  intro sched
  induction sched with
  | nil => intro s; simp [sendTrace, sendsOk]
  | cons st rest ih =>
    intro s
    have ih' := ih (step cmds s st)
    simp only [sendsOk] at ih' ⊢
    simp only [sendTrace, List.all_append, Bool.and_eq_true, ih', and_true]
    cases he : emitSend cmds s st with
    | none => simp
    | some e =>
      have : sendOk1 cmds e = true := by
        cases st <;> simp only [emitSend] at he <;> (try cases he) <;>
          (split at he <;> first | exact sendView_ok he | cases he)
      simp [this]

/-! ## a reply that finds its call pending is never lost -/

/-- A response sitting in a caller's `Call` object stays there: `ProcessResponse`
    only ever writes to a call it found pending, and such a call has none. -/
theorem mailbox_stable_step {cmds : List Cmd} {s : State} (inv : Inv cmds s) (st : Step) (i : Ref) (r0 : Resp)
    (hm : (s.call i).mailbox = some r0) : ((step cmds s st).call i).mailbox = some r0 := by
  obtain ⟨P, O, M, F, V⟩ := inv
  cases st <;> simp only [step] <;> (repeat' split) <;> (try simp only [finish, upd]) <;> grind

theorem mailbox_stable_run {cmds : List Cmd} (h : wfCfg cmds = true) : ∀ (sched : List Step) (s : State),
    Inv cmds s → ∀ i r0, (s.call i).mailbox = some r0 → ((run cmds s sched).call i).mailbox = some r0 := by
  intro sched
  induction sched with
  | nil => intro s _ i r0 hm; exact hm
  | cons st rest ih =>
    intro s inv i r0 hm
    exact ih _ (inv_step h inv st) i r0 (mailbox_stable_step inv st i r0 hm)

/-- `G`: a caller that returned a reply still holds it in its `Call` object. -/
def ReplyHeld (s : State) : Prop :=
  ∀ i r, (s.call i).pc = .finished (.reply r) → (s.call i).mailbox = some r

theorem replyHeld_step {cmds : List Cmd} {s : State} (inv : Inv cmds s) (g : ReplyHeld s) (st : Step) :
    ReplyHeld (step cmds s st) := by
  intro i r hf
  rcases pc_step_cause s st i (.reply r) hf with h1 | ⟨_, h2⟩
  · exact mailbox_stable_step inv st i r (g i r h1)
  · exact mailbox_stable_step inv st i r (h2 r rfl)

theorem replyHeld_run {cmds : List Cmd} (h : wfCfg cmds = true) : ∀ (sched : List Step) (s : State),
    Inv cmds s → ReplyHeld s → ReplyHeld (run cmds s sched) := by
  intro sched
  induction sched with
  | nil => intro s _ g; exact g
  | cons st rest ih => intro s inv g; exact ih _ (inv_step h inv st) (replyHeld_step inv g st)

theorem replyHeld_init : ReplyHeld init := by
  intro i r h; simp [init] at h

/-- Between register and unregister. -/
def Active (s : State) (i : Ref) : Prop := (s.call i).pc = .registered ∨ (s.call i).pc = .waiting

/-- A caller between register and unregister stays there under every step but
    its own send failure / timeout — or ends up holding a response. -/
theorem active_step {cmds : List Cmd} {s : State} (st : Step) (i : Ref) (ha : Active s i)
    (h1 : st ≠ .timeout i) (h2 : st ≠ .sendFail i) :
    Active (step cmds s st) i ∨ ((step cmds s st).call i).mailbox ≠ none := by
  unfold Active at *
  cases st <;> simp only [step] <;> (repeat' split) <;> (try simp only [finish, upd]) <;> grind

theorem active_run {cmds : List Cmd} (h : wfCfg cmds = true) : ∀ (mid : List Step) (s : State) (i : Ref),
    Inv cmds s → Active s i → Step.timeout i ∉ mid → Step.sendFail i ∉ mid →
    Active (run cmds s mid) i ∨ ((run cmds s mid).call i).mailbox ≠ none := by
  intro mid
  induction mid with
  | nil => intro s i _ ha _ _; exact .inl ha
  | cons st rest ih =>
    intro s i inv ha h1 h2
    simp only [List.mem_cons, not_or] at h1 h2
    rcases active_step (cmds := cmds) st i ha (Ne.symm h1.1) (Ne.symm h2.1) with h3 | h3
    · exact ih _ i (inv_step h inv st) h3 h1.2 h2.2
    · right
      cases hm : ((step cmds s st).call i).mailbox with
      | none => exact absurd hm h3
      | some r0 =>
        simp only [run]
        rw [mailbox_stable_run h rest _ (inv_step h inv st) i r0 hm]
        simp

/-- `ProcessResponse(r)` on a caller that is between register and unregister:
    afterwards the caller's `Call` object holds a response. -/
theorem deliver_fills {cmds : List Cmd} {s : State} (inv : Inv cmds s) {i : Ref} {r : Resp}
    (hk : keyOf? cmds i = some r.key) (ha : Active s i) :
    ((step cmds s (.deliver r)).call i).mailbox ≠ none := by
  cases hm : (s.call i).mailbox with
  | some r0 => rw [mailbox_stable_step inv (.deliver r) i r0 hm]; simp
  | none =>
    have hp := inv.O i r.key hk ha hm
    simp [step, hp]

end CmdQueue
