/-
  Proofs/DeployAttempts — lemmas behind the attempt-loop theorems of Props/C02.

  * one offers round (`roundOutcome`): complete ⇒ everything launched; incomplete ⇒ nothing launched; the verdict of
    acquireTasks on it is "no critical descriptor misses its machine's offer";
  * the loop (`acquireLoop`) of the code as it is: bounded, verdicts independent of earlier attempts, only the last
    attempt launches anything, success iff some attempt within the limit is not a failure, and what is kept / marked;
  * from there to the DEPLOY wait (`OWorkflow.eff`) and to the workflow as the master saw it (`OWorkflow.seen`).
-/
import ControlModel.Proofs.Transition

namespace Trans

/-! ### indexed lists -/

theorem indexed_length {α} (xs : List α) : (indexed xs).length = xs.length := by
  simp [indexed]

theorem indexed_map_snd {α} (xs : List α) : (indexed xs).map (·.2) = xs := by
  unfold indexed
  exact List.map_snd_zip (by simp)

theorem indexed_getElem? {α} (xs : List α) (i : Nat) (p : Nat × α) :
    (indexed xs)[i]? = some p ↔ p.1 = i ∧ xs[i]? = some p.2 := by
  unfold indexed
  rw [List.getElem?_zip_eq_some]
  constructor
  · rintro ⟨h1, h2⟩
    refine ⟨?_, h2⟩
    rw [List.getElem?_range] at h1
    · simpa using h1.symm
    · exact (List.getElem?_eq_some_iff.1 h2).1
  · rintro ⟨h1, h2⟩
    refine ⟨?_, h2⟩
    rw [List.getElem?_range (List.getElem?_eq_some_iff.1 h2).1, h1]

theorem mem_indexed {α} (xs : List α) (p : Nat × α) : p ∈ indexed xs ↔ xs[p.1]? = some p.2 := by
  rw [List.mem_iff_getElem?]
  constructor
  · rintro ⟨i, hi⟩
    obtain ⟨h1, h2⟩ := (indexed_getElem? xs i p).1 hi
    rw [h1]; exact h2
  · intro h
    exact ⟨p.1, (indexed_getElem? xs p.1 p).2 ⟨rfl, h⟩⟩

theorem indexed_any {α} (xs : List α) (f : α → Bool) : (indexed xs).any (fun p => f p.2) = xs.any f := by
  conv => rhs; rw [← indexed_map_snd xs, List.any_map]
  rfl

theorem indexed_all {α} (xs : List α) (f : α → Bool) : (indexed xs).all (fun p => f p.2) = xs.all f := by
  conv => rhs; rw [← indexed_map_snd xs, List.all_map]
  rfl

theorem indexed_map {α β} (xs : List α) (f : α → β) :
    indexed (xs.map f) = (indexed xs).map (fun p => (p.1, f p.2)) := by
  unfold indexed
  rw [List.length_map, List.zip_map_right]
  rfl

theorem critAt_of_mem (ds : List Desc) (p : Nat × Desc) (h : p ∈ indexed ds) : critAt ds p.1 = p.2.critical := by
  rw [mem_indexed] at h
  simp [critAt, h]

/-! ### one offers round -/

/-- The undeployable descriptors of a round (indices). -/
def undOf (ds : List Desc) (r : Round) : List Nat := ((indexed ds).filter (fun p => !p.2.offered r)).map (·.1)

theorem undOf_isEmpty (ds : List Desc) (r : Round) : (undOf ds r).isEmpty = complete ds r := by
  unfold undOf complete
  rw [List.isEmpty_map, ← indexed_all ds (fun d => d.offered r)]
  rw [Bool.eq_iff_iff, List.isEmpty_iff, List.filter_eq_nil_iff, List.all_eq_true]
  constructor
  · intro h p hp; have := h p hp; simpa using this
  · intro h p hp; have := h p hp; simpa using this

theorem roundOutcome_eq (ds : List Desc) (r : Round) :
    roundOutcome ds r = if complete ds r then { deployed := List.range ds.length, undeployable := [] }
                        else { deployed := [], undeployable := undOf ds r } := by
  unfold roundOutcome
  simp only
  rw [show ((indexed ds).filter (fun p => !p.2.offered r)).map (·.1) = undOf ds r from rfl, undOf_isEmpty]

/-- The critical descriptors among the undeployable ones: exactly when a critical descriptor misses its offer. -/
theorem undOf_any_crit (ds : List Desc) (r : Round) : (undOf ds r).any (critAt ds) = critMissing ds r := by
  unfold undOf critMissing
  rw [List.any_map, List.any_filter, ← indexed_any ds (fun d => d.critical && !d.offered r)]
  rw [Bool.eq_iff_iff]
  simp only [List.any_eq_true]
  constructor <;> rintro ⟨p, hp, h⟩ <;> refine ⟨p, hp, ?_⟩ <;>
    simpa [critAt_of_mem ds p hp, Bool.and_comm] using h

theorem critMissing_incomplete (ds : List Desc) (r : Round) (h : critMissing ds r = true) : complete ds r = false := by
  simp only [critMissing, List.any_eq_true, Bool.and_eq_true, Bool.not_eq_true'] at h
  obtain ⟨d, hd, _, ho⟩ := h
  cases hc : complete ds r
  · rfl
  · simp only [complete, List.all_eq_true] at hc
    rw [hc d hd] at ho; cases ho

/-- acquireTasks' verdict on the outcome of a round: a failure iff a CRITICAL descriptor misses its machine's offer. -/
theorem attemptVerdict_round (ds : List Desc) (r : Round) :
    attemptVerdict ds (roundOutcome ds r) = !critMissing ds r := by
  rw [roundOutcome_eq]
  cases hc : complete ds r
  · simp only [Bool.false_eq_true, ↓reduceIte, attemptVerdict, List.length_nil]
    have hne : ds ≠ [] := by
      intro h; subst h; simp [complete] at hc
    have : (0 : Nat) ≠ ds.length := by
      intro h; exact hne (List.length_eq_zero_iff.1 h.symm)
    simp only [this, ne_eq, not_false_eq_true, ↓reduceIte, undOf_any_crit]
  · simp only [↓reduceIte, attemptVerdict, List.length_range, ne_eq, not_true_eq_false]
    cases hm : critMissing ds r
    · rfl
    · rw [critMissing_incomplete ds r hm] at hc; cases hc

/-- What happens to tasks launched in an incomplete round: there are none (the round is abandoned before anything is
    launched). -/
theorem roundOutcome_incomplete (ds : List Desc) (r : Round) (h : complete ds r = false) :
    (roundOutcome ds r).deployed = [] := by
  rw [roundOutcome_eq, h]; rfl

theorem roundOutcome_complete (ds : List Desc) (r : Round) (h : complete ds r = true) :
    (roundOutcome ds r).deployed = List.range ds.length ∧ (roundOutcome ds r).undeployable = [] := by
  rw [roundOutcome_eq, h]; exact ⟨rfl, rfl⟩

theorem roundOutcome_undeployable_any (ds : List Desc) (r : Round) :
    (roundOutcome ds r).undeployable.any (critAt ds) = critMissing ds r := by
  rw [roundOutcome_eq]
  cases hc : complete ds r
  · simp only [Bool.false_eq_true, ↓reduceIte, undOf_any_crit]
  · simp only [↓reduceIte, List.any_nil]
    cases hm : critMissing ds r
    · rfl
    · rw [critMissing_incomplete ds r hm] at hc; cases hc

theorem marked_nil (ds : List Desc) (r : Round) (h : critMissing ds r = false) :
    (roundOutcome ds r).undeployable.filter (critAt ds) = [] := by
  rw [List.filter_eq_nil_iff]
  intro i hi hcrit
  have : (roundOutcome ds r).undeployable.any (critAt ds) = true := List.any_eq_true.2 ⟨i, hi, hcrit⟩
  rw [roundOutcome_undeployable_any, h] at this; cases this

/-- A critical descriptor exists, so an attempt that launched nothing left a critical descriptor unlaunched. -/
theorem critUnlaunched_nil (ds : List Desc) (r : Round) (h : critMissing ds r = true) : critUnlaunched ds [] = true := by
  unfold critUnlaunched
  simp only [List.contains_nil, Bool.not_false, Bool.and_true]
  rw [indexed_any ds (fun d => d.critical)]
  simp only [critMissing, List.any_eq_true, Bool.and_eq_true] at h ⊢
  obtain ⟨d, hd, hc, _⟩ := h
  exact ⟨d, hd, hc⟩

/-! ### the attempt loop -/

/-- One step of the loop of the code as it is, spelled out with `critMissing`. -/
theorem acquireLoop_code_succ (m c : Nat) (ds : List Desc) (n : Nat) (flag : Bool) (rs : List Round) :
    acquireLoop ⟨m, true, c⟩ ds (n + 1) flag rs =
      if critMissing ds (rs.headD []) = false then
        { attempts := [(roundOutcome ds (rs.headD [])).deployed], ok := true,
          kept := (roundOutcome ds (rs.headD [])).deployed, marked := [] }
      else if n = 0 then
        { attempts := [[]], ok := false, kept := [],
          marked := (roundOutcome ds (rs.headD [])).undeployable.filter (critAt ds) }
      else
        { acquireLoop ⟨m, true, c⟩ ds n false rs.tail with
          attempts := [] :: (acquireLoop ⟨m, true, c⟩ ds n false rs.tail).attempts } := by
  rw [acquireLoop]
  simp only [↓reduceIte, Bool.true_and, attemptVerdict_round]
  generalize rs.headD [] = r
  cases hm : critMissing ds r
  · simp [marked_nil ds r hm]
  · have hd := roundOutcome_incomplete ds r (critMissing_incomplete ds r hm)
    by_cases hn : n = 0
    · simp [hn, hd]
    · simp [hn, hd]

/-- The verdict on an attempt does not depend on what the earlier attempts left in the flag. -/
theorem acquireLoop_code_flag (m c : Nat) (ds : List Desc) (n : Nat) (flag : Bool) (rs : List Round) :
    acquireLoop ⟨m, true, c⟩ ds (n + 1) flag rs = acquireLoop ⟨m, true, c⟩ ds (n + 1) true rs := by
  rw [acquireLoop_code_succ, acquireLoop_code_succ]

/-- Never more attempts than the limit — whatever the configuration. -/
theorem acquireLoop_length (cfg : AcqCfg) (ds : List Desc) (n : Nat) :
    ∀ (flag : Bool) (rs : List Round), (acquireLoop cfg ds n flag rs).attempts.length ≤ n := by
  induction n with
  | zero => intro flag rs; simp [acquireLoop]
  | succ n ih =>
    intro flag rs
    rw [acquireLoop]
    simp only
    repeat' split
    all_goals first
      | (simp only [List.length_cons]; exact Nat.succ_le_succ (ih _ _))
      | simp

theorem acquireLoop_attempts_ne (cfg : AcqCfg) (ds : List Desc) (n : Nat) (flag : Bool) (rs : List Round) :
    (acquireLoop cfg ds (n + 1) flag rs).attempts ≠ [] := by
  rw [acquireLoop]
  simp only
  repeat' split
  all_goals simp

theorem retriesJustified_cons (ds : List Desc) (l : List Nat) (rest : List (List Nat))
    (h1 : critUnlaunched ds l = true) (h2 : retriesJustified ds rest = true) :
    retriesJustified ds (l :: rest) = true := by
  cases rest with
  | nil => rfl
  | cons l' rest => simp [retriesJustified, h1, h2]

theorem lastAttempt_cons (l : List Nat) (rest : List (List Nat)) (h : rest ≠ []) :
    lastAttempt (l :: rest) = lastAttempt rest := by
  cases rest with
  | nil => exact absurd rfl h
  | cons l' rest => simp [lastAttempt, List.getLast?_cons_cons]

/-- Everything about the loop of the code as it is, by induction over the attempts left. -/
theorem acquireLoop_code_facts (m c : Nat) (ds : List Desc) (n : Nat) :
    ∀ (flag : Bool) (rs : List Round),
      let a := acquireLoop ⟨m, true, c⟩ ds (n + 1) flag rs
      retriesJustified ds a.attempts = true ∧
      (∀ l ∈ a.attempts.dropLast, l = []) ∧
      (a.ok = true → a.kept = lastAttempt a.attempts ∧ a.marked = []) ∧
      (a.ok = false → a.kept = [] ∧ critUnlaunched ds (lastAttempt a.attempts) = true) ∧
      (a.ok = true ↔ ∃ i, i < n + 1 ∧ critMissing ds (rs.getD i []) = false) := by
  induction n with
  | zero =>
    intro flag rs
    simp only
    rw [acquireLoop_code_succ]
    cases hm : critMissing ds (rs.headD [])
    · simp only [↓reduceIte]
      refine ⟨rfl, by simp, by simp [lastAttempt], by simp, ?_⟩
      simp only [true_iff]
      exact ⟨0, by omega, by cases rs <;> simpa using hm⟩
    · simp only [Bool.true_eq_false, ↓reduceIte]
      refine ⟨rfl, by simp, by simp, by simpa [lastAttempt] using critUnlaunched_nil ds _ hm, ?_⟩
      simp only [Bool.false_eq_true, false_iff, not_exists, not_and]
      intro i hi
      have : i = 0 := by omega
      subst this
      cases rs <;> simpa using hm
  | succ n ih =>
    intro flag rs
    simp only
    rw [acquireLoop_code_succ]
    cases hm : critMissing ds (rs.headD [])
    · simp only [↓reduceIte]
      refine ⟨rfl, by simp, by simp [lastAttempt], by simp, ?_⟩
      simp only [true_iff]
      exact ⟨0, by omega, by cases rs <;> simpa using hm⟩
    · simp only [Bool.true_eq_false, ↓reduceIte, Nat.add_eq_zero_iff, Nat.succ_ne_self, and_false]
      obtain ⟨h1, h2, h3, h4, h5⟩ := ih false rs.tail
      have hne := acquireLoop_attempts_ne ⟨m, true, c⟩ ds n false rs.tail
      refine ⟨retriesJustified_cons ds [] _ (critUnlaunched_nil ds _ hm) h1, ?_, ?_, ?_, ?_⟩
      · intro l hl
        rw [List.dropLast_cons_of_ne_nil hne] at hl
        rcases List.mem_cons.1 hl with rfl | hl
        · rfl
        · exact h2 l hl
      · intro hok
        rw [lastAttempt_cons _ _ hne]
        exact h3 hok
      · intro hok
        rw [lastAttempt_cons _ _ hne]
        exact h4 hok
      · rw [h5]
        constructor
        · rintro ⟨i, hi, hc⟩
          refine ⟨i + 1, by omega, ?_⟩
          cases rs with
          | nil => simpa using hc
          | cons r rs => simpa using hc
        · rintro ⟨i, hi, hc⟩
          cases i with
          | zero =>
            exfalso
            have : critMissing ds (rs.headD []) = false := by cases rs <;> simpa using hc
            rw [hm] at this; cases this
          | succ i =>
            refine ⟨i, by omega, ?_⟩
            cases rs with
            | nil => simpa using hc
            | cons r rs => simpa using hc

theorem headD_getD (rs : List Round) : rs.headD [] = rs.getD 0 [] := by cases rs <;> rfl

theorem tail_getD (rs : List Round) (j : Nat) : rs.tail.getD j [] = rs.getD (j + 1) [] := by
  cases rs <;> simp

/-- Closed form, success: the first attempt that is not a failure (within the limit) decides; the attempts before it
    launched nothing, its tasks are kept, nothing is marked. -/
theorem acquireLoop_code_first (m c : Nat) (ds : List Desc) :
    ∀ (i n : Nat) (flag : Bool) (rs : List Round), i < n →
      (∀ j, j < i → critMissing ds (rs.getD j []) = true) → critMissing ds (rs.getD i []) = false →
      acquireLoop ⟨m, true, c⟩ ds n flag rs =
        { attempts := List.replicate i [] ++ [(roundOutcome ds (rs.getD i [])).deployed], ok := true,
          kept := (roundOutcome ds (rs.getD i [])).deployed, marked := [] } := by
  intro i
  induction i with
  | zero =>
    intro n flag rs hn _ h0
    obtain ⟨n, rfl⟩ : ∃ k, n = k + 1 := ⟨n - 1, by omega⟩
    rw [acquireLoop_code_succ, headD_getD, h0]
    simp
  | succ i ih =>
    intro n flag rs hn hfail hgood
    obtain ⟨n, rfl⟩ : ∃ k, n = k + 1 := ⟨n - 1, by omega⟩
    have h0 := hfail 0 (by omega)
    have hn0 : n ≠ 0 := by omega
    rw [acquireLoop_code_succ, headD_getD, h0]
    simp only [Bool.true_eq_false, ↓reduceIte, hn0]
    rw [ih n false rs.tail (by omega)
      (fun j hj => by rw [tail_getD]; exact hfail (j + 1) (by omega))
      (by rw [tail_getD]; exact hgood)]
    simp [List.replicate_succ]

/-- Closed form, failure: every attempt up to the limit is a failure; nothing was launched, nothing is kept, the
    critical descriptors that missed their offer in the LAST round are marked. -/
theorem acquireLoop_code_exhausted (m c : Nat) (ds : List Desc) :
    ∀ (n : Nat) (flag : Bool) (rs : List Round),
      (∀ j, j < n + 1 → critMissing ds (rs.getD j []) = true) →
      acquireLoop ⟨m, true, c⟩ ds (n + 1) flag rs =
        { attempts := List.replicate (n + 1) [], ok := false, kept := [],
          marked := (roundOutcome ds (rs.getD n [])).undeployable.filter (critAt ds) } := by
  intro n
  induction n with
  | zero =>
    intro flag rs h
    rw [acquireLoop_code_succ, headD_getD, h 0 (by omega)]
    simp
  | succ n ih =>
    intro flag rs h
    rw [acquireLoop_code_succ, headD_getD, h 0 (by omega)]
    simp only [Bool.true_eq_false, ↓reduceIte, Nat.add_eq_zero_iff, Nat.succ_ne_self, and_false]
    rw [ih false rs.tail (fun j hj => by rw [tail_getD]; exact h (j + 1) (by omega))]
    simp [List.replicate_succ]

/-! ### from acquireTasks to the DEPLOY wait, and to what the master saw -/

theorem acquire_code_nonempty (ds : List Desc) (rs : List Round) (h : ds ≠ []) :
    acquire AcqCfg.code ds rs = acquireLoop ⟨attemptLimit, true, 1⟩ ds (2 + 1) true rs := by
  unfold acquire
  have : ds.isEmpty = false := by cases ds <;> simp_all
  simp [this, AcqCfg.code, attemptLimit]

/-- The loop does not look at the channel its verdicts come through: the capacity changes nothing. -/
theorem acquireLoop_cap (m : Nat) (r : Bool) (c c' : Nat) (ds : List Desc) (n : Nat) :
    ∀ (flag : Bool) (rs : List Round), acquireLoop ⟨m, r, c⟩ ds n flag rs = acquireLoop ⟨m, r, c'⟩ ds n flag rs := by
  induction n with
  | zero => intro flag rs; rfl
  | succ n ih =>
    intro flag rs
    simp only [acquireLoop, ih]

/-- acquireTasks itself — every verdict heard — is the same before and after the repair of the hand-over. -/
theorem acquire_legacy (ds : List Desc) (rs : List Round) : acquire AcqCfg.legacy ds rs = acquire AcqCfg.code ds rs := by
  unfold acquire
  split
  · rfl
  · exact acquireLoop_cap attemptLimit true 0 1 ds attemptLimit true rs

theorem acquire_nil (cfg : AcqCfg) (rs : List Round) :
    acquire cfg [] rs = { attempts := [], ok := true, kept := [], marked := [] } := by
  simp [acquire]

theorem critUnlaunched_tasks (w : OWorkflow) (l : List Nat) (h : critUnlaunched w.descs l = true) :
    ∃ p ∈ indexed w.tasks, p.2.critical = true ∧ l.contains p.1 = false := by
  unfold critUnlaunched OWorkflow.descs at h
  rw [indexed_map, List.any_map] at h
  obtain ⟨p, hp, h⟩ := List.any_eq_true.1 h
  simp only [Function.comp_apply, OTask.desc, Bool.and_eq_true, Bool.not_eq_true'] at h
  exact ⟨p, hp, h.1, h.2⟩

theorem eff_not_launched (w : OWorkflow) (a : Acquired) (l : List Nat) (hk : a.kept = [])
    (h : critUnlaunched w.descs l = true) :
    allCriticalLaunched (w.eff a).tasks = false := by
  obtain ⟨p, hp, hc, _⟩ := critUnlaunched_tasks w _ h
  unfold allCriticalLaunched OWorkflow.eff
  rw [List.all_eq_false]
  refine ⟨(p.2.critical, effLaunch a p.1 p.2.launch), List.mem_map.2 ⟨p, hp, rfl⟩, ?_⟩
  simp only [effLaunch, hk, List.contains_nil, Bool.false_eq_true, ↓reduceIte, hc, Bool.not_true, Bool.false_or]
  split <;> simp [Launch.started]

/-- The workflow with every task on its machine: what the model without offers rounds starts from. -/
def OWorkflow.plain (w : OWorkflow) : Workflow :=
  { calls := w.calls, tasks := w.tasks.map (fun t => (t.critical, t.launch)), notifyLost := w.notifyLost }

theorem mem_indexed_lt {α} (xs : List α) (p : Nat × α) (h : p ∈ indexed xs) : p.1 < xs.length ∧ p.2 ∈ xs := by
  rw [mem_indexed] at h
  obtain ⟨hl, he⟩ := List.getElem?_eq_some_iff.1 h
  exact ⟨hl, he ▸ List.getElem_mem hl⟩

/-- Every role got its task: the DEPLOY wait sees the scripts. -/
theorem eff_all (w : OWorkflow) (a : Acquired) (hk : a.kept = List.range w.tasks.length) : w.eff a = w.plain := by
  simp only [OWorkflow.eff, OWorkflow.plain]
  congr 1
  rw [← indexed_map_snd w.tasks, List.map_map]
  simp only [indexed_map_snd]
  apply List.map_congr_left
  intro p hp
  obtain ⟨hlt, _⟩ := mem_indexed_lt w.tasks p hp
  simp [effLaunch, hk, hlt]

/-- No role got a task: DEPLOY cannot succeed (there is at least one task role). -/
theorem eff_tasks_ne (w : OWorkflow) (a : Acquired) (hne : w.tasks ≠ []) : (w.eff a).tasks ≠ [] := by
  intro h
  apply hne
  have : (indexed w.tasks).length = 0 := by simpa [OWorkflow.eff] using congrArg List.length h
  rw [indexed_length] at this
  exact List.length_eq_zero_iff.1 this

theorem eff_none_fails (cfg : Cfg) (w : OWorkflow) (a : Acquired) (hk : a.kept = []) (hne : w.tasks ≠ []) :
    deployBody cfg (w.eff a).tasks w.calls w.notifyLost ≠ .ok := by
  rw [Ne, deployBody_ok]
  rintro (⟨_, h, _⟩ | ⟨_, _, hall⟩)
  · exact eff_tasks_ne w a hne h
  obtain ⟨t, ts, ht⟩ := List.exists_cons_of_ne_nil hne
  have hmem : ((0 : Nat), t) ∈ indexed w.tasks := by
    rw [mem_indexed, ht]; rfl
  have := hall (t.critical, effLaunch a 0 t.launch) (by
    simp only [OWorkflow.eff, List.mem_map]
    exact ⟨(0, t), hmem, rfl⟩)
  simp only [effLaunch, hk, List.contains_nil, Bool.false_eq_true, ↓reduceIte] at this
  split at this <;> cases this

theorem asOffered_complete (w : OWorkflow) (n : Nat) (hc : complete w.descs (lastRound w.rounds n) = true) :
    w.asOffered n = w.plain := by
  simp only [OWorkflow.asOffered, OWorkflow.plain]
  congr 1
  apply List.map_congr_left
  intro t ht
  simp only [complete, OWorkflow.descs, List.all_map, List.all_eq_true] at hc
  have := hc t ht
  simp only [Function.comp_apply] at this
  simp [this]

/-- The last round leaves only NON-critical tasks without their machine: "a non-critical task that did not start". -/
theorem asOffered_noncrit_fail (w : OWorkflow) (n : Nat) (hc : complete w.descs (lastRound w.rounds n) = false)
    (hm : critMissing w.descs (lastRound w.rounds n) = false) :
    noncritLaunchFail (w.asOffered n).tasks = true := by
  simp only [complete, OWorkflow.descs, List.all_map, List.all_eq_false, Function.comp_apply] at hc
  obtain ⟨t, ht, ho⟩ := hc
  simp only [critMissing, OWorkflow.descs, List.any_map, List.any_eq_false, Function.comp_apply, Bool.and_eq_true,
    Bool.not_eq_true', not_and, Bool.not_eq_false] at hm
  have hcrit : t.critical = false := by
    cases h : t.critical
    · rfl
    · have := hm t ht (by simpa [OTask.desc] using h)
      rw [this] at ho; exact absurd rfl ho
  simp only [noncritLaunchFail, OWorkflow.asOffered, List.any_map, List.any_eq_true, Function.comp_apply]
  refine ⟨t, ht, ?_⟩
  have ho' : t.desc.offered (lastRound w.rounds n) = false := by simpa using ho
  simp [hcrit, ho', Launch.started]

/-- The last round leaves a critical task without its machine: not every critical task can have started. -/
theorem asOffered_crit_missing (w : OWorkflow) (n : Nat) (hm : critMissing w.descs (lastRound w.rounds n) = true) :
    allCriticalLaunched (w.asOffered n).tasks = false := by
  simp only [critMissing, OWorkflow.descs, List.any_map, List.any_eq_true, Function.comp_apply, Bool.and_eq_true,
    Bool.not_eq_true'] at hm
  obtain ⟨t, ht, hcrit, ho⟩ := hm
  simp only [allCriticalLaunched, OWorkflow.asOffered, List.all_map, List.all_eq_false, Function.comp_apply]
  refine ⟨t, ht, ?_⟩
  have hcrit' : t.critical = true := by simpa [OTask.desc] using hcrit
  simp [hcrit', ho, Launch.started]

end Trans
