/-
  Proofs/Env — frame lemmas and state-graph lemmas for the environment machine.
-/
import ControlModel.Model.Env
import ControlModel.Spec.C01

namespace EnvM

/-! ### hooks never touch state, run number, variables, clock, counter -/

/-- The part of an environment that hook handling leaves alone. -/
structure Core where
  st : St
  rn : Nat
  vars : Vars
  clock : Nat
  counter : Nat
  gone : Bool
  deriving DecidableEq

def Env.core (e : Env) : Core :=
  { st := e.st, rn := e.rn, vars := e.vars, clock := e.clock, counter := e.counter, gone := e.gone }

@[simp] theorem bumpExec_core (env : Env) (id : Nat) : (bumpExec env id).core = env.core := rfl

theorem instantiate_core (env : Env) (hs : List Hook) : (instantiate env hs).1.core = env.core := by
  induction hs generalizing env with
  | nil => rfl
  | cons h hs ih => simp only [instantiate]; rw [ih]; rfl

theorem phase1_core (env : Env) (hooks : List Hook) (m : Moment) (w : Int) :
    (phase1 env hooks m w).1.core = env.core := by
  unfold phase1; simp only
  exact instantiate_core env _

theorem phase2_core (env : Env) (m : Moment) (w : Int) : (phase2 env m w).1.core = env.core := by
  unfold phase2; simp only; split <;> rfl

theorem handleWeight_core (env : Env) (hooks : List Hook) (m : Moment) (w : Int) :
    (handleWeight env hooks m w).1.core = env.core := by
  unfold handleWeight
  simp only
  rw [instantiate_core, phase2_core, phase1_core]

theorem handleWeights_core (env : Env) (hooks : List Hook) (m : Moment) (ws : List Int) :
    (handleWeights env hooks m ws).1.core = env.core := by
  induction ws generalizing env with
  | nil => rfl
  | cons w ws ih =>
    simp only [handleWeights]
    split
    · exact handleWeight_core env hooks m w
    · simp only; rw [ih, handleWeight_core]

theorem handleHooks_core (env : Env) (hooks : List Hook) (m : Moment) (p : Int → Bool) :
    (handleHooks env hooks m p).1.core = env.core := handleWeights_core env hooks m _

theorem handleHooks_st (env : Env) (hooks : List Hook) (m : Moment) (p : Int → Bool) :
    (handleHooks env hooks m p).1.st = env.st := congrArg Core.st (handleHooks_core env hooks m p)

theorem handleHooks_gone (env : Env) (hooks : List Hook) (m : Moment) (p : Int → Bool) :
    (handleHooks env hooks m p).1.gone = env.gone := congrArg Core.gone (handleHooks_core env hooks m p)

theorem handleHooks_vars (env : Env) (hooks : List Hook) (m : Moment) (p : Int → Bool) :
    (handleHooks env hooks m p).1.vars = env.vars := congrArg Core.vars (handleHooks_core env hooks m p)

theorem handleHooks_rn (env : Env) (hooks : List Hook) (m : Moment) (p : Int → Bool) :
    (handleHooks env hooks m p).1.rn = env.rn := congrArg Core.rn (handleHooks_core env hooks m p)

end EnvM

namespace EnvM

/-! ### the callbacks never touch the state or the listing flag -/

theorem tick_st (env : Env) : (tick env).1.st = env.st ∧ (tick env).1.gone = env.gone := ⟨rfl, rfl⟩

theorem setSoeorIfEmpty_st (env : Env) (tr : String) (p : Bool) :
    (setSoeorIfEmpty env tr p).1.st = env.st ∧ (setSoeorIfEmpty env tr p).1.gone = env.gone := by
  unfold setSoeorIfEmpty; split <;> exact ⟨rfl, rfl⟩

theorem setEoeorIfEmpty_st (env : Env) (tr : String) (s : RunStatus) :
    (setEoeorIfEmpty env tr s).1.st = env.st ∧ (setEoeorIfEmpty env tr s).1.gone = env.gone := by
  unfold setEoeorIfEmpty; split <;> exact ⟨rfl, rfl⟩

theorem bkBefore_st (env : Env) (e : Ev) (r : Bool) :
    (bkBefore env e r).1.st = env.st ∧ (bkBefore env e r).1.gone = env.gone ∧ (bkBefore env e r).1.pending = env.pending := by
  unfold bkBefore
  cases e <;> simp only [] <;> (try split) <;>
    first
    | trivial
    | exact ⟨rfl, rfl, rfl⟩
    | (unfold setSoeorIfEmpty; split <;> exact ⟨rfl, rfl, rfl⟩)

theorem beforeEvent_st (env : Env) (hooks : List Hook) (e : Ev) (r : Bool) :
    (beforeEvent env hooks e r).1.st = env.st ∧ (beforeEvent env hooks e r).1.gone = env.gone := by
  unfold beforeEvent
  simp only
  (repeat' split) <;> simp [handleHooks_st, handleHooks_gone, (bkBefore_st _ _ _).1, (bkBefore_st _ _ _).2.1]

theorem leaveState_st (env : Env) (hooks : List Hook) (e : Ev) (b : Bool) :
    (leaveState env hooks e b).1.st = env.st ∧ (leaveState env hooks e b).1.gone = env.gone := by
  unfold leaveState
  simp only
  (repeat' split) <;>
    simp [handleHooks_st, handleHooks_gone, setSoeorIfEmpty_st]

theorem enterState_st (env : Env) (hooks : List Hook) :
    (enterState env hooks).1.st = env.st ∧ (enterState env hooks).1.gone = env.gone := by
  unfold enterState
  simp [handleHooks_st, handleHooks_gone]

theorem bkAfter_st (env : Env) (e : Ev) (f : Bool) :
    (bkAfter env e f).1.st = env.st ∧ (bkAfter env e f).1.gone = env.gone ∧ (bkAfter env e f).1.pending = env.pending := by
  unfold bkAfter
  cases e <;> simp only [] <;>
    first
    | trivial
    | exact ⟨rfl, rfl, rfl⟩
    | (unfold setEoeorIfEmpty; split <;> exact ⟨rfl, rfl, rfl⟩)

theorem finAfter_st (env : Env) (e : Ev) :
    (finAfter env e).1.st = env.st ∧ (finAfter env e).1.gone = env.gone ∧ (finAfter env e).1.pending = env.pending := by
  unfold finAfter; split <;> exact ⟨rfl, rfl, rfl⟩

theorem afterEvent_st (env : Env) (hooks : List Hook) (e : Ev) (errs : List (Nat × Moment)) :
    (afterEvent env hooks e errs).1.st = env.st ∧ (afterEvent env hooks e errs).1.gone = env.gone := by
  unfold afterEvent
  simp only
  rw [(finAfter_st _ _).1, (finAfter_st _ _).2.1, handleHooks_st, handleHooks_gone, (bkAfter_st _ _ _).1, (bkAfter_st _ _ _).2.1,
    handleHooks_st, handleHooks_gone]
  exact ⟨rfl, rfl⟩

/-- Results after which the state is the one before the request. -/
def Result.keepsState : Result → Bool
  | .illegal | .cancelledHooks .. | .cancelledBody | .cancelledRn => true
  | _ => false

/-- Results after which the state is the destination of the table. -/
def Result.moved : Result → Bool
  | .ok | .reported _ => true
  | _ => false

theorem beforeEvent_res (env : Env) (hooks : List Hook) (e : Ev) (r : Bool) (res : Result)
    (h : (beforeEvent env hooks e r).2.2 = some res) : res.keepsState = true := by
  unfold beforeEvent at h
  simp only at h
  revert h
  (repeat' split) <;> intro h <;> (first | (cases h; rfl) | (cases h))

theorem leaveState_res (env : Env) (hooks : List Hook) (e : Ev) (b : Bool) (res : Result)
    (h : (leaveState env hooks e b).2.2 = some res) : res.keepsState = true := by
  unfold leaveState at h
  simp only at h
  revert h
  (repeat' split) <;> intro h <;> (first | (cases h; rfl) | (cases h))

/-- What `Sm.Event` can do to the state: nothing, or move it to the table's
    destination — and which of the two is told by the result. -/
theorem fsmEvent_st (env : Env) (hooks : List Hook) (e : Ev) (b r : Bool) :
    (fsmEvent env hooks e b r).1.gone = env.gone ∧
    (((fsmEvent env hooks e b r).1.st = env.st ∧ (fsmEvent env hooks e b r).2.2.keepsState = true) ∨
     (∃ d, dst? e env.st = some d ∧ (fsmEvent env hooks e b r).1.st = d ∧ (fsmEvent env hooks e b r).2.2.moved = true)) := by
  unfold fsmEvent
  split
  · exact ⟨rfl, Or.inl ⟨rfl, rfl⟩⟩
  · rename_i d hd
    simp only
    have hb := beforeEvent_st env hooks e r
    split
    · rename_i res hres
      exact ⟨hb.2, Or.inl ⟨hb.1, beforeEvent_res _ _ _ _ _ hres⟩⟩
    · have hl := leaveState_st (beforeEvent env hooks e r).1 hooks e b
      split
      · rename_i res hres
        exact ⟨by rw [hl.2, hb.2], Or.inl ⟨by rw [hl.1, hb.1], leaveState_res _ _ _ _ _ hres⟩⟩
      · refine ⟨?_, Or.inr ⟨d, hd, ?_, ?_⟩⟩
        · rw [(afterEvent_st ..).2, (enterState_st ..).2]; simp [hl.2, hb.2]
        · rw [(afterEvent_st ..).1, (enterState_st ..).1]
        · split <;> rfl

end EnvM

namespace EnvM

theorem callAllSync_st (env : Env) (m : Moment) (w : Int) (hs : List Hook) :
    (callAllSync env m w hs).1.st = env.st ∧ (callAllSync env m w hs).1.gone = env.gone := by
  induction hs generalizing env with
  | nil => exact ⟨rfl, rfl⟩
  | cons h hs ih => simp only [callAllSync]; exact ih _

theorem destroyWeights_st (env : Env) (hooks : List Hook) (ws : List Int) :
    (destroyWeights env hooks ws).1.st = env.st ∧ (destroyWeights env hooks ws).1.gone = env.gone := by
  induction ws generalizing env with
  | nil => exact ⟨rfl, rfl⟩
  | cons w ws ih =>
    simp only [destroyWeights]
    have h1 := ih (callAllSync env (destroyHooksAt hooks w).2 w ((destroyHooksAt hooks w).1.filter (fun h => !h.isTask))).1
    have h2 := callAllSync_st env (destroyHooksAt hooks w).2 w ((destroyHooksAt hooks w).1.filter (fun h => !h.isTask))
    exact ⟨h1.1.trans h2.1, h1.2.trans h2.2⟩

@[simp] theorem setSoeor_st (env : Env) (tr : String) (p : Bool) : (setSoeorIfEmpty env tr p).1.st = env.st := (setSoeorIfEmpty_st ..).1
@[simp] theorem setSoeor_gone (env : Env) (tr : String) (p : Bool) : (setSoeorIfEmpty env tr p).1.gone = env.gone := (setSoeorIfEmpty_st ..).2
@[simp] theorem setEoeor_st (env : Env) (tr : String) (p : RunStatus) : (setEoeorIfEmpty env tr p).1.st = env.st := (setEoeorIfEmpty_st ..).1
@[simp] theorem setEoeor_gone (env : Env) (tr : String) (p : RunStatus) : (setEoeorIfEmpty env tr p).1.gone = env.gone := (setEoeorIfEmpty_st ..).2
@[simp] theorem destroyWeights_st' (env : Env) (hooks : List Hook) (ws : List Int) : (destroyWeights env hooks ws).1.st = env.st := (destroyWeights_st ..).1
@[simp] theorem destroyWeights_gone' (env : Env) (hooks : List Hook) (ws : List Int) : (destroyWeights env hooks ws).1.gone = env.gone := (destroyWeights_st ..).2
attribute [simp] handleHooks_st handleHooks_gone

/-- Teardown: either nothing reportable changes (and the request is refused or fails), or the
    environment is DONE and unlisted (the result is ok, or the leftover error of the leave hooks). -/
theorem teardown_st (env : Env) (hooks : List Hook) (f r1 r2 : Bool) (n : Nat) :
    ((teardown env hooks f r1 r2 n).1.st = env.st ∧ (teardown env hooks f r1 r2 n).1.gone = env.gone ∧
        (teardown env hooks f r1 r2 n).2.2 ≠ .ok) ∨
    (env.st ≠ .DONE ∧ (teardown env hooks f r1 r2 n).1.st = .DONE ∧ (teardown env hooks f r1 r2 n).1.gone = true ∧
        (teardown env hooks f r1 r2 n).2.2.moved = true) := by
  unfold teardown
  split
  · exact Or.inl ⟨rfl, rfl, by simp⟩
  · rename_i hnd
    split
    · exact Or.inl ⟨rfl, rfl, by simp⟩
    · simp only
      (repeat' split) <;>
        first
        | (right; exact ⟨hnd, rfl, rfl, rfl⟩)
        | (left; refine ⟨?_, ?_, by simp⟩ <;> simp)

end EnvM

namespace EnvM

theorem goError_dst (s d : St) (h : dst? .GO_ERROR s = some d) : d = .ERROR := by
  cases s <;> simp [dst?] at h <;> exact h.symm

theorem isOk_moved (r : Result) (h : r.isOk = true) : r.keepsState = false := by
  cases r <;> simp_all [Result.isOk, Result.keepsState]

/-- The ControlEnvironment glue: either the request succeeded and nothing else
    happened, or the environment ends in ERROR with the request's own result, or — the
    request failed on (or, for an event the API does not offer, into) a DONE environment — it
    stays DONE, again with the request's own result. -/
theorem controlApi_cases (hooks : List Hook) (env : Env) (e : Ev) (b r : Bool) :
    ((controlApi env hooks e b r).2.2.isOk = true ∧ controlApi env hooks e b r = tryTransition env hooks e b r) ∨
    ((controlApi env hooks e b r).2.2.isOk = false ∧ (controlApi env hooks e b r).1.st = .ERROR ∧
      (controlApi env hooks e b r).1.gone = env.gone ∧
      (controlApi env hooks e b r).2.2 = (tryTransition env hooks e b r).2.2) ∨
    ((controlApi env hooks e b r).2.2.isOk = false ∧ (controlApi env hooks e b r).1.st = .DONE ∧
      (tryTransition env hooks e b r).1.st = .DONE ∧
      (controlApi env hooks e b r).1.gone = env.gone ∧
      (controlApi env hooks e b r).2.2 = (tryTransition env hooks e b r).2.2) := by
  unfold controlApi
  simp only
  split
  · rename_i h; exact Or.inl ⟨h, rfl⟩
  · rename_i h
    have hg1 : (tryTransition env hooks e b r).1.gone = env.gone := (fsmEvent_st env hooks e b r).1
    have hgone : (tryTransition (tryTransition env hooks e b r).1 hooks .GO_ERROR true false).1.gone = env.gone := by
      unfold tryTransition
      rw [(fsmEvent_st (fsmEvent env hooks e b r).1 hooks .GO_ERROR true false).1]; exact hg1
    split
    · rename_i hc
      rcases Bool.or_eq_true _ _ |>.mp hc with hgo | hdone
      · refine Or.inr (Or.inl ⟨by simpa using h, ?_, hgone, rfl⟩)
        unfold tryTransition at hgo ⊢
        obtain ⟨_, hk | ⟨d, hd, hst, _⟩⟩ := fsmEvent_st (fsmEvent env hooks e b r).1 hooks .GO_ERROR true false
        · have := isOk_moved _ hgo; rw [hk.2] at this; cases this
        · simp only; rw [hst]; exact goError_dst _ _ hd
      · have hdone' : (tryTransition (tryTransition env hooks e b r).1 hooks .GO_ERROR true false).1.st = .DONE := by
          simpa using hdone
        refine Or.inr (Or.inr ⟨by simpa using h, hdone', ?_, hgone, rfl⟩)
        -- GO_ERROR never moves into DONE: the requested transition left DONE behind
        unfold tryTransition at hdone' ⊢
        obtain ⟨_, hk | ⟨d, hd, hst, _⟩⟩ := fsmEvent_st (fsmEvent env hooks e b r).1 hooks .GO_ERROR true false
        · rw [← hk.1]; exact hdone'
        · rw [hst, goError_dst _ _ hd] at hdone'; cases hdone'
    · exact Or.inr (Or.inl ⟨by simpa using h, rfl, hgone, rfl⟩)

/-- Where the two glues differ: only when the requested transition has left the environment in DONE. -/
theorem controlApiLegacy_eq (hooks : List Hook) (env : Env) (e : Ev) (b r : Bool)
    (hnd : (tryTransition env hooks e b r).1.st ≠ .DONE) :
    controlApiLegacy env hooks e b r = controlApi env hooks e b r := by
  unfold controlApiLegacy controlApi
  simp only
  split
  · rfl
  · have hne : (tryTransition (tryTransition env hooks e b r).1 hooks .GO_ERROR true false).1.st ≠ .DONE := by
      unfold tryTransition at hnd ⊢
      obtain ⟨_, hk | ⟨d, hd, hst, _⟩⟩ := fsmEvent_st (fsmEvent env hooks e b r).1 hooks .GO_ERROR true false
      · rw [hk.1]; exact hnd
      · rw [hst, goError_dst _ _ hd]; decide
    have hb : ((tryTransition (tryTransition env hooks e b r).1 hooks .GO_ERROR true false).1.st == St.DONE) = false := by
      simpa using hne
    rw [hb, Bool.or_false]

end EnvM
