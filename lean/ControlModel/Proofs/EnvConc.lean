/-
  Proofs/EnvConc — invariants of the concurrent-callers layer (Model/EnvConc):
  mutual exclusion, the log is a chain, every logged piece is what the piece does on its own.
-/
import ControlModel.Model.EnvConc

namespace EnvM

/-- at most one caller is inside the mutex -/
def AtMostOne (cs : List Caller) : Prop :=
  ∀ (i j : Nat) (ci cj : Caller), cs[i]? = some ci → cs[j]? = some cj → ci.isHolding = true → cj.isHolding = true → i = j

theorem free_iff (s : Sys) : s.free = true ↔ ∀ (j : Nat) (cj : Caller), s.callers[j]? = some cj → cj.isHolding = false := by
  simp only [Sys.free, List.all_eq_true, Bool.not_eq_true']
  constructor
  · intro h j cj hj; exact h cj (List.mem_of_getElem? hj)
  · intro h c hc
    obtain ⟨j, hj⟩ := List.getElem?_of_mem hc
    exact h j c hj

theorem getElem?_set_cases {α : Type} (l : List α) (i j : Nat) (a b : α) (h : (l.set i a)[j]? = some b) :
    (j = i ∧ b = a) ∨ (j ≠ i ∧ l[j]? = some b) := by
  by_cases hji : j = i
  · subst hji
    rw [List.getElem?_set_self'] at h
    cases hl : l[j]? with
    | none => rw [hl] at h; simp at h
    | some x => rw [hl] at h; simp at h; exact Or.inl ⟨rfl, h.symm⟩
  · rw [List.getElem?_set_ne (Ne.symm hji)] at h
    exact Or.inr ⟨hji, h⟩

/-- setting caller `i` to something that does not hold keeps "at most one" -/
theorem atMostOne_set_notHolding (cs : List Caller) (i : Nat) (c : Caller) (hc : c.isHolding = false)
    (h : AtMostOne cs) : AtMostOne (cs.set i c) := by
  intro a b ca cb ha hb hha hhb
  rcases getElem?_set_cases cs i a c ca ha with ⟨_, rfl⟩ | ⟨_, ha'⟩
  · rw [hc] at hha; cases hha
  · rcases getElem?_set_cases cs i b c cb hb with ⟨_, rfl⟩ | ⟨_, hb'⟩
    · rw [hc] at hhb; cases hhb
    · exact h a b ca cb ha' hb' hha hhb

/-- when nobody holds, caller `i` may start holding -/
theorem atMostOne_set_acquire (cs : List Caller) (i : Nat) (c : Caller)
    (hfree : ∀ (j : Nat) (cj : Caller), cs[j]? = some cj → cj.isHolding = false) : AtMostOne (cs.set i c) := by
  intro a b ca cb ha hb hha hhb
  rcases getElem?_set_cases cs i a c ca ha with ⟨rfl, _⟩ | ⟨_, ha'⟩
  · rcases getElem?_set_cases cs a b c cb hb with ⟨rfl, _⟩ | ⟨_, hb'⟩
    · rfl
    · rw [hfree b cb hb'] at hhb; cases hhb
  · rw [hfree a ca ha'] at hha; cases hha

theorem chained_append (e0 : Env) (log : List LogEntry) (x : LogEntry)
    (h : chained e0 log) (hx : x.before = lastEnv e0 log) : chained e0 (log ++ [x]) := by
  induction log generalizing e0 with
  | nil => exact ⟨hx, trivial⟩
  | cons y ys ih => exact ⟨h.1, ih y.after h.2 hx⟩

theorem lastEnv_append (e0 : Env) (log : List LogEntry) (x : LogEntry) : lastEnv e0 (log ++ [x]) = x.after := by
  induction log generalizing e0 with
  | nil => rfl
  | cons y ys ih => exact ih y.after

/-- The invariant of the concurrent layer. -/
structure ConcInv (hooks : List Hook) (n : Nat) (e0 : Env) (s : Sys) : Prop where
  mutex : AtMostOne s.callers
  chain : chained e0 s.log
  last : lastEnv e0 s.log = s.env
  faithful : ∀ x ∈ s.log, x.faithful hooks n

theorem concInv_init (hooks : List Hook) (n : Nat) (env : Env) (reqs : List Req) :
    ConcInv hooks n env (initSys env reqs) := by
  refine ⟨?_, trivial, rfl, by intro x hx; cases hx⟩
  intro i j ci cj hi _ hhi _
  simp only [initSys, List.getElem?_map] at hi
  cases h : reqs[i]? with
  | none => rw [h] at hi; cases hi
  | some q => rw [h] at hi; simp at hi; subst hi; cases hhi

theorem concInv_move (hooks : List Hook) (n : Nat) (e0 : Env) (s : Sys) (i : Nat)
    (h : ConcInv hooks n e0 s) : ConcInv hooks n e0 (move hooks n s i) := by
  unfold move
  split
  · exact h
  · rename_i c hc
    split
    · -- arrive: the look-up
      exact ⟨atMostOne_set_notHolding _ _ _ rfl h.mutex, h.chain, h.last, h.faithful⟩
    · -- start: take the mutex and run the locked piece
      split
      · rename_i hfree
        refine ⟨atMostOne_set_acquire _ _ _ ((free_iff s).mp hfree), ?_, ?_, ?_⟩
        · exact chained_append _ _ _ h.chain h.last.symm
        · exact lastEnv_append _ _ _
        · intro x hx
          rcases List.mem_append.mp hx with hx | hx
          · exact h.faithful x hx
          · simp only [List.mem_singleton] at hx; subst hx
            exact ⟨c.listed, rfl⟩
      · exact h
    · -- holding: release
      rename_i next _
      refine ⟨atMostOne_set_notHolding _ _ _ ?_ h.mutex, h.chain, h.last, h.faithful⟩
      cases next <;> rfl
    · -- GO_ERROR fallback: a locked piece
      split
      · rename_i hfree
        refine ⟨atMostOne_set_acquire _ _ _ ((free_iff s).mp hfree), ?_, ?_, ?_⟩
        · exact chained_append _ _ _ h.chain h.last.symm
        · exact lastEnv_append _ _ _
        · intro x hx
          rcases List.mem_append.mp hx with hx | hx
          · exact h.faithful x hx
          · simp only [List.mem_singleton] at hx; subst hx
            exact rfl
      · exact h
    · -- the glue's read of the state: unlocked, changes nothing
      refine ⟨atMostOne_set_notHolding _ _ _ ?_ h.mutex, h.chain, h.last, h.faithful⟩
      split <;> rfl
    · -- the forced write of ERROR: unlocked
      refine ⟨atMostOne_set_notHolding _ _ _ rfl h.mutex, ?_, ?_, ?_⟩
      · exact chained_append _ _ _ h.chain h.last.symm
      · exact lastEnv_append _ _ _
      · intro x hx
        rcases List.mem_append.mp hx with hx | hx
        · exact h.faithful x hx
        · simp only [List.mem_singleton] at hx; subst hx
          exact rfl
    · exact h
    · exact h

theorem concInv_run (hooks : List Hook) (n : Nat) (e0 : Env) (s : Sys) (sched : List Nat)
    (h : ConcInv hooks n e0 s) : ConcInv hooks n e0 (runSched hooks n s sched) := by
  induction sched generalizing s with
  | nil => exact h
  | cons i rest ih => exact ih _ (concInv_move hooks n e0 s i h)

/-! ### while one caller is inside, the newcomers wait -/

/-- caller `j` is inside the mutex and every other caller has not been inside yet -/
def HeldBy (s : Sys) (j : Nat) : Prop :=
  (∃ cj, s.callers[j]? = some cj ∧ cj.isHolding = true) ∧
  ∀ (i : Nat) (ci : Caller), i ≠ j → s.callers[i]? = some ci → ci.isNew = true

theorem not_free_of_holding (s : Sys) (j : Nat) (cj : Caller) (hj : s.callers[j]? = some cj)
    (hh : cj.isHolding = true) : s.free = false := by
  cases hf : s.free with
  | false => rfl
  | true => rw [(free_iff s).mp hf j cj hj] at hh; cases hh

/-- One move of a caller other than the holder: the environment and the log are untouched, the
    holder still holds and the others are still newcomers (none has run, none has returned). -/
theorem heldBy_move (hooks : List Hook) (n : Nat) (s : Sys) (j i : Nat) (hij : i ≠ j) (h : HeldBy s j) :
    HeldBy (move hooks n s i) j ∧ (move hooks n s i).env = s.env ∧ (move hooks n s i).log = s.log := by
  obtain ⟨⟨cj, hj, hh⟩, hnew⟩ := h
  unfold move
  split
  · exact ⟨⟨⟨cj, hj, hh⟩, hnew⟩, rfl, rfl⟩
  · rename_i c hc
    have hn := hnew i c hij hc
    have hfree := not_free_of_holding s j cj hj hh
    split
    · -- arrive: the look-up
      refine ⟨⟨⟨cj, ?_, hh⟩, ?_⟩, rfl, rfl⟩
      · simp only [List.getElem?_set_ne hij]; exact hj
      · intro k ck hkj hk
        rcases getElem?_set_cases _ _ _ _ _ hk with ⟨_, rfl⟩ | ⟨_, hk'⟩
        · rfl
        · exact hnew k ck hkj hk'
    · -- start: the mutex is busy
      simp only [hfree]
      exact ⟨⟨⟨cj, hj, hh⟩, hnew⟩, rfl, rfl⟩
    all_goals (rename_i hpc; simp [Caller.isNew, hpc] at hn)

theorem heldBy_run (hooks : List Hook) (n : Nat) (s : Sys) (j : Nat) (sched : List Nat)
    (hs : ∀ i ∈ sched, i ≠ j) (h : HeldBy s j) :
    HeldBy (runSched hooks n s sched) j ∧ (runSched hooks n s sched).env = s.env ∧
      (runSched hooks n s sched).log = s.log := by
  induction sched generalizing s with
  | nil => exact ⟨h, rfl, rfl⟩
  | cons i rest ih =>
    have h1 := heldBy_move hooks n s j i (hs i (List.mem_cons_self ..)) h
    have h2 := ih (move hooks n s i) (fun k hk => hs k (List.mem_cons_of_mem _ hk)) h1.1
    exact ⟨h2.1, h2.2.1.trans h1.2.1, h2.2.2.trans h1.2.2⟩

/-! ### the forced write is made by a caller that has been through its own critical sections -/

theorem forcedJustified_append (seen xs : List LogEntry) (x : LogEntry) :
    forcedJustified seen (xs ++ [x]) =
      (forcedJustified seen xs && (!x.isForce || wentThrough (seen ++ xs) x.caller)) := by
  induction xs generalizing seen with
  | nil => simp [forcedJustified]
  | cons y ys ih =>
    simp only [List.cons_append, forcedJustified, ih, List.append_assoc, List.nil_append, Bool.and_assoc]

theorem wentThrough_mono (log : List LogEntry) (x : LogEntry) (i : Nat) (h : wentThrough log i = true) :
    wentThrough (log ++ [x]) i = true := by
  simp only [wentThrough, Bool.and_eq_true, List.any_append] at h ⊢
  exact ⟨by simp [h.1], by simp [h.2]⟩

theorem anyOwn_mono (log : List LogEntry) (x : LogEntry) (i : Nat) (h : log.any (·.failedOwn i) = true) :
    (log ++ [x]).any (·.failedOwn i) = true := by
  simp [List.any_append, h]

/-- what the log holds about a caller, given where it is in its program -/
def pcWitness (log : List LogEntry) (i : Nat) : Pc → Prop
  | .holding (some .goError) => log.any (·.failedOwn i) = true
  | .between .goError => log.any (·.failedOwn i) = true
  | .holding (some .check) => wentThrough log i = true
  | .between .check => wentThrough log i = true
  | .between .force => wentThrough log i = true
  | .holding (some .force) => wentThrough log i = true    -- never reached
  | _ => True

theorem pcWitness_mono (log : List LogEntry) (x : LogEntry) (i : Nat) (pc : Pc) (h : pcWitness log i pc) :
    pcWitness (log ++ [x]) i pc := by
  unfold pcWitness at h ⊢
  split <;> simp_all [wentThrough_mono]

structure ForceInv (s : Sys) : Prop where
  just : forcedJustified [] s.log = true
  wit : ∀ (i : Nat) (c : Caller), s.callers[i]? = some c → pcWitness s.log i c.pc

theorem forceInv_init (env : Env) (reqs : List Req) : ForceInv (initSys env reqs) := by
  refine ⟨rfl, ?_⟩
  intro i c hi
  simp only [initSys, List.getElem?_map] at hi
  cases h : reqs[i]? with
  | none => rw [h] at hi; cases hi
  | some q => rw [h] at hi; simp at hi; subst hi; trivial

theorem forceInv_move (hooks : List Hook) (n : Nat) (s : Sys) (i : Nat) (h : ForceInv s) :
    ForceInv (move hooks n s i) := by
  unfold move
  split
  · exact h
  · rename_i c hc
    have hw := h.wit i c hc
    split
    · -- arrive
      refine ⟨h.just, ?_⟩
      intro k ck hk
      rcases getElem?_set_cases _ _ _ _ _ hk with ⟨_, rfl⟩ | ⟨_, hk'⟩
      · trivial
      · exact h.wit k ck hk'
    · -- start
      split
      · refine ⟨?_, ?_⟩
        · simp only [forcedJustified_append, h.just, LogEntry.isForce, Bool.true_and, Bool.not_false, Bool.true_or]
        · intro k ck hk
          rcases getElem?_set_cases _ _ _ _ _ hk with ⟨hki, rfl⟩ | ⟨_, hk'⟩
          · subst hki
            simp only
            cases hq : c.req with
            | try_ e b r => trivial
            | teardown f r1 r2 => trivial
            | control e b r =>
              simp only
              split
              · trivial
              · rename_i hres
                simp only [pcWitness, List.any_append, List.any_cons, List.any_nil, LogEntry.failedOwn, Bool.or_false]
                simp only [Bool.or_eq_true, not_or, Bool.not_eq_true] at hres
                simp [hres.1]
          · exact pcWitness_mono _ _ _ _ (h.wit k ck hk')
      · exact h
    · -- holding: release
      rename_i next hpc
      refine ⟨h.just, ?_⟩
      intro k ck hk
      rcases getElem?_set_cases _ _ _ _ _ hk with ⟨hki, rfl⟩ | ⟨_, hk'⟩
      · subst hki
        rw [hpc] at hw
        cases next with
        | none => trivial
        | some p => cases p <;> first | trivial | exact hw
      · exact h.wit k ck hk'
    · -- GO_ERROR fallback
      rename_i hpc
      rw [hpc] at hw
      split
      · refine ⟨?_, ?_⟩
        · simp only [forcedJustified_append, h.just, LogEntry.isForce, Bool.true_and, Bool.not_false, Bool.true_or]
        · intro k ck hk
          rcases getElem?_set_cases _ _ _ _ _ hk with ⟨hki, rfl⟩ | ⟨_, hk'⟩
          · subst hki
            simp only
            split
            · trivial
            · rename_i hres
              simp only [pcWitness, wentThrough, Bool.and_eq_true]
              refine ⟨anyOwn_mono _ _ _ hw, ?_⟩
              simp only [List.any_append, List.any_cons, List.any_nil, LogEntry.failedGoError, Bool.or_false]
              simp only [Bool.not_eq_true] at hres
              simp [hres]
          · exact pcWitness_mono _ _ _ _ (h.wit k ck hk')
      · exact h
    · -- check
      rename_i hpc
      rw [hpc] at hw
      refine ⟨h.just, ?_⟩
      intro k ck hk
      rcases getElem?_set_cases _ _ _ _ _ hk with ⟨hki, rfl⟩ | ⟨_, hk'⟩
      · subst hki
        simp only
        split
        · trivial
        · exact hw
      · exact h.wit k ck hk'
    · -- force
      rename_i hpc
      rw [hpc] at hw
      refine ⟨?_, ?_⟩
      · simp only [forcedJustified_append, h.just, List.nil_append, Bool.true_and, Bool.or_eq_true]
        exact Or.inr hw
      · intro k ck hk
        rcases getElem?_set_cases _ _ _ _ _ hk with ⟨hki, rfl⟩ | ⟨_, hk'⟩
        · trivial
        · exact pcWitness_mono _ _ _ _ (h.wit k ck hk')
    · exact h
    · exact h

theorem forceInv_run (hooks : List Hook) (n : Nat) (s : Sys) (sched : List Nat) (h : ForceInv s) :
    ForceInv (runSched hooks n s sched) := by
  induction sched generalizing s with
  | nil => exact h
  | cons i rest ih => exact ih _ (forceInv_move hooks n s i h)

/-- reading `forcedJustified` at one entry -/
theorem forcedJustified_at (seen pre post : List LogEntry) (x : LogEntry)
    (h : forcedJustified seen (pre ++ x :: post) = true) (hx : x.isForce = true) :
    wentThrough (seen ++ pre) x.caller = true := by
  induction pre generalizing seen with
  | nil =>
    simp only [List.nil_append, forcedJustified, hx, Bool.not_true, Bool.false_or, Bool.and_eq_true] at h
    simpa using h.1
  | cons y ys ih =>
    simp only [List.cons_append, forcedJustified, Bool.and_eq_true] at h
    have := ih (seen ++ [y]) h.2
    simpa [List.append_assoc] using this

end EnvM
