/-
  Proofs/EnvConc — invariants of the concurrent-callers layer (Model/EnvConc):
  mutual exclusion, the log is a chain, every logged piece is what the piece does on its own.
-/
import ControlModel.Model.EnvConc

namespace EnvM

/-- at most one caller is inside the mutex -/
def AtMostOne (cs : List Caller) : Prop :=
  ∀ (i j : Nat) (ci cj : Caller), cs[i]? = some ci → cs[j]? = some cj → ci.isHolding = true → cj.isHolding = true → i = j

theorem free_iff (s : Sys) : s.free = true ↔ ∀ (j : Nat) (cj : Caller), s.callers[j]? = some cj → cj.isHolding = false := by
  simp only [Sys.free, List.all_eq_true, Bool.not_eq_true']
  constructor
  · intro h j cj hj; exact h cj (List.mem_of_getElem? hj)
  · intro h c hc
    obtain ⟨j, hj⟩ := List.getElem?_of_mem hc
    exact h j c hj

theorem getElem?_set_cases {α : Type} (l : List α) (i j : Nat) (a b : α) (h : (l.set i a)[j]? = some b) :
    (j = i ∧ b = a) ∨ (j ≠ i ∧ l[j]? = some b) := by
  by_cases hji : j = i
  · subst hji
    rw [List.getElem?_set_self'] at h
    cases hl : l[j]? with
    | none => rw [hl] at h; simp at h
    | some x => rw [hl] at h; simp at h; exact Or.inl ⟨rfl, h.symm⟩
  · rw [List.getElem?_set_ne (Ne.symm hji)] at h
    exact Or.inr ⟨hji, h⟩

/-- setting caller `i` to something that does not hold keeps "at most one" -/
theorem atMostOne_set_notHolding (cs : List Caller) (i : Nat) (c : Caller) (hc : c.isHolding = false)
    (h : AtMostOne cs) : AtMostOne (cs.set i c) := by
  intro a b ca cb ha hb hha hhb
  rcases getElem?_set_cases cs i a c ca ha with ⟨_, rfl⟩ | ⟨_, ha'⟩
  · rw [hc] at hha; cases hha
  · rcases getElem?_set_cases cs i b c cb hb with ⟨_, rfl⟩ | ⟨_, hb'⟩
    · rw [hc] at hhb; cases hhb
    · exact h a b ca cb ha' hb' hha hhb

/-- when nobody holds, caller `i` may start holding -/
theorem atMostOne_set_acquire (cs : List Caller) (i : Nat) (c : Caller)
    (hfree : ∀ (j : Nat) (cj : Caller), cs[j]? = some cj → cj.isHolding = false) : AtMostOne (cs.set i c) := by
  intro a b ca cb ha hb hha hhb
  rcases getElem?_set_cases cs i a c ca ha with ⟨rfl, _⟩ | ⟨_, ha'⟩
  · rcases getElem?_set_cases cs a b c cb hb with ⟨rfl, _⟩ | ⟨_, hb'⟩
    · rfl
    · rw [hfree b cb hb'] at hhb; cases hhb
  · rw [hfree a ca ha'] at hha; cases hha

theorem chained_append (e0 : Env) (log : List LogEntry) (x : LogEntry)
    (h : chained e0 log) (hx : x.before = lastEnv e0 log) : chained e0 (log ++ [x]) := by
  induction log generalizing e0 with
  | nil => exact ⟨hx, trivial⟩
  | cons y ys ih => exact ⟨h.1, ih y.after h.2 hx⟩

theorem lastEnv_append (e0 : Env) (log : List LogEntry) (x : LogEntry) : lastEnv e0 (log ++ [x]) = x.after := by
  induction log generalizing e0 with
  | nil => rfl
  | cons y ys ih => exact ih y.after

/-- The invariant of the concurrent layer. -/
structure ConcInv (hooks : List Hook) (n : Nat) (e0 : Env) (s : Sys) : Prop where
  mutex : AtMostOne s.callers
  chain : chained e0 s.log
  last : lastEnv e0 s.log = s.env
  faithful : ∀ x ∈ s.log, x.faithful hooks n

theorem concInv_init (hooks : List Hook) (n : Nat) (env : Env) (reqs : List Req) :
    ConcInv hooks n env (initSys env reqs) := by
  refine ⟨?_, trivial, rfl, by intro x hx; cases hx⟩
  intro i j ci cj hi _ hhi _
  simp only [initSys, List.getElem?_map] at hi
  cases h : reqs[i]? with
  | none => rw [h] at hi; cases hi
  | some q => rw [h] at hi; simp at hi; subst hi; cases hhi

theorem concInv_move (hooks : List Hook) (n : Nat) (e0 : Env) (s : Sys) (i : Nat)
    (h : ConcInv hooks n e0 s) : ConcInv hooks n e0 (move hooks n s i) := by
  unfold move
  split
  · exact h
  · rename_i c hc
    split
    · -- arrive: the look-up
      exact ⟨atMostOne_set_notHolding _ _ _ rfl h.mutex, h.chain, h.last, h.faithful⟩
    · -- start: take the mutex and run the locked piece
      split
      · rename_i hfree
        refine ⟨atMostOne_set_acquire _ _ _ ((free_iff s).mp hfree), ?_, ?_, ?_⟩
        · exact chained_append _ _ _ h.chain h.last.symm
        · exact lastEnv_append _ _ _
        · intro x hx
          rcases List.mem_append.mp hx with hx | hx
          · exact h.faithful x hx
          · simp only [List.mem_singleton] at hx; subst hx
            exact ⟨c.listed, rfl⟩
      · exact h
    · -- holding: release
      rename_i next _
      refine ⟨atMostOne_set_notHolding _ _ _ ?_ h.mutex, h.chain, h.last, h.faithful⟩
      cases next <;> rfl
    · -- GO_ERROR fallback: a locked piece
      split
      · rename_i hfree
        refine ⟨atMostOne_set_acquire _ _ _ ((free_iff s).mp hfree), ?_, ?_, ?_⟩
        · exact chained_append _ _ _ h.chain h.last.symm
        · exact lastEnv_append _ _ _
        · intro x hx
          rcases List.mem_append.mp hx with hx | hx
          · exact h.faithful x hx
          · simp only [List.mem_singleton] at hx; subst hx
            exact rfl
      · exact h
    · -- the glue's read of the state: unlocked, changes nothing
      refine ⟨atMostOne_set_notHolding _ _ _ ?_ h.mutex, h.chain, h.last, h.faithful⟩
      split <;> rfl
    · -- the forced write of ERROR: unlocked
      refine ⟨atMostOne_set_notHolding _ _ _ rfl h.mutex, ?_, ?_, ?_⟩
      · exact chained_append _ _ _ h.chain h.last.symm
      · exact lastEnv_append _ _ _
      · intro x hx
        rcases List.mem_append.mp hx with hx | hx
        · exact h.faithful x hx
        · simp only [List.mem_singleton] at hx; subst hx
          exact rfl
    · exact h
    · exact h

theorem concInv_run (hooks : List Hook) (n : Nat) (e0 : Env) (s : Sys) (sched : List Nat)
    (h : ConcInv hooks n e0 s) : ConcInv hooks n e0 (runSched hooks n s sched) := by
  induction sched generalizing s with
  | nil => exact h
  | cons i rest ih => exact ih _ (concInv_move hooks n e0 s i h)

end EnvM
