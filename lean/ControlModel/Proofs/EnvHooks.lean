/-
  Proofs/EnvHooks — structure of the steps handleHooks emits (for C08/C09).
-/
import ControlModel.Proofs.Env
import ControlModel.Spec.C08

namespace EnvM

/-! ### sorted, duplicate-free weights -/

def Ascending : List Int → Prop
  | [] => True
  | [_] => True
  | a :: b :: rest => a < b ∧ Ascending (b :: rest)

theorem ascending_tail {a : Int} {l : List Int} (h : Ascending (a :: l)) : Ascending l := by
  cases l with
  | nil => trivial
  | cons b rest => exact h.2

theorem ascending_head_lt {a : Int} {l : List Int} (h : Ascending (a :: l)) : ∀ x ∈ l, a < x := by
  induction l generalizing a with
  | nil => intro x hx; cases hx
  | cons b rest ih =>
    intro x hx
    rcases List.mem_cons.mp hx with rfl | hx
    · exact h.1
    · exact Int.lt_trans h.1 (ih h.2 x hx)

theorem ascending_cons {a : Int} {l : List Int} (hl : Ascending l) (h : ∀ x ∈ l, a < x) : Ascending (a :: l) := by
  cases l with
  | nil => trivial
  | cons b rest => exact ⟨h b (List.mem_cons_self ..), hl⟩

theorem mem_insertSorted (w : Int) (l : List Int) (x : Int) : x ∈ insertSorted w l ↔ x = w ∨ x ∈ l := by
  induction l with
  | nil => simp [insertSorted]
  | cons a rest ih =>
    simp only [insertSorted]
    split
    · simp
    · split
      · rename_i h; subst h; simp
      · simp [ih]; constructor
        · rintro (h | h | h) <;> simp [h]
        · rintro (h | h | h) <;> simp [h]

theorem insertSorted_ascending (w : Int) (l : List Int) (h : Ascending l) : Ascending (insertSorted w l) := by
  induction l with
  | nil => trivial
  | cons a rest ih =>
    simp only [insertSorted]
    split
    · rename_i hlt
      exact ⟨hlt, h⟩
    · split
      · exact h
      · rename_i hnlt hne
        have hlt : a < w := by omega
        apply ascending_cons (ih (ascending_tail h))
        intro x hx
        rcases (mem_insertSorted w rest x).mp hx with rfl | hx
        · exact hlt
        · exact ascending_head_lt h x hx

theorem sortDedup_ascending (ws : List Int) : Ascending (sortDedup ws) := by
  unfold sortDedup
  suffices ∀ acc, Ascending acc → Ascending (ws.foldl (fun acc w => insertSorted w acc) acc) from this [] trivial
  induction ws with
  | nil => intro acc h; exact h
  | cons w ws ih => intro acc h; exact ih _ (insertSorted_ascending w acc h)

theorem filter_ascending (p : Int → Bool) (l : List Int) (h : Ascending l) : Ascending (l.filter p) := by
  induction l with
  | nil => trivial
  | cons a rest ih =>
    simp only [List.filter]
    split
    · apply ascending_cons (ih (ascending_tail h))
      intro x hx
      exact ascending_head_lt h x (List.mem_filter.mp hx).1
    · exact ih (ascending_tail h)

/-- The weights one pass of handleHooks visits are strictly ascending and all satisfy the pass predicate. -/
theorem weightsFor_ascending (env : Env) (hooks : List Hook) (m : Moment) (p : Int → Bool) :
    Ascending (weightsFor env hooks m p) ∧ ∀ w ∈ weightsFor env hooks m p, p w = true := by
  unfold weightsFor
  exact ⟨filter_ascending p _ (sortDedup_ascending _), fun w hw => (List.mem_filter.mp hw).2⟩

/-! ### the steps of one weight -/

def Step.isHookStep : Step → Bool
  | .start .. | .await .. | .tasks .. => true
  | _ => false

/-- moment and weight a hook step belongs to -/
def Step.point? : Step → Option (Moment × Int)
  | .start m w _ | .await m w _ | .tasks m w _ | .callSync m w _ => some (m, w)
  | _ => none

theorem instantiate_insts (env : Env) (hs : List Hook) :
    (instantiate env hs).2.map (·.hook) = hs.map (·.id) ∧
    (instantiate env hs).2.map (·.critical) = hs.map (·.critical) := by
  induction hs generalizing env with
  | nil => exact ⟨rfl, rfl⟩
  | cons h hs ih =>
    simp only [instantiate, List.map_cons]
    obtain ⟨a, b⟩ := ih (bumpExec env h.id)
    exact ⟨by rw [a]; rfl, by rw [b]; rfl⟩

theorem phase1_insts (env : Env) (hooks : List Hook) (m : Moment) (w : Int) :
    (phase1 env hooks m w).2.map (·.hook) =
      ((hooks.filter (fun h => h.trig = m ∧ h.tw = w)).filter (fun h => !h.isTask)).map (·.id) := by
  unfold phase1; simp only; exact (instantiate_insts _ _).1

/-- One weight emits at most three steps, in this order: ONE start step with all call
    hooks of this trigger point (started together), ONE await step, ONE task-hook step;
    all carry this moment and weight. -/
theorem handleWeight_steps (env : Env) (hooks : List Hook) (m : Moment) (w : Int) :
    ∃ s1 s2 s3 : List Step,
      (handleWeight env hooks m w).2.1 = s1 ++ s2 ++ s3 ∧
      (s1 = [] ∨ ∃ is, s1 = [Step.start m w is] ∧
          is.map (·.hook) = ((hooks.filter (fun h => h.trig = m ∧ h.tw = w)).filter (fun h => !h.isTask)).map (·.id)) ∧
      (s2 = [] ∨ ∃ is, s2 = [Step.await m w is]) ∧
      (s3 = [] ∨ ∃ is, s3 = [Step.tasks m w is] ∧
          is.map (·.hook) = ((hooks.filter (fun h => h.trig = m ∧ h.tw = w)).filter (fun h => h.isTask)).map (·.id)) := by
  unfold handleWeight
  simp only
  refine ⟨_, _, _, rfl, ?_, ?_, ?_⟩
  · split
    · exact Or.inl rfl
    · exact Or.inr ⟨_, rfl, phase1_insts env hooks m w⟩
  · split
    · exact Or.inl rfl
    · exact Or.inr ⟨_, rfl⟩
  · split
    · exact Or.inl rfl
    · exact Or.inr ⟨_, rfl, (instantiate_insts _ _).1⟩

/-- After a weight has been handled nothing is left pending at that point. -/
theorem pendingAt_removePending (pend : List ((Moment × Int) × List Inst)) (m : Moment) (w : Int) :
    ((removePending pend m w).find? (fun p => p.1.1 = m ∧ p.1.2 = w)) = none := by
  unfold removePending
  rw [List.find?_eq_none]
  intro p hp hd
  have h2 := (List.mem_filter.mp hp).2
  simp only [decide_eq_true_eq, decide_not, Bool.not_eq_true', decide_eq_false_iff_not] at hd h2
  exact h2 hd

theorem instantiate_pending (env : Env) (hs : List Hook) : (instantiate env hs).1.pending = env.pending := by
  induction hs generalizing env with
  | nil => rfl
  | cons h hs ih => simp only [instantiate]; rw [ih]; rfl

/-- The await barrier of one weight: whatever was pending at (m, w) when the weight is
    handled — including the calls it has just started with await = (m, w) — is awaited
    there, and nothing remains pending at (m, w) afterwards. -/
theorem phase2_barrier (env : Env) (m : Moment) (w : Int) : pendingAt (phase2 env m w).1 m w = [] := by
  unfold phase2
  simp only
  split
  · rename_i hemp; exact List.isEmpty_iff.mp hemp
  · unfold pendingAt; simp only; rw [pendingAt_removePending]; rfl

theorem handleWeight_barrier (env : Env) (hooks : List Hook) (m : Moment) (w : Int) :
    pendingAt (handleWeight env hooks m w).1 m w = [] := by
  have hcongr : ∀ e1 e2 : Env, e1.pending = e2.pending → pendingAt e1 m w = pendingAt e2 m w := by
    intro e1 e2 h; unfold pendingAt; rw [h]
  unfold handleWeight
  simp only
  rw [hcongr _ _ (instantiate_pending _ _)]
  exact phase2_barrier _ m w

/-- The steps of a pass carry weights from the visited list, in the list's order. -/
def stepWeights (ss : List Step) : List Int := ss.filterMap (fun s => s.point?.map (·.2))

def Weakly : List Int → Prop
  | [] => True
  | [_] => True
  | a :: b :: rest => a ≤ b ∧ Weakly (b :: rest)

theorem handleWeight_stepWeights (env : Env) (hooks : List Hook) (m : Moment) (w : Int) :
    ∀ x ∈ stepWeights (handleWeight env hooks m w).2.1, x = w := by
  obtain ⟨s1, s2, s3, heq, h1, h2, h3⟩ := handleWeight_steps env hooks m w
  rw [heq]
  intro x hx
  simp only [stepWeights, List.filterMap_append, List.mem_append] at hx
  rcases hx with (hx | hx) | hx
  · rcases h1 with rfl | ⟨is, rfl, _⟩ <;> simp [Step.point?] at hx; exact hx
  · rcases h2 with rfl | ⟨is, rfl⟩ <;> simp [Step.point?] at hx; exact hx
  · rcases h3 with rfl | ⟨is, rfl, _⟩ <;> simp [Step.point?] at hx; exact hx

theorem weakly_append_of_bounds (l1 l2 : List Int) (b : Int) (h1 : Weakly l1) (h2 : Weakly l2)
    (hb1 : ∀ x ∈ l1, x ≤ b) (hb2 : ∀ x ∈ l2, b ≤ x) : Weakly (l1 ++ l2) := by
  induction l1 with
  | nil => exact h2
  | cons a rest ih =>
    cases rest with
    | nil =>
      cases l2 with
      | nil => trivial
      | cons c r2 =>
        exact ⟨Int.le_trans (hb1 a (List.mem_cons_self ..)) (hb2 c (List.mem_cons_self ..)), h2⟩
    | cons a' r' =>
      exact ⟨h1.1, ih h1.2 (fun x hx => hb1 x (List.mem_cons_of_mem _ hx))⟩

theorem weakly_of_const (l : List Int) (w : Int) (h : ∀ x ∈ l, x = w) : Weakly l := by
  induction l with
  | nil => trivial
  | cons a rest ih =>
    cases rest with
    | nil => trivial
    | cons b r =>
      refine ⟨?_, ih (fun x hx => h x (List.mem_cons_of_mem _ hx))⟩
      rw [h a (List.mem_cons_self ..), h b (List.mem_cons_of_mem _ (List.mem_cons_self ..))]
      exact Int.le_refl _

theorem handleWeights_stepWeights (env : Env) (hooks : List Hook) (m : Moment) (ws : List Int) (hasc : Ascending ws) :
    Weakly (stepWeights (handleWeights env hooks m ws).2.1) ∧
    ∀ x ∈ stepWeights (handleWeights env hooks m ws).2.1, x ∈ ws := by
  induction ws generalizing env with
  | nil => exact ⟨trivial, fun x hx => by simp [handleWeights, stepWeights] at hx⟩
  | cons w ws ih =>
    simp only [handleWeights]
    have hw := handleWeight_stepWeights env hooks m w
    split
    · exact ⟨weakly_of_const _ w hw, fun x hx => by rw [hw x hx]; exact List.mem_cons_self ..⟩
    · simp only
      obtain ⟨ih1, ih2⟩ := ih (handleWeight env hooks m w).1 (ascending_tail hasc)
      have happ : stepWeights ((handleWeight env hooks m w).2.1 ++ (handleWeights (handleWeight env hooks m w).1 hooks m ws).2.1) =
          stepWeights (handleWeight env hooks m w).2.1 ++ stepWeights (handleWeights (handleWeight env hooks m w).1 hooks m ws).2.1 := by
        simp [stepWeights]
      rw [happ]
      refine ⟨weakly_append_of_bounds _ _ w (weakly_of_const _ w hw) ih1 (fun x hx => by rw [hw x hx]; exact Int.le_refl _) ?_, ?_⟩
      · intro x hx
        exact Int.le_of_lt (ascending_head_lt hasc x (ih2 x hx))
      · intro x hx
        rcases List.mem_append.mp hx with hx | hx
        · rw [hw x hx]; exact List.mem_cons_self ..
        · exact List.mem_cons_of_mem _ (ih2 x hx)

end EnvM

namespace EnvM

/-! ### registration of awaits -/

def getAt (pend : List ((Moment × Int) × List Inst)) (m : Moment) (w : Int) : List Inst :=
  ((pend.find? (fun p => p.1.1 = m ∧ p.1.2 = w)).map (·.2)).getD []

theorem pendingAt_eq_getAt (env : Env) (m : Moment) (w : Int) : pendingAt env m w = getAt env.pending m w := rfl

theorem getAt_cons_eq (p : (Moment × Int) × List Inst) (ps : List ((Moment × Int) × List Inst)) (m : Moment) (w : Int)
    (h : p.1.1 = m ∧ p.1.2 = w) : getAt (p :: ps) m w = p.2 := by
  simp [getAt, h]

theorem getAt_cons_ne (p : (Moment × Int) × List Inst) (ps : List ((Moment × Int) × List Inst)) (m : Moment) (w : Int)
    (h : ¬ (p.1.1 = m ∧ p.1.2 = w)) : getAt (p :: ps) m w = getAt ps m w := by
  have : (decide (p.1.1 = m ∧ p.1.2 = w)) = false := by simpa using h
  simp only [getAt, List.find?_cons, this]

theorem getAt_addPending_self (pend : List ((Moment × Int) × List Inst)) (m : Moment) (w : Int) (i : Inst) :
    i ∈ getAt (addPending pend m w i) m w := by
  induction pend with
  | nil => simp [addPending, getAt]
  | cons p ps ih =>
    simp only [addPending]
    split
    · rename_i h; rw [getAt_cons_eq (p.1, p.2 ++ [i]) ps m w h]; simp
    · rename_i h; rw [getAt_cons_ne _ _ _ _ h]; exact ih

theorem getAt_addPending_mono (pend : List ((Moment × Int) × List Inst)) (m m' : Moment) (w w' : Int) (i x : Inst)
    (hx : x ∈ getAt pend m w) : x ∈ getAt (addPending pend m' w' i) m w := by
  induction pend with
  | nil => simp [getAt] at hx
  | cons p ps ih =>
    simp only [addPending]
    by_cases hp : p.1.1 = m ∧ p.1.2 = w
    · rw [getAt_cons_eq _ _ _ _ hp] at hx
      split
      · rw [getAt_cons_eq (p.1, p.2 ++ [i]) ps m w hp]; simp [hx]
      · rw [getAt_cons_eq _ _ _ _ hp]; exact hx
    · rw [getAt_cons_ne _ _ _ _ hp] at hx
      split
      · rw [getAt_cons_ne (p.1, p.2 ++ [i]) ps m w hp]; exact hx
      · rw [getAt_cons_ne _ _ _ _ hp]; exact ih hx

theorem getAt_registerAwaits_mono (pend : List ((Moment × Int) × List Inst)) (l : List (Hook × Inst)) (m : Moment) (w : Int) (x : Inst)
    (hx : x ∈ getAt pend m w) : x ∈ getAt (registerAwaits pend l) m w := by
  induction l generalizing pend with
  | nil => exact hx
  | cons hi rest ih => obtain ⟨h, i⟩ := hi; exact ih _ (getAt_addPending_mono pend m h.await w h.aw i x hx)

theorem getAt_registerAwaits (pend : List ((Moment × Int) × List Inst)) (l : List (Hook × Inst)) (h : Hook) (i : Inst)
    (hmem : (h, i) ∈ l) : i ∈ getAt (registerAwaits pend l) h.await h.aw := by
  induction l generalizing pend with
  | nil => cases hmem
  | cons hi rest ih =>
    rcases List.mem_cons.mp hmem with rfl | hm
    · exact getAt_registerAwaits_mono _ rest h.await h.aw i (getAt_addPending_self pend h.await h.aw i)
    · exact ih _ hm

end EnvM

namespace EnvM

/-! ### moment markers -/

def marksOf (ss : List Step) : List (String × Bool) := ss.filterMap fun | .mark n f => some (n, f) | _ => none

theorem marksOf_append (a b : List Step) : marksOf (a ++ b) = marksOf a ++ marksOf b := by
  simp [marksOf, List.filterMap_append]

@[simp] theorem marksOf_nil : marksOf [] = [] := rfl

theorem marksOf_cons (s : Step) (l : List Step) :
    marksOf (s :: l) = (match s with | .mark n f => [(n, f)] | _ => []) ++ marksOf l := by
  cases s <;> rfl

theorem handleWeight_no_marks (env : Env) (hooks : List Hook) (m : Moment) (w : Int) :
    marksOf (handleWeight env hooks m w).2.1 = [] := by
  obtain ⟨s1, s2, s3, heq, h1, h2, h3⟩ := handleWeight_steps env hooks m w
  rw [heq, marksOf_append, marksOf_append]
  rcases h1 with rfl | ⟨_, rfl, _⟩ <;> rcases h2 with rfl | ⟨_, rfl⟩ <;> rcases h3 with rfl | ⟨_, rfl, _⟩ <;> rfl

theorem handleWeights_no_marks (env : Env) (hooks : List Hook) (m : Moment) (ws : List Int) :
    marksOf (handleWeights env hooks m ws).2.1 = [] := by
  induction ws generalizing env with
  | nil => rfl
  | cons w ws ih =>
    simp only [handleWeights]
    split
    · exact handleWeight_no_marks ..
    · simp only [marksOf_append, handleWeight_no_marks, ih, List.append_nil]

@[simp] theorem handleHooks_no_marks (env : Env) (hooks : List Hook) (m : Moment) (p : Int → Bool) :
    marksOf (handleHooks env hooks m p).2.1 = [] := handleWeights_no_marks ..

@[simp] theorem setSoeor_no_marks (env : Env) (tr : String) (p : Bool) : marksOf (setSoeorIfEmpty env tr p).2 = [] := by
  unfold setSoeorIfEmpty
  split
  · cases p <;> simp [tick, marksOf_cons]
  · rfl

@[simp] theorem setEoeor_no_marks (env : Env) (tr : String) (s : RunStatus) : marksOf (setEoeorIfEmpty env tr s).2 = [] := by
  unfold setEoeorIfEmpty
  split
  · simp [tick, marksOf_cons]
  · rfl

/-- The full marker pattern of one transition. -/
def markPattern (e : Ev) (s d : St) : List (String × Bool) :=
  [((Moment.before e).name, false), ((Moment.before e).name, true),
   ((Moment.leave s).name, false), ((Moment.leave s).name, true),
   ("tasks_" ++ e.name, false), ("tasks_" ++ e.name, true),
   ((Moment.enter d).name, false), ((Moment.enter d).name, true),
   ((Moment.after e).name, false), ((Moment.after e).name, true)]

@[simp] theorem bkBefore_no_marks (env : Env) (e : Ev) (r : Bool) : marksOf (bkBefore env e r).2.1 = [] := by
  unfold bkBefore
  cases e <;> simp only [] <;> (try split) <;> simp [marksOf_cons, tick]

@[simp] theorem bkAfter_no_marks (env : Env) (e : Ev) (f : Bool) : marksOf (bkAfter env e f).2 = [] := by
  unfold bkAfter
  cases e <;> simp [marksOf_cons, tick]

@[simp] theorem finAfter_no_marks (env : Env) (e : Ev) : marksOf (finAfter env e).2 = [] := by
  unfold finAfter; split <;> rfl

theorem beforeEvent_marks (env : Env) (hooks : List Hook) (e : Ev) (r : Bool) :
    (marksOf (beforeEvent env hooks e r).2.1 = [((Moment.before e).name, false), ((Moment.before e).name, true)]) ∨
    (marksOf (beforeEvent env hooks e r).2.1 = [((Moment.before e).name, false)] ∧ (beforeEvent env hooks e r).2.2 = some .cancelledRn) := by
  unfold beforeEvent
  simp only
  (repeat' split) <;>
    first
    | (left; simp [marksOf_append, marksOf_cons]; done)
    | (right; simp [marksOf_append, marksOf_cons]; done)

end EnvM

namespace EnvM

theorem leaveState_marks (env : Env) (hooks : List Hook) (e : Ev) (b : Bool) :
    (marksOf (leaveState env hooks e b).2.1 = [((Moment.leave env.st).name, false), ((Moment.leave env.st).name, true)] ∧
        (leaveState env hooks e b).2.2.isSome = true) ∨
    (marksOf (leaveState env hooks e b).2.1 =
        [((Moment.leave env.st).name, false), ((Moment.leave env.st).name, true), ("tasks_" ++ e.name, false), ("tasks_" ++ e.name, true)]) := by
  unfold leaveState
  simp only
  (repeat' split) <;>
    first
    | (left; simp [marksOf_append, marksOf_cons]; done)
    | (right; simp [marksOf_append, marksOf_cons]; done)

theorem enterState_marks (env : Env) (hooks : List Hook) :
    marksOf (enterState env hooks).2.1 = [((Moment.enter env.st).name, false), ((Moment.enter env.st).name, true)] := by
  unfold enterState
  simp [marksOf_append, marksOf_cons]

theorem afterEvent_marks (env : Env) (hooks : List Hook) (e : Ev) (errs : List (Nat × Moment)) :
    marksOf (afterEvent env hooks e errs).2.1 = [((Moment.after e).name, false), ((Moment.after e).name, true)] := by
  unfold afterEvent
  simp [marksOf_append, marksOf_cons]

/-- Moments come in the documented order: the step markers of one `Sm.Event` are a
    prefix of  before_e, leave_src, tasks_e, enter_dst, after_e  (each started and finished). -/
theorem fsmEvent_marks (env : Env) (hooks : List Hook) (e : Ev) (b r : Bool) (d : St) (hd : dst? e env.st = some d) :
    marksOf (fsmEvent env hooks e b r).2.1 <+: markPattern e env.st d := by
  unfold fsmEvent
  rw [hd]
  simp only
  have hb := beforeEvent_marks env hooks e r
  have hbs := (beforeEvent_st env hooks e r).1
  split
  · -- cancelled in before_event
    rcases hb with hb | ⟨hb, _⟩ <;> rw [hb] <;> simp [markPattern, List.IsPrefix]
  · rename_i hnone
    have hb' : marksOf (beforeEvent env hooks e r).2.1 = [((Moment.before e).name, false), ((Moment.before e).name, true)] := by
      rcases hb with hb | ⟨_, hb2⟩
      · exact hb
      · rw [hnone] at hb2; cases hb2
    have hl := leaveState_marks (beforeEvent env hooks e r).1 hooks e b
    rw [hbs] at hl
    split
    · -- cancelled in leave_state / body
      rw [marksOf_append, hb']
      rcases hl with ⟨hl, _⟩ | hl <;> rw [hl] <;> simp [markPattern, List.IsPrefix]
    · rename_i hnone2
      have hl' : marksOf (leaveState (beforeEvent env hooks e r).1 hooks e b).2.1 =
          [((Moment.leave env.st).name, false), ((Moment.leave env.st).name, true), ("tasks_" ++ e.name, false), ("tasks_" ++ e.name, true)] := by
        rcases hl with ⟨_, hl2⟩ | hl
        · rw [hnone2] at hl2; cases hl2
        · exact hl
      simp only [marksOf_append, hb', hl', enterState_marks, afterEvent_marks, marksOf_cons, marksOf_nil]
      simp [markPattern]

end EnvM

namespace EnvM

/-! ### bodies and state writes -/

/-- the steps that change what clients see or command tasks: the task-level body and the state write -/
def effectsOf (ss : List Step) : List Step := ss.filter fun | .body .. => true | .setState _ => true | _ => false

@[simp] theorem effectsOf_nil : effectsOf [] = [] := rfl
theorem effectsOf_append (a b : List Step) : effectsOf (a ++ b) = effectsOf a ++ effectsOf b := by
  simp [effectsOf, List.filter_append]
theorem effectsOf_cons (s : Step) (l : List Step) :
    effectsOf (s :: l) = (match s with | .body e ok => [Step.body e ok] | .setState x => [Step.setState x] | _ => []) ++ effectsOf l := by
  cases s <;> rfl

theorem handleWeight_no_effects (env : Env) (hooks : List Hook) (m : Moment) (w : Int) :
    effectsOf (handleWeight env hooks m w).2.1 = [] := by
  obtain ⟨s1, s2, s3, heq, h1, h2, h3⟩ := handleWeight_steps env hooks m w
  rw [heq, effectsOf_append, effectsOf_append]
  rcases h1 with rfl | ⟨_, rfl, _⟩ <;> rcases h2 with rfl | ⟨_, rfl⟩ <;> rcases h3 with rfl | ⟨_, rfl, _⟩ <;> rfl

theorem handleWeights_no_effects (env : Env) (hooks : List Hook) (m : Moment) (ws : List Int) :
    effectsOf (handleWeights env hooks m ws).2.1 = [] := by
  induction ws generalizing env with
  | nil => rfl
  | cons w ws ih =>
    simp only [handleWeights]
    split
    · exact handleWeight_no_effects ..
    · simp only [effectsOf_append, handleWeight_no_effects, ih, List.append_nil]

@[simp] theorem handleHooks_no_effects (env : Env) (hooks : List Hook) (m : Moment) (p : Int → Bool) :
    effectsOf (handleHooks env hooks m p).2.1 = [] := handleWeights_no_effects ..

@[simp] theorem setSoeor_no_effects (env : Env) (tr : String) (p : Bool) : effectsOf (setSoeorIfEmpty env tr p).2 = [] := by
  unfold setSoeorIfEmpty
  split
  · cases p <;> simp [tick, effectsOf_cons]
  · rfl

@[simp] theorem bkBefore_no_effects (env : Env) (e : Ev) (r : Bool) : effectsOf (bkBefore env e r).2.1 = [] := by
  unfold bkBefore
  cases e <;> simp only [] <;> (try split) <;> simp [effectsOf_cons, tick]

theorem beforeEvent_no_effects (env : Env) (hooks : List Hook) (e : Ev) (r : Bool) :
    effectsOf (beforeEvent env hooks e r).2.1 = [] := by
  unfold beforeEvent
  simp only
  (repeat' split) <;> simp [effectsOf_append, effectsOf_cons]

/-- A transition cancelled by hooks (before_/leave_) has commanded nothing and written no state. -/
theorem leaveState_hooks_no_effects (env : Env) (hooks : List Hook) (e : Ev) (b : Bool) (n : Nat) (m : Moment)
    (h : (leaveState env hooks e b).2.2 = some (.cancelledHooks n m)) :
    effectsOf (leaveState env hooks e b).2.1 = [] := by
  unfold leaveState at h ⊢
  simp only at h ⊢
  revert h
  (repeat' split) <;> intro h <;>
    first
    | (simp [effectsOf_append, effectsOf_cons]; done)
    | (cases h)

theorem fsmEvent_cancelled_no_effects (env : Env) (hooks : List Hook) (e : Ev) (b r : Bool) (n : Nat) (m : Moment)
    (h : (fsmEvent env hooks e b r).2.2 = .cancelledHooks n m) :
    effectsOf (fsmEvent env hooks e b r).2.1 = [] ∧ (fsmEvent env hooks e b r).1.st = env.st := by
  refine ⟨?_, ?_⟩
  · unfold fsmEvent at h ⊢
    cases hd : dst? e env.st with
    | none => rfl
    | some d =>
      simp only [hd] at h ⊢
      cases hb : (beforeEvent env hooks e r).2.2 with
      | some res => simp only [hb] at h ⊢; exact beforeEvent_no_effects ..
      | none =>
        simp only [hb] at h ⊢
        cases hl : (leaveState (beforeEvent env hooks e r).1 hooks e b).2.2 with
        | some res =>
          simp only [hl] at h ⊢
          subst h
          rw [effectsOf_append, beforeEvent_no_effects, leaveState_hooks_no_effects _ _ _ _ _ _ hl]; rfl
        | none =>
          simp only [hl] at h
          split at h <;> cases h
  · obtain ⟨_, hk | ⟨d, _, _, hm⟩⟩ := fsmEvent_st env hooks e b r
    · exact hk.1
    · rw [h] at hm; cases hm

end EnvM

namespace EnvM

/-! ### non-critical hooks never count -/

def NoCritPending (pend : List ((Moment × Int) × List Inst)) : Prop := ∀ p ∈ pend, ∀ i ∈ p.2, i.critical = false

theorem instantiate_noncrit (env : Env) (hs : List Hook) (h : ∀ x ∈ hs, x.critical = false) :
    ∀ i ∈ (instantiate env hs).2, i.critical = false := by
  intro i hi
  have := (instantiate_insts env hs).2
  have hm : i.critical ∈ (instantiate env hs).2.map (·.critical) := List.mem_map_of_mem hi
  rw [this] at hm
  obtain ⟨x, hx, hxe⟩ := List.mem_map.mp hm
  rw [← hxe]; exact h x hx

theorem addPending_noncrit (pend : List ((Moment × Int) × List Inst)) (m : Moment) (w : Int) (i : Inst)
    (hp : NoCritPending pend) (hi : i.critical = false) : NoCritPending (addPending pend m w i) := by
  induction pend with
  | nil => intro p hp' j hj; simp [addPending] at hp'; subst hp'; simp at hj; subst hj; exact hi
  | cons q qs ih =>
    simp only [addPending]
    split
    · intro p hp' j hj
      rcases List.mem_cons.mp hp' with rfl | hp'
      · simp only [List.mem_append, List.mem_singleton] at hj
        rcases hj with hj | rfl
        · exact hp q (List.mem_cons_self ..) j hj
        · exact hi
      · exact hp p (List.mem_cons_of_mem _ hp') j hj
    · intro p hp' j hj
      rcases List.mem_cons.mp hp' with rfl | hp'
      · exact hp _ (List.mem_cons_self ..) j hj
      · exact ih (fun p hp'' => hp p (List.mem_cons_of_mem _ hp'')) p hp' j hj

theorem registerAwaits_noncrit (pend : List ((Moment × Int) × List Inst)) (l : List (Hook × Inst))
    (hp : NoCritPending pend) (hl : ∀ x ∈ l, x.2.critical = false) : NoCritPending (registerAwaits pend l) := by
  induction l generalizing pend with
  | nil => exact hp
  | cons hi rest ih =>
    obtain ⟨h, i⟩ := hi
    exact ih _ (addPending_noncrit pend h.await h.aw i hp (hl (h, i) (List.mem_cons_self ..)))
      (fun x hx => hl x (List.mem_cons_of_mem _ hx))

theorem getAt_noncrit (pend : List ((Moment × Int) × List Inst)) (m : Moment) (w : Int) (hp : NoCritPending pend) :
    ∀ i ∈ getAt pend m w, i.critical = false := by
  intro i hi
  unfold getAt at hi
  cases hf : pend.find? (fun p => p.1.1 = m ∧ p.1.2 = w) with
  | none => rw [hf] at hi; simp at hi
  | some p => rw [hf] at hi; simp at hi; exact hp p (List.mem_of_find?_eq_some hf) i hi

theorem handleWeight_noncrit (env : Env) (hooks : List Hook) (m : Moment) (w : Int)
    (hh : ∀ x ∈ hooks, x.critical = false) (hp : NoCritPending env.pending) :
    (handleWeight env hooks m w).2.2 = 0 ∧ NoCritPending (handleWeight env hooks m w).1.pending := by
  have h1 : NoCritPending (phase1 env hooks m w).1.pending := by
    unfold phase1; simp only
    rw [instantiate_pending]
    apply registerAwaits_noncrit _ _ hp
    intro x hx
    have := instantiate_noncrit env ((hooks.filter (fun h => h.trig = m ∧ h.tw = w)).filter (fun h => !h.isTask))
      (fun y hy => hh y (List.mem_filter.mp (List.mem_filter.mp hy).1).1)
    exact this x.2 (List.of_mem_zip hx).2
  have h2a : ∀ i ∈ (phase2 (phase1 env hooks m w).1 m w).2, i.critical = false := by
    unfold phase2; simp only; exact getAt_noncrit _ m w h1
  have h2 : NoCritPending (phase2 (phase1 env hooks m w).1 m w).1.pending := by
    unfold phase2; simp only
    split
    · exact h1
    · intro p hp' i hi
      exact h1 p (List.mem_filter.mp hp').1 i hi
  unfold handleWeight
  simp only
  refine ⟨?_, ?_⟩
  · rw [List.length_eq_zero_iff, List.filter_eq_nil_iff]
    intro i hi
    rcases List.mem_append.mp hi with hi | hi
    · simp [h2a i (List.mem_filter.mp hi).1]
    · have := instantiate_noncrit (phase2 (phase1 env hooks m w).1 m w).1
        ((hooks.filter (fun h => h.trig = m ∧ h.tw = w)).filter (fun h => h.isTask))
        (fun y hy => hh y (List.mem_filter.mp (List.mem_filter.mp hy).1).1) i hi
      simp [this]
  · rw [instantiate_pending]; exact h2

theorem handleWeights_noncrit (env : Env) (hooks : List Hook) (m : Moment) (ws : List Int)
    (hh : ∀ x ∈ hooks, x.critical = false) (hp : NoCritPending env.pending) :
    (handleWeights env hooks m ws).2.2 = 0 ∧ NoCritPending (handleWeights env hooks m ws).1.pending := by
  induction ws generalizing env with
  | nil => exact ⟨rfl, hp⟩
  | cons w ws ih =>
    simp only [handleWeights]
    have hw := handleWeight_noncrit env hooks m w hh hp
    split
    · rename_i hpos; rw [hw.1] at hpos; cases hpos
    · exact ih _ hw.2

theorem handleHooks_noncrit (env : Env) (hooks : List Hook) (m : Moment) (p : Int → Bool)
    (hh : ∀ x ∈ hooks, x.critical = false) (hp : NoCritPending env.pending) :
    (handleHooks env hooks m p).2.2 = 0 ∧ NoCritPending (handleHooks env hooks m p).1.pending :=
  handleWeights_noncrit env hooks m _ hh hp

end EnvM

namespace EnvM

@[simp] theorem setSoeor_pending (env : Env) (tr : String) (p : Bool) : (setSoeorIfEmpty env tr p).1.pending = env.pending := by
  unfold setSoeorIfEmpty; split <;> rfl
@[simp] theorem setEoeor_pending (env : Env) (tr : String) (s : RunStatus) : (setEoeorIfEmpty env tr s).1.pending = env.pending := by
  unfold setEoeorIfEmpty; split <;> rfl

/-- Results in which no hook is blamed. -/
def Result.noHookBlame : Result → Bool
  | .cancelledHooks .. | .reported _ => false
  | _ => true

theorem beforeEvent_noncrit (env : Env) (hooks : List Hook) (e : Ev) (r : Bool)
    (hh : ∀ x ∈ hooks, x.critical = false) (hp : NoCritPending env.pending) :
    ((beforeEvent env hooks e r).2.2 = none ∨ (beforeEvent env hooks e r).2.2 = some .cancelledRn) ∧
    NoCritPending (beforeEvent env hooks e r).1.pending := by
  have h1 := handleHooks_noncrit env hooks (.before e) negW hh hp
  have hbk : NoCritPending (bkBefore (handleHooks env hooks (.before e) negW).1 e r).1.pending := by
    rw [(bkBefore_st _ _ _).2.2]; exact h1.2
  have h2 := handleHooks_noncrit _ hooks (.before e) posW hh hbk
  unfold beforeEvent
  simp only [h1.1, h2.1, gt_iff_lt, Nat.lt_irrefl, if_false]
  split
  · exact ⟨Or.inr rfl, hbk⟩
  · exact ⟨Or.inl rfl, h2.2⟩

theorem leaveState_noncrit (env : Env) (hooks : List Hook) (e : Ev) (b : Bool)
    (hh : ∀ x ∈ hooks, x.critical = false) (hp : NoCritPending env.pending) :
    ((leaveState env hooks e b).2.2 = none ∨ (leaveState env hooks e b).2.2 = some .cancelledBody) ∧
    NoCritPending (leaveState env hooks e b).1.pending := by
  have h1 := handleHooks_noncrit env hooks (.leave env.st) negW hh hp
  have hbk : NoCritPending (if env.st = .RUNNING then setSoeorIfEmpty (handleHooks env hooks (.leave env.st) negW).1 e.name false
      else ((handleHooks env hooks (.leave env.st) negW).1, [])).1.pending := by
    split
    · rw [setSoeor_pending]; exact h1.2
    · exact h1.2
  have h2 := handleHooks_noncrit _ hooks (.leave env.st) posW hh hbk
  unfold leaveState
  simp only [h1.1, h2.1, gt_iff_lt, Nat.lt_irrefl, if_false]
  refine ⟨?_, ?_⟩
  · cases b <;> simp
  · split <;> exact h2.2

theorem enterState_noncrit (env : Env) (hooks : List Hook)
    (hh : ∀ x ∈ hooks, x.critical = false) (hp : NoCritPending env.pending) :
    (enterState env hooks).2.2 = [] ∧ NoCritPending (enterState env hooks).1.pending := by
  have h1 := handleHooks_noncrit env hooks (.enter env.st) negW hh hp
  have h2 := handleHooks_noncrit _ hooks (.enter env.st) posW hh h1.2
  unfold enterState
  simp only [h1.1, h2.1, gt_iff_lt, Nat.lt_irrefl, if_false, List.append_nil]
  exact ⟨trivial, h2.2⟩

theorem afterEvent_noncrit (env : Env) (hooks : List Hook) (e : Ev) (errs : List (Nat × Moment))
    (hh : ∀ x ∈ hooks, x.critical = false) (hp : NoCritPending env.pending) :
    (afterEvent env hooks e errs).2.2 = errs ∧ NoCritPending (afterEvent env hooks e errs).1.pending := by
  have h1 := handleHooks_noncrit env hooks (.after e) negW hh hp
  have hbk : ∀ f, NoCritPending (bkAfter (handleHooks env hooks (.after e) negW).1 e f).1.pending := by
    intro f; rw [(bkAfter_st _ _ _).2.2]; exact h1.2
  unfold afterEvent
  simp only [h1.1, gt_iff_lt, Nat.lt_irrefl, if_false, List.nil_append]
  have h2 := handleHooks_noncrit _ hooks (.after e) posW hh (hbk (!errs.isEmpty))
  simp only [h2.1, Nat.lt_irrefl, if_false, List.isEmpty_nil, if_true]
  exact ⟨trivial, by rw [(finAfter_st _ _).2.2]; exact h2.2⟩

/-- With only non-critical hooks (and nothing critical pending) no transition is ever
    cancelled or reported as failed because of a hook, whatever the hooks do. -/
theorem fsmEvent_noncrit (env : Env) (hooks : List Hook) (e : Ev) (b r : Bool)
    (hh : ∀ x ∈ hooks, x.critical = false) (hp : NoCritPending env.pending) :
    (fsmEvent env hooks e b r).2.2.noHookBlame = true ∧ NoCritPending (fsmEvent env hooks e b r).1.pending := by
  unfold fsmEvent
  split
  · exact ⟨rfl, hp⟩
  · rename_i d hd
    simp only
    have hb := beforeEvent_noncrit env hooks e r hh hp
    split
    · rename_i res hres
      refine ⟨?_, hb.2⟩
      rcases hb.1 with h | h <;> rw [h] at hres <;> cases hres
      rfl
    · have hl := leaveState_noncrit (beforeEvent env hooks e r).1 hooks e b hh hb.2
      split
      · rename_i res hres
        refine ⟨?_, hl.2⟩
        rcases hl.1 with h | h <;> rw [h] at hres <;> cases hres
        rfl
      · have hen := enterState_noncrit { (leaveState (beforeEvent env hooks e r).1 hooks e b).1 with st := d } hooks hh hl.2
        have haf := afterEvent_noncrit (enterState { (leaveState (beforeEvent env hooks e r).1 hooks e b).1 with st := d } hooks).1 hooks e
          (enterState { (leaveState (beforeEvent env hooks e r).1 hooks e b).1 with st := d } hooks).2.2 hh hen.2
        refine ⟨?_, haf.2⟩
        rw [haf.1, hen.1]; rfl

end EnvM

namespace EnvM

theorem leaveState_none_effects (env : Env) (hooks : List Hook) (e : Ev) (b : Bool)
    (h : (leaveState env hooks e b).2.2 = none) :
    effectsOf (leaveState env hooks e b).2.1 = [Step.body e b] ∧ b = true := by
  unfold leaveState at h ⊢
  simp only at h ⊢
  revert h
  (repeat' split) <;> intro h <;>
    first
    | (cases h; done)
    | (cases b <;> simp_all [effectsOf_append, effectsOf_cons])

/-- A transition that went through (ok or reported failure) ran ALL its moments. -/
theorem fsmEvent_moved_marks (env : Env) (hooks : List Hook) (e : Ev) (b r : Bool) (d : St) (hd : dst? e env.st = some d)
    (hm : (fsmEvent env hooks e b r).2.2.moved = true) :
    marksOf (fsmEvent env hooks e b r).2.1 = markPattern e env.st d ∧
    effectsOf (fsmEvent env hooks e b r).2.1 = [Step.body e b, Step.setState d] ∧ b = true := by
  unfold fsmEvent at hm ⊢
  rw [hd] at hm ⊢
  simp only at hm ⊢
  have hb := beforeEvent_marks env hooks e r
  have hbs := (beforeEvent_st env hooks e r).1
  cases hbr : (beforeEvent env hooks e r).2.2 with
  | some res =>
    simp only [hbr] at hm
    have := beforeEvent_res _ _ _ _ _ hbr
    revert this hm; cases res <;> simp [Result.keepsState, Result.moved]
  | none =>
    simp only [hbr] at hm ⊢
    have hb' : marksOf (beforeEvent env hooks e r).2.1 = [((Moment.before e).name, false), ((Moment.before e).name, true)] := by
      rcases hb with hb | ⟨_, hb2⟩
      · exact hb
      · rw [hbr] at hb2; cases hb2
    have hl := leaveState_marks (beforeEvent env hooks e r).1 hooks e b
    rw [hbs] at hl
    cases hlr : (leaveState (beforeEvent env hooks e r).1 hooks e b).2.2 with
    | some res =>
      simp only [hlr] at hm
      have := leaveState_res _ _ _ _ _ hlr
      revert this hm; cases res <;> simp [Result.keepsState, Result.moved]
    | none =>
      simp only [hlr] at hm ⊢
      have hl' : marksOf (leaveState (beforeEvent env hooks e r).1 hooks e b).2.1 =
          [((Moment.leave env.st).name, false), ((Moment.leave env.st).name, true), ("tasks_" ++ e.name, false), ("tasks_" ++ e.name, true)] := by
        rcases hl with ⟨_, hl2⟩ | hl
        · rw [hlr] at hl2; cases hl2
        · exact hl
      refine ⟨?_, ?_⟩
      · simp only [marksOf_append, hb', hl', enterState_marks, afterEvent_marks, marksOf_cons, marksOf_nil]
        simp [markPattern]
      · -- effects: only the body (inside leave_state) and the state write
        have hle := leaveState_none_effects _ hooks e b hlr
        have hen : effectsOf (enterState { (leaveState (beforeEvent env hooks e r).1 hooks e b).1 with st := d } hooks).2.1 = [] := by
          unfold enterState; simp [effectsOf_append, effectsOf_cons]
        have haf : ∀ env' errs, effectsOf (afterEvent env' hooks e errs).2.1 = [] := by
          intro env' errs
          unfold afterEvent
          have h1 : ∀ env'' f, effectsOf (bkAfter env'' e f).2 = [] := by
            intro env'' f; unfold bkAfter
            cases e <;> simp [effectsOf_cons, tick] <;> (unfold setEoeorIfEmpty; split <;> simp [effectsOf_cons, tick])
          have h2 : ∀ env'', effectsOf (finAfter env'' e).2 = [] := by
            intro env''; unfold finAfter; split <;> rfl
          simp [effectsOf_append, effectsOf_cons, h1, h2]
        refine ⟨?_, hle.2⟩
        simp only [effectsOf_append, beforeEvent_no_effects, hle.1, hen, haf, effectsOf_cons, effectsOf_nil, List.nil_append, List.append_nil]
        rfl

end EnvM

namespace EnvM

/-! ### a pending result stays pending until its await point is handled, is counted there, and is
    cancelled by a teardown that goes through -/

theorem removePending_cons (p : (Moment × Int) × List Inst) (ps : List ((Moment × Int) × List Inst)) (m : Moment) (w : Int) :
    removePending (p :: ps) m w = if p.1.1 = m ∧ p.1.2 = w then removePending ps m w else p :: removePending ps m w := by
  unfold removePending
  by_cases h : p.1.1 = m ∧ p.1.2 = w
  · simp [h]
  · simp only [List.filter_cons, h, if_false]; simp

theorem getAt_removePending_ne (pend : List ((Moment × Int) × List Inst)) (m m' : Moment) (w w' : Int)
    (h : ¬ (m' = m ∧ w' = w)) : getAt (removePending pend m' w') m w = getAt pend m w := by
  induction pend with
  | nil => rfl
  | cons p ps ih =>
    rw [removePending_cons]
    by_cases hp' : p.1.1 = m' ∧ p.1.2 = w'
    · have hp : ¬ (p.1.1 = m ∧ p.1.2 = w) := by
        intro hp; exact h ⟨hp'.1.symm.trans hp.1, hp'.2.symm.trans hp.2⟩
      rw [if_pos hp', getAt_cons_ne _ _ _ _ hp]; exact ih
    · rw [if_neg hp']
      by_cases hp : p.1.1 = m ∧ p.1.2 = w
      · rw [getAt_cons_eq _ _ _ _ hp, getAt_cons_eq _ _ _ _ hp]
      · rw [getAt_cons_ne _ _ _ _ hp, getAt_cons_ne _ _ _ _ hp]; exact ih

/-- Handling one (moment, weight) point keeps whatever is pending at ANOTHER point pending there. -/
theorem handleWeight_keeps_other (env : Env) (hooks : List Hook) (m m' : Moment) (w w' : Int) (i : Inst)
    (hne : ¬ (m' = m ∧ w' = w)) (hi : i ∈ pendingAt env m w) : i ∈ pendingAt (handleWeight env hooks m' w').1 m w := by
  have h1 : i ∈ getAt (phase1 env hooks m' w').1.pending m w := by
    unfold phase1; simp only
    apply getAt_registerAwaits_mono
    rw [instantiate_pending]; exact hi
  have h2 : i ∈ getAt (phase2 (phase1 env hooks m' w').1 m' w').1.pending m w := by
    unfold phase2; simp only
    split
    · exact h1
    · simp only; rw [getAt_removePending_ne _ _ _ _ _ hne]; exact h1
  unfold handleWeight
  simp only
  rw [pendingAt_eq_getAt, instantiate_pending]; exact h2

theorem instantiate_cancelled (env : Env) (hs : List Hook) : (instantiate env hs).1.cancelled = env.cancelled := by
  induction hs generalizing env with
  | nil => rfl
  | cons h hs ih => simp only [instantiate]; rw [ih]; rfl

/-- Hook handling cancels nothing. -/
theorem handleWeight_cancelled (env : Env) (hooks : List Hook) (m : Moment) (w : Int) :
    (handleWeight env hooks m w).1.cancelled = env.cancelled := by
  have h1 : (phase1 env hooks m w).1.cancelled = env.cancelled := by
    unfold phase1; simp only; rw [instantiate_cancelled]
  have h2 : (phase2 (phase1 env hooks m w).1 m w).1.cancelled = env.cancelled := by
    unfold phase2; simp only
    split <;> exact h1
  unfold handleWeight
  simp only
  rw [instantiate_cancelled]; exact h2

/-- …and the point itself counts every failing critical result that is pending there (unless a teardown
    cancelled the call). -/
theorem handleWeight_counts_pending (env : Env) (hooks : List Hook) (m : Moment) (w : Int) (i : Inst)
    (hi : i ∈ pendingAt env m w) (hf : i.fails = true) (hc : i.critical = true) (hnc : isCancelled env i = false) :
    (handleWeight env hooks m w).2.2 > 0 := by
  have h1 : i ∈ pendingAt (phase1 env hooks m w).1 m w := by
    rw [pendingAt_eq_getAt]
    unfold phase1; simp only
    apply getAt_registerAwaits_mono
    rw [instantiate_pending]; exact hi
  unfold handleWeight
  simp only
  apply List.length_pos_of_mem (a := i)
  rw [List.mem_filter]
  refine ⟨List.mem_append_left _ (List.mem_filter.mpr ⟨?_, by simp [hnc]⟩), by simp [hf, hc]⟩
  exact h1

theorem handleWeights_counts_pending (env : Env) (hooks : List Hook) (m : Moment) (ws : List Int) (w : Int) (i : Inst)
    (hw : w ∈ ws) (hi : i ∈ pendingAt env m w) (hf : i.fails = true) (hc : i.critical = true) (hnc : isCancelled env i = false) :
    (handleWeights env hooks m ws).2.2 > 0 := by
  induction ws generalizing env with
  | nil => cases hw
  | cons w' ws ih =>
    simp only [handleWeights]
    split
    · rename_i h; exact h
    · rename_i h
      simp only
      rcases List.mem_cons.mp hw with rfl | hw'
      · exact absurd (handleWeight_counts_pending env hooks m w i hi hf hc hnc) h
      · by_cases heq : w' = w
        · subst heq; exact absurd (handleWeight_counts_pending env hooks m w' i hi hf hc hnc) h
        · exact ih _ hw' (handleWeight_keeps_other env hooks m m w w' i (fun hh => heq hh.2) hi)
            (by unfold isCancelled at hnc ⊢; rw [handleWeight_cancelled]; exact hnc)

theorem mem_sortDedup (ws : List Int) (x : Int) : x ∈ sortDedup ws ↔ x ∈ ws := by
  unfold sortDedup
  suffices ∀ acc, x ∈ ws.foldl (fun acc w => insertSorted w acc) acc ↔ x ∈ acc ∨ x ∈ ws by simpa using this []
  induction ws with
  | nil => intro acc; simp
  | cons a rest ih =>
    intro acc
    simp only [List.foldl_cons, ih, mem_insertSorted, List.mem_cons]
    constructor
    · rintro ((h | h) | h) <;> simp [h]
    · rintro (h | h | h) <;> simp [h]

theorem mem_weightsFor_of_pending (env : Env) (hooks : List Hook) (m : Moment) (p : Int → Bool) (w : Int) (i : Inst)
    (hi : i ∈ pendingAt env m w) (hp : p w = true) : w ∈ weightsFor env hooks m p := by
  unfold weightsFor
  simp only
  rw [List.mem_filter]
  refine ⟨?_, hp⟩
  rw [mem_sortDedup]
  apply List.mem_append_right
  unfold pendingAt at hi
  cases hf : env.pending.find? (fun p => p.1.1 = m ∧ p.1.2 = w) with
  | none => rw [hf] at hi; simp at hi
  | some q =>
    rw [hf] at hi; simp at hi
    have hq := List.find?_some hf
    simp only [decide_eq_true_eq] at hq
    rw [List.mem_map]
    refine ⟨q, ?_, hq.2⟩
    rw [List.mem_filter]
    refine ⟨List.mem_of_find?_eq_some hf, ?_⟩
    have : q.2.isEmpty = false := by
      cases hq2 : q.2 with
      | nil => rw [hq2] at hi; cases hi
      | cons _ _ => rfl
    simp [hq.1, this]


theorem handleHooks_counts_pending (env : Env) (hooks : List Hook) (m : Moment) (p : Int → Bool) (w : Int) (i : Inst)
    (hi : i ∈ pendingAt env m w) (hp : p w = true) (hf : i.fails = true) (hc : i.critical = true) (hnc : isCancelled env i = false) :
    (handleHooks env hooks m p).2.2 > 0 :=
  handleWeights_counts_pending env hooks m _ w i (mem_weightsFor_of_pending env hooks m p w i hi hp) hi hf hc hnc

theorem handleWeights_keeps_elsewhere (env : Env) (hooks : List Hook) (m m' : Moment) (ws : List Int) (w : Int) (i : Inst)
    (hne : m' ≠ m) (hi : i ∈ pendingAt env m w) : i ∈ pendingAt (handleWeights env hooks m' ws).1 m w := by
  induction ws generalizing env with
  | nil => exact hi
  | cons w' ws ih =>
    simp only [handleWeights]
    have hk := handleWeight_keeps_other env hooks m m' w w' i (fun hh => hne hh.1) hi
    split
    · exact hk
    · exact ih _ hk

theorem handleHooks_keeps_elsewhere (env : Env) (hooks : List Hook) (m m' : Moment) (p : Int → Bool) (w : Int) (i : Inst)
    (hne : m' ≠ m) (hi : i ∈ pendingAt env m w) : i ∈ pendingAt (handleHooks env hooks m' p).1 m w :=
  handleWeights_keeps_elsewhere env hooks m m' _ w i hne hi

/-! ### teardown cancels what is pending -/

theorem callAllSync_pending (env : Env) (m : Moment) (w : Int) (hs : List Hook) :
    (callAllSync env m w hs).1.pending = env.pending ∧ (callAllSync env m w hs).1.cancelled = env.cancelled := by
  induction hs generalizing env with
  | nil => exact ⟨rfl, rfl⟩
  | cons h hs ih => simp only [callAllSync]; exact ih _

theorem destroyWeights_pending (env : Env) (hooks : List Hook) (ws : List Int) :
    (destroyWeights env hooks ws).1.pending = env.pending ∧ (destroyWeights env hooks ws).1.cancelled = env.cancelled := by
  induction ws generalizing env with
  | nil => exact ⟨rfl, rfl⟩
  | cons w ws ih =>
    simp only [destroyWeights]
    have h1 := ih (callAllSync env (destroyHooksAt hooks w).2 w ((destroyHooksAt hooks w).1.filter (fun h => !h.isTask))).1
    have h2 := callAllSync_pending env (destroyHooksAt hooks w).2 w ((destroyHooksAt hooks w).1.filter (fun h => !h.isTask))
    exact ⟨h1.1.trans h2.1, h1.2.trans h2.2⟩

theorem uncollected_nil_of_cancelled (env : Env) (h : ∀ i ∈ allPending env, i ∈ env.cancelled) : uncollected env = [] := by
  unfold uncollected isCancelled
  rw [List.filter_eq_nil_iff]
  intro i hi
  simp only [Bool.not_eq_true, Bool.not_eq_false', List.any_eq_true]
  exact ⟨i, h i hi, by simp⟩

/-- A teardown that goes through cancels every call that is still pending: no result is left
    waiting to be collected. -/
theorem teardown_uncollected (env : Env) (hooks : List Hook) (f r1 r2 : Bool) (n : Nat)
    (h : (teardown env hooks f r1 r2 n).2.2.moved = true) : uncollected (teardown env hooks f r1 r2 n).1 = [] := by
  unfold teardown at h ⊢
  split at h
  · cases h
  · split at h
    · cases h
    · rename_i h1 h2
      rw [if_neg h1, if_neg h2]
      simp only at h ⊢
      split at h
      · cases h
      · rename_i h3
        rw [if_neg h3]
        split at h
        · cases h
        · rename_i h4
          rw [if_neg h4]
          apply uncollected_nil_of_cancelled
          intro i hi
          simp only [allPending] at hi ⊢
          exact List.mem_append_right _ hi


/-! ### a call started in a pass is collected in that pass (the await weights are known up front) -/

/-- Instance `i` comes from a call hook triggered at `m` ABOVE the weight `a` at which it awaits at `m`: it was
    started after its own await point had been handled ("awaits backwards"). -/
def StartedAfter (hooks : List Hook) (m : Moment) (a : Int) (i : Inst) : Prop :=
  ∃ g ∈ hooks, g.id = i.hook ∧ g.isTask = false ∧ g.trig = m ∧ g.await = m ∧ g.aw = a ∧ a < g.tw

instance (hooks : List Hook) (m : Moment) (a : Int) (i : Inst) : Decidable (StartedAfter hooks m a i) := by
  unfold StartedAfter; infer_instance

theorem getAt_addPending_cases (pend : List ((Moment × Int) × List Inst)) (m m' : Moment) (w w' : Int) (i x : Inst)
    (hx : x ∈ getAt (addPending pend m' w' i) m w) : x ∈ getAt pend m w ∨ (x = i ∧ m' = m ∧ w' = w) := by
  induction pend with
  | nil =>
    simp only [addPending] at hx
    by_cases h : m' = m ∧ w' = w
    · rw [getAt_cons_eq _ _ _ _ (by exact h)] at hx
      exact Or.inr ⟨by simpa using hx, h⟩
    · rw [getAt_cons_ne _ _ _ _ (by exact h)] at hx
      simp [getAt] at hx
  | cons p ps ih =>
    simp only [addPending] at hx
    split at hx
    · rename_i h
      by_cases hp : p.1.1 = m ∧ p.1.2 = w
      · rw [getAt_cons_eq (p.1, p.2 ++ [i]) ps m w hp] at hx
        rw [getAt_cons_eq _ _ _ _ hp]
        rcases List.mem_append.mp hx with hx | hx
        · exact Or.inl hx
        · exact Or.inr ⟨by simpa using hx, h.1.symm.trans hp.1, h.2.symm.trans hp.2⟩
      · rw [getAt_cons_ne (p.1, p.2 ++ [i]) ps m w hp] at hx
        rw [getAt_cons_ne _ _ _ _ hp]; exact Or.inl hx
    · by_cases hp : p.1.1 = m ∧ p.1.2 = w
      · rw [getAt_cons_eq _ _ _ _ hp] at hx
        rw [getAt_cons_eq _ _ _ _ hp]; exact Or.inl hx
      · rw [getAt_cons_ne _ _ _ _ hp] at hx
        rw [getAt_cons_ne _ _ _ _ hp]; exact ih hx

theorem getAt_registerAwaits_cases (pend : List ((Moment × Int) × List Inst)) (l : List (Hook × Inst)) (m : Moment) (w : Int) (x : Inst)
    (hx : x ∈ getAt (registerAwaits pend l) m w) : x ∈ getAt pend m w ∨ ∃ h, (h, x) ∈ l ∧ h.await = m ∧ h.aw = w := by
  induction l generalizing pend with
  | nil => exact Or.inl hx
  | cons hi rest ih =>
    obtain ⟨h, i⟩ := hi
    rcases ih _ hx with h1 | ⟨g, hg, hga⟩
    · rcases getAt_addPending_cases pend m h.await w h.aw i x h1 with h2 | ⟨rfl, h3, h4⟩
      · exact Or.inl h2
      · exact Or.inr ⟨h, List.mem_cons_self, h3, h4⟩
    · exact Or.inr ⟨g, List.mem_cons_of_mem _ hg, hga⟩

/-- a pair of the zip of the hooks with their instances: the instance carries its hook's id -/
theorem zip_instantiate_id (env : Env) (hs : List Hook) (h : Hook) (x : Inst)
    (hm : (h, x) ∈ hs.zip (instantiate env hs).2) : h ∈ hs ∧ x.hook = h.id := by
  induction hs generalizing env with
  | nil => simp at hm
  | cons g gs ih =>
    simp only [instantiate, List.zip_cons_cons, List.mem_cons] at hm
    rcases hm with hm | hm
    · have h1 : h = g := (Prod.mk.inj hm).1
      have h2 : x = mkInst env g := (Prod.mk.inj hm).2
      subst h1; subst h2
      exact ⟨List.mem_cons_self, rfl⟩
    · obtain ⟨a, b⟩ := ih _ hm
      exact ⟨List.mem_cons_of_mem _ a, b⟩

/-- What is pending at (m, a) after ANOTHER weight `w` of the same moment has been handled: what was pending there
    before, or an instance of a call triggered at (m, w) that awaits at (m, a). -/
theorem handleWeight_pending_cases (env : Env) (hooks : List Hook) (m : Moment) (w a : Int) (x : Inst)
    (hx : x ∈ pendingAt (handleWeight env hooks m w).1 m a) :
    x ∈ pendingAt env m a ∨
      ∃ g ∈ hooks, g.id = x.hook ∧ g.isTask = false ∧ g.trig = m ∧ g.tw = w ∧ g.await = m ∧ g.aw = a := by
  have h3 : x ∈ getAt (phase2 (phase1 env hooks m w).1 m w).1.pending m a := by
    unfold handleWeight at hx
    simp only at hx
    rw [pendingAt_eq_getAt, instantiate_pending] at hx; exact hx
  have h2 : x ∈ getAt (phase1 env hooks m w).1.pending m a := by
    unfold phase2 at h3; simp only at h3
    split at h3
    · exact h3
    · simp only at h3
      by_cases hwa : w = a
      · subst hwa
        have := pendingAt_removePending (phase1 env hooks m w).1.pending m w
        unfold getAt at h3; rw [this] at h3; simp at h3
      · rw [getAt_removePending_ne _ _ _ _ _ (fun hh => hwa hh.2)] at h3; exact h3
  unfold phase1 at h2; simp only at h2
  rcases getAt_registerAwaits_cases _ _ m a x h2 with h1 | ⟨g, hg, hga, hgw⟩
  · rw [instantiate_pending] at h1; exact Or.inl h1
  · obtain ⟨hmem, hid⟩ := zip_instantiate_id env _ g x hg
    have hf := List.mem_filter.mp hmem
    have hf2 := List.mem_filter.mp hf.1
    have hcall : g.isTask = false := by simpa using hf.2
    have htr : g.trig = m ∧ g.tw = w := by simpa using hf2.2
    exact Or.inr ⟨g, hf2.1, hid.symm, hcall, htr.1, htr.2, hga, hgw⟩

/-- Handling weights ABOVE `a` keeps "whatever is pending at (m, a) was started after (m, a) had been handled". -/
theorem handleWeights_startedAfter (env : Env) (hooks : List Hook) (m : Moment) (a : Int) (ws : List Int)
    (hws : ∀ w ∈ ws, a < w) (hP : ∀ i ∈ pendingAt env m a, StartedAfter hooks m a i) :
    ∀ i ∈ pendingAt (handleWeights env hooks m ws).1 m a, StartedAfter hooks m a i := by
  induction ws generalizing env with
  | nil => exact hP
  | cons w ws ih =>
    have hstep : ∀ i ∈ pendingAt (handleWeight env hooks m w).1 m a, StartedAfter hooks m a i := by
      intro i hi
      rcases handleWeight_pending_cases env hooks m w a i hi with h | ⟨g, hg, hid, hcall, htr, htw, haw, haa⟩
      · exact hP i h
      · exact ⟨g, hg, hid, hcall, htr, haw, haa, by rw [htw]; exact hws w List.mem_cons_self⟩
    simp only [handleWeights]
    split
    · exact hstep
    · exact ih _ (fun w' hw' => hws w' (List.mem_cons_of_mem _ hw')) hstep

/-- A pass that visits `a` and meets no critical failure leaves at (m, a) only calls started after the point. -/
theorem handleWeights_visits (env : Env) (hooks : List Hook) (m : Moment) (a : Int) (ws : List Int)
    (hasc : Ascending ws) (ha : a ∈ ws) (h0 : (handleWeights env hooks m ws).2.2 = 0) :
    ∀ i ∈ pendingAt (handleWeights env hooks m ws).1 m a, StartedAfter hooks m a i := by
  induction ws generalizing env with
  | nil => cases ha
  | cons w ws ih =>
    simp only [handleWeights] at h0 ⊢
    split
    · rename_i hc; rw [if_pos hc] at h0; omega
    · rename_i hc
      rw [if_neg hc] at h0
      by_cases hwa : w = a
      · subst hwa
        apply handleWeights_startedAfter _ hooks m w ws (ascending_head_lt hasc)
        intro i hi; rw [handleWeight_barrier] at hi; cases hi
      · have ha' : a ∈ ws := by
          rcases List.mem_cons.mp ha with h | h
          · exact absurd h.symm hwa
          · exact h
        exact ih _ (ascending_tail hasc) ha' h0

/-- The await weight of a call triggered at `m` that awaits at `m` is one of the weights of the pass. -/
theorem mem_weightsFor_of_await (env : Env) (hooks : List Hook) (m : Moment) (p : Int → Bool) (h : Hook)
    (hmem : h ∈ hooks) (hcall : h.isTask = false) (htrig : h.trig = m) (hawait : h.await = m) (hp : p h.aw = true) :
    h.aw ∈ weightsFor env hooks m p := by
  unfold weightsFor
  simp only
  rw [List.mem_filter]
  refine ⟨?_, hp⟩
  rw [mem_sortDedup]
  apply List.mem_append_left
  apply List.mem_append_right
  rw [List.mem_map]
  exact ⟨h, List.mem_filter.mpr ⟨hmem, by simp [htrig, hcall, hawait]⟩, rfl⟩

/-- **Awaited where declared, within the pass**: a call triggered at `m` whose await names `m` with a weight of
    this pass has its await point visited by the pass, so — unless a critical failure stopped the pass — all
    that is left pending at that point afterwards are calls that were started above it. -/
theorem handleHooks_await_same_moment (env : Env) (hooks : List Hook) (m : Moment) (p : Int → Bool) (h : Hook)
    (hmem : h ∈ hooks) (hcall : h.isTask = false) (htrig : h.trig = m) (hawait : h.await = m) (hp : p h.aw = true)
    (h0 : (handleHooks env hooks m p).2.2 = 0) :
    ∀ i ∈ pendingAt (handleHooks env hooks m p).1 m h.aw, StartedAfter hooks m h.aw i :=
  handleWeights_visits env hooks m h.aw _ (weightsFor_ascending env hooks m p).1
    (mem_weightsFor_of_await env hooks m p h hmem hcall htrig hawait hp) h0

end EnvM
