/-
  Proofs/EnvOnce — HOW OFTEN a hook is begun (C08 C10).

  `begunCount id ss` counts the executions of hook `id` that the steps `ss` begin (a call started, a task hook
  run). With pairwise different hook ids: one weight of handleHooks begins a hook exactly once if that weight is
  the hook's trigger point and not at all otherwise; a pass visits strictly ascending weights, all of its own
  sign, so it begins a hook at most once — exactly once when the hook's weight belongs to the pass and no
  critical failure stopped it; the negative and the non-negative pass of a moment never both begin it; the four
  moments of one transition are different moments.
-/
import ControlModel.Proofs.EnvRun
import ControlModel.Proofs.EnvHooks

namespace EnvM
set_option linter.unusedSimpArgs false

def begunIds (ss : List Step) : List Nat := (ss.flatMap Step.begun).map (·.hook)

def begunCount (id : Nat) (ss : List Step) : Nat := (begunIds ss).count id

theorem begunIds_append (a b : List Step) : begunIds (a ++ b) = begunIds a ++ begunIds b := by
  simp [begunIds]

theorem begunCount_append (id : Nat) (a b : List Step) : begunCount id (a ++ b) = begunCount id a + begunCount id b := by
  simp [begunCount, begunIds_append]

theorem begunCount_nil (id : Nat) : begunCount id [] = 0 := rfl

/-- steps that begin nothing -/
def NoBegun (ss : List Step) : Prop := ∀ s ∈ ss, s.begun = []

theorem begunCount_noBegun (id : Nat) (ss : List Step) (h : NoBegun ss) : begunCount id ss = 0 := by
  induction ss with
  | nil => rfl
  | cons s ss ih =>
    have h1 : s.begun = [] := h s List.mem_cons_self
    have h2 := ih (fun x hx => h x (List.mem_cons_of_mem _ hx))
    have : begunCount id (s :: ss) = begunCount id [s] + begunCount id ss := begunCount_append id [s] ss
    rw [this, h2]
    simp [begunCount, begunIds, h1]

theorem begunIds_start (m : Moment) (w : Int) (is : List Inst) :
    begunIds (if is.isEmpty then [] else [Step.start m w is]) = is.map (·.hook) := by
  cases is <;> simp [begunIds, Step.begun]

theorem begunIds_await (m : Moment) (w : Int) (is : List Inst) :
    begunIds (if is.isEmpty then [] else [Step.await m w is]) = [] := by
  cases is <;> simp [begunIds, Step.begun]

/-- the hooks one weight begins: the calls triggered at (m, w), then the task hooks triggered there -/
theorem handleWeight_begunIds (env : Env) (hooks : List Hook) (m : Moment) (w : Int) :
    begunIds (handleWeight env hooks m w).2.1 =
      ((hooks.filter (fun h => h.trig = m ∧ h.tw = w)).filter (fun h => !h.isTask)).map (·.id) ++
      ((hooks.filter (fun h => h.trig = m ∧ h.tw = w)).filter (fun h => h.isTask)).map (·.id) := by
  unfold handleWeight
  simp only [begunIds_append, begunIds_start, begunIds_await, List.append_nil]
  rw [phase1_insts]
  congr 1
  generalize (hooks.filter (fun h => h.trig = m ∧ h.tw = w)).filter (fun h => h.isTask) = tasks
  generalize (phase2 (phase1 env hooks m w).1 m w).1 = env'
  cases tasks with
  | nil => simp [begunIds, instantiate]
  | cons t ts =>
    simp only [List.isEmpty_cons, Bool.false_eq_true, if_false, begunIds, List.flatMap_cons, List.flatMap_nil,
      List.append_nil, Step.begun]
    exact (instantiate_insts env' (t :: ts)).1

theorem count_zero_of_id_not_mem (hooks : List Hook) (P : Hook → Bool) (id : Nat) (h : id ∉ hooks.map (·.id)) :
    ((hooks.filter P).map (·.id)).count id = 0 := by
  rw [List.count_eq_zero]
  intro hm
  apply h
  obtain ⟨g, hg, hid⟩ := List.mem_map.mp hm
  exact List.mem_map.mpr ⟨g, (List.mem_filter.mp hg).1, hid⟩

/-- with pairwise different ids, a selection of the hooks holds the id of `h` once if it selects `h`, else not at all -/
theorem count_id_filter (hooks : List Hook) (h : Hook) (hmem : h ∈ hooks) (hU : (hooks.map (·.id)).Nodup) (P : Hook → Bool) :
    ((hooks.filter P).map (·.id)).count h.id = if P h then 1 else 0 := by
  induction hooks with
  | nil => cases hmem
  | cons g rest ih =>
    simp only [List.map_cons, List.nodup_cons] at hU
    rcases List.mem_cons.mp hmem with rfl | hrest
    · have h0 := count_zero_of_id_not_mem rest P h.id hU.1
      by_cases hp : P h = true
      · simp [List.filter_cons, hp, h0]
      · simp [List.filter_cons, hp, h0]
    · have hne : g.id ≠ h.id := by
        intro e
        apply hU.1
        rw [e]
        exact List.mem_map.mpr ⟨h, hrest, rfl⟩
      have := ih hrest hU.2
      by_cases hp : P g = true
      · simp only [List.filter_cons, hp, if_true, List.map_cons]
        rw [List.count_cons_of_ne (by simpa using hne)]
        exact this
      · simp only [List.filter_cons, hp, if_false, Bool.false_eq_true]
        exact this

/-- one weight begins `h` exactly once if (m, w) is its trigger point, and not at all otherwise -/
theorem handleWeight_begunCount (env : Env) (hooks : List Hook) (m : Moment) (w : Int) (h : Hook)
    (hmem : h ∈ hooks) (hU : (hooks.map (·.id)).Nodup) :
    begunCount h.id (handleWeight env hooks m w).2.1 = if h.trig = m ∧ h.tw = w then 1 else 0 := by
  unfold begunCount
  rw [handleWeight_begunIds, List.count_append, List.filter_filter, List.filter_filter,
    count_id_filter hooks h hmem hU, count_id_filter hooks h hmem hU]
  by_cases hp : h.trig = m ∧ h.tw = w <;> cases ht : h.isTask <;> simp [hp, ht]

theorem mem_weightsFor_of_trig (env : Env) (hooks : List Hook) (m : Moment) (p : Int → Bool) (h : Hook)
    (hmem : h ∈ hooks) (ht : h.trig = m) (hp : p h.tw = true) : h.tw ∈ weightsFor env hooks m p := by
  unfold weightsFor
  simp only
  rw [List.mem_filter]
  refine ⟨?_, hp⟩
  rw [mem_sortDedup]
  apply List.mem_append_left
  apply List.mem_append_left
  exact List.mem_map.mpr ⟨h, List.mem_filter.mpr ⟨hmem, by simp [ht]⟩, rfl⟩

/-- a list of strictly ascending weights begins `h` at most once, exactly once if its trigger weight is among
    them and no critical failure stopped the walk -/
theorem handleWeights_begunCount (env : Env) (hooks : List Hook) (m : Moment) (ws : List Int) (hasc : Ascending ws) (h : Hook)
    (hmem : h ∈ hooks) (hU : (hooks.map (·.id)).Nodup) :
    begunCount h.id (handleWeights env hooks m ws).2.1 ≤ (if h.trig = m ∧ h.tw ∈ ws then 1 else 0) ∧
    ((handleWeights env hooks m ws).2.2 = 0 →
      begunCount h.id (handleWeights env hooks m ws).2.1 = if h.trig = m ∧ h.tw ∈ ws then 1 else 0) := by
  induction ws generalizing env with
  | nil => simp [handleWeights, begunCount_nil]
  | cons w ws ih =>
    have hw := handleWeight_begunCount env hooks m w h hmem hU
    have hnot : w ∉ ws := fun hin => Int.lt_irrefl w (ascending_head_lt hasc w hin)
    simp only [handleWeights]
    split
    · rename_i hpos
      refine ⟨?_, fun h0 => by omega⟩
      rw [hw]
      by_cases h1 : h.trig = m ∧ h.tw = w
      · simp [h1]
      · simp [h1]
    · rename_i hpos
      obtain ⟨ih1, ih2⟩ := ih (handleWeight env hooks m w).1 (ascending_tail hasc)
      simp only [begunCount_append, hw]
      by_cases h1 : h.trig = m ∧ h.tw = w
      · have h2 : ¬ (h.trig = m ∧ h.tw ∈ ws) := fun hh => hnot (h1.2 ▸ hh.2)
        rw [if_neg h2] at ih1 ih2
        have h3 : h.trig = m ∧ h.tw ∈ w :: ws := ⟨h1.1, by simp [h1.2]⟩
        rw [if_pos h1, if_pos h3]
        refine ⟨by omega, fun h0 => by have := ih2 h0; omega⟩
      · have hiff : (h.trig = m ∧ h.tw ∈ w :: ws) ↔ (h.trig = m ∧ h.tw ∈ ws) := by
          constructor
          · rintro ⟨a, b⟩
            rcases List.mem_cons.mp b with b | b
            · exact absurd ⟨a, b⟩ h1
            · exact ⟨a, b⟩
          · rintro ⟨a, b⟩; exact ⟨a, List.mem_cons_of_mem _ b⟩
        simp only [h1, if_false, Nat.zero_add]
        by_cases h2 : h.trig = m ∧ h.tw ∈ ws
        · simp only [h2, hiff.mpr h2, and_self, if_true] at ih1 ih2 ⊢
          exact ⟨ih1, ih2⟩
        · have h3 : ¬ (h.trig = m ∧ h.tw ∈ w :: ws) := fun hh => h2 (hiff.mp hh)
          simp only [h2, h3, if_false] at ih1 ih2 ⊢
          exact ⟨ih1, ih2⟩

/-- **one pass**: `h` is begun at most once; not at all when the moment is not its trigger moment or its weight is
    not one of the pass; exactly once when it is and no critical failure stopped the pass -/
theorem handleHooks_begunCount (env : Env) (hooks : List Hook) (m : Moment) (p : Int → Bool) (h : Hook)
    (hmem : h ∈ hooks) (hU : (hooks.map (·.id)).Nodup) :
    begunCount h.id (handleHooks env hooks m p).2.1 ≤ (if h.trig = m ∧ p h.tw = true then 1 else 0) ∧
    ((handleHooks env hooks m p).2.2 = 0 →
      begunCount h.id (handleHooks env hooks m p).2.1 = if h.trig = m ∧ p h.tw = true then 1 else 0) := by
  have hasc := weightsFor_ascending env hooks m p
  have hiff : (h.trig = m ∧ h.tw ∈ weightsFor env hooks m p) ↔ (h.trig = m ∧ p h.tw = true) := by
    constructor
    · rintro ⟨a, b⟩; exact ⟨a, hasc.2 _ b⟩
    · rintro ⟨a, b⟩; exact ⟨a, mem_weightsFor_of_trig env hooks m p h hmem a b⟩
  have := handleWeights_begunCount env hooks m _ hasc.1 h hmem hU
  unfold handleHooks
  by_cases hc : h.trig = m ∧ p h.tw = true
  · simp only [hiff.mpr hc, hc, and_self, if_true] at this ⊢; exact this
  · have hc' : ¬ (h.trig = m ∧ h.tw ∈ weightsFor env hooks m p) := fun hh => hc (hiff.mp hh)
    simp only [hc', hc, if_false] at this ⊢; exact this

/-- everything a pass begins is an execution of a hook triggered at this moment with a weight of the pass -/
theorem handleHooks_begun_hook (env : Env) (hooks : List Hook) (m : Moment) (p : Int → Bool) (id : Nat)
    (hid : id ∈ begunIds (handleHooks env hooks m p).2.1) : ∃ g ∈ hooks, g.id = id ∧ g.trig = m ∧ p g.tw = true := by
  unfold handleHooks at hid
  have hp := (weightsFor_ascending env hooks m p).2
  generalize weightsFor env hooks m p = ws at hid hp
  induction ws generalizing env with
  | nil => simp [handleWeights, begunIds] at hid
  | cons w ws ih =>
    have one : id ∈ begunIds (handleWeight env hooks m w).2.1 → ∃ g ∈ hooks, g.id = id ∧ g.trig = m ∧ p g.tw = true := by
      intro hin
      rw [handleWeight_begunIds, List.mem_append] at hin
      rcases hin with hin | hin <;>
      · obtain ⟨g, hg, hgid⟩ := List.mem_map.mp hin
        have hg1 := (List.mem_filter.mp hg).1
        have hg2 := List.mem_filter.mp hg1
        have hg3 : g.trig = m ∧ g.tw = w := by simpa using hg2.2
        exact ⟨g, hg2.1, hgid, hg3.1, by rw [hg3.2]; exact hp w List.mem_cons_self⟩
    simp only [handleWeights] at hid
    split at hid
    · exact one hid
    · rw [begunIds_append, List.mem_append] at hid
      rcases hid with hid | hid
      · exact one hid
      · exact ih _ hid (fun x hx => hp x (List.mem_cons_of_mem _ hx))

/-! ### the bookkeeping between the passes begins nothing -/

@[simp] theorem begunCount_mark (id : Nat) (n : String) (f : Bool) : begunCount id [Step.mark n f] = 0 := rfl

theorem setSoeor_noBegun (env : Env) (tr : String) (p : Bool) : NoBegun (setSoeorIfEmpty env tr p).2 := by
  unfold setSoeorIfEmpty
  split
  · intro s hs
    simp only [tick, List.mem_append, List.mem_singleton] at hs
    rcases hs with rfl | hs
    · rfl
    · split at hs
      · simp only [List.mem_singleton] at hs; subst hs; rfl
      · cases hs
  · intro s hs; cases hs

theorem setEoeor_noBegun (env : Env) (tr : String) (st : RunStatus) : NoBegun (setEoeorIfEmpty env tr st).2 := by
  unfold setEoeorIfEmpty
  split
  · intro s hs
    simp only [tick, List.mem_cons, List.not_mem_nil, or_false] at hs
    rcases hs with rfl | rfl <;> rfl
  · intro s hs; cases hs

theorem bkBefore_noBegun (env : Env) (e : Ev) (r : Bool) : NoBegun (bkBefore env e r).2.1 := by
  unfold bkBefore
  cases e <;> simp only
  case START_ACTIVITY =>
    split
    · intro s hs; cases hs
    · intro s hs
      simp only [tick, List.mem_cons, List.not_mem_nil, or_false] at hs
      rcases hs with rfl | rfl | rfl | rfl <;> rfl
  case STOP_ACTIVITY => exact setSoeor_noBegun _ _ _
  case GO_ERROR => exact setSoeor_noBegun _ _ _
  all_goals (intro s hs; cases hs)

theorem bkAfter_noBegun (env : Env) (e : Ev) (f : Bool) : NoBegun (bkAfter env e f).2 := by
  unfold bkAfter
  cases e <;> simp only
  case START_ACTIVITY =>
    intro s hs
    simp only [tick, List.mem_cons, List.not_mem_nil, or_false] at hs
    rcases hs with rfl | rfl <;> rfl
  case STOP_ACTIVITY => exact setEoeor_noBegun _ _ _
  case GO_ERROR => exact setEoeor_noBegun _ _ _
  all_goals (intro s hs; cases hs)

theorem finAfter_noBegun (env : Env) (e : Ev) : NoBegun (finAfter env e).2 := by
  unfold finAfter
  split
  · intro s hs; simp only [List.mem_singleton] at hs; subst hs; rfl
  · intro s hs; cases hs

/-! ### the two passes of a moment -/

theorem neg_pos_exclusive (w : Int) : ¬ (negW w = true ∧ posW w = true) := by
  simp only [negW, posW, decide_eq_true_eq]; omega

theorem neg_or_pos (w : Int) : negW w = true ∨ posW w = true := by
  simp only [negW, posW, decide_eq_true_eq]; omega

/-- **the two passes of one occurrence of a moment** (whatever the bookkeeping in between does to the
    environment): together they begin `h` at most once, and not at all at another moment than its own; exactly
    once when the moment is its trigger moment and neither pass was stopped by a critical failure -/
theorem twoPass_begunCount (env1 env2 : Env) (hooks : List Hook) (m : Moment) (h : Hook)
    (hmem : h ∈ hooks) (hU : (hooks.map (·.id)).Nodup) :
    begunCount h.id (handleHooks env1 hooks m negW).2.1 + begunCount h.id (handleHooks env2 hooks m posW).2.1 ≤
      (if h.trig = m then 1 else 0) ∧
    ((handleHooks env1 hooks m negW).2.2 = 0 → (handleHooks env2 hooks m posW).2.2 = 0 →
      begunCount h.id (handleHooks env1 hooks m negW).2.1 + begunCount h.id (handleHooks env2 hooks m posW).2.1 =
        if h.trig = m then 1 else 0) := by
  obtain ⟨a1, a2⟩ := handleHooks_begunCount env1 hooks m negW h hmem hU
  obtain ⟨b1, b2⟩ := handleHooks_begunCount env2 hooks m posW h hmem hU
  by_cases ht : h.trig = m
  · rw [if_pos ht]
    rcases neg_or_pos h.tw with hn | hp
    · have hp : ¬ (h.trig = m ∧ posW h.tw = true) := fun hp => neg_pos_exclusive h.tw ⟨hn, hp.2⟩
      rw [if_pos ⟨ht, hn⟩] at a1 a2
      rw [if_neg hp] at b1 b2
      exact ⟨by omega, fun h1 h2 => by have := a2 h1; have := b2 h2; omega⟩
    · have hn : ¬ (h.trig = m ∧ negW h.tw = true) := fun hn => neg_pos_exclusive h.tw ⟨hn.2, hp⟩
      rw [if_pos ⟨ht, hp⟩] at b1 b2
      rw [if_neg hn] at a1 a2
      exact ⟨by omega, fun h1 h2 => by have := a2 h1; have := b2 h2; omega⟩
  · rw [if_neg ht]
    rw [if_neg (fun hh => ht hh.1)] at a1 b1
    exact ⟨by omega, fun _ _ => by omega⟩

/-- the negative pass alone -/
theorem negPass_begunCount (env : Env) (hooks : List Hook) (m : Moment) (h : Hook)
    (hmem : h ∈ hooks) (hU : (hooks.map (·.id)).Nodup) :
    begunCount h.id (handleHooks env hooks m negW).2.1 ≤ (if h.trig = m then 1 else 0) := by
  have := (handleHooks_begunCount env hooks m negW h hmem hU).1
  by_cases ht : h.trig = m
  · simp only [ht, if_true]; split at this <;> omega
  · simp only [ht, false_and, if_false] at this ⊢; exact this

/-! ### the four callbacks and the transition -/

theorem beforeEvent_begunCount (env : Env) (hooks : List Hook) (e : Ev) (r : Bool) (h : Hook)
    (hmem : h ∈ hooks) (hU : (hooks.map (·.id)).Nodup) :
    begunCount h.id (beforeEvent env hooks e r).2.1 ≤ (if h.trig = .before e then 1 else 0) := by
  unfold beforeEvent
  simp only
  have hneg := negPass_begunCount env hooks (.before e) h hmem hU
  split
  · simp only [begunCount_append, begunCount_mark]; omega
  · split
    · simp only [begunCount_append, begunCount_mark]; omega
    · have h2 := (twoPass_begunCount env (bkBefore (handleHooks env hooks (.before e) negW).1 e r).1 hooks (.before e) h hmem hU).1
      have hb := begunCount_noBegun h.id _ (bkBefore_noBegun (handleHooks env hooks (.before e) negW).1 e r)
      simp only [begunCount_append, begunCount_mark, hb]; omega

theorem leaveState_begunCount (env : Env) (hooks : List Hook) (e : Ev) (b : Bool) (h : Hook)
    (hmem : h ∈ hooks) (hU : (hooks.map (·.id)).Nodup) :
    begunCount h.id (leaveState env hooks e b).2.1 ≤ (if h.trig = .leave env.st then 1 else 0) := by
  unfold leaveState
  simp only
  have hneg := negPass_begunCount env hooks (.leave env.st) h hmem hU
  have hbk0 : begunCount h.id (if env.st = .RUNNING then setSoeorIfEmpty (handleHooks env hooks (.leave env.st) negW).1 e.name false
      else ((handleHooks env hooks (.leave env.st) negW).1, [])).2 = 0 := by
    apply begunCount_noBegun
    split
    · exact setSoeor_noBegun _ _ _
    · intro s hs; cases hs
  generalize (if env.st = .RUNNING then setSoeorIfEmpty (handleHooks env hooks (.leave env.st) negW).1 e.name false
      else ((handleHooks env hooks (.leave env.st) negW).1, [])) = bk at hbk0 ⊢
  have h2 := (twoPass_begunCount env bk.1 hooks (.leave env.st) h hmem hU).1
  have hbody : ∀ n : String, begunCount h.id [Step.mark n false, Step.body e b, Step.mark n true] = 0 := fun _ => rfl
  split
  · simp only [begunCount_append, begunCount_mark, hbk0]; omega
  · split
    · simp only [begunCount_append, begunCount_mark, hbk0]; omega
    · simp only [begunCount_append, begunCount_mark, hbk0, hbody]; omega

theorem enterState_begunCount (env : Env) (hooks : List Hook) (h : Hook)
    (hmem : h ∈ hooks) (hU : (hooks.map (·.id)).Nodup) :
    begunCount h.id (enterState env hooks).2.1 ≤ (if h.trig = .enter env.st then 1 else 0) := by
  unfold enterState
  simp only
  have h2 := (twoPass_begunCount env (handleHooks env hooks (.enter env.st) negW).1 hooks (.enter env.st) h hmem hU).1
  simp only [begunCount_append, begunCount_mark]; omega

theorem afterEvent_begunCount (env : Env) (hooks : List Hook) (e : Ev) (errs : List (Nat × Moment)) (h : Hook)
    (hmem : h ∈ hooks) (hU : (hooks.map (·.id)).Nodup) :
    begunCount h.id (afterEvent env hooks e errs).2.1 ≤ (if h.trig = .after e then 1 else 0) := by
  unfold afterEvent
  simp only
  generalize hbk : bkAfter (handleHooks env hooks (.after e) negW).1 e _ = bk
  have h2 := (twoPass_begunCount env bk.1 hooks (.after e) h hmem hU).1
  have hb : begunCount h.id bk.2 = 0 := by rw [← hbk]; exact begunCount_noBegun h.id _ (bkAfter_noBegun _ _ _)
  have hf := begunCount_noBegun h.id _ (finAfter_noBegun (handleHooks bk.1 hooks (.after e) posW).1 e)
  simp only [begunCount_append, begunCount_mark, hb, hf]; omega

/-- the four moments of one transition are four different moments -/
theorem moments_exclusive (t : Moment) (e : Ev) (s d : St) :
    (if t = .before e then 1 else 0) + (if t = .leave s then 1 else 0) + (if t = .enter d then 1 else 0) +
      (if t = .after e then 1 else 0) ≤ 1 := by
  cases t <;> simp <;> split <;> omega

/-- **one transition** (`Sm.Event`): whatever cancels it or fails in it, a hook is begun at most once — its
    trigger moment occurs at most once in a transition, and the two passes of that moment begin it once -/
theorem fsmEvent_begunCount (env : Env) (hooks : List Hook) (e : Ev) (b r : Bool) (h : Hook)
    (hmem : h ∈ hooks) (hU : (hooks.map (·.id)).Nodup) :
    begunCount h.id (fsmEvent env hooks e b r).2.1 ≤ 1 := by
  unfold fsmEvent
  split
  · simp [begunCount_nil]
  · rename_i d hd
    simp only
    have hb := beforeEvent_begunCount env hooks e r h hmem hU
    have hl := leaveState_begunCount (beforeEvent env hooks e r).1 hooks e b h hmem hU
    have hen : begunCount h.id (enterState { (leaveState (beforeEvent env hooks e r).1 hooks e b).1 with st := d } hooks).2.1 ≤
        (if h.trig = .enter d then 1 else 0) :=
      enterState_begunCount { (leaveState (beforeEvent env hooks e r).1 hooks e b).1 with st := d } hooks h hmem hU
    have haf := afterEvent_begunCount (enterState { (leaveState (beforeEvent env hooks e r).1 hooks e b).1 with st := d } hooks).1 hooks e
      (enterState { (leaveState (beforeEvent env hooks e r).1 hooks e b).1 with st := d } hooks).2.2 h hmem hU
    have hex := moments_exclusive h.trig e (beforeEvent env hooks e r).1.st d
    have hs : begunCount h.id [Step.setState d] = 0 := rfl
    split
    · simp only; omega
    · split
      · simp only [begunCount_append]; omega
      · simp only [begunCount_append, hs] at hen haf ⊢; omega

/-- with pairwise different ids, the hook an id names -/
theorem hook_of_id (hooks : List Hook) (hU : (hooks.map (·.id)).Nodup) (g h : Hook) (hg : g ∈ hooks) (hh : h ∈ hooks)
    (hid : g.id = h.id) : g = h := by
  induction hooks with
  | nil => cases hg
  | cons x rest ih =>
    simp only [List.map_cons, List.nodup_cons] at hU
    rcases List.mem_cons.mp hg with rfl | hg' <;> rcases List.mem_cons.mp hh with rfl | hh'
    · rfl
    · exact absurd (List.mem_map.mpr ⟨h, hh', hid.symm⟩) hU.1
    · exact absurd (List.mem_map.mpr ⟨g, hg', hid⟩) hU.1
    · exact ih hU.2 hg' hh'

/-- an execution of `h` begun by a pass: the moment is `h`'s trigger moment and its weight is one of the pass -/
theorem begun_in_pass (env : Env) (hooks : List Hook) (m : Moment) (p : Int → Bool) (h : Hook)
    (hmem : h ∈ hooks) (hU : (hooks.map (·.id)).Nodup) (s : Step) (hs : s ∈ (handleHooks env hooks m p).2.1)
    (i : Inst) (hi : i ∈ s.begun) (hid : i.hook = h.id) : h.trig = m ∧ p h.tw = true := by
  have hin : i.hook ∈ begunIds (handleHooks env hooks m p).2.1 := by
    unfold begunIds
    exact List.mem_map.mpr ⟨i, List.mem_flatMap.mpr ⟨s, hs, hi⟩, rfl⟩
  obtain ⟨g, hg, hgid, hgt, hgp⟩ := handleHooks_begun_hook env hooks m p i.hook hin
  have : g = h := hook_of_id hooks hU g h hg hmem (hgid.trans hid)
  subst this
  exact ⟨hgt, hgp⟩

/-- in a strictly ascending list the smaller of two members stands before the greater -/
theorem ascending_split (ws : List Int) (hasc : Ascending ws) (a b : Int) (ha : a ∈ ws) (hb : b ∈ ws) (hab : a < b) :
    ∃ l1 l2 l3, ws = l1 ++ a :: (l2 ++ b :: l3) := by
  induction ws with
  | nil => cases ha
  | cons x rest ih =>
    have hlt := ascending_head_lt hasc
    rcases List.mem_cons.mp ha with rfl | ha'
    · rcases List.mem_cons.mp hb with rfl | hb'
      · exact absurd hab (Int.lt_irrefl _)
      · obtain ⟨l2, l3, hr⟩ := List.append_of_mem hb'
        exact ⟨[], l2, l3, by rw [hr]; rfl⟩
    · have hxa := hlt a ha'
      rcases List.mem_cons.mp hb with rfl | hb'
      · omega
      · obtain ⟨l1, l2, l3, hr⟩ := ih (ascending_tail hasc) ha' hb'
        exact ⟨x :: l1, l2, l3, by rw [hr]; rfl⟩

end EnvM
