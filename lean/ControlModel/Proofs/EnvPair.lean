/-
  Proofs/EnvPair — the overlapping pairs the harness issues, on the concurrent layer (Model/EnvConc).

  A pair `(P a b)`: two callers; both have looked the environment up, caller 0 (`a`: a transition through
  TryTransition or a teardown — one critical section) has taken the mutex, caller 1 (`b`: any request) wants
  it. From there EVERY schedule of the two callers' moves walks through the same phases — the only freedom
  a schedule has is to pick moves that are not enabled — and when both callers are done the environment is
  the one `stepHeld` computes: `runPar` (the model the trace monitor compares the real code with) is the
  outcome of all schedules of the concurrent layer, not of a chosen one.
-/
import ControlModel.Proofs.Env
import ControlModel.Proofs.EnvConc

namespace EnvM

def Req.isControl : Req → Bool
  | .control .. => true
  | _ => false

/-- where the two callers of a pair are -/
inductive Phase where
  | held        -- caller 0 inside its critical section, caller 1 queueing
  | left        -- caller 0 has left, caller 1 still queueing
  | inB         -- caller 1 inside its request's critical section
  | finB        -- … and done (request succeeded, or not through the glue, or not found)
  | betweenG    -- glue: request failed, GO_ERROR fallback pending
  | inG         -- inside the fallback's critical section
  | finG        -- fallback succeeded: done
  | betweenC    -- fallback failed too: about to read the state (unlocked)
  | finC        -- read DONE: done
  | betweenF    -- read something else: about to force ERROR (unlocked)
  | finF        -- forced: done
  deriving DecidableEq, Repr

structure PairData where
  eA : Env            -- left by caller 0's critical section
  eB : Env            -- left by caller 1's request
  eG : Env            -- left by caller 1's GO_ERROR fallback
  needG : Bool        -- caller 1's request goes on to the fallback
  gOk : Bool          -- the fallback succeeded
  gDone : Bool        -- the glue reads DONE

def pairData (hooks : List Hook) (n : Nat) (env : Env) (a b : Req) : PairData :=
  let rA := runLocked hooks n (!env.gone) env a
  let rB := runLocked hooks n (!env.gone) rA.1 b
  let g := tryTransition rB.1 hooks .GO_ERROR true false
  { eA := rA.1, eB := rB.1, eG := g.1,
    needG := b.isControl && !(rB.2.isOk || rB.2 == .notFound),
    gOk := g.2.2.isOk, gDone := decide (g.1.st = .DONE) }

def Phase.pc0 : Phase → Pc
  | .held => .holding none
  | _ => .done

def Phase.pc1 (d : PairData) : Phase → Pc
  | .held | .left => .start
  | .inB => .holding (if d.needG then some .goError else none)
  | .betweenG => .between .goError
  | .inG => .holding (if d.gOk then none else some .check)
  | .betweenC => .between .check
  | .betweenF => .between .force
  | .finB | .finG | .finC | .finF => .done

def Phase.envOf (d : PairData) : Phase → Env
  | .held | .left => d.eA
  | .inB | .finB | .betweenG => d.eB
  | .inG | .finG | .betweenC | .finC | .betweenF => d.eG
  | .finF => { d.eG with st := .ERROR }

/-- the conditions under which a phase is reached -/
def Phase.ok (d : PairData) : Phase → Bool
  | .held | .left | .inB => true
  | .finB => !d.needG
  | .betweenG | .inG => d.needG
  | .finG => d.needG && d.gOk
  | .betweenC => d.needG && !d.gOk
  | .finC => d.needG && !d.gOk && d.gDone
  | .betweenF | .finF => d.needG && !d.gOk && !d.gDone

def Pc.isDone : Pc → Bool
  | .done => true
  | _ => false

/-- every caller has returned -/
def Sys.allDone (s : Sys) : Bool := s.callers.all (·.pc.isDone)

def Phase.isFinal : Phase → Bool
  | .finB | .finG | .finC | .finF => true
  | _ => false

/-- the system is in phase `ph` of the pair (the log is not constrained: `C01_serial` speaks about it) -/
def AtPhase (hooks : List Hook) (n : Nat) (env : Env) (a b : Req) (s : Sys) (ph : Phase) : Prop :=
  ph.ok (pairData hooks n env a b) = true ∧
  s.callers = [{ req := a, pc := ph.pc0, listed := !env.gone }, { req := b, pc := ph.pc1 (pairData hooks n env a b), listed := !env.gone }] ∧
  s.env = ph.envOf (pairData hooks n env a b)

def OnPath (hooks : List Hook) (n : Nat) (env : Env) (a b : Req) (s : Sys) : Prop :=
  ∃ ph, AtPhase hooks n env a b s ph

/-! ### every move keeps the pair on its path -/

theorem onPath_move0 (hooks : List Hook) (n : Nat) (env : Env) (a b : Req) (s : Sys)
    (h : OnPath hooks n env a b s) : OnPath hooks n env a b (move hooks n s 0) := by
  obtain ⟨ph, hok, hc, he⟩ := h
  cases ph
  case held =>
    refine ⟨.left, rfl, ?_, ?_⟩
    · simp [move, hc, Phase.pc0, Phase.pc1]
    · simp [move, hc, Phase.pc0, he, Phase.envOf]
  all_goals
    refine ⟨_, hok, ?_, ?_⟩
    · simp [move, hc, Phase.pc0]
    · simp [move, hc, Phase.pc0, he]

theorem onPath_move1 (hooks : List Hook) (n : Nat) (env : Env) (a b : Req) (s : Sys)
    (h : OnPath hooks n env a b s) : OnPath hooks n env a b (move hooks n s 1) := by
  obtain ⟨ph, hok, hc, he⟩ := h
  cases ph
  case held =>
    refine ⟨.held, hok, ?_, ?_⟩ <;> simp [move, hc, Phase.pc0, Phase.pc1, Sys.free, Caller.isHolding, he]
  case left =>
    refine ⟨.inB, rfl, ?_, ?_⟩
    · simp only [move, hc, Phase.pc0, Phase.pc1, Sys.free, Caller.isHolding, he]
      cases b <;> simp [pairData, Phase.envOf, Req.isControl]
      split <;> split <;> simp_all
    · simp only [move, hc, Phase.pc0, Phase.pc1, Sys.free, Caller.isHolding, he]
      simp [pairData, Phase.envOf]
  case inB =>
    cases hg : (pairData hooks n env a b).needG
    · refine ⟨.finB, by simp [Phase.ok, hg], ?_, ?_⟩ <;> simp [move, hc, Phase.pc0, Phase.pc1, hg, he, Phase.envOf]
    · refine ⟨.betweenG, by simp [Phase.ok, hg], ?_, ?_⟩ <;> simp [move, hc, Phase.pc0, Phase.pc1, hg, he, Phase.envOf]
  case betweenG =>
    refine ⟨.inG, hok, ?_, ?_⟩
    · simp [move, hc, Phase.pc0, Phase.pc1, Sys.free, Caller.isHolding, he, Phase.envOf, pairData]
    · simp [move, hc, Phase.pc0, Phase.pc1, Sys.free, Caller.isHolding, he, Phase.envOf, pairData]
  case inG =>
    cases hg : (pairData hooks n env a b).gOk
    · refine ⟨.betweenC, by simp_all [Phase.ok], ?_, ?_⟩ <;> simp [move, hc, Phase.pc0, Phase.pc1, hg, he, Phase.envOf]
    · refine ⟨.finG, by simp_all [Phase.ok], ?_, ?_⟩ <;> simp [move, hc, Phase.pc0, Phase.pc1, hg, he, Phase.envOf]
  case betweenC =>
    cases hg : (pairData hooks n env a b).gDone
    · refine ⟨.betweenF, by simp_all [Phase.ok], ?_, ?_⟩ <;> simp_all [move, Phase.pc0, Phase.pc1, Phase.envOf, pairData]
    · refine ⟨.finC, by simp_all [Phase.ok], ?_, ?_⟩ <;> simp_all [move, Phase.pc0, Phase.pc1, Phase.envOf, pairData]
  case betweenF =>
    refine ⟨.finF, hok, ?_, ?_⟩ <;> simp [move, hc, Phase.pc0, Phase.pc1, he, Phase.envOf]
  all_goals
    refine ⟨_, hok, ?_, ?_⟩ <;> simp [move, hc, Phase.pc0, Phase.pc1, he]

theorem onPath_move (hooks : List Hook) (n : Nat) (env : Env) (a b : Req) (s : Sys) (i : Nat)
    (h : OnPath hooks n env a b s) : OnPath hooks n env a b (move hooks n s i) := by
  match i with
  | 0 => exact onPath_move0 hooks n env a b s h
  | 1 => exact onPath_move1 hooks n env a b s h
  | k + 2 =>
    obtain ⟨ph, hok, hc, he⟩ := h
    have : move hooks n s (k + 2) = s := by simp [move, hc]
    rw [this]; exact ⟨ph, hok, hc, he⟩

theorem onPath_run (hooks : List Hook) (n : Nat) (env : Env) (a b : Req) (s : Sys) (sched : List Nat)
    (h : OnPath hooks n env a b s) : OnPath hooks n env a b (runSched hooks n s sched) := by
  induction sched generalizing s with
  | nil => exact h
  | cons i rest ih => exact ih _ (onPath_move hooks n env a b s i h)

/-- The pair as the harness arranges it: both callers look the environment up, caller 0 takes the mutex. -/
def pairStart (hooks : List Hook) (n : Nat) (env : Env) (a b : Req) : Sys :=
  runSched hooks n (initSys env [a, b]) [0, 1, 0]

theorem onPath_start (hooks : List Hook) (n : Nat) (env : Env) (a b : Req) (ha : a.isControl = false) :
    AtPhase hooks n env a b (pairStart hooks n env a b) .held := by
  refine ⟨rfl, ?_, ?_⟩
  · cases a <;> simp_all [pairStart, runSched, initSys, move, Sys.free, Caller.isHolding, Phase.pc0, Phase.pc1, Req.isControl]
  · cases a <;> simp_all [pairStart, runSched, initSys, move, Sys.free, Caller.isHolding, Phase.envOf, pairData, Req.isControl]

theorem tryTransition_not_notFound (env : Env) (hooks : List Hook) (e : Ev) (b r : Bool) :
    (tryTransition env hooks e b r).2.2 ≠ .notFound := by
  intro h
  have := (fsmEvent_st env hooks e b r).2
  unfold tryTransition at h
  rw [h] at this
  rcases this with ⟨_, h'⟩ | ⟨_, _, _, h'⟩ <;> cases h'

/-- `runLocked` on a request that is not through the glue is `step`. -/
theorem runLocked_eq_step (hooks : List Hook) (n : Nat) (env : Env) (a : Req) (ha : a.isControl = false) :
    (runLocked hooks n (!env.gone) env a).1 = (step hooks n env a).1 := by
  cases a with
  | control => cases ha
  | try_ e b r => rfl
  | teardown f r1 r2 => cases hg : env.gone <;> simp [runLocked, step, hg]

/-- In a final phase the environment is the one `stepHeld` computes for the second request. -/
theorem final_env (hooks : List Hook) (n : Nat) (env : Env) (a b : Req) (ph : Phase)
    (hf : ph.isFinal = true) (hok : ph.ok (pairData hooks n env a b) = true) :
    ph.envOf (pairData hooks n env a b) =
      (stepHeld hooks n (!env.gone) (runLocked hooks n (!env.gone) env a).1 b).1 := by
  cases b with
  | try_ e bo r => cases ph <;> simp_all [Phase.isFinal, Phase.ok, pairData, Req.isControl, Phase.envOf, stepHeld, runLocked]
  | teardown f r1 r2 =>
    cases ph <;> simp_all [Phase.isFinal, Phase.ok, pairData, Req.isControl, Phase.envOf, stepHeld, runLocked]
    split <;> rfl
  | control e bo r =>
    cases hg : env.gone
    · have hnf := tryTransition_not_notFound (runLocked hooks n true env a).1 hooks e bo r
      cases ph <;> simp_all [Phase.isFinal, Phase.ok, pairData, Req.isControl, Phase.envOf, stepHeld, runLocked, controlApi]
    · cases ph <;> simp_all [Phase.isFinal, Phase.ok, pairData, Req.isControl, Phase.envOf, stepHeld, runLocked]

end EnvM
