/-
  Proofs/EnvPhase — the task phase of a transition lies inside its critical section (Model/EnvPhase):
  for the code as it is (`codePhaseCfg`), under every schedule, at most one task phase is open, its
  caller holds the mutex, every answer of the tasks is received by the transition that asked, and the
  callers' system is one that Model/EnvConc reaches by a schedule of its own (so `C01_mutex`, `C01_serial`,
  `C01_pieces_atomic` speak about transitions with task phases too).
-/
import ControlModel.Model.EnvPhase
import ControlModel.Proofs.EnvConc

namespace EnvM

/-- a move of caller `i` leaves every other caller where it is -/
theorem move_callers_ne (hooks : List Hook) (n : Nat) (s : Sys) (i j : Nat) (h : j ≠ i) :
    (move hooks n s i).callers[j]? = s.callers[j]? := by
  have hs : ∀ c : Caller, (s.callers.set i c)[j]? = s.callers[j]? := fun c => List.getElem?_set_ne (Ne.symm h)
  unfold move
  split
  · rfl
  · split
    · exact hs _
    · split
      · exact hs _
      · rfl
    · exact hs _
    · split
      · exact hs _
      · rfl
    · exact hs _
    · exact hs _
    · rfl
    · rfl

theorem isHoldingAt_move_ne (hooks : List Hook) (n : Nat) (s : Sys) (i j : Nat) (h : j ≠ i) :
    isHoldingAt (move hooks n s i) j = isHoldingAt s j := by
  simp only [isHoldingAt, move_callers_ne hooks n s i j h]

theorem isHoldingAt_iff (s : Sys) (i : Nat) :
    isHoldingAt s i = true ↔ ∃ c, s.callers[i]? = some c ∧ c.isHolding = true := by
  unfold isHoldingAt
  cases h : s.callers[i]? with
  | none => simp
  | some c => simp

/-- The invariant of the task-phase layer for the code as it is. -/
structure PhaseInv (hooks : List Hook) (n : Nat) (e0 : Env) (ps : PSys) : Prop where
  conc : ConcInv hooks n e0 ps.sys
  same : ps.waiting = ps.unanswered
  open_ : ps.waiting = [] ∨ ∃ j, ps.waiting = [j] ∧ isHoldingAt ps.sys j = true
  cons : ∀ p ∈ ps.consumed, p.1 = p.2

theorem phaseInv_init (hooks : List Hook) (n : Nat) (env : Env) (reqs : List Req) :
    PhaseInv hooks n env (initPSys env reqs) :=
  ⟨concInv_init hooks n env reqs, rfl, Or.inl rfl, by intro p hp; cases hp⟩

theorem phaseInv_move (hooks : List Hook) (n : Nat) (e0 : Env) (ps : PSys) (m : PMove)
    (h : PhaseInv hooks n e0 ps) : PhaseInv hooks n e0 (pmove codePhaseCfg hooks n ps m) := by
  cases m with
  | caller i =>
    simp only [pmove]
    split
    · exact h
    · rename_i c hc
      split
      · exact h
      · rename_i hblocked
        have hconc' := concInv_move hooks n e0 ps.sys i h.conc
        split
        · -- the caller took the mutex for a piece with a task phase
          rename_i hstart
          simp only [Bool.and_eq_true, Bool.not_eq_true'] at hstart
          obtain ⟨⟨hnh, hnow⟩, _⟩ := hstart
          refine ⟨hconc', by simp [h.same], ?_, h.cons⟩
          rcases h.open_ with hw | ⟨j, hw, hj⟩
          · exact Or.inr ⟨i, by simp [hw], hnow⟩
          · exfalso
            have hij : j ≠ i := by
              intro hji; subst hji
              obtain ⟨cj, hcj, hh⟩ := (isHoldingAt_iff _ _).mp hj
              rw [hc] at hcj; cases hcj; rw [hnh] at hh; cases hh
            have hj' : isHoldingAt (move hooks n ps.sys i) j = true := by
              rw [isHoldingAt_move_ne hooks n ps.sys i j hij]; exact hj
            obtain ⟨ci, hci, hhi⟩ := (isHoldingAt_iff _ _).mp hnow
            obtain ⟨cj, hcj, hhj⟩ := (isHoldingAt_iff _ _).mp hj'
            exact hij (hconc'.mutex j i cj ci hcj hci hhj hhi)
        · -- any other move of the caller
          refine ⟨hconc', h.same, ?_, h.cons⟩
          rcases h.open_ with hw | ⟨j, hw, hj⟩
          · exact Or.inl hw
          · refine Or.inr ⟨j, hw, ?_⟩
            have hij : j ≠ i := by
              intro hji; subst hji
              obtain ⟨cj, hcj, hh⟩ := (isHoldingAt_iff _ _).mp hj
              rw [hc] at hcj; cases hcj
              apply hblocked
              simp [hh, hw]
            rw [isHoldingAt_move_ne hooks n ps.sys i j hij]; exact hj
  | answer i =>
    simp only [pmove]
    split
    · rename_i hin
      split
      · exact h
      · rename_i w ws hws
        rcases h.open_ with hw | ⟨j, hw, hj⟩
        · rw [hw] at hws; cases hws
        · rw [hw] at hws
          cases hws
          have hu : ps.unanswered = [w] := by rw [← h.same, hw]
          have hij : i = w := by
            rw [hu] at hin; simpa using hin
          subst hij
          refine ⟨h.conc, by simp [hu], Or.inl rfl, ?_⟩
          intro p hp
          rcases List.mem_append.mp hp with hp | hp
          · exact h.cons p hp
          · simp only [List.mem_singleton] at hp; subst hp; rfl
    · exact h
  | giveUp i =>
    simp only [pmove]
    simp only [codePhaseCfg, Bool.false_and, Bool.false_eq_true, if_false]
    exact h

theorem phaseInv_run (hooks : List Hook) (n : Nat) (e0 : Env) (ps : PSys) (sched : List PMove)
    (h : PhaseInv hooks n e0 ps) : PhaseInv hooks n e0 (runPhases codePhaseCfg hooks n ps sched) := by
  induction sched generalizing ps with
  | nil => exact h
  | cons m rest ih => exact ih _ (phaseInv_move hooks n e0 ps m h)

/-- one move of the task-phase layer is, for the callers' system, no move or one move of Model/EnvConc -/
theorem pmove_sys (cfg : PhaseCfg) (hooks : List Hook) (n : Nat) (ps : PSys) (m : PMove) :
    (pmove cfg hooks n ps m).sys = ps.sys ∨ ∃ i, (pmove cfg hooks n ps m).sys = move hooks n ps.sys i := by
  cases m with
  | caller i =>
    simp only [pmove]
    split
    · exact Or.inl rfl
    · split
      · exact Or.inl rfl
      · split
        · exact Or.inr ⟨i, rfl⟩
        · exact Or.inr ⟨i, rfl⟩
  | answer i =>
    simp only [pmove]
    split
    · split
      · exact Or.inl rfl
      · exact Or.inl rfl
    · exact Or.inl rfl
  | giveUp i =>
    simp only [pmove]
    split
    · exact Or.inr ⟨i, rfl⟩
    · exact Or.inl rfl

/-- … so whatever the task-phase layer reaches, Model/EnvConc reaches by a schedule of its own -/
theorem runPhases_sys (cfg : PhaseCfg) (hooks : List Hook) (n : Nat) (ps : PSys) (sched : List PMove) :
    ∃ sched' : List Nat, (runPhases cfg hooks n ps sched).sys = runSched hooks n ps.sys sched' := by
  induction sched generalizing ps with
  | nil => exact ⟨[], rfl⟩
  | cons m rest ih =>
    obtain ⟨s1, h1⟩ := ih (pmove cfg hooks n ps m)
    rcases pmove_sys cfg hooks n ps m with h | ⟨i, h⟩
    · exact ⟨s1, by rw [← h]; exact h1⟩
    · exact ⟨i :: s1, by simp only [runSched, List.foldl_cons]; rw [← h]; exact h1⟩

end EnvM
