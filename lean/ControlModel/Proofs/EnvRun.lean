/-
  Proofs/EnvRun — run number and run timestamps (for C10).
-/
import ControlModel.Proofs.EnvHooks
import ControlModel.Model.EnvBodies
import ControlModel.Spec.C10

namespace EnvM

/-- the two variables that identify a run to a hook -/
def runKey (env : Env) : Option Nat × TV := (env.vars.rnVar, env.vars.sosor)

theorem handleHooks_runKey (env : Env) (hooks : List Hook) (m : Moment) (p : Int → Bool) :
    runKey (handleHooks env hooks m p).1 = runKey env := by
  unfold runKey; rw [handleHooks_vars]

theorem setSoeor_runKey (env : Env) (tr : String) (p : Bool) : runKey (setSoeorIfEmpty env tr p).1 = runKey env := by
  unfold setSoeorIfEmpty; split <;> rfl

theorem setEoeor_runKey (env : Env) (tr : String) (s : RunStatus) : runKey (setEoeorIfEmpty env tr s).1 = runKey env := by
  unfold setEoeorIfEmpty; split <;> rfl

theorem bkBefore_runKey (env : Env) (e : Ev) (r : Bool) (he : e ≠ .START_ACTIVITY) :
    runKey (bkBefore env e r).1 = runKey env := by
  unfold bkBefore
  cases e <;> simp only [] <;> first | rfl | exact setSoeor_runKey .. | exact absurd rfl he

theorem bkAfter_runKey (env : Env) (e : Ev) (f : Bool) : runKey (bkAfter env e f).1 = runKey env := by
  unfold bkAfter
  cases e <;> simp only [] <;> first | rfl | exact setEoeor_runKey ..

theorem finAfter_runKey (env : Env) (e : Ev) (he : e ≠ .STOP_ACTIVITY) : runKey (finAfter env e).1 = runKey env := by
  unfold finAfter; simp [he]

theorem beforeEvent_runKey (env : Env) (hooks : List Hook) (e : Ev) (r : Bool) (he : e ≠ .START_ACTIVITY) :
    runKey (beforeEvent env hooks e r).1 = runKey env := by
  unfold beforeEvent
  simp only
  (repeat' split) <;> simp [handleHooks_runKey, bkBefore_runKey _ _ _ he]

theorem leaveState_runKey (env : Env) (hooks : List Hook) (e : Ev) (b : Bool) :
    runKey (leaveState env hooks e b).1 = runKey env := by
  unfold leaveState
  simp only
  (repeat' split) <;>
    first
    | (simp [handleHooks_runKey, setSoeor_runKey]; done)
    | (exfalso; simp_all; done)
    | (unfold runKey; simp only [handleHooks_vars]; try (first | rfl | (have := setSoeor_runKey (handleHooks env hooks (Moment.leave env.st) negW).1 e.name false; unfold runKey at this; simp only [handleHooks_vars] at this; simpa using this)))

theorem enterState_runKey (env : Env) (hooks : List Hook) : runKey (enterState env hooks).1 = runKey env := by
  unfold enterState; simp [handleHooks_runKey]

theorem afterEvent_runKey (env : Env) (hooks : List Hook) (e : Ev) (errs : List (Nat × Moment)) (he : e ≠ .STOP_ACTIVITY) :
    runKey (afterEvent env hooks e errs).1 = runKey env := by
  unfold afterEvent
  simp only
  rw [finAfter_runKey _ _ he, handleHooks_runKey, bkAfter_runKey, handleHooks_runKey]

/-- Run number variable and start-of-run stamp are touched by START_ACTIVITY and
    STOP_ACTIVITY only. -/
theorem fsmEvent_runKey (env : Env) (hooks : List Hook) (e : Ev) (b r : Bool)
    (h1 : e ≠ .START_ACTIVITY) (h2 : e ≠ .STOP_ACTIVITY) :
    runKey (fsmEvent env hooks e b r).1 = runKey env := by
  unfold fsmEvent
  split
  · rfl
  · simp only
    split
    · exact beforeEvent_runKey env hooks e r h1
    · split
      · rw [leaveState_runKey, beforeEvent_runKey env hooks e r h1]
      · rw [afterEvent_runKey _ _ _ _ h2, enterState_runKey]
        show runKey (leaveState (beforeEvent env hooks e r).1 hooks e b).1 = runKey env
        rw [leaveState_runKey, beforeEvent_runKey env hooks e r h1]

/-- During STOP_ACTIVITY they stay put through before_, leave_, the body, enter_ and BOTH
    passes of after_STOP_ACTIVITY; only `finAfter`, the very last thing, retires the number. -/
theorem stop_runKey_until_fin (env : Env) (hooks : List Hook) (errs : List (Nat × Moment)) :
    runKey (handleHooks (bkAfter (handleHooks env hooks (.after .STOP_ACTIVITY) negW).1 .STOP_ACTIVITY (!errs.isEmpty)).1
      hooks (.after .STOP_ACTIVITY) posW).1 = runKey env := by
  rw [handleHooks_runKey, bkAfter_runKey, handleHooks_runKey]

/-- Every hook execution is handed the variables of the moment it is started. -/
theorem instantiate_snap (env : Env) (hs : List Hook) : ∀ i ∈ (instantiate env hs).2, i.snap = env.vars ∧ i.st = env.st := by
  induction hs generalizing env with
  | nil => intro i hi; cases hi
  | cons h hs ih =>
    intro i hi
    simp only [instantiate, List.mem_cons] at hi
    rcases hi with rfl | hi
    · exact ⟨rfl, rfl⟩
    · exact ih (bumpExec env h.id) i hi

end EnvM

namespace EnvM

/-- instances a step starts (calls) or runs (task hooks) -/
def Step.begun : Step → List Inst
  | .start _ _ is | .tasks _ _ is => is
  | .callSync _ _ i => [i]
  | _ => []

theorem handleWeight_begun_snap (env : Env) (hooks : List Hook) (m : Moment) (w : Int) :
    ∀ s ∈ (handleWeight env hooks m w).2.1, ∀ i ∈ s.begun, i.snap = env.vars := by
  unfold handleWeight
  simp only
  intro s hs i hi
  simp only [List.mem_append] at hs
  rcases hs with (hs | hs) | hs
  · split at hs
    · cases hs
    · simp only [List.mem_singleton] at hs; subst hs
      unfold phase1 at hi; simp only [Step.begun] at hi
      exact (instantiate_snap env _ i hi).1
  · split at hs
    · cases hs
    · simp only [List.mem_singleton] at hs; subst hs; simp [Step.begun] at hi
  · split at hs
    · cases hs
    · simp only [List.mem_singleton] at hs; subst hs
      simp only [Step.begun] at hi
      have := (instantiate_snap _ _ i hi).1
      rw [this]
      have h2 := congrArg Core.vars (phase2_core (phase1 env hooks m w).1 m w)
      have h1 := congrArg Core.vars (phase1_core env hooks m w)
      simp only [Env.core] at h1 h2
      rw [h2, h1]

theorem handleWeights_begun_snap (env : Env) (hooks : List Hook) (m : Moment) (ws : List Int) :
    ∀ s ∈ (handleWeights env hooks m ws).2.1, ∀ i ∈ s.begun, i.snap = env.vars := by
  induction ws generalizing env with
  | nil => intro s hs; cases hs
  | cons w ws ih =>
    simp only [handleWeights]
    split
    · exact handleWeight_begun_snap env hooks m w
    · intro s hs i hi
      simp only [List.mem_append] at hs
      rcases hs with hs | hs
      · exact handleWeight_begun_snap env hooks m w s hs i hi
      · rw [ih _ s hs i hi]
        exact congrArg Core.vars (handleWeight_core env hooks m w)

/-- Every hook begun during one handleHooks pass is handed exactly the variables the
    environment had when the pass began (hook handling itself changes none). -/
theorem handleHooks_begun_snap (env : Env) (hooks : List Hook) (m : Moment) (p : Int → Bool) :
    ∀ s ∈ (handleHooks env hooks m p).2.1, ∀ i ∈ s.begun, i.snap = env.vars :=
  handleWeights_begun_snap env hooks m _

/-- rn (currentRunNumber) is touched only by START_ACTIVITY and at the very end of STOP_ACTIVITY. -/
theorem bkBefore_START (env : Env) (hooks : List Hook) :
    (bkBefore env .START_ACTIVITY false).2.2 = false ∧
    (bkBefore env .START_ACTIVITY false).1.rn = env.counter + 1 ∧
    (bkBefore env .START_ACTIVITY false).1.counter = env.counter + 1 ∧
    (bkBefore env .START_ACTIVITY false).1.vars.rnVar = some (env.counter + 1) ∧
    (bkBefore env .START_ACTIVITY false).1.vars.sosor = .val (env.clock + 1) ∧
    (bkBefore env .START_ACTIVITY false).1.vars.eosor = .empty ∧
    (bkBefore env .START_ACTIVITY false).1.vars.soeor = .empty ∧
    (bkBefore env .START_ACTIVITY false).1.vars.eoeor = .empty := by
  let _ := hooks
  simp [bkBefore, tick]

theorem finAfter_STOP (env : Env) :
    (finAfter env .STOP_ACTIVITY).1.rn = 0 ∧ (finAfter env .STOP_ACTIVITY).1.vars.rnVar = none ∧
    (finAfter env .STOP_ACTIVITY).1.vars.lastRn = some env.rn := by
  simp [finAfter]

end EnvM

namespace EnvM
set_option linter.unusedSimpArgs false

/-! ### the end-of-run stamps only ever advance (outside START_ACTIVITY) -/

/-- present stays present, set stays set -/
def TV.keeps (a b : TV) : Prop := (a ≠ .absent → b ≠ .absent) ∧ (a.isVal = true → b.isVal = true)

theorem TV.keeps_refl (a : TV) : TV.keeps a a := ⟨id, id⟩
theorem TV.keeps_trans {a b c : TV} (h1 : TV.keeps a b) (h2 : TV.keeps b c) : TV.keeps a c :=
  ⟨fun h => h2.1 (h1.1 h), fun h => h2.2 (h1.2 h)⟩

def EndKeeps (v v' : Vars) : Prop := TV.keeps v.soeor v'.soeor ∧ TV.keeps v.eoeor v'.eoeor

theorem EndKeeps.refl (v : Vars) : EndKeeps v v := ⟨TV.keeps_refl _, TV.keeps_refl _⟩
theorem EndKeeps.trans {a b c : Vars} (h1 : EndKeeps a b) (h2 : EndKeeps b c) : EndKeeps a c :=
  ⟨TV.keeps_trans h1.1 h2.1, TV.keeps_trans h1.2 h2.2⟩
theorem EndKeeps.of_eq {a b : Vars} (h : b = a) : EndKeeps a b := by rw [h]; exact EndKeeps.refl a

theorem setSoeor_keeps (env : Env) (tr : String) (p : Bool) : EndKeeps env.vars (setSoeorIfEmpty env tr p).1.vars := by
  unfold setSoeorIfEmpty
  split
  · refine ⟨⟨fun _ => by simp [tick], fun _ => by simp [tick, TV.isVal]⟩, ?_⟩
    simp only [tick]; exact TV.keeps_refl _
  · exact EndKeeps.refl _

theorem setSoeor_sets (env : Env) (tr : String) (p : Bool) (h : env.vars.soeor ≠ .absent) :
    (setSoeorIfEmpty env tr p).1.vars.soeor.isVal = true := by
  unfold setSoeorIfEmpty
  split
  · simp [tick, TV.isVal]
  · rename_i hne
    cases hs : env.vars.soeor with
    | absent => exact absurd hs h
    | empty => rw [hs] at hne; simp [TV.isEmpty] at hne
    | val t => rfl

theorem setEoeor_keeps (env : Env) (tr : String) (s : RunStatus) : EndKeeps env.vars (setEoeorIfEmpty env tr s).1.vars := by
  unfold setEoeorIfEmpty
  split
  · refine ⟨?_, ⟨fun _ => by simp [tick], fun _ => by simp [tick, TV.isVal]⟩⟩
    simp only [tick]; exact TV.keeps_refl _
  · exact EndKeeps.refl _

theorem setEoeor_sets (env : Env) (tr : String) (s : RunStatus) (h : env.vars.eoeor ≠ .absent) :
    (setEoeorIfEmpty env tr s).1.vars.eoeor.isVal = true := by
  unfold setEoeorIfEmpty
  split
  · simp [tick, TV.isVal]
  · rename_i hne
    cases hs : env.vars.eoeor with
    | absent => exact absurd hs h
    | empty => rw [hs] at hne; simp [TV.isEmpty] at hne
    | val t => rfl

theorem handleHooks_keeps (env : Env) (hooks : List Hook) (m : Moment) (p : Int → Bool) :
    EndKeeps env.vars (handleHooks env hooks m p).1.vars := EndKeeps.of_eq (handleHooks_vars env hooks m p)

theorem bkBefore_keeps (env : Env) (e : Ev) (r : Bool) (he : e ≠ .START_ACTIVITY) : EndKeeps env.vars (bkBefore env e r).1.vars := by
  unfold bkBefore
  cases e <;> simp only [] <;> first | exact EndKeeps.refl _ | exact setSoeor_keeps .. | exact absurd rfl he

theorem beforeEvent_keeps (env : Env) (hooks : List Hook) (e : Ev) (r : Bool) (he : e ≠ .START_ACTIVITY) :
    EndKeeps env.vars (beforeEvent env hooks e r).1.vars := by
  have h1 := handleHooks_keeps env hooks (.before e) negW
  have h2 := bkBefore_keeps (handleHooks env hooks (.before e) negW).1 e r he
  have h3 := handleHooks_keeps (bkBefore (handleHooks env hooks (.before e) negW).1 e r).1 hooks (.before e) posW
  unfold beforeEvent
  simp only
  (repeat' split) <;> first | exact h1 | exact h1.trans h2 | exact (h1.trans h2).trans h3

theorem leaveState_keeps (env : Env) (hooks : List Hook) (e : Ev) (b : Bool) :
    EndKeeps env.vars (leaveState env hooks e b).1.vars := by
  have h1 := handleHooks_keeps env hooks (.leave env.st) negW
  have h2 := setSoeor_keeps (handleHooks env hooks (.leave env.st) negW).1 e.name false
  have h3 := handleHooks_keeps (setSoeorIfEmpty (handleHooks env hooks (.leave env.st) negW).1 e.name false).1 hooks (.leave env.st) posW
  have h3' := handleHooks_keeps (handleHooks env hooks (.leave env.st) negW).1 hooks (.leave env.st) posW
  unfold leaveState
  simp only
  (repeat' split) <;>
    first
    | exact h1
    | exact h1.trans h2
    | exact (h1.trans h2).trans h3
    | exact h1.trans h3'

theorem enterState_keeps (env : Env) (hooks : List Hook) : EndKeeps env.vars (enterState env hooks).1.vars := by
  unfold enterState
  simp only
  exact (handleHooks_keeps env hooks _ negW).trans (handleHooks_keeps _ hooks _ posW)

theorem bkAfter_keeps (env : Env) (e : Ev) (f : Bool) : EndKeeps env.vars (bkAfter env e f).1.vars := by
  unfold bkAfter
  cases e <;> simp only [] <;>
    first
    | exact EndKeeps.refl _
    | exact setEoeor_keeps ..
    | (simp only [tick]; exact ⟨TV.keeps_refl _, TV.keeps_refl _⟩)
    | (simp only [tick]; exact ⟨TV.keeps_refl _, ⟨fun _ => by simp, fun _ => by simp [TV.isVal]⟩⟩)

theorem finAfter_keeps (env : Env) (e : Ev) : EndKeeps env.vars (finAfter env e).1.vars := by
  unfold finAfter
  split
  · exact ⟨TV.keeps_refl _, TV.keeps_refl _⟩
  · exact EndKeeps.refl _

theorem afterEvent_keeps (env : Env) (hooks : List Hook) (e : Ev) (errs : List (Nat × Moment)) :
    EndKeeps env.vars (afterEvent env hooks e errs).1.vars := by
  unfold afterEvent
  simp only
  exact (((handleHooks_keeps env hooks _ negW).trans (bkAfter_keeps _ e _)).trans (handleHooks_keeps _ hooks _ posW)).trans (finAfter_keeps _ e)

/-- Outside START_ACTIVITY no transition ever empties or removes an end-of-run stamp. -/
theorem fsmEvent_keeps (env : Env) (hooks : List Hook) (e : Ev) (b r : Bool) (he : e ≠ .START_ACTIVITY) :
    EndKeeps env.vars (fsmEvent env hooks e b r).1.vars := by
  unfold fsmEvent
  split
  · exact EndKeeps.refl _
  · rename_i d hd
    simp only
    have hb := beforeEvent_keeps env hooks e r he
    split
    · exact hb
    · have hl := leaveState_keeps (beforeEvent env hooks e r).1 hooks e b
      split
      · exact hb.trans hl
      · have hen := enterState_keeps { (leaveState (beforeEvent env hooks e r).1 hooks e b).1 with st := d } hooks
        exact ((hb.trans hl).trans hen).trans (afterEvent_keeps _ hooks e _)

/-- before_STOP_ACTIVITY / before_GO_ERROR that let the event go on have stamped the end of the run. -/
theorem beforeEvent_sets_soeor (env : Env) (hooks : List Hook) (e : Ev) (r : Bool) (he : e = .STOP_ACTIVITY ∨ e = .GO_ERROR)
    (hn : (beforeEvent env hooks e r).2.2 = none) (hp : env.vars.soeor ≠ .absent) :
    (beforeEvent env hooks e r).1.vars.soeor.isVal = true := by
  have hset : (bkBefore (handleHooks env hooks (.before e) negW).1 e r).1.vars.soeor.isVal = true := by
    have hp' : (handleHooks env hooks (.before e) negW).1.vars.soeor ≠ .absent := by rw [handleHooks_vars]; exact hp
    rcases he with rfl | rfl <;> (unfold bkBefore; simp only []; exact setSoeor_sets _ _ _ hp')
  unfold beforeEvent at hn ⊢
  simp only at hn ⊢
  revert hn
  (repeat' split) <;> intro hn <;> first | (cases hn; done) | (rw [handleHooks_vars]; exact hset)

/-- after_STOP_ACTIVITY / after_GO_ERROR stamp the completion of the end of the run. -/
theorem afterEvent_sets_eoeor (env : Env) (hooks : List Hook) (e : Ev) (errs : List (Nat × Moment)) (he : e = .STOP_ACTIVITY ∨ e = .GO_ERROR)
    (hp : env.vars.eoeor ≠ .absent) : (afterEvent env hooks e errs).1.vars.eoeor.isVal = true := by
  have hbk : ∀ env' f, env'.vars.eoeor ≠ .absent → (bkAfter env' e f).1.vars.eoeor.isVal = true := by
    intro env' f hp'
    rcases he with rfl | rfl
    · unfold bkAfter; simp only []; exact setEoeor_sets _ _ _ hp'
    · unfold bkAfter; simp only []; exact setEoeor_sets _ _ _ hp'
  unfold afterEvent
  simp only
  have h1 := hbk (handleHooks env hooks (.after e) negW).1
    (!(if (handleHooks env hooks (.after e) negW).2.2 > 0 then [((handleHooks env hooks (.after e) negW).2.2, Moment.after e)] else errs).isEmpty)
    (by rw [handleHooks_vars]; exact hp)
  exact (finAfter_keeps _ e).2.2 (by rw [handleHooks_vars]; exact h1)

theorem dst_from_running (e : Ev) (d : St) (h : dst? e .RUNNING = some d) : e = .STOP_ACTIVITY ∨ e = .GO_ERROR := by
  cases e <;> simp [dst?] at h <;> simp

/-- However a TryTransition makes the environment leave RUNNING (STOP_ACTIVITY, GO_ERROR), both end-of-run
    stamps are set afterwards. -/
theorem fsmEvent_end_stamps (env : Env) (hooks : List Hook) (e : Ev) (b r : Bool)
    (hrun : env.st = .RUNNING) (hs : env.vars.soeor ≠ .absent) (he : env.vars.eoeor ≠ .absent)
    (hleft : (fsmEvent env hooks e b r).1.st ≠ .RUNNING) :
    (fsmEvent env hooks e b r).1.vars.soeor.isVal = true ∧ (fsmEvent env hooks e b r).1.vars.eoeor.isVal = true := by
  unfold fsmEvent at hleft ⊢
  cases hd : dst? e env.st with
  | none => rw [hd] at hleft; exact absurd hrun hleft
  | some d =>
    have hev := dst_from_running e d (by rw [← hrun]; exact hd)
    have hne : e ≠ .START_ACTIVITY := by rcases hev with rfl | rfl <;> decide
    simp only [hd] at hleft ⊢
    have hbst := (beforeEvent_st env hooks e r).1
    have hbk := beforeEvent_keeps env hooks e r hne
    cases hbn : (beforeEvent env hooks e r).2.2 with
    | some res => simp only [hbn] at hleft; exact absurd (hbst.trans hrun) hleft
    | none =>
      simp only [hbn] at hleft ⊢
      have hlst := (leaveState_st (beforeEvent env hooks e r).1 hooks e b).1
      have hlk := leaveState_keeps (beforeEvent env hooks e r).1 hooks e b
      cases hln : (leaveState (beforeEvent env hooks e r).1 hooks e b).2.2 with
      | some res => simp only [hln] at hleft; exact absurd ((hlst.trans hbst).trans hrun) hleft
      | none =>
        simp only [hln]
        have hso := beforeEvent_sets_soeor env hooks e r hev hbn hs
        have hen := enterState_keeps { (leaveState (beforeEvent env hooks e r).1 hooks e b).1 with st := d } hooks
        have hchain := hlk.trans hen
        have hsoe : (enterState { (leaveState (beforeEvent env hooks e r).1 hooks e b).1 with st := d } hooks).1.vars.soeor.isVal = true :=
          hchain.1.2 hso
        have heo : (enterState { (leaveState (beforeEvent env hooks e r).1 hooks e b).1 with st := d } hooks).1.vars.eoeor ≠ .absent :=
          hchain.2.1 (hbk.2.1 he)
        exact ⟨(afterEvent_keeps _ hooks e _).1.2 hsoe, afterEvent_sets_eoeor _ hooks e _ hev heo⟩


theorem callAllSync_vars (env : Env) (m : Moment) (w : Int) (hs : List Hook) : (callAllSync env m w hs).1.vars = env.vars := by
  induction hs generalizing env with
  | nil => rfl
  | cons h hs ih => simp only [callAllSync]; rw [ih]; rfl

theorem destroyWeights_vars (env : Env) (hooks : List Hook) (ws : List Int) : (destroyWeights env hooks ws).1.vars = env.vars := by
  induction ws generalizing env with
  | nil => rfl
  | cons w ws ih => simp only [destroyWeights]; rw [ih, callAllSync_vars]

/-- A teardown that takes the environment out of RUNNING has stamped both ends of the run. -/
theorem teardown_end_stamps (env : Env) (hooks : List Hook) (f r1 r2 : Bool) (n : Nat)
    (hrun : env.st = .RUNNING) (hs : env.vars.soeor ≠ .absent) (he : env.vars.eoeor ≠ .absent)
    (hleft : (teardown env hooks f r1 r2 n).1.st ≠ .RUNNING) :
    (teardown env hooks f r1 r2 n).1.vars.soeor.isVal = true ∧ (teardown env hooks f r1 r2 n).1.vars.eoeor.isVal = true := by
  have hst : (handleHooks env hooks (.leave env.st) allW).1.st = .RUNNING := by rw [handleHooks_st]; exact hrun
  have hs' : (handleHooks env hooks (.leave env.st) allW).1.vars.soeor ≠ .absent := by rw [handleHooks_vars]; exact hs
  have he' : (handleHooks env hooks (.leave env.st) allW).1.vars.eoeor ≠ .absent := by rw [handleHooks_vars]; exact he
  have hA := setSoeor_sets (handleHooks env hooks (.leave env.st) allW).1 "TEARDOWN" true hs'
  have hAk := setSoeor_keeps (handleHooks env hooks (.leave env.st) allW).1 "TEARDOWN" true
  have hB := setEoeor_sets (setSoeorIfEmpty (handleHooks env hooks (.leave env.st) allW).1 "TEARDOWN" true).1 "TEARDOWN" .started (hAk.2.1 he')
  have hBk := setEoeor_keeps (setSoeorIfEmpty (handleHooks env hooks (.leave env.st) allW).1 "TEARDOWN" true).1 "TEARDOWN" .started
  have hAB := hBk.1.2 hA
  unfold teardown at hleft ⊢
  split at hleft
  · exact absurd hrun hleft
  · split at hleft
    · exact absurd hrun hleft
    · rename_i h1 h2
      rw [if_neg h1, if_neg h2]
      simp only [hst, if_true] at hleft ⊢
      split at hleft
      · simp at hleft; exact absurd hrun hleft
      · rename_i h3
        rw [if_neg h3]
        split at hleft
        · simp at hleft; exact absurd hrun hleft
        · rename_i h4
          rw [if_neg h4]
          simp only [destroyWeights_vars]
          exact ⟨hAB, hB⟩

/-- The ControlEnvironment glue FORCED the state: the requested transition failed and the GO_ERROR that
    follows it did not go through either (cancelled by a critical hook at before_GO_ERROR / leave_<state>,
    or not allowed from the state), so `Sm.SetState("ERROR")` wrote the state without any callback. -/
def forcedByGlue (env : Env) (hooks : List Hook) (e : Ev) (b r : Bool) : Bool :=
  !(tryTransition env hooks e b r).2.2.isOk &&
    !(tryTransition (tryTransition env hooks e b r).1 hooks .GO_ERROR true false).2.2.moved

theorem keeps_not_moved (r : Result) (h : r.keepsState = true) : r.moved = false := by
  cases r <;> simp_all [Result.keepsState, Result.moved]

theorem dst_running_ne (e : Ev) (d : St) (h : dst? e .RUNNING = some d) : d ≠ .RUNNING := by
  cases e <;> simp [dst?] at h <;> subst h <;> decide

/-- Through the API glue too, unless the glue forced the state. -/
theorem controlApi_end_stamps (env : Env) (hooks : List Hook) (e : Ev) (b r : Bool)
    (hrun : env.st = .RUNNING) (hs : env.vars.soeor ≠ .absent) (he : env.vars.eoeor ≠ .absent)
    (hnf : forcedByGlue env hooks e b r = false)
    (hleft : (controlApi env hooks e b r).1.st ≠ .RUNNING) :
    (controlApi env hooks e b r).1.vars.soeor.isVal = true ∧ (controlApi env hooks e b r).1.vars.eoeor.isVal = true := by
  unfold forcedByGlue at hnf
  unfold controlApi at hleft ⊢
  simp only at hleft ⊢
  split at hleft
  · rename_i hok
    rw [if_pos hok]
    exact fsmEvent_end_stamps env hooks e b r hrun hs he hleft
  · rename_i hok
    rw [if_neg hok]
    have hmv : (tryTransition (tryTransition env hooks e b r).1 hooks .GO_ERROR true false).2.2.moved = true := by
      simp only [Bool.and_eq_false_iff, Bool.not_eq_false', Bool.not_eq_eq_eq_not, Bool.not_true] at hnf
      rcases hnf with h | h
      · exact absurd h hok
      · simpa using h
    -- the final variables are those after the fallback GO_ERROR
    have hgoal : (fsmEvent (fsmEvent env hooks e b r).1 hooks .GO_ERROR true false).1.vars.soeor.isVal = true ∧
        (fsmEvent (fsmEvent env hooks e b r).1 hooks .GO_ERROR true false).1.vars.eoeor.isVal = true := by
      obtain ⟨_, hk | ⟨d, hd, hst, _⟩⟩ := fsmEvent_st env hooks e b r
      · -- the requested transition left the state alone: the fallback leaves RUNNING
        have hrun' : (fsmEvent env hooks e b r).1.st = .RUNNING := hk.1.trans hrun
        have hkeep : EndKeeps env.vars (fsmEvent env hooks e b r).1.vars := by
          by_cases hst : e = .START_ACTIVITY
          · subst hst; unfold fsmEvent; rw [hrun]; exact EndKeeps.refl _
          · exact fsmEvent_keeps env hooks e b r hst
        apply fsmEvent_end_stamps _ hooks .GO_ERROR true false hrun' (hkeep.1.1 hs) (hkeep.2.1 he)
        obtain ⟨_, hk' | ⟨d', hd', hst', _⟩⟩ := fsmEvent_st (fsmEvent env hooks e b r).1 hooks .GO_ERROR true false
        · have := keeps_not_moved _ hk'.2
          unfold tryTransition at hmv; rw [this] at hmv; cases hmv
        · rw [hst', goError_dst _ _ hd']; decide
      · -- the requested transition went through (its failure was only reported): the run is closed already
        have hne : (fsmEvent env hooks e b r).1.st ≠ .RUNNING := by
          rw [hst]; exact dst_running_ne e d (by rw [← hrun]; exact hd)
        have h1 := fsmEvent_end_stamps env hooks e b r hrun hs he hne
        have hk := fsmEvent_keeps (fsmEvent env hooks e b r).1 hooks .GO_ERROR true false (by decide)
        exact ⟨hk.1.2 h1.1, hk.2.2 h1.2⟩
    split <;> exact hgoal



/-! ### the task-level bodies, and runs that never reached RUNNING -/

/-- The body part of `leaveState` IS `applyBody`: the hook passes of leave_<state> do not depend on the
    body's outcome, and if they let the event go on (the body is reached), the environment returned is the
    one the passes left, with the body's writes (`bodyWrites e b`) applied. -/
theorem leaveState_body (env : Env) (hooks : List Hook) (e : Ev) (b : Bool) :
    (leaveState env hooks e b).1 =
      (if (leaveState env hooks e true).2.2 = none then applyBody (leaveState env hooks e true).1 e b
       else (leaveState env hooks e true).1) ∧
    ((leaveState env hooks e b).2.2 = some .cancelledBody ↔ ((leaveState env hooks e true).2.2 = none ∧ b = false)) := by
  unfold leaveState
  simp only
  (repeat' split) <;> cases b <;> cases e <;> simp_all [applyBody, bodyWrites, BodyWrite.apply]

/-- both end-of-run stamps are there (set, or present and empty), as they are from the first START_ACTIVITY on -/
def EndPresent (v : Vars) : Prop := v.soeor ≠ .absent ∧ v.eoeor ≠ .absent

theorem EndKeeps.present {a b : Vars} (h : EndKeeps a b) (hp : EndPresent a) : EndPresent b := ⟨h.1.1 hp.1, h.2.1 hp.2⟩

theorem bkBefore_present (env : Env) (e : Ev) (r : Bool) (hp : EndPresent env.vars) : EndPresent (bkBefore env e r).1.vars := by
  by_cases he : e = .START_ACTIVITY
  · subst he
    unfold bkBefore
    simp only
    split
    · exact hp
    · simp [tick, EndPresent]
  · exact (bkBefore_keeps env e r he).present hp

theorem beforeEvent_present (env : Env) (hooks : List Hook) (e : Ev) (r : Bool) (hp : EndPresent env.vars) :
    EndPresent (beforeEvent env hooks e r).1.vars := by
  have h1 : EndPresent (handleHooks env hooks (.before e) negW).1.vars := by rw [handleHooks_vars]; exact hp
  have h2 := bkBefore_present (handleHooks env hooks (.before e) negW).1 e r h1
  have h3 : EndPresent (handleHooks (bkBefore (handleHooks env hooks (.before e) negW).1 e r).1 hooks (.before e) posW).1.vars := by
    rw [handleHooks_vars]; exact h2
  unfold beforeEvent
  simp only
  (repeat' split) <;> first | exact h1 | exact h2 | exact h3

/-- No transition — START_ACTIVITY included, however it ends — ever REMOVES an end-of-run stamp. -/
theorem fsmEvent_present (env : Env) (hooks : List Hook) (e : Ev) (b r : Bool) (hp : EndPresent env.vars) :
    EndPresent (fsmEvent env hooks e b r).1.vars := by
  unfold fsmEvent
  split
  · exact hp
  · rename_i d hd
    simp only
    have hb := beforeEvent_present env hooks e r hp
    split
    · exact hb
    · have hl := leaveState_keeps (beforeEvent env hooks e r).1 hooks e b
      split
      · exact hl.present hb
      · have hen := enterState_keeps { (leaveState (beforeEvent env hooks e r).1 hooks e b).1 with st := d } hooks
        exact ((hl.trans hen).trans (afterEvent_keeps _ hooks e _)).present hb

theorem dst_error (e : Ev) (s : St) (h : dst? e s = some .ERROR) : e = .GO_ERROR := by
  cases e <;> cases s <;> simp [dst?] at h <;> rfl

/-- However a TryTransition takes the environment to ERROR from another state, both end-of-run stamps are
    set afterwards — whether the run was RUNNING or its START_ACTIVITY had been cancelled after the number
    was handed out (the stamps are present and empty then). -/
theorem fsmEvent_error_stamps (env : Env) (hooks : List Hook) (e : Ev) (b r : Bool)
    (hne : env.st ≠ .ERROR) (hp : EndPresent env.vars)
    (herr : (fsmEvent env hooks e b r).1.st = .ERROR) :
    (fsmEvent env hooks e b r).1.vars.soeor.isVal = true ∧ (fsmEvent env hooks e b r).1.vars.eoeor.isVal = true := by
  unfold fsmEvent at herr ⊢
  cases hd : dst? e env.st with
  | none => rw [hd] at herr; exact absurd herr hne
  | some d =>
    simp only [hd] at herr ⊢
    have hbst := (beforeEvent_st env hooks e r).1
    cases hbn : (beforeEvent env hooks e r).2.2 with
    | some res => simp only [hbn] at herr; exact absurd (hbst.symm.trans herr) hne
    | none =>
      simp only [hbn] at herr ⊢
      have hlst := (leaveState_st (beforeEvent env hooks e r).1 hooks e b).1
      have hlk := leaveState_keeps (beforeEvent env hooks e r).1 hooks e b
      cases hln : (leaveState (beforeEvent env hooks e r).1 hooks e b).2.2 with
      | some res => simp only [hln] at herr; exact absurd ((hlst.trans hbst).symm.trans herr) hne
      | none =>
        simp only [hln] at herr ⊢
        have hd' : d = .ERROR := by
          rw [(afterEvent_st _ hooks e _).1, (enterState_st _ hooks).1] at herr
          exact herr
        subst hd'
        have hev : e = .GO_ERROR := dst_error e env.st hd
        have hne' : e ≠ .START_ACTIVITY := by rw [hev]; decide
        have hbk := beforeEvent_keeps env hooks e r hne'
        have hso := beforeEvent_sets_soeor env hooks e r (Or.inr hev) hbn hp.1
        have hen := enterState_keeps { (leaveState (beforeEvent env hooks e r).1 hooks e b).1 with st := .ERROR } hooks
        have hchain := hlk.trans hen
        have hsoe : (enterState { (leaveState (beforeEvent env hooks e r).1 hooks e b).1 with st := .ERROR } hooks).1.vars.soeor.isVal = true :=
          hchain.1.2 hso
        have heo : (enterState { (leaveState (beforeEvent env hooks e r).1 hooks e b).1 with st := .ERROR } hooks).1.vars.eoeor ≠ .absent :=
          hchain.2.1 (hbk.2.1 hp.2)
        exact ⟨(afterEvent_keeps _ hooks e _).1.2 hsoe, afterEvent_sets_eoeor _ hooks e _ (Or.inr hev) heo⟩

/-- Through the API glue too, unless the glue forced the state. -/
theorem controlApi_error_stamps (env : Env) (hooks : List Hook) (e : Ev) (b r : Bool)
    (hne : env.st ≠ .ERROR) (hp : EndPresent env.vars)
    (hnf : forcedByGlue env hooks e b r = false)
    (herr : (controlApi env hooks e b r).1.st = .ERROR) :
    (controlApi env hooks e b r).1.vars.soeor.isVal = true ∧ (controlApi env hooks e b r).1.vars.eoeor.isVal = true := by
  unfold forcedByGlue at hnf
  unfold controlApi at herr ⊢
  simp only at herr ⊢
  split at herr
  · rename_i hok
    rw [if_pos hok]
    exact fsmEvent_error_stamps env hooks e b r hne hp herr
  · rename_i hok
    rw [if_neg hok]
    have hmv : (tryTransition (tryTransition env hooks e b r).1 hooks .GO_ERROR true false).2.2.moved = true := by
      simp only [Bool.and_eq_false_iff, Bool.not_eq_false', Bool.not_eq_eq_eq_not, Bool.not_true] at hnf
      rcases hnf with h | h
      · exact absurd h hok
      · simpa using h
    have hgoal : (fsmEvent (fsmEvent env hooks e b r).1 hooks .GO_ERROR true false).1.vars.soeor.isVal = true ∧
        (fsmEvent (fsmEvent env hooks e b r).1 hooks .GO_ERROR true false).1.vars.eoeor.isVal = true := by
      have hp' := fsmEvent_present env hooks e b r hp
      obtain ⟨_, hk' | ⟨d', hd', hst', _⟩⟩ := fsmEvent_st (fsmEvent env hooks e b r).1 hooks .GO_ERROR true false
      · have := keeps_not_moved _ hk'.2
        unfold tryTransition at hmv; rw [this] at hmv; cases hmv
      · have hne' : (fsmEvent env hooks e b r).1.st ≠ .ERROR := by
          intro h; rw [h] at hd'; simp [dst?] at hd'
        exact fsmEvent_error_stamps _ hooks .GO_ERROR true false hne' hp' (by rw [hst', goError_dst _ _ hd'])
    split <;> exact hgoal


theorem beforeEvent_not_body (env : Env) (hooks : List Hook) (e : Ev) (r : Bool) :
    (beforeEvent env hooks e r).2.2 ≠ some .cancelledBody := by
  unfold beforeEvent
  simp only
  (repeat' split) <;> simp

theorem dst_start (s d : St) (h : dst? .START_ACTIVITY s = some d) : s = .CONFIGURED := by
  cases s <;> simp [dst?] at h <;> rfl

/-- A before_START_ACTIVITY that lets the event go on has opened a run: number, start stamp, the three
    later stamps present and empty — whatever the hooks. -/
theorem beforeEvent_START_none (env : Env) (hooks : List Hook) (r : Bool)
    (hn : (beforeEvent env hooks .START_ACTIVITY r).2.2 = none) :
    (beforeEvent env hooks .START_ACTIVITY r).1.vars.rnVar = some (env.counter + 1) ∧
    (beforeEvent env hooks .START_ACTIVITY r).1.vars.sosor = .val (env.clock + 1) ∧
    (beforeEvent env hooks .START_ACTIVITY r).1.vars.eosor = .empty ∧
    (beforeEvent env hooks .START_ACTIVITY r).1.vars.soeor = .empty ∧
    (beforeEvent env hooks .START_ACTIVITY r).1.vars.eoeor = .empty := by
  have hcore := handleHooks_core env hooks (.before .START_ACTIVITY) negW
  have hcounter : (handleHooks env hooks (.before .START_ACTIVITY) negW).1.counter = env.counter := congrArg Core.counter hcore
  have hclock : (handleHooks env hooks (.before .START_ACTIVITY) negW).1.clock = env.clock := congrArg Core.clock hcore
  have hbk := bkBefore_START (handleHooks env hooks (.before .START_ACTIVITY) negW).1 hooks
  rw [hcounter, hclock] at hbk
  cases r with
  | true =>
    exfalso
    have hb : (bkBefore (handleHooks env hooks (.before .START_ACTIVITY) negW).1 .START_ACTIVITY true).2.2 = true := by
      simp [bkBefore]
    unfold beforeEvent at hn
    simp only [hb, if_true] at hn
    revert hn
    (repeat' split) <;> simp
  | false =>
    unfold beforeEvent at hn ⊢
    simp only at hn ⊢
    revert hn
    (repeat' split) <;> intro hn <;>
      first
      | (cases hn; done)
      | (simp only [handleHooks_vars]; exact ⟨hbk.2.2.2.1, hbk.2.2.2.2.1, hbk.2.2.2.2.2.1, hbk.2.2.2.2.2.2.1, hbk.2.2.2.2.2.2.2⟩)

theorem leaveState_vars_of_not_running (env : Env) (hooks : List Hook) (e : Ev) (b : Bool) (h : env.st ≠ .RUNNING) :
    (leaveState env hooks e b).1.vars = env.vars := by
  unfold leaveState
  simp only [h, if_false]
  (repeat' split) <;> simp [handleHooks_vars]

/-- A START_ACTIVITY cancelled by its body. -/
theorem fsmEvent_failed_start (env : Env) (hooks : List Hook) (b r : Bool)
    (h : (fsmEvent env hooks .START_ACTIVITY b r).2.2 = .cancelledBody) :
    (fsmEvent env hooks .START_ACTIVITY b r).1.st = env.st ∧
    (fsmEvent env hooks .START_ACTIVITY b r).1.rn = 0 ∧
    (fsmEvent env hooks .START_ACTIVITY b r).1.vars.rnVar = some (env.counter + 1) ∧
    (fsmEvent env hooks .START_ACTIVITY b r).1.vars.sosor = .val (env.clock + 1) ∧
    (fsmEvent env hooks .START_ACTIVITY b r).1.vars.eosor = .empty ∧
    (fsmEvent env hooks .START_ACTIVITY b r).1.vars.soeor = .empty ∧
    (fsmEvent env hooks .START_ACTIVITY b r).1.vars.eoeor = .empty := by
  unfold fsmEvent at h ⊢
  cases hd : dst? .START_ACTIVITY env.st with
  | none => rw [hd] at h; cases h
  | some d =>
    have hconf := dst_start env.st d hd
    simp only [hd] at h ⊢
    have hbst := (beforeEvent_st env hooks .START_ACTIVITY r).1
    cases hbn : (beforeEvent env hooks .START_ACTIVITY r).2.2 with
    | some res =>
      simp only [hbn] at h
      subst h
      exact absurd hbn (beforeEvent_not_body env hooks .START_ACTIVITY r)
    | none =>
      simp only [hbn] at h ⊢
      have hvars := beforeEvent_START_none env hooks r hbn
      have hnr : (beforeEvent env hooks .START_ACTIVITY r).1.st ≠ .RUNNING := by rw [hbst, hconf]; decide
      cases hln : (leaveState (beforeEvent env hooks .START_ACTIVITY r).1 hooks .START_ACTIVITY b).2.2 with
      | none =>
        simp only [hln] at h
        revert h; split <;> intro h <;> cases h
      | some res =>
        simp only [hln] at h ⊢
        subst h
        have hb := leaveState_body (beforeEvent env hooks .START_ACTIVITY r).1 hooks .START_ACTIVITY b
        have hreach := hb.2.mp hln
        have hlv := leaveState_vars_of_not_running (beforeEvent env hooks .START_ACTIVITY r).1 hooks .START_ACTIVITY b hnr
        refine ⟨((leaveState_st _ hooks .START_ACTIVITY b).1).trans hbst, ?_, ?_⟩
        · rw [hb.1, if_pos hreach.1, hreach.2]; rfl
        · rw [hlv]; exact hvars

end EnvM
