/-
  Proofs/EnvRun — run number and run timestamps (for C10).
-/
import ControlModel.Proofs.EnvHooks
import ControlModel.Spec.C10

namespace EnvM

/-- the two variables that identify a run to a hook -/
def runKey (env : Env) : Option Nat × TV := (env.vars.rnVar, env.vars.sosor)

theorem handleHooks_runKey (env : Env) (hooks : List Hook) (m : Moment) (p : Int → Bool) :
    runKey (handleHooks env hooks m p).1 = runKey env := by
  unfold runKey; rw [handleHooks_vars]

theorem setSoeor_runKey (env : Env) (tr : String) (p : Bool) : runKey (setSoeorIfEmpty env tr p).1 = runKey env := by
  unfold setSoeorIfEmpty; split <;> rfl

theorem setEoeor_runKey (env : Env) (tr : String) (s : RunStatus) : runKey (setEoeorIfEmpty env tr s).1 = runKey env := by
  unfold setEoeorIfEmpty; split <;> rfl

theorem bkBefore_runKey (env : Env) (e : Ev) (r : Bool) (he : e ≠ .START_ACTIVITY) :
    runKey (bkBefore env e r).1 = runKey env := by
  unfold bkBefore
  cases e <;> simp only [] <;> first | rfl | exact setSoeor_runKey .. | exact absurd rfl he

theorem bkAfter_runKey (env : Env) (e : Ev) (f : Bool) : runKey (bkAfter env e f).1 = runKey env := by
  unfold bkAfter
  cases e <;> simp only [] <;> first | rfl | exact setEoeor_runKey ..

theorem finAfter_runKey (env : Env) (e : Ev) (he : e ≠ .STOP_ACTIVITY) : runKey (finAfter env e).1 = runKey env := by
  unfold finAfter; simp [he]

theorem beforeEvent_runKey (env : Env) (hooks : List Hook) (e : Ev) (r : Bool) (he : e ≠ .START_ACTIVITY) :
    runKey (beforeEvent env hooks e r).1 = runKey env := by
  unfold beforeEvent
  simp only
  (repeat' split) <;> simp [handleHooks_runKey, bkBefore_runKey _ _ _ he]

theorem leaveState_runKey (env : Env) (hooks : List Hook) (e : Ev) (b : Bool) :
    runKey (leaveState env hooks e b).1 = runKey env := by
  unfold leaveState
  simp only
  (repeat' split) <;>
    first
    | (simp [handleHooks_runKey, setSoeor_runKey]; done)
    | (exfalso; simp_all; done)
    | (unfold runKey; simp only [handleHooks_vars]; try (first | rfl | (have := setSoeor_runKey (handleHooks env hooks (Moment.leave env.st) negW).1 e.name false; unfold runKey at this; simp only [handleHooks_vars] at this; simpa using this)))

theorem enterState_runKey (env : Env) (hooks : List Hook) : runKey (enterState env hooks).1 = runKey env := by
  unfold enterState; simp [handleHooks_runKey]

theorem afterEvent_runKey (env : Env) (hooks : List Hook) (e : Ev) (errs : List (Nat × Moment)) (he : e ≠ .STOP_ACTIVITY) :
    runKey (afterEvent env hooks e errs).1 = runKey env := by
  unfold afterEvent
  simp only
  rw [finAfter_runKey _ _ he, handleHooks_runKey, bkAfter_runKey, handleHooks_runKey]

/-- Run number variable and start-of-run stamp are touched by START_ACTIVITY and
    STOP_ACTIVITY only. -/
theorem fsmEvent_runKey (env : Env) (hooks : List Hook) (e : Ev) (b r : Bool)
    (h1 : e ≠ .START_ACTIVITY) (h2 : e ≠ .STOP_ACTIVITY) :
    runKey (fsmEvent env hooks e b r).1 = runKey env := by
  unfold fsmEvent
  split
  · rfl
  · simp only
    split
    · exact beforeEvent_runKey env hooks e r h1
    · split
      · rw [leaveState_runKey, beforeEvent_runKey env hooks e r h1]
      · rw [afterEvent_runKey _ _ _ _ h2, enterState_runKey]
        show runKey (leaveState (beforeEvent env hooks e r).1 hooks e b).1 = runKey env
        rw [leaveState_runKey, beforeEvent_runKey env hooks e r h1]

/-- During STOP_ACTIVITY they stay put through before_, leave_, the body, enter_ and BOTH
    passes of after_STOP_ACTIVITY; only `finAfter`, the very last thing, retires the number. -/
theorem stop_runKey_until_fin (env : Env) (hooks : List Hook) (errs : List (Nat × Moment)) :
    runKey (handleHooks (bkAfter (handleHooks env hooks (.after .STOP_ACTIVITY) negW).1 .STOP_ACTIVITY (!errs.isEmpty)).1
      hooks (.after .STOP_ACTIVITY) posW).1 = runKey env := by
  rw [handleHooks_runKey, bkAfter_runKey, handleHooks_runKey]

/-- Every hook execution is handed the variables of the moment it is started. -/
theorem instantiate_snap (env : Env) (hs : List Hook) : ∀ i ∈ (instantiate env hs).2, i.snap = env.vars ∧ i.st = env.st := by
  induction hs generalizing env with
  | nil => intro i hi; cases hi
  | cons h hs ih =>
    intro i hi
    simp only [instantiate, List.mem_cons] at hi
    rcases hi with rfl | hi
    · exact ⟨rfl, rfl⟩
    · exact ih (bumpExec env h.id) i hi

end EnvM

namespace EnvM

/-- instances a step starts (calls) or runs (task hooks) -/
def Step.begun : Step → List Inst
  | .start _ _ is | .tasks _ _ is => is
  | .callSync _ _ i => [i]
  | _ => []

theorem handleWeight_begun_snap (env : Env) (hooks : List Hook) (m : Moment) (w : Int) :
    ∀ s ∈ (handleWeight env hooks m w).2.1, ∀ i ∈ s.begun, i.snap = env.vars := by
  unfold handleWeight
  simp only
  intro s hs i hi
  simp only [List.mem_append] at hs
  rcases hs with (hs | hs) | hs
  · split at hs
    · cases hs
    · simp only [List.mem_singleton] at hs; subst hs
      unfold phase1 at hi; simp only [Step.begun] at hi
      exact (instantiate_snap env _ i hi).1
  · split at hs
    · cases hs
    · simp only [List.mem_singleton] at hs; subst hs; simp [Step.begun] at hi
  · split at hs
    · cases hs
    · simp only [List.mem_singleton] at hs; subst hs
      simp only [Step.begun] at hi
      have := (instantiate_snap _ _ i hi).1
      rw [this]
      have h2 := congrArg Core.vars (phase2_core (phase1 env hooks m w).1 m w)
      have h1 := congrArg Core.vars (phase1_core env hooks m w)
      simp only [Env.core] at h1 h2
      rw [h2, h1]

theorem handleWeights_begun_snap (env : Env) (hooks : List Hook) (m : Moment) (ws : List Int) :
    ∀ s ∈ (handleWeights env hooks m ws).2.1, ∀ i ∈ s.begun, i.snap = env.vars := by
  induction ws generalizing env with
  | nil => intro s hs; cases hs
  | cons w ws ih =>
    simp only [handleWeights]
    split
    · exact handleWeight_begun_snap env hooks m w
    · intro s hs i hi
      simp only [List.mem_append] at hs
      rcases hs with hs | hs
      · exact handleWeight_begun_snap env hooks m w s hs i hi
      · rw [ih _ s hs i hi]
        exact congrArg Core.vars (handleWeight_core env hooks m w)

/-- Every hook begun during one handleHooks pass is handed exactly the variables the
    environment had when the pass began (hook handling itself changes none). -/
theorem handleHooks_begun_snap (env : Env) (hooks : List Hook) (m : Moment) (p : Int → Bool) :
    ∀ s ∈ (handleHooks env hooks m p).2.1, ∀ i ∈ s.begun, i.snap = env.vars :=
  handleWeights_begun_snap env hooks m _

/-- rn (currentRunNumber) is touched only by START_ACTIVITY and at the very end of STOP_ACTIVITY. -/
theorem bkBefore_START (env : Env) (hooks : List Hook) :
    (bkBefore env .START_ACTIVITY false).2.2 = false ∧
    (bkBefore env .START_ACTIVITY false).1.rn = env.counter + 1 ∧
    (bkBefore env .START_ACTIVITY false).1.counter = env.counter + 1 ∧
    (bkBefore env .START_ACTIVITY false).1.vars.rnVar = some (env.counter + 1) ∧
    (bkBefore env .START_ACTIVITY false).1.vars.sosor = .val (env.clock + 1) ∧
    (bkBefore env .START_ACTIVITY false).1.vars.eosor = .empty ∧
    (bkBefore env .START_ACTIVITY false).1.vars.soeor = .empty ∧
    (bkBefore env .START_ACTIVITY false).1.vars.eoeor = .empty := by
  let _ := hooks
  simp [bkBefore, tick]

theorem finAfter_STOP (env : Env) :
    (finAfter env .STOP_ACTIVITY).1.rn = 0 ∧ (finAfter env .STOP_ACTIVITY).1.vars.rnVar = none ∧
    (finAfter env .STOP_ACTIVITY).1.vars.lastRn = some env.rn := by
  simp [finAfter]

end EnvM
